package main

import (
	"fmt"
	"go/ast"
	"go/token"
	"go/types"
	"os"
	"strconv"
	"strings"

	"golang.org/x/tools/go/packages"
)

func init() { register("C07", checkC07) }

// seedEnv gives receiver and parameters position-based canonical names so
// that atoms do not depend on what the source calls them.
func seedEnv(d *dtEnum, fd *ast.FuncDecl) *dtPath {
	p := &dtPath{env: map[types.Object]string{}}
	if fd.Recv != nil {
		for _, f := range fd.Recv.List {
			for _, n := range f.Names {
				p.env[d.info.Defs[n]] = "RECV"
			}
		}
	}
	i := 0
	for _, f := range fd.Type.Params.List {
		for _, n := range f.Names {
			p.env[d.info.Defs[n]] = fmt.Sprintf("ARG%d", i)
			i++
		}
		if len(f.Names) == 0 {
			i++
		}
	}
	return p
}

// enumerateFuncP is enumerateFunc with calls of the package's single-return functions printed as the
// expression they return (getters, forwarding methods, small predicates), so that a rule sees the same
// canonical form whether the code calls the helper or spells the expression out.
func enumerateFuncP(p *packages.Package, fd *ast.FuncDecl) ([]*dtPath, *dtEnum) {
	d := newDTP(p, fd)
	d.paths = nil
	start := seedEnv(d, fd)
	d.stmts(start, fd.Body.List, func(p *dtPath) { d.finish(p, "end") })
	return d.paths, d
}

// enumerateFuncFollow is enumerateFuncP with every other function of the package followed, in statement
// position and nested inside expressions alike, and the module's named string constants printed as their
// value: the table of a function is then the same whether it computes a piece itself or asks a sibling.
func enumerateFuncFollow(p *packages.Package, fd *ast.FuncDecl) ([]*dtPath, *dtEnum) {
	d := newDTP(p, fd)
	d.callInline = map[*types.Func]*ast.FuncDecl{}
	for fn, g := range pkgFuncs(p) {
		if g != fd {
			d.callInline[fn] = g
		}
	}
	d.hoistCalls = true
	d.constStrings = true
	d.paths = nil
	start := seedEnv(d, fd)
	d.stmts(start, fd.Body.List, func(p *dtPath) { d.finish(p, "end") })
	return d.paths, d
}

// newDTP: decision-table engine with expression inlining for the package (the function under
// analysis itself is not inlined into its own body).
func newDTP(p *packages.Package, self *ast.FuncDecl) *dtEnum {
	d := newDT(p.TypesInfo)
	d.exprInline = map[*types.Func]*ast.FuncDecl{}
	for fn, fd := range pkgSingleReturn(p) {
		if fd != self {
			d.exprInline[fn] = fd
		}
	}
	return d
}

func enumerateFunc(info *types.Info, fd *ast.FuncDecl) ([]*dtPath, *dtEnum) {
	d := newDT(info)
	d.paths = nil
	start := seedEnv(d, fd)
	d.stmts(start, fd.Body.List, func(p *dtPath) { d.finish(p, "end") })
	return d.paths, d
}

func checkC07(c *Ctx) {
	c.Explanation = `R07.1 PackageConfig.ShouldGenerateInterface is loop-free; all of its paths are enumerated with branch conditions canonicalised over resolved objects (all, listed = comma-ok lookup of the name in Interfaces, include/exclude regex empty, regexp.MatchString(<regex field>, <name>) result and error). Every path must return, with a nil error, exactly all || listed || (include != "" && includeMatch && !(exclude != "" && excludeMatch)) for every completion of the predicates it did not test, and a non-nil error whenever a MatchString error was observed; an unrecognised predicate (e.g. swapped MatchString arguments, a different field) is a violation (exhaustive);
R07.2 in Parser.ParsePackages the append of a candidate is reached only when the scope object is non-nil, its type is *types.Named and types.IsInterface holds; NodeVisitor collects type specs whose type expression is an interface literal, an index or an index-list expression and does not descend into function bodies;
R07.3 in RootApp.Run the per-config loop is reached only for shouldGenerate == true with a nil error, and each iteration either calls InterfaceCollection.Append exactly once or returns an error; InterfaceConfig.Initialize yields Configs = [Config] iff none were given; GetInterfaceConfig for an unlisted interface yields exactly one config;
R07.4 every interface processed in Run first passes RootConfig.GetPackageConfig(<its package path>), whose miss is an error;
R07.5 subPackages loads '<pkg>/...' and drops packages without Go files; during recursive expansion a discovered sub-package is skipped iff the exclusion test of the recursive package's own config matches, an already configured sub-package is kept, the parent's config is merged into every non-excluded sub-package, and the recursive packages are expanded in a fixed deepest-first order (comparator: longer path first, total tie-break);
R07.6 the selection options (all, include/exclude regexes, exclude-subpkg-regex, recursive) take their effective value most-specific-first (C08 rules R08.1/R08.2 on mergeConfigs).`
	c.NotDecided = "what packages.Load returns for a pattern; regular-expression semantics; the value-level outcome for concrete configurations."
	c.Assumptions = []string{"go/types object resolution", "regexp.MatchString(pattern, s) argument order as documented"}
	c.Rule("R07.1", 8, "")
	c.Rule("R07.2", 7, "")
	c.Rule("R07.3", 5, "")
	c.Rule("R07.4", 2, "")
	c.Rule("R07.5", 7, "")
	configResolutionGuard(c, "R07.6")
	r := loadRepo(c, packages.LoadSyntax, "", "./config", "./internal", "./internal/cmd")
	ruleR071(c, r)
	ruleR072(c, r)
	ruleR073(c, r)
	ruleNoSharedInterfacesMap(c, r, "R07.3")
	ruleR075(c, r, "R07.5")
	ruleExcludeSubpkg(c, r, "R07.5")
}

func ruleR071(c *Ctx, r *Repo) {
	cp := r.Pkg("config")
	fd := FuncDecl(cp, "PackageConfig.ShouldGenerateInterface")
	if fd == nil {
		c.Fail("R07.1", "ShouldGenerateInterface|missing", "config/config.go", "PackageConfig.ShouldGenerateInterface not found")
		return
	}
	c.Func(funcKey(cp, fd))
	// private helpers (a shared regex test, say) are followed, and a boolean result that is not a constant
	// is a decision of its own, so the table is the same however the predicate is spelled
	d := newDT(cp.TypesInfo)
	d.callInline = pkgUnexported(cp)
	d.hoistCalls = true
	d.boolReturns = true
	d.paths = nil
	d.stmts(seedEnv(d, fd), fd.Body.List, func(p *dtPath) { d.finish(p, "end") })
	paths := d.paths
	if d.overflow {
		c.Fail("R07.1", "ShouldGenerateInterface|path-explosion", r.Pos(fd.Pos()), "too many paths to enumerate")
		return
	}
	const (
		inc = "*RECV.Config.IncludeInterfaceRegex"
		exc = "*RECV.Config.ExcludeInterfaceRegex"
	)
	atomName := map[string]string{
		"*RECV.Config.All":                               "all",
		"RECV.Interfaces[ARG1]#ok":                       "listed",
		inc + ` == ""`:                                   "incEmpty",
		exc + ` == ""`:                                   "excEmpty",
		"regexp.MatchString(" + inc + ", ARG1)#0":        "incMatch",
		"regexp.MatchString(" + inc + ", ARG1)#1 == nil": "incNoErr",
		"regexp.MatchString(" + exc + ", ARG1)#0":        "excMatch",
		"regexp.MatchString(" + exc + ", ARG1)#1 == nil": "excNoErr",
	}
	preds := []string{"all", "listed", "incEmpty", "incMatch", "excEmpty", "excMatch"}
	ref := func(v map[string]bool) bool {
		return v["all"] || v["listed"] || (!v["incEmpty"] && v["incMatch"] && !(!v["excEmpty"] && v["excMatch"]))
	}
	seenLoop := false
	for _, p := range paths {
		for _, s := range p.Steps {
			if s == "loop" {
				seenLoop = true
			}
		}
	}
	if seenLoop {
		c.Fail("R07.1", "ShouldGenerateInterface|not-loop-free", r.Pos(fd.Pos()), "the selection predicate contains a loop; its decision table cannot be enumerated (undecided)")
		return
	}
	c.Extra["decision_table_paths"] = len(paths)
	c.Extra["exhaustive"] = true
	covered := map[string]bool{} // assignments of the 6 predicates covered by an error-free path
	for _, p := range paths {
		desc := p.String()
		val := map[string]bool{}
		fixed := map[string]bool{}
		errSeen := false
		unknown := ""
		for _, a := range p.Atoms {
			n, ok := atomName[a.Expr]
			if !ok {
				unknown = a.Expr
				break
			}
			switch n {
			case "incNoErr", "excNoErr":
				if !a.Val {
					errSeen = true
				}
			default:
				val[n] = a.Val
				fixed[n] = true
			}
		}
		key := "ShouldGenerateInterface|path|" + desc
		pos := r.Pos(p.RetPos)
		switch {
		case unknown != "":
			c.Fail("R07.1", "ShouldGenerateInterface|unknown-predicate|"+unknown, pos, fmt.Sprintf("the selection predicate branches on %q, which is none of: all, listed (Interfaces[name]), include/exclude regex empty, regexp.MatchString(<include|exclude regex>, <interface name>) result/error", unknown))
			continue
		case p.Exit != "return" || len(p.Ret) != 2:
			c.Fail("R07.1", key, pos, "a path of the selection predicate does not end in 'return <bool>, <error>': "+desc)
			continue
		case errSeen:
			if p.Ret[1] == "nil" {
				c.Fail("R07.1", "ShouldGenerateInterface|error-dropped", pos, "a MatchString error is observed but the path returns a nil error (an invalid regular expression would be silently ignored): "+desc)
			} else {
				c.OK("R07.1", key, pos, "regex error propagated")
			}
			continue
		case p.Ret[1] != "nil":
			c.Fail("R07.1", "ShouldGenerateInterface|spurious-error", pos, "path returns an error although no failure was observed: "+desc)
			continue
		case p.Ret[0] != "true" && p.Ret[0] != "false":
			c.Fail("R07.1", "ShouldGenerateInterface|non-constant-result", pos, "path returns "+p.Ret[0]+" instead of a constant decision: "+desc)
			continue
		}
		got := p.Ret[0] == "true"
		// every completion of the untested predicates must agree with the reference
		bad := ""
		var free []string
		for _, n := range preds {
			if !fixed[n] {
				free = append(free, n)
			}
		}
		for m := 0; m < 1<<len(free); m++ {
			v := map[string]bool{}
			for k, b := range val {
				v[k] = b
			}
			for i, n := range free {
				v[n] = m&(1<<i) != 0
			}
			// only feasible completions: a match predicate is meaningful only when its regex is non-empty
			if ref(v) != got {
				bad = fmt.Sprintf("%v", v)
				break
			}
			ck := ""
			for _, n := range preds {
				ck += fmt.Sprintf("%v,", v[n])
			}
			covered[ck] = true
		}
		if bad != "" {
			c.Fail("R07.1", "ShouldGenerateInterface|wrong-decision", pos, fmt.Sprintf("path %s returns %v but the documented rule gives %v for %s", desc, got, !got, bad))
		} else {
			c.OK("R07.1", key, pos, fmt.Sprintf("returns %v as documented for every completion", got))
		}
	}
	if len(covered) != 1<<len(preds) {
		c.Fail("R07.1", "ShouldGenerateInterface|coverage", r.Pos(fd.Pos()), fmt.Sprintf("only %d of %d predicate assignments are decided by an error-free path", len(covered), 1<<len(preds)))
	} else {
		c.OK("R07.1", "ShouldGenerateInterface|coverage", r.Pos(fd.Pos()), "all 64 assignments of {all, listed, incEmpty, incMatch, excEmpty, excMatch} decided")
	}
}

// innerBody returns the body of the (unique) range statement in fd whose
// range expression's source text contains marker.
func rangeOver(fd *ast.FuncDecl, marker string) *ast.RangeStmt {
	var out *ast.RangeStmt
	ast.Inspect(fd.Body, func(n ast.Node) bool {
		if rs, ok := n.(*ast.RangeStmt); ok && strings.Contains(types.ExprString(rs.X), marker) && out == nil {
			out = rs
		}
		return true
	})
	return out
}

// rangeOverC matches on the rename-insensitive form of the ranged expression
// (or on its type): locals are printed by definition, parameters by position.
func rangeOverC(p *packages.Package, fd *ast.FuncDecl, marker string) *ast.RangeStmt {
	fc := newFuncCanonG(p, fd)
	return findRange(p.TypesInfo, fc, fd, func(rs *ast.RangeStmt, cx string, t types.Type) bool {
		if marker == ".GetPackages<(config.RootConfig).GetPackages>(" && strings.Contains(cx, "ParsePackages") {
			return false
		}
		return strings.Contains(cx, marker) || t != nil && strings.Contains(shortType(t), marker)
	})
}

func hasStep(p *dtPath, sub string) int {
	n := 0
	for _, s := range p.Steps {
		if strings.Contains(s, sub) {
			n++
		}
	}
	return n
}

func atomVal(p *dtPath, contains string) (bool, bool) {
	for _, a := range p.Atoms {
		if strings.Contains(a.Expr, contains) {
			return a.Val, true
		}
	}
	return false, false
}

func ruleR072(c *Ctx, r *Repo) {
	ip := r.Pkg("internal")
	info := ip.TypesInfo
	pp := FuncDecl(ip, "Parser.ParsePackages")
	if pp == nil {
		c.Fail("R07.2", "ParsePackages|missing", "internal/parse.go", "Parser.ParsePackages not found")
		return
	}
	c.Func(funcKey(ip, pp))
	rs := rangeOverC(ip, pp, ".declaredInterfaces")
	if rs == nil {
		c.Fail("R07.2", "ParsePackages|candidate-loop", r.Pos(pp.Pos()), "no loop over the visitor's declared interfaces")
		return
	}
	d := newDT(info)
	d.callInline = pkgUnexported(ip) // the lookup and its tests may sit in a private helper
	d.hoistCalls = true
	start := d.envBefore(seedEnv(d, pp), pp.Body.List, rs)
	if v, ok := rs.Value.(*ast.Ident); ok {
		start.env[info.Defs[v]] = "NAME"
	}
	d.paths = nil
	d.stmts(start, rs.Body.List, func(p *dtPath) { d.finish(p, "end") })
	nApp := 0
	for _, p := range d.paths {
		if hasStep(p, "builtin.append(") == 0 {
			continue
		}
		nApp++
		// the object looked up for this candidate in the package's scope
		obj := ""
		for _, a := range p.Atoms {
			if e := stripRes(a.Expr); strings.HasSuffix(e, ".Types.Scope().Lookup(NAME) == nil") {
				obj = strings.TrimSuffix(e, " == nil")
			}
		}
		need := []struct {
			atom string
			want bool
			what string
		}{
			{obj + " == nil", false, "the scope object is non-nil"},
			{obj + ".Type().(*types.Named)#ok", true, "the object's type is a *types.Named"},
			{"go/types.IsInterface(" + obj + ".Type())", true, "types.IsInterface holds"},
		}
		for _, n := range need {
			v, ok := false, false
			for _, a := range p.Atoms {
				e := stripRes(a.Expr)
				// IsInterface asked of the named type is IsInterface of the object's type
				if e == n.atom || n.what == "types.IsInterface holds" && e == "go/types.IsInterface("+obj+".Type().(*types.Named))" {
					v, ok = a.Val, true
				}
			}
			key := "ParsePackages|append-guard|" + n.what
			if obj != "" && ok && v == n.want {
				c.OK("R07.2", key, r.Pos(rs.Pos()), "candidate appended only when "+n.what)
			} else {
				c.Fail("R07.2", key, r.Pos(rs.Pos()), "a candidate is appended on a path that has not established, for the object found under the candidate's own name in the package scope, that "+n.what+": "+p.String())
			}
		}
		// nothing else decides: a candidate that passed the three tests is appended (the one further admitted
		// test is "the named type has a package", false only for universe types)
		for _, a := range p.Atoms {
			e := stripRes(a.Expr)
			known := false
			for _, n := range need {
				if e == n.atom || e == "go/types.IsInterface("+obj+".Type().(*types.Named))" {
					known = true
				}
			}
			if strings.HasSuffix(e, ".Pkg() == nil") && strings.Contains(e, ".Obj()") {
				known = true
				c.Check(!a.Val, "R07.2", "ParsePackages|append-guard|has-package", r.Pos(rs.Pos()), "types of a package are appended", "candidates are appended only when their type has no package (universe types): no interface of the package is ever mocked: "+p.String())
			}
			if strings.Contains(e, "len(") && strings.Contains(e, "GoFiles") || strings.Contains(e, ".Errors") {
				known = true // package-level tests of the enclosing loops seen through envBefore
			}
			if !known {
				c.Fail("R07.2", "ParsePackages|append-guard|unknown-condition", r.Pos(rs.Pos()), "whether a candidate that passed the interface tests is appended also depends on "+a.Expr+": "+p.String())
			}
		}
		// the interface is recorded under the candidate's own name
		okName := false
		for _, call := range p.CallsTo("config.NewInterface") {
			if len(call.Args) >= 1 {
				switch stripRes(call.Args[0]) {
				case "NAME", obj + ".Name()", obj + ".Type().(*types.Named).Obj().Name()":
					okName = obj != ""
				}
			}
		}
		c.Check(okName, "R07.2", "ParsePackages|recorded-name", r.Pos(rs.Pos()), "the interface is recorded under the name of the declaration that was found", "the interface appended for a candidate is not recorded under that candidate's own name (the name of the type found in the scope): another type's mock is generated in its place or twice")
	}
	if nApp == 0 {
		c.Fail("R07.2", "ParsePackages|no-append", r.Pos(rs.Pos()), "no path appends a candidate interface")
	}
	// a declined candidate, file or package hands over to the next one: the scan is never cut short by it
	// (mechanical-mutation finding: continue -> break in any of the three loops went unnoticed)
	for _, p := range d.paths {
		if hasStep(p, "builtin.append(") > 0 {
			continue
		}
		okExit := p.Exit == "continue" || p.Exit == "end" || p.Exit == "panic" || p.Exit == "return" && len(p.Ret) > 0 && p.Ret[len(p.Ret)-1] != "nil"
		c.Check(okExit, "R07.2", "ParsePackages|declined-continues", r.Pos(rs.Pos()), "a declined candidate hands over to the next", "a candidate that is not appended ends the scan of its file ("+p.Exit+"): the interfaces declared after it are never found: "+p.String())
	}
	// every file of a loaded package is walked: in the loops that enclose the candidate loop, a round that does
	// not fail reaches the walk of its element (round 6: files carrying a "DO NOT EDIT" line were skipped, so the
	// interfaces of generated sources -- protobuf/gRPC clients -- could no longer be mocked). The one admitted
	// skip is a package without Go files.
	{
		var encl []*ast.RangeStmt
		var stack []ast.Node
		ast.Inspect(pp.Body, func(n ast.Node) bool {
			if n == nil {
				stack = stack[:len(stack)-1]
				return true
			}
			stack = append(stack, n)
			if n == ast.Node(rs) {
				for _, a := range stack[:len(stack)-1] {
					if x, ok := a.(*ast.RangeStmt); ok {
						encl = append(encl, x)
					}
				}
			}
			return true
		})
		for _, outer := range encl {
			de := newDT(info)
			de.callInline = pkgUnexported(ip)
			st := de.envBefore(seedEnv(de, pp), pp.Body.List, outer)
			if v, ok := outer.Value.(*ast.Ident); ok && info.Defs[v] != nil {
				st.env[info.Defs[v]] = "ELEM"
			}
			de.paths = nil
			de.stmts(st, outer.Body.List, func(p *dtPath) { de.finish(p, "end") })
			for _, p := range de.paths {
				if p.Exit == "return" && len(p.Ret) > 0 && p.Ret[len(p.Ret)-1] != "nil" || p.Exit == "panic" {
					continue
				}
				reaches := hasStep(p, "loop") > 0
				if reaches && p.Exit == "end" {
					continue
				}
				// the package without Go files
				emptyPkg := false
				for _, a := range p.Atoms {
					if v, ok := lenAtom(a.Expr, "builtin.len(ELEM.GoFiles)", 0); ok && v == a.Val {
						emptyPkg = true
					}
				}
				c.Check(emptyPkg && p.Exit == "continue", "R07.2", "ParsePackages|element-skipped", r.Pos(outer.Pos()), "only a package without Go files is passed over", "a package or file is passed over without being scanned for interfaces ("+p.Exit+"): the interfaces it declares can never be mocked: "+p.String())
			}
		}
		c.Check(len(encl) >= 1, "R07.2", "ParsePackages|enclosing-loops", r.Pos(rs.Pos()), "package/file loops examined", "the candidate loop is not nested in a loop over packages or files (shape not recognised)")
	}
	for _, g := range withCallees(ip, pp) {
		if g != pp && !pkgUnexportedHas(ip, g) {
			continue
		}
		var stack []ast.Node
		ast.Inspect(g.Body, func(n ast.Node) bool {
			if n == nil {
				stack = stack[:len(stack)-1]
				return true
			}
			stack = append(stack, n)
			br, ok := n.(*ast.BranchStmt)
			if !ok || br.Tok != token.BREAK {
				return true
			}
			for i := len(stack) - 2; i >= 0; i-- {
				switch stack[i].(type) {
				case *ast.SwitchStmt, *ast.TypeSwitchStmt, *ast.SelectStmt:
					if br.Label == nil {
						return true
					}
				case *ast.RangeStmt, *ast.ForStmt:
					c.Fail("R07.2", "ParsePackages|scan-cut-short", r.Pos(br.Pos()), "a `break` leaves one of the loops over packages, files or candidates in "+g.Name.Name+": everything after the element at hand is never scanned")
					return true
				case *ast.FuncLit:
					return true
				}
			}
			return true
		})
	}
	// NodeVisitor: collected type-expression kinds
	visit := FuncDecl(ip, "NodeVisitor.Visit")
	if visit == nil {
		c.Fail("R07.2", "Visit|missing", "internal/node_visitor.go", "NodeVisitor.Visit not found")
		return
	}
	c.Func(funcKey(ip, visit))
	// functions of the package that append to the visitor's list (Visit may delegate to one)
	adders := map[string]bool{}
	for fn, fd := range pkgFuncs(ip) {
		ast.Inspect(fd.Body, func(n ast.Node) bool {
			if as, ok := n.(*ast.AssignStmt); ok && len(as.Lhs) == 1 && len(as.Rhs) == 1 {
				if se, ok := as.Lhs[0].(*ast.SelectorExpr); ok && se.Sel.Name == "declaredInterfaces" {
					if call, ok := as.Rhs[0].(*ast.CallExpr); ok && calleeName(info, call) == "builtin.append" {
						adders[strings.ReplaceAll(strings.ReplaceAll(fn.FullName(), "*", ""), modPath+"/", "")] = true
					}
				}
			}
			return true
		})
	}
	collects := func(p *dtPath) bool {
		if hasStep(p, "store RECV.declaredInterfaces = builtin.append(RECV.declaredInterfaces, ") > 0 {
			return true
		}
		for _, call := range p.Calls {
			if adders[call.Name] && call.Name != "(internal.NodeVisitor).Visit" {
				return true
			}
		}
		return false
	}
	paths := enumerateFollowUnexported(ip, visit) // predicates such as isCandidate(n.Type) are followed
	const spec = "ARG0.(*ast.TypeSpec)"
	for _, t := range []string{"*ast.InterfaceType", "*ast.IndexExpr", "*ast.IndexListExpr"} {
		n, all := 0, true
		for _, p := range paths {
			if !visitConsistent(p, "ARG0", "*ast.TypeSpec") || !visitConsistent(p, spec+".Type", t) {
				continue
			}
			n++
			if !collects(p) || p.Exit != "return" && p.Exit != "end" {
				all = false
			}
		}
		gt := strings.Replace(t, "*ast.", "*go/ast.", 1)
		c.Check(n > 0 && all, "R07.2", "Visit|collects|"+gt, r.Pos(visit.Pos()), "type specs with a "+gt+" are candidates", "type specs whose type expression is a "+gt+" are no longer collected: such interfaces can never be mocked")
	}
	// nodes other than function declarations/literals are descended into (the visitor is returned)
	okDesc := true
	for _, p := range paths {
		for _, k := range []string{"*ast.File", "*ast.GenDecl", "*ast.TypeSpec"} {
			if visitConsistent(p, "ARG0", k) && !(p.Exit == "return" && len(p.Ret) == 1 && p.Ret[0] == "RECV") {
				okDesc = false
			}
		}
	}
	c.Check(okDesc, "R07.2", "Visit|descends-into-declarations", r.Pos(visit.Pos()), "the visitor is returned for files, declarations and type specs", "NodeVisitor.Visit does not return the visitor for file/declaration/type-spec nodes: the type specs below them are never visited, so their interfaces are never discovered")
	goR024(c, r, ip, "R07.2") // no descent into function bodies, nil-checked lookup (reported under R02.4's keys)
}

func ruleR073(c *Ctx, r *Repo) {
	cmdp := r.Pkg("internal/cmd")
	info := cmdp.TypesInfo
	run := FuncDecl(cmdp, "RootApp.Run")
	if run == nil {
		c.Fail("R07.3", "Run|missing", "internal/cmd/mockery.go", "RootApp.Run not found")
		return
	}
	c.Func(funcKey(cmdp, run))
	// the loop over the parsed interfaces that holds the loop over the interface's Configs
	// (range or index form; there may be other loops over the parsed interfaces)
	var outer *ast.RangeStmt
	var inner ast.Stmt
	var innerBody *ast.BlockStmt
	if m := newRunModel(r); m != nil && m.ifaceLoop != nil {
		outer = m.ifaceLoop
		inner, innerBody = cfgLoopIn(info, outer.Body)
	}
	if outer == nil || inner == nil {
		c.Fail("R07.3", "Run|loops", r.Pos(run.Pos()), "cannot find the loop over parsed interfaces and, inside it, the loop over the interface's Configs")
		return
	}
	// every configured package is handed to the parser: ParsePackages receives exactly the list GetPackages returned
	{
		fc := newFuncCanon(info, run)
		okAll := false
		got := ""
		ast.Inspect(run.Body, func(n ast.Node) bool {
			if call, ok := n.(*ast.CallExpr); ok && strings.HasSuffix(calleeName(info, call), "/internal.Parser).ParsePackages") && len(call.Args) == 2 {
				got = fc.E(call.Args[1])
				okAll = strings.Contains(got, ".GetPackages<(config.RootConfig).GetPackages>(") && strings.HasSuffix(got, ")#0") && !strings.Contains(got, "builtin.append(")
			}
			return true
		})
		c.Check(okAll, "R07.3", "Run|parses-all-configured", r.Pos(run.Pos()), "ParsePackages(GetPackages())", "the parser is not handed exactly the configured packages (GetPackages' result) but "+got+": a package filtered out before parsing can never contribute an interface, whatever its own include/exclude settings say")
	}
	// outer loop body: paths reaching the inner loop
	d := newDT(info)
	d.paths = nil
	d.stmts(&dtPath{env: map[types.Object]string{}}, outer.Body.List, func(p *dtPath) { d.finish(p, "end") })
	reach := 0
	for _, p := range d.paths {
		if hasStep(p, "loop") == 0 {
			if p.Exit == "return" && len(p.Ret) == 1 && p.Ret[0] == "nil" {
				c.Fail("R07.3", "Run|outer-nil-return", r.Pos(p.RetPos), "Run returns nil from inside the interface loop: remaining interfaces are silently skipped")
			}
			continue
		}
		reach++
		sg, ok1 := atomVal(p, "ShouldGenerateInterface<")
		var sgv, sge, okv, oke bool
		for _, a := range p.Atoms {
			if strings.Contains(a.Expr, "ShouldGenerateInterface<") {
				if strings.HasSuffix(a.Expr, "#1 == nil") {
					sge, oke = a.Val, true
				} else if strings.HasSuffix(a.Expr, "#0") {
					sgv, okv = a.Val, true
				}
			}
		}
		_, _ = sg, ok1
		c.Check(okv && sgv && oke && sge, "R07.3", "Run|config-loop-guard", r.Pos(inner.Pos()), "the Configs loop is reached only for shouldGenerate == true with a nil error", "the loop over Configs is reached on a path that has not established shouldGenerate == true and err == nil: "+p.String())
		pk, okp := atomVal(p, "GetPackageConfig<")
		c.Check(okp && pk, "R07.4", "Run|package-config-guard", r.Pos(outer.Pos()), "interface processed only after GetPackageConfig(its package) succeeded", "an interface is processed without a successful GetPackageConfig for its package: "+p.String())
		// the GetPackageConfig argument is the interface's own package path
		good := false
		for _, a := range p.Atoms {
			if strings.Contains(a.Expr, "GetPackageConfig<") && strings.Contains(a.Expr, ".Pkg.PkgPath)") {
				good = true
			}
		}
		c.Check(good, "R07.4", "Run|package-config-key", r.Pos(outer.Pos()), "keyed by iface.Pkg.PkgPath", "GetPackageConfig is not called with the interface's own package path")
	}
	if reach == 0 {
		c.Fail("R07.3", "Run|config-loop-unreachable", r.Pos(inner.Pos()), "no path reaches the Configs loop")
	}
	// inner loop body: exactly one Append or an error return
	d2 := newDT(info)
	d2.paths = nil
	d2.stmts(&dtPath{env: map[types.Object]string{}}, innerBody.List, func(p *dtPath) { d2.finish(p, "end") })
	for _, p := range d2.paths {
		nApp := hasStep(p, "InterfaceCollection).Append>(")
		switch {
		case p.Exit == "end" && nApp == 1:
			c.OK("R07.3", "Run|one-append-per-config", r.Pos(inner.Pos()), "iteration appends exactly one mock to its output file's collection")
		case p.Exit == "return" && len(p.Ret) == 1 && p.Ret[0] != "nil":
			c.OK("R07.3", "Run|config-error-return", r.Pos(p.RetPos), "iteration fails with an error")
		default:
			c.Fail("R07.3", "Run|config-iteration", r.Pos(inner.Pos()), fmt.Sprintf("an iteration of the Configs loop ends with exit=%s after %d Append call(s); it must append exactly once or return an error: %s", p.Exit, nApp, p.String()))
		}
	}
	// InterfaceConfig.Initialize
	cp := r.Pkg("config")
	if fd := FuncDecl(cp, "InterfaceConfig.Initialize"); fd == nil {
		c.Fail("R07.3", "InterfaceConfig.Initialize|missing", "config/config.go", "InterfaceConfig.Initialize not found")
	} else {
		c.Func(funcKey(cp, fd))
		paths, _ := enumerateFunc(cp.TypesInfo, fd)
		okEmpty, okNon := false, false
		for _, p := range paths {
			v, ok := atomVal(p, "builtin.len(RECV.Configs) == 0")
			if !ok {
				continue
			}
			if v && hasStep(p, "store RECV.Configs = []*Config{RECV.Config}") == 1 {
				okEmpty = true
			}
			if !v && hasStep(p, "store RECV.Configs") == 0 && hasStep(p, "loop") == 1 {
				okNon = true
			}
		}
		c.Check(okEmpty && okNon, "R07.3", "InterfaceConfig.Initialize|default-config", r.Pos(fd.Pos()), "Configs = [Config] iff no configs were given", "InterfaceConfig.Initialize does not set Configs to exactly [Config] when (and only when) the list is empty")
	}
	if fd := FuncDecl(cp, "PackageConfig.GetInterfaceConfig"); fd == nil {
		c.Fail("R07.3", "GetInterfaceConfig|missing", "config/config.go", "PackageConfig.GetInterfaceConfig not found")
	} else {
		c.Func(funcKey(cp, fd))
		paths, _ := enumerateFunc(cp.TypesInfo, fd)
		ok := false
		for _, p := range paths {
			v, has := atomVal(p, "RECV.Interfaces[ARG1]#ok")
			if has && !v && p.Exit == "return" {
				for _, s := range p.Steps {
					if strings.HasPrefix(s, "store ") && strings.Contains(s, ".Configs = []*Config{") && strings.Count(s, ",") == 0 {
						ok = true
					}
				}
			}
		}
		c.Check(ok, "R07.3", "GetInterfaceConfig|one-config", r.Pos(fd.Pos()), "an unlisted interface gets exactly one config", "GetInterfaceConfig does not give an unlisted interface exactly one config")
	}
	if fd := FuncDecl(cp, "RootConfig.GetPackageConfig"); fd == nil {
		c.Fail("R07.4", "GetPackageConfig|missing", "config/config.go", "RootConfig.GetPackageConfig not found")
	} else {
		c.Func(funcKey(cp, fd))
		paths, _ := enumerateFunc(cp.TypesInfo, fd)
		ok := len(paths) > 0
		for _, p := range paths {
			v, has := atomVal(p, "RECV.Packages[ARG1]#ok")
			if !has || p.Exit != "return" || len(p.Ret) != 2 {
				ok = false
				continue
			}
			if v != (p.Ret[1] == "nil") {
				ok = false
			}
		}
		c.Check(ok, "R07.4", "GetPackageConfig|miss-is-error", r.Pos(fd.Pos()), "unconfigured package => error", "GetPackageConfig does not return an error exactly when the package is not configured")
	}
	ruleCollectionCreated(c, r, "R07.3")
}

// ruleR075: recursion.
func ruleR075(c *Ctx, r *Repo, rule string) {
	cp := r.Pkg("config")
	info := cp.TypesInfo
	if fd := subPackagesDecl(cp); fd == nil {
		c.Fail(rule, "subPackages|missing", "config/config.go", "RootConfig.subPackages not found")
	} else {
		c.Func(funcKey(cp, fd))
		fc := newFuncCanon(info, fd)
		okLoad := false
		ast.Inspect(fd.Body, func(n ast.Node) bool {
			if x, ok := n.(*ast.CallExpr); ok && calleeName(info, x) == "golang.org/x/tools/go/packages.Load" && len(x.Args) == 2 {
				if fc.E(x.Args[1]) == `ARG0 + "/..."` {
					okLoad = true
				}
			}
			return true
		})
		c.Check(okLoad, rule, "subPackages|pattern", r.Pos(fd.Pos()), "loads <pkg>/...", "subPackages does not load exactly '<package path>/...'")
		// every loaded package without Go files is dropped: in the loop over the loaded packages no path
		// consistent with len(GoFiles) == 0 appends the package's path
		var loops []*ast.RangeStmt
		for _, g := range withCallees(cp, fd) { // the filter may live in a function subPackages calls
			ast.Inspect(g.Body, func(n ast.Node) bool {
				if rs, ok := n.(*ast.RangeStmt); ok && typeIs(info.TypeOf(rs.X), "[]*golang.org/x/tools/go/packages.Package") {
					loops = append(loops, rs)
				}
				return true
			})
		}
		okDrop := len(loops) == 1
		why := "subPackages no longer drops packages that contain no Go files"
		if okDrop {
			rs := loops[0]
			d := newDT(info)
			start := &dtPath{env: map[types.Object]string{}}
			if v, ok := rs.Value.(*ast.Ident); ok {
				start.env[info.Defs[v]] = "PKG"
			}
			d.paths = nil
			d.stmts(start, rs.Body.List, func(p *dtPath) { d.finish(p, "end") })
			appends := 0
			for _, p := range d.paths {
				emptyOK := true // is the path consistent with a package that has no Go files?
				for _, a := range p.Atoms {
					if v, ok := lenAtom(a.Expr, "builtin.len(PKG.GoFiles)", 0); ok {
						if v != a.Val {
							emptyOK = false
						}
					}
				}
				app := hasStep(p, "builtin.append(") > 0 && hasStep(p, "PKG.PkgPath") > 0
				if app {
					appends++
				}
				if app && emptyOK {
					okDrop = false
					why = "subPackages keeps a package that contains no Go files on path " + p.String()
				}
			}
			if appends == 0 {
				okDrop = false
				why = "subPackages never collects a loaded package's path"
			}
			// or the list was filtered before the loop: X = slices.DeleteFunc(X, func(pkg) bool { .. }) with a
			// predicate that holds for every package without Go files
			if !okDrop && appends > 0 {
				if xid, ok := ast.Unparen(rs.X).(*ast.Ident); ok {
					for _, g := range withCallees(cp, fd) {
						ast.Inspect(g.Body, func(n ast.Node) bool {
							as, ok := n.(*ast.AssignStmt)
							if !ok || len(as.Lhs) != 1 || len(as.Rhs) != 1 || as.Pos() > rs.Pos() || !isObj(info, as.Lhs[0], info.Uses[xid]) {
								return true
							}
							call, ok := ast.Unparen(as.Rhs[0]).(*ast.CallExpr)
							if !ok || calleeName(info, call) != "slices.DeleteFunc" || len(call.Args) != 2 || !isObj(info, call.Args[0], info.Uses[xid]) {
								return true
							}
							fl, ok := call.Args[1].(*ast.FuncLit)
							if !ok || fl.Type.Params.NumFields() != 1 || len(fl.Type.Params.List[0].Names) != 1 {
								return true
							}
							pd := newDT(info)
							ps := &dtPath{env: map[types.Object]string{info.Defs[fl.Type.Params.List[0].Names[0]]: "PKG"}}
							pd.paths = nil
							pd.stmts(ps, fl.Body.List, func(p *dtPath) { pd.finish(p, "end") })
							deletesEmpty := len(pd.paths) > 0
							for _, p := range pd.paths {
								emptyOK := true
								for _, a := range p.Atoms {
									if v, ok := lenAtom(a.Expr, "builtin.len(PKG.GoFiles)", 0); ok && v != a.Val {
										emptyOK = false
									}
								}
								if !emptyOK {
									continue
								}
								ret := ""
								if p.Exit == "return" && len(p.Ret) == 1 {
									ret = p.Ret[0]
								}
								if v, ok := lenAtom(ret, "builtin.len(PKG.GoFiles)", 0); !(ret == "true" || ok && v) {
									deletesEmpty = false
								}
							}
							if deletesEmpty {
								okDrop = true
							}
							return true
						})
					}
				}
			}
		}
		c.Check(okDrop, rule, "subPackages|no-go-files", r.Pos(fd.Pos()), "packages without Go files are dropped", why)
		// what was collected is what is returned (mechanical-mutation finding: `return nil` in place of the list)
		okRet := false
		whyRet := "no function of subPackages' family collects package paths into a list it returns"
		for _, g := range withCallees(cp, fd) {
			var bodies []*ast.BlockStmt
			bodies = append(bodies, g.Body)
			ast.Inspect(g.Body, func(n ast.Node) bool {
				if fl, ok := n.(*ast.FuncLit); ok {
					bodies = append(bodies, fl.Body)
				}
				return true
			})
			for _, b := range bodies {
				var acc types.Object
				var loopEnd token.Pos
				ast.Inspect(b, func(n ast.Node) bool {
					if fl, ok := n.(*ast.FuncLit); ok && fl.Body != b {
						return false
					}
					if rs2, ok := n.(*ast.RangeStmt); ok {
						ast.Inspect(rs2.Body, func(m ast.Node) bool {
							as, ok := m.(*ast.AssignStmt)
							if !ok || len(as.Lhs) != 1 || len(as.Rhs) != 1 {
								return true
							}
							call, ok := ast.Unparen(as.Rhs[0]).(*ast.CallExpr)
							if ok && calleeName(info, call) == "builtin.append" && len(call.Args) == 2 && strings.HasSuffix(types.ExprString(call.Args[1]), ".PkgPath") {
								if id, ok := as.Lhs[0].(*ast.Ident); ok {
									acc, loopEnd = objOf(info, id), rs2.End()
								}
							}
							return true
						})
					}
					return true
				})
				if acc == nil {
					continue
				}
				okRet, whyRet = true, ""
				nRet := 0
				ast.Inspect(b, func(n ast.Node) bool {
					if fl, ok := n.(*ast.FuncLit); ok && fl.Body != b {
						return false
					}
					if ret, ok := n.(*ast.ReturnStmt); ok && ret.Pos() > loopEnd && len(ret.Results) >= 1 {
						nRet++
						if id, ok := ast.Unparen(ret.Results[0]).(*ast.Ident); !ok || info.Uses[id] != acc {
							okRet, whyRet = false, "after collecting the sub-packages' paths the function returns "+types.ExprString(ret.Results[0])+" instead of the collected list"
						}
					}
					return true
				})
				if nRet == 0 {
					okRet, whyRet = false, "the collected list is never returned"
				}
			}
		}
		c.Check(okRet, rule, "subPackages|returns-collected", r.Pos(fd.Pos()), "the collected paths are returned", "subPackages: "+whyRet)
	}
	init := FuncDecl(cp, "RootConfig.Initialize")
	if init == nil {
		c.Fail(rule, "Initialize|missing", "config/config.go", "RootConfig.Initialize not found")
		return
	}
	c.Func(funcKey(cp, init))
	// the sub-package loop is in Initialize or in a same-package function it calls
	var fd *ast.FuncDecl
	var rs *ast.RangeStmt
	for _, f := range withCallees(cp, init) {
		if f.Recv == nil || f == subPackagesDecl(cp) {
			continue
		}
		x := rangeOverC(cp, f, ".subPackages<(config.RootConfig).subPackages>(")
		if x == nil {
			x = rangeOverC(cp, f, "config.subPackages(") // the method may have become a plain function
		}
		if x != nil {
			fd, rs = f, x
			break
		}
	}
	if rs == nil {
		c.Fail(rule, "Initialize|subpkg-loop", r.Pos(init.Pos()), "no loop over the discovered sub-packages")
		return
	}
	if fd != init {
		c.Func(funcKey(cp, fd))
	}
	d := newDT(info)
	start := d.envBefore(seedEnv(d, fd), fd.Body.List, rs)
	// the recursive package = whatever subPackages was asked about
	recpkg := ""
	ast.Inspect(fd.Body, func(n ast.Node) bool {
		if call, ok := n.(*ast.CallExpr); ok && call.Pos() < rs.Body.Pos() && len(call.Args) == 1 && calleeFunc(info, call) != nil && pkgFuncs(cp)[calleeFunc(info, call)] == subPackagesDecl(cp) {
			recpkg = d.canon(start, call.Args[0])
		}
		return true
	})
	if v, ok := rs.Value.(*ast.Ident); ok {
		start.env[info.Defs[v]] = "SUBPKG"
	}
	d.paths = nil
	d.stmts(start, rs.Body.List, func(p *dtPath) { d.finish(p, "end") })
	if recpkg != "" {
		for _, p := range d.paths {
			p.rewrite(func(s string) string { return replaceToken(s, recpkg, "RECPKG") })
		}
	}
	nStore := 0
	for _, p := range d.paths {
		stores := hasStep(p, "store RECV.Packages[SUBPKG] = ")
		var exAtomRecv string
		exVal, exErrNil, hasEx, hasErr := false, false, false, false
		for _, a := range p.Atoms {
			if i := strings.Index(a.Expr, ".ShouldExcludeSubpkg<"); i >= 0 {
				exAtomRecv = a.Expr[:i]
				if strings.HasSuffix(a.Expr, "#1 == nil") {
					exErrNil, hasErr = a.Val, true
				} else {
					exVal, hasEx = a.Val, true
				}
			}
		}
		if exAtomRecv != "" {
			c.Check(exAtomRecv == "RECV.Packages[RECPKG].Config", rule, "Initialize|exclude-subpkg-level", r.Pos(rs.Pos()), "exclusion asked of the recursive package's own config", fmt.Sprintf("the sub-package exclusion test is asked of %s instead of the recursive package's own config (RECV.Packages[<recursive package>].Config): an exclude-subpkg-regex set on the package is ignored", exAtomRecv))
		}
		switch {
		case hasErr && !exErrNil:
			c.Check(p.Exit == "return" && len(p.Ret) == 1 && p.Ret[0] != "nil", rule, "Initialize|exclude-error", r.Pos(rs.Pos()), "regex error is returned", "an exclusion regex error is not returned: "+p.String())
		case hasEx && exVal:
			c.Check(stores == 0 && p.Exit != "end", rule, "Initialize|excluded-skipped", r.Pos(rs.Pos()), "excluded sub-package is skipped", "an excluded sub-package is still injected: "+p.String())
		case hasEx && !exVal:
			nStore++
			merged := hasStep(p, "config.mergeConfigs(") == 1 && hasStep(p, "*RECV.Packages[RECPKG].Config, ") == 1
			// an entry that exists already is completed in place (it is a pointer held by the map): storing it
			// back is optional; a fresh entry must be stored
			if ex, hasExist := atomVal(p, "RECV.Packages[SUBPKG]#ok"); hasExist && ex && stores == 0 && merged {
				inPlace := false
				for _, call := range p.CallsTo("config.mergeConfigs") {
					if len(call.Args) == 3 && call.Args[2] == "RECV.Packages[SUBPKG].Config" {
						inPlace = true
					}
				}
				c.Check(inPlace, rule, "Initialize|inject", r.Pos(rs.Pos()), "an existing sub-package is completed in place", "an already configured sub-package is neither completed in place nor stored back: "+p.String())
				continue
			}
			// a sub-package that has no entry yet gets a fresh, non-nil one (mechanical-mutation finding: with the
			// constructor call deleted the merge dereferences a nil *PackageConfig)
			if ex0, hasExist0 := atomVal(p, "RECV.Packages[SUBPKG]#ok"); hasExist0 && !ex0 {
				fresh := false
				for _, call := range p.CallsTo("config.mergeConfigs") {
					if len(call.Args) == 3 && (strings.Contains(call.Args[2], "NewPackageConfig(") || strings.Contains(call.Args[2], "PackageConfig{")) {
						fresh = true
					}
				}
				c.Check(fresh, rule, "Initialize|inject-fresh", r.Pos(rs.Pos()), "a new sub-package starts from a fresh package config", "a discovered sub-package without an entry is not given a fresh package config before the recursive package's config is merged into it (nil dereference): "+strings.Join(p.Steps, "; "))
			}
			c.Check(stores == 1 && merged, rule, "Initialize|inject", r.Pos(rs.Pos()), "non-excluded sub-package gets the recursive package's config merged in and is stored", fmt.Sprintf("a non-excluded sub-package is not (stores=%d) stored under its path with the recursive package's config merged into it: %s", stores, p.String()))
			ex, hasExist := atomVal(p, "RECV.Packages[SUBPKG]#ok")
			if hasExist && ex {
				keep := false
				for _, s := range p.Steps {
					if strings.HasPrefix(s, "store RECV.Packages[SUBPKG] = RECV.Packages[SUBPKG]") {
						keep = true
					}
				}
				c.Check(keep, rule, "Initialize|existing-kept", r.Pos(rs.Pos()), "an already configured sub-package is kept and only completed", "an already configured sub-package is replaced instead of completed: "+p.String())
			}
		default:
			c.Fail(rule, "Initialize|no-exclusion-test", r.Pos(rs.Pos()), "a path through the sub-package loop does not consult the exclusion test: "+p.String())
		}
	}
	if nStore == 0 {
		c.Fail(rule, "Initialize|no-inject", r.Pos(rs.Pos()), "no path injects a discovered sub-package")
	}
	checkRecursiveOrder(c, r, cp, init, rule, "Initialize|recursive-order")
}

// lenAtom evaluates an atom of the form "<lenExpr> OP <int>" (either operand order) for len == n.
func lenAtom(atom, lenExpr string, n int) (bool, bool) {
	for _, op := range []string{"==", "!=", "<=", ">=", "<", ">"} {
		var k int
		flip := false
		if strings.HasPrefix(atom, lenExpr+" "+op+" ") {
			if _, err := fmt.Sscanf(atom[len(lenExpr)+len(op)+2:], "%d", &k); err != nil {
				continue
			}
		} else if strings.HasSuffix(atom, " "+op+" "+lenExpr) {
			if _, err := fmt.Sscanf(atom[:len(atom)-len(lenExpr)-len(op)-2], "%d", &k); err != nil {
				continue
			}
			flip = true
		} else {
			continue
		}
		a, b := n, k
		if flip {
			a, b = k, n
		}
		switch op {
		case "==":
			return a == b, true
		case "!=":
			return a != b, true
		case "<=":
			return a <= b, true
		case ">=":
			return a >= b, true
		case "<":
			return a < b, true
		case ">":
			return a > b, true
		}
	}
	return false, false
}

// replaceToken replaces tok in s where it is not part of a longer identifier.
func replaceToken(s, tok, repl string) string {
	if tok == "" {
		return s
	}
	var b strings.Builder
	for {
		i := strings.Index(s, tok)
		if i < 0 {
			b.WriteString(s)
			return b.String()
		}
		isID := func(c byte) bool {
			return c == '_' || c >= '0' && c <= '9' || c >= 'a' && c <= 'z' || c >= 'A' && c <= 'Z'
		}
		before := i > 0 && isID(s[i-1]) && isID(tok[0])
		after := i+len(tok) < len(s) && isID(s[i+len(tok)]) && isID(tok[len(tok)-1])
		b.WriteString(s[:i])
		if before || after {
			b.WriteString(tok)
		} else {
			b.WriteString(repl)
		}
		s = s[i+len(tok):]
	}
}

// checkRecursiveOrder: the recursive packages are sorted deepest-first with a total order before expansion.
func checkRecursiveOrder(c *Ctx, r *Repo, cp *packages.Package, fd *ast.FuncDecl, rule, key string) {
	info := cp.TypesInfo
	funcs := pkgFuncs(cp)
	sub := subPackagesDecl(cp)
	reachesSub := func(body ast.Node) bool {
		found := false
		ast.Inspect(body, func(n ast.Node) bool {
			if call, ok := n.(*ast.CallExpr); ok {
				if fn := calleeFunc(info, call); fn != nil && funcs[fn] != nil {
					if funcs[fn] == sub {
						found = true
					} else {
						for _, g := range withCallees(cp, funcs[fn]) {
							if g == sub {
								found = true
							}
						}
					}
				}
			}
			return !found
		})
		return found
	}
	// the expansion loop: the range, in Initialize or in a function of the package it calls, whose body
	// reaches subPackages; its operand is the list
	var list types.Object
	var loopPos, sortPos token.Pos
	init := fd
	for _, g := range withCallees(cp, init) {
		if g == sub {
			continue
		}
		found := false
		ast.Inspect(g.Body, func(n ast.Node) bool {
			if rs, ok := n.(*ast.RangeStmt); ok && reachesSub(rs.Body) {
				switch ast.Unparen(rs.X).(type) {
				case *ast.Ident, *ast.CallExpr:
					found = true
				}
			}
			return !found
		})
		if found {
			fd = g
			break
		}
	}
	var sortCall *ast.CallExpr
	ast.Inspect(fd.Body, func(n ast.Node) bool {
		if rs, ok := n.(*ast.RangeStmt); ok && !loopPos.IsValid() && reachesSub(rs.Body) {
			if id, ok := ast.Unparen(rs.X).(*ast.Ident); ok {
				list = info.Uses[id]
				loopPos = rs.Pos()
			}
			// for .. := range sortedCopy(list): the helper returns a sorted copy of its only argument
			if call, ok := ast.Unparen(rs.X).(*ast.CallExpr); ok && len(call.Args) == 1 {
				if h := funcs[calleeFunc(info, call)]; h != nil && h.Body != nil && h.Type.Params.NumFields() == 1 && len(h.Type.Params.List[0].Names) == 1 {
					hc := newFuncCanon(info, h)
					ast.Inspect(h.Body, func(m ast.Node) bool {
						sc, ok := m.(*ast.CallExpr)
						if !ok || len(sc.Args) < 1 {
							return true
						}
						switch calleeName(info, sc) {
						case "sort.Slice", "sort.SliceStable", "slices.SortFunc", "slices.SortStableFunc", "sort.Strings", "slices.Sort":
						default:
							return true
						}
						sid, ok := ast.Unparen(sc.Args[0]).(*ast.Ident)
						if !ok {
							return true
						}
						sorted := info.Uses[sid]
						def := hc.Obj(sorted)
						isCopy := def == "slices.Clone(ARG0)" || strings.HasPrefix(def, "builtin.append(") && strings.HasSuffix(def, ", ARG0...)")
						returned := false
						ast.Inspect(h.Body, func(k ast.Node) bool {
							if rt, ok := k.(*ast.ReturnStmt); ok && len(rt.Results) == 1 && isObj(info, rt.Results[0], sorted) {
								returned = true
							}
							return true
						})
						if (isCopy || sorted == info.Defs[h.Type.Params.List[0].Names[0]]) && returned {
							sortCall, list = sc, sorted
							loopPos = rs.Pos()
						}
						return true
					})
				}
			}
		}
		return true
	})
	preSorted := sortCall != nil
	isSort := func(call *ast.CallExpr) bool {
		switch calleeName(info, call) {
		case "sort.Slice", "sort.SliceStable", "slices.SortFunc", "slices.SortStableFunc", "sort.Strings", "slices.Sort":
			return len(call.Args) >= 1
		}
		return false
	}
	if list != nil && !preSorted {
		ast.Inspect(fd.Body, func(n ast.Node) bool {
			call, ok := n.(*ast.CallExpr)
			if !ok || len(call.Args) < 1 {
				return true
			}
			if isSort(call) {
				if id, ok := ast.Unparen(call.Args[0]).(*ast.Ident); ok && info.Uses[id] == list {
					sortCall = call
					sortPos = call.Pos()
				}
				return true
			}
			// the sort may sit in a helper that is handed the list: either it sorts its parameter in place, or it
			// sorts a copy, returns it, and the caller stores the result back into the list
			fn := calleeFunc(info, call)
			h := funcs[fn]
			if fn == nil || h == nil || h.Body == nil || len(call.Args) != 1 || h.Type.Params.NumFields() != 1 || len(h.Type.Params.List[0].Names) != 1 {
				return true
			}
			if id, ok := ast.Unparen(call.Args[0]).(*ast.Ident); !ok || info.Uses[id] != list {
				return true
			}
			param := info.Defs[h.Type.Params.List[0].Names[0]]
			hc := newFuncCanon(info, h)
			ast.Inspect(h.Body, func(m ast.Node) bool {
				sc, ok := m.(*ast.CallExpr)
				if !ok || !isSort(sc) {
					return true
				}
				sid, ok := ast.Unparen(sc.Args[0]).(*ast.Ident)
				if !ok {
					return true
				}
				sorted := info.Uses[sid]
				inPlace := sorted == param
				returned := false
				if !inPlace {
					def := hc.Obj(sorted)
					isCopy := def == "slices.Clone(ARG0)" || strings.HasPrefix(def, "builtin.append(") && strings.HasSuffix(def, ", ARG0...)")
					retOK := false
					ast.Inspect(h.Body, func(k ast.Node) bool {
						if rs, ok := k.(*ast.ReturnStmt); ok && len(rs.Results) == 1 && isObj(info, rs.Results[0], sorted) {
							retOK = true
						}
						return true
					})
					// the caller stores the result back: list = h(list)
					stored := false
					ast.Inspect(fd.Body, func(k ast.Node) bool {
						if as, ok := k.(*ast.AssignStmt); ok && len(as.Lhs) == 1 && len(as.Rhs) == 1 && ast.Unparen(as.Rhs[0]) == ast.Expr(call) && isObj(info, as.Lhs[0], list) {
							stored = true
						}
						return true
					})
					returned = isCopy && retOK && stored
				}
				if inPlace || returned {
					sortCall = sc
					sortPos = call.Pos()
					list = sorted // the comparator is read in the helper's terms
				}
				return true
			})
			return true
		})
	}
	if preSorted {
		sortPos = loopPos // the sort runs in the range expression itself
	}
	if sortCall == nil || !loopPos.IsValid() || sortPos > loopPos {
		c.Fail(rule, key, r.Pos(fd.Pos()), "the recursive packages are expanded in map-iteration order: no sort of the list precedes the expansion loop, so a sub-package below nested recursive packages inherits from whichever ancestor comes first")
		return
	}
	n := calleeName(info, sortCall)
	if n == "sort.Strings" || n == "slices.Sort" {
		c.Fail(rule, key, r.Pos(sortPos), "the recursive packages are sorted with "+n+", which does not put deeper packages first: a sub-package inherits from the farthest instead of the nearest recursive ancestor")
		return
	}
	byIndex := n == "sort.Slice" || n == "sort.SliceStable"
	fl, ok := sortCall.Args[1].(*ast.FuncLit)
	if !ok {
		// a named comparator function of the package
		if id, isID := ast.Unparen(sortCall.Args[1]).(*ast.Ident); isID {
			if cf, isFn := info.Uses[id].(*types.Func); isFn && funcs[cf] != nil && funcs[cf].Recv == nil {
				fl, ok = &ast.FuncLit{Type: funcs[cf].Type, Body: funcs[cf].Body}, true
			}
		}
	}
	if !ok || fl.Type.Params.NumFields() != 2 {
		c.Fail(rule, key, r.Pos(sortPos), "cannot analyse the comparator of the recursive-package sort")
		return
	}
	d := newDT(info)
	d.inline = funcs
	start := &dtPath{env: map[types.Object]string{list: "L"}}
	i := 0
	for _, f := range fl.Type.Params.List {
		for _, n := range f.Names {
			if byIndex {
				start.env[info.Defs[n]] = []string{"I", "J"}[i]
			} else {
				start.env[info.Defs[n]] = []string{"A", "B"}[i] // three-way comparators receive the elements
			}
			i++
		}
	}
	d.paths = nil
	d.stmts(start, fl.Body.List, func(p *dtPath) { d.finish(p, "end") })
	for _, p := range d.paths {
		p.rewrite(func(s string) string {
			return strings.ReplaceAll(strings.ReplaceAll(s, "L[I]", "A"), "L[J]", "B")
		})
	}
	const li, lj = "builtin.len(A)", "builtin.len(B)"
	if !byIndex {
		// three-way comparator (negative: a first). For each ordering of the two lengths the sign of what the
		// consistent paths return must be: longer first, and for equal lengths a total order on the strings.
		okAll := len(d.paths) > 0
		why := ""
		for _, o := range []int{-1, 0, 1} { // sign of len(A) - len(B)
			seen := false
			for _, p := range d.paths {
				if p.Exit != "return" || len(p.Ret) != 1 {
					okAll, why = false, "a path of the comparator does not return a value"
					continue
				}
				cons := true
				for _, a := range p.Atoms {
					if v, known := lenOrderAtom(a.Expr, li, lj, o); known && v != a.Val {
						cons = false
					} else if !known {
						okAll, why = false, "the comparator branches on "+a.Expr
					}
				}
				if !cons {
					continue
				}
				seen = true
				sg, total, known := threeWaySign(p.Ret[0], li, lj, o)
				switch {
				case !known:
					okAll, why = false, "cannot determine the sign of "+p.Ret[0]
				case o > 0 && !(sg < 0 && !total), o < 0 && !(sg > 0 && !total):
					okAll, why = false, fmt.Sprintf("for paths of different length the comparator returns %s, which does not put the longer (deeper) path first", p.Ret[0])
				case o == 0 && !total:
					okAll, why = false, fmt.Sprintf("for paths of equal length the comparator returns %s, not a total order on the paths", p.Ret[0])
				}
			}
			if !seen {
				okAll, why = false, "no path of the comparator covers one ordering of the lengths"
			}
		}
		c.Check(okAll, rule, key, r.Pos(sortPos), "recursive packages sorted longest path first with a total tie-break before expansion", "the comparator of the recursive-package sort is not 'longer path first, then a total tie-break' ("+why+"): expansion order (and with it which ancestor a sub-package inherits from) is not the nearest-ancestor-first order")
		return
	}
	okLen, okTie := false, false
	for _, p := range d.paths {
		if p.Exit != "return" || len(p.Ret) != 1 {
			continue
		}
		eq, hasEq := atomVal(p, li+" == "+lj)
		if !hasEq {
			eq, hasEq = atomVal(p, lj+" == "+li)
		}
		ret := p.Ret[0]
		switch {
		case hasEq && !eq:
			if ret == li+" > "+lj || ret == lj+" < "+li {
				okLen = true
			} else {
				c.Fail(rule, key, r.Pos(p.RetPos), "for paths of different length the comparator returns "+ret+", want 'longer path first' (len(a[i]) > len(a[j])): the nearest recursive ancestor must be expanded first")
				return
			}
		case hasEq && eq:
			if ret == "A < B" || ret == "A > B" || ret == "B < A" || ret == "B > A" {
				okTie = true
			}
		case !hasEq && (ret == li+" > "+lj || ret == lj+" < "+li):
			okLen = true
			okTie = true // equal-length paths are never ancestors of one another
		}
	}
	c.Check(okLen && okTie, rule, key, r.Pos(sortPos), "recursive packages sorted longest path first with a total tie-break before expansion", "the comparator of the recursive-package sort is not 'longer path first, then a total tie-break': expansion order (and with it which ancestor a sub-package inherits from) is not the nearest-ancestor-first order")
}

// subPackagesDecl: the function that lists the sub-packages of a recursive package (a method of
// RootConfig today; it uses nothing of its receiver, so it may as well be a plain function).
func subPackagesDecl(cp *packages.Package) *ast.FuncDecl {
	if fd := FuncDecl(cp, "RootConfig.subPackages"); fd != nil {
		return fd
	}
	return FuncDecl(cp, "subPackages")
}

// lenOrderAtom evaluates a comparison of the two length terms under the ordering o = sign(len(A) - len(B)).
func lenOrderAtom(a, li, lj string, o int) (val, known bool) {
	for _, op := range []string{" <= ", " >= ", " == ", " < ", " > "} {
		i := strings.LastIndex(a, op)
		if i < 0 {
			continue
		}
		x, y := a[:i], a[i+len(op):]
		s := 0
		switch {
		case x == li && y == lj:
			s = o
		case x == lj && y == li:
			s = -o
		case y == "0":
			// a three-way result compared with zero: cmp.Compare(len(b), len(a)) != 0 and the like
			sg, total, ok := threeWaySign(x, li, lj, o)
			if !ok || total {
				return false, false
			}
			s = sg
		default:
			return false, false
		}
		switch op {
		case " <= ":
			return s <= 0, true
		case " >= ":
			return s >= 0, true
		case " == ":
			return s == 0, true
		case " < ":
			return s < 0, true
		default:
			return s > 0, true
		}
	}
	return false, false
}

// threeWaySign: the sign of a three-way comparator's result under the ordering o of the lengths; total is set
// when the value is a total order on the two strings themselves (non-zero unless they are equal).
func threeWaySign(e, li, lj string, o int) (sign int, total, known bool) {
	e = strings.TrimSpace(e)
	if strings.HasPrefix(e, "-") && !strings.Contains(e, " - ") {
		s, t, k := threeWaySign(e[1:], li, lj, o)
		return -s, t, k
	}
	if v, err := strconv.Atoi(e); err == nil {
		switch {
		case v < 0:
			return -1, false, true
		case v > 0:
			return 1, false, true
		}
		return 0, false, true
	}
	args := func(prefix string) ([]string, bool) {
		if !strings.HasPrefix(e, prefix+"(") || !strings.HasSuffix(e, ")") {
			return nil, false
		}
		var out []string
		depth, start := 0, len(prefix)+1
		for i := start; i < len(e)-1; i++ {
			switch e[i] {
			case '(', '[', '{':
				depth++
			case ')', ']', '}':
				depth--
			case ',':
				if depth == 0 {
					out = append(out, strings.TrimSpace(e[start:i]))
					start = i + 1
				}
			}
		}
		return append(out, strings.TrimSpace(e[start:len(e)-1])), true
	}
	pair := func(x, y string) (int, bool, bool) {
		switch {
		case x == li && y == lj:
			return o, false, true
		case x == lj && y == li:
			return -o, false, true
		case x == "A" && y == "B", x == "B" && y == "A":
			return 0, true, true
		}
		return 0, false, false
	}
	for _, cmpFn := range []string{"cmp.Compare", "strings.Compare"} {
		if a, ok := args(cmpFn); ok && len(a) == 2 {
			return pair(a[0], a[1])
		}
	}
	if a, ok := args("cmp.Or"); ok {
		for _, x := range a {
			s, t, k := threeWaySign(x, li, lj, o)
			if !k {
				return 0, false, false
			}
			if s != 0 || t {
				return s, t, true
			}
		}
		return 0, false, true
	}
	if i := strings.Index(e, " - "); i > 0 {
		return pair(e[:i], e[i+3:])
	}
	return 0, false, false
}

// enumerateFollowUnexported: fd's paths with the unexported functions of its package followed, in statement,
// expression and condition position.
func enumerateFollowUnexported(p *packages.Package, fd *ast.FuncDecl) []*dtPath {
	d := newDT(p.TypesInfo)
	d.callInline = map[*types.Func]*ast.FuncDecl{}
	for fn, g := range pkgUnexported(p) {
		if g != fd {
			d.callInline[fn] = g
		}
	}
	d.hoistCalls = true
	d.paths = nil
	d.stmts(seedEnv(d, fd), fd.Body.List, func(q *dtPath) { d.finish(q, "end") })
	return d.paths
}

// ruleExcludeSubpkg (R07.5, added after a mechanical-mutation sweep showed that nothing read the body of
// Config.ShouldExcludeSubpkg or the condition under which a package is entered into the recursive list):
// the exclusion test answers true exactly for a path that one of the configured expressions matches, and
// a package is expanded exactly when its effective `recursive` is true.
func ruleExcludeSubpkg(c *Ctx, r *Repo, rule string) {
	cp := r.Pkg("config")
	info := cp.TypesInfo
	fd := FuncDecl(cp, "Config.ShouldExcludeSubpkg")
	if fd == nil {
		c.Fail(rule, "ShouldExcludeSubpkg|missing", "config/config.go", "Config.ShouldExcludeSubpkg not found")
		return
	}
	c.Func(funcKey(cp, fd))
	// the loop whose body asks regexp for a match: in the function or in a function of the package it calls
	var host *ast.FuncDecl
	var loop *ast.RangeStmt
	nLoops := 0
	for _, g := range withCallees(cp, fd) {
		ast.Inspect(g.Body, func(n ast.Node) bool {
			rs, ok := n.(*ast.RangeStmt)
			if !ok {
				return true
			}
			match := false
			ast.Inspect(rs.Body, func(m ast.Node) bool {
				if call, ok := m.(*ast.CallExpr); ok && strings.HasSuffix(calleeName(info, call), "MatchString") {
					match = true
				}
				return true
			})
			if match {
				nLoops++
				if loop == nil {
					host, loop = g, rs
				}
			}
			return true
		})
	}
	if loop == nil || nLoops != 1 {
		c.Fail(rule, "ShouldExcludeSubpkg|loop", r.Pos(fd.Pos()), fmt.Sprintf("expected one loop over the configured expressions that asks regexp for a match, found %d", nLoops))
		return
	}
	d := newDTP(cp, host)
	start := d.envBefore(seedEnv(d, host), host.Body.List, loop)
	if v, ok := loop.Value.(*ast.Ident); ok && info.Defs[v] != nil {
		start.env[info.Defs[v]] = "RX"
	}
	// what is ranged over, and the subject: seen from ShouldExcludeSubpkg itself
	rangedOK, subjectOK := false, false
	fcHost := newFuncCanonG(cp, host)
	ranged := fcHost.E(loop.X)
	subjectOf := func(p *dtPath) (pat, subj string, found bool) {
		// read off the atom that carries regexp's answer (calls in condition position are not steps)
		for _, a := range p.Atoms {
			e := a.Expr
			i := strings.LastIndex(e, "MatchString")
			if i < 0 {
				continue
			}
			j := strings.Index(e[i:], "(")
			// skip the resolved-name annotation "<(regexp.Regexp).MatchString>"
			if k := strings.Index(e[i:], ">("); k >= 0 {
				j = k + 1
			}
			if j < 0 {
				continue
			}
			open := i + j
			depth, end := 0, -1
			for q := open; q < len(e); q++ {
				if e[q] == '(' {
					depth++
				} else if e[q] == ')' {
					depth--
					if depth == 0 {
						end = q
						break
					}
				}
			}
			if end < 0 {
				continue
			}
			args := splitTopLevel(e[open+1 : end])
			head := e[:i]
			if k := strings.Index(head, "<"); k >= 0 && strings.HasSuffix(strings.TrimSpace(head), "<") {
				head = head[:k]
			}
			switch {
			case strings.HasSuffix(head, "regexp.") && !strings.HasSuffix(head, ").") && len(args) == 2:
				return args[0], args[1], true
			case len(args) == 1:
				return head, args[0], true
			}
		}
		return "", "", false
	}
	d.paths = nil
	d.stmts(start, loop.Body.List, func(p *dtPath) { d.finish(p, "end") })
	subj := ""
	nMatchPaths := 0
	for _, p := range d.paths {
		pat, s, found := subjectOf(p)
		if os.Getenv("MVCHECK_DEBUG") != "" {
			fmt.Fprintf(os.Stderr, "excl path %s calls=%v steps=%v\n", p.String(), p.Calls, p.Steps)
		}
		errSeen, errNil, matchSeen, matchVal := false, false, false, false
		matchExpr := ""
		for _, a := range p.Atoms {
			switch {
			case strings.HasSuffix(a.Expr, "#1 == nil") && (strings.Contains(a.Expr, "regexp.")):
				errSeen, errNil = true, a.Val
			case strings.Contains(a.Expr, "MatchString") && !strings.Contains(a.Expr, "== nil"):
				matchSeen, matchVal = true, a.Val
				matchExpr = a.Expr
			default:
				c.Fail(rule, "ShouldExcludeSubpkg|condition", r.Pos(loop.Pos()), "the loop over the exclusion expressions decides on something other than regexp's answer: "+a.Expr)
			}
		}
		if !found {
			if errSeen && !errNil {
				// a compile error path before the match
				c.Check(p.Exit == "return" && len(p.Ret) > 0 && p.Ret[len(p.Ret)-1] != "nil", rule, "ShouldExcludeSubpkg|error", r.Pos(loop.Pos()), "an invalid expression is reported", "an invalid exclusion expression is not reported: "+p.String())
				continue
			}
			c.Fail(rule, "ShouldExcludeSubpkg|no-match-call", r.Pos(loop.Pos()), "a path through the loop over the exclusion expressions asks regexp nothing: "+p.String())
			continue
		}
		c.Check(strings.Contains(pat, "RX") && !strings.Contains(s, "RX"), rule, "ShouldExcludeSubpkg|arguments", r.Pos(loop.Pos()), "the configured expression is the pattern, the path the subject", fmt.Sprintf("regexp is asked with pattern %s and subject %s: the configured expression must be the pattern and the package path the subject", pat, s))
		subj = s
		switch {
		case errSeen && !errNil:
			c.Check(p.Exit == "return" && len(p.Ret) > 0 && p.Ret[len(p.Ret)-1] != "nil", rule, "ShouldExcludeSubpkg|error", r.Pos(loop.Pos()), "an invalid expression is reported", "an invalid exclusion expression is not reported: "+p.String())
		case matchSeen && matchVal:
			nMatchPaths++
			// "return matched, err" on a path where matched is known to be true says the same
			last := p.Ret[max(len(p.Ret)-1, 0):]
			okRet := p.Exit == "return" && len(p.Ret) > 0 && (p.Ret[0] == "true" || p.Ret[0] == matchExpr) && (len(p.Ret) == 1 || last[0] == "nil" || strings.HasSuffix(matchExpr, "#0") && last[0] == strings.TrimSuffix(matchExpr, "#0")+"#1")
			c.Check(okRet, rule, "ShouldExcludeSubpkg|matched", r.Pos(loop.Pos()), "a matching expression excludes the path", "a path that an exclusion expression matches is not reported as excluded: "+p.String())
		case matchSeen && !matchVal:
			c.Check(p.Exit != "return" && p.Exit != "break", rule, "ShouldExcludeSubpkg|unmatched", r.Pos(loop.Pos()), "a non-matching expression leaves the decision to the following ones", "an exclusion expression that does not match ends the search: "+p.String())
		default:
			// match result returned or stored without a branch: not a recognised shape
			c.Fail(rule, "ShouldExcludeSubpkg|shape", r.Pos(loop.Pos()), "regexp's answer is not branched on in the loop: "+p.String())
		}
	}
	c.Check(nMatchPaths > 0, rule, "ShouldExcludeSubpkg|some-match", r.Pos(loop.Pos()), "a match path exists", "no path of the loop reports a match")
	// after the loop: not excluded
	hp, _ := enumerateFuncP(cp, host)
	okTail := len(hp) > 0
	for _, p := range hp {
		if p.Exit != "return" || len(p.Ret) == 0 {
			okTail = false
			continue
		}
		// paths of the host outside the loop (the loop is an opaque step): those that passed the loop return false
		if hasStep(p, "loop") > 0 || true {
			if p.Ret[0] != "false" && !(len(p.Ret) > 1 && p.Ret[len(p.Ret)-1] != "nil") {
				okTail = false
			}
		}
	}
	c.Check(okTail, rule, "ShouldExcludeSubpkg|default", r.Pos(host.Pos()), "no expression matched: not excluded", "when no exclusion expression matches the path is still reported as excluded (or nothing is returned)")
	if host == fd {
		rangedOK = ranged == "RECV.ExcludeSubpkgRegex"
		subjectOK = subj == "ARG0"
	} else {
		// the caller hands the helper its own list and its own argument
		hostFn := info.Defs[host.Name]
		ast.Inspect(fd.Body, func(n ast.Node) bool {
			call, ok := n.(*ast.CallExpr)
			if !ok || calleeFunc(info, call) == nil || calleeFunc(info, call) != hostFn {
				return true
			}
			fc := newFuncCanonG(cp, fd)
			hd := seedEnv(newDT(info), host)
			inv := map[string]string{}
			i := 0
			for _, f := range host.Type.Params.List {
				for range f.Names {
					if i < len(call.Args) {
						inv[fmt.Sprintf("ARG%d", i)] = fc.E(call.Args[i])
					}
					i++
				}
			}
			_ = hd
			if v, ok := inv[ranged]; ok && v == "RECV.ExcludeSubpkgRegex" {
				rangedOK = true
			}
			if v, ok := inv[subj]; ok && v == "ARG0" {
				subjectOK = true
			}
			return true
		})
	}
	c.Check(rangedOK, rule, "ShouldExcludeSubpkg|list", r.Pos(loop.Pos()), "every configured expression is consulted", "the loop does not range over the receiver's exclude-subpkg-regex list (it ranges over "+ranged+")")
	c.Check(subjectOK, rule, "ShouldExcludeSubpkg|subject", r.Pos(loop.Pos()), "the package path is the subject", "the subject handed to regexp ("+subj+") is not the package path the caller asked about")

	// a package is expanded iff its effective `recursive` is true
	init := FuncDecl(cp, "RootConfig.Initialize")
	if init == nil {
		return
	}
	found := false
	for _, g := range withCallees(cp, init) {
		ast.Inspect(g.Body, func(n ast.Node) bool {
			rs, ok := n.(*ast.RangeStmt)
			if !ok || !strings.Contains(newFuncCanonG(cp, g).E(rs.X), "RECV.Packages") && !typeIs(info.TypeOf(rs.X), "map[string]*config.PackageConfig") {
				return true
			}
			dd := newDTP(cp, g)
			st := dd.envBefore(seedEnv(dd, g), g.Body.List, rs)
			if k, ok := rs.Key.(*ast.Ident); ok && info.Defs[k] != nil {
				st.env[info.Defs[k]] = "PKGNAME"
			}
			if v, ok := rs.Value.(*ast.Ident); ok && info.Defs[v] != nil {
				st.env[info.Defs[v]] = "PKGCFG"
			}
			dd.paths = nil
			dd.stmts(st, rs.Body.List, func(p *dtPath) { dd.finish(p, "end") })
			for _, p := range dd.paths {
				rec, hasRec := false, false
				for _, a := range p.Atoms {
					if strings.HasSuffix(a.Expr, ".Config.Recursive") && strings.HasPrefix(a.Expr, "*") {
						rec, hasRec = a.Val, true
					}
				}
				collects := false
				for _, s := range p.Steps {
					if strings.Contains(s, "builtin.append(") && strings.Contains(s, "PKGNAME") {
						collects = true
					}
				}
				if !hasRec && !collects {
					continue
				}
				found = true
				if collects {
					c.Check(hasRec && rec, rule, "Initialize|recursive-collected", r.Pos(rs.Pos()), "only recursive packages are expanded", "a package is entered into the list of recursive packages on a path where its `recursive` setting is not true: "+p.String())
				} else if hasRec && rec && p.Exit == "end" {
					c.Fail(rule, "Initialize|recursive-collected", r.Pos(rs.Pos()), "a package whose `recursive` setting is true is not entered into the list of recursive packages: "+p.String())
				}
			}
			return true
		})
	}
	c.Check(found, rule, "Initialize|recursive-collection", r.Pos(init.Pos()), "the recursive list is built from the packages' `recursive` setting", "no loop over the configured packages collects the recursive ones under a test of their `recursive` setting")
}

// splitTopLevel splits a canonical argument list at its top-level commas.
func splitTopLevel(s string) []string {
	var out []string
	depth, last := 0, 0
	for i := 0; i < len(s); i++ {
		switch s[i] {
		case '(', '[', '{':
			depth++
		case ')', ']', '}':
			depth--
		case ',':
			if depth == 0 {
				out = append(out, strings.TrimSpace(s[last:i]))
				last = i + 1
			}
		}
	}
	if strings.TrimSpace(s[last:]) != "" {
		out = append(out, strings.TrimSpace(s[last:]))
	}
	return out
}

// pkgUnexportedHas: is g one of the package's unexported functions?
func pkgUnexportedHas(p *packages.Package, g *ast.FuncDecl) bool {
	for _, fd := range pkgUnexported(p) {
		if fd == g {
			return true
		}
	}
	return false
}

// ruleNoSharedInterfacesMap (round 7): a package's `interfaces` map is its own. If any code stores into an
// Interfaces map (beyond the loops of the Initialize functions that complete the decoded entries in place), then
// no Interfaces field may be given a map that other packages can hold as well (a package-level variable): what
// is stored for one package would be "listed" in every package sharing the map. Two conditions, each harmless
// alone; the rule fires only when both hold.
func ruleNoSharedInterfacesMap(c *Ctx, r *Repo, rule string) {
	var stores, shared []string
	n := 0
	for _, pn := range []string{"config", "internal/cmd", "internal"} {
		p := r.Pkg(pn)
		if p == nil {
			continue
		}
		info := p.TypesInfo
		isIfaces := func(e ast.Expr) bool {
			se, ok := ast.Unparen(e).(*ast.SelectorExpr)
			if !ok || se.Sel.Name != "Interfaces" {
				return false
			}
			_, isMap := info.TypeOf(se).Underlying().(*types.Map)
			return isMap
		}
		pkgLevel := func(e ast.Expr) bool {
			id, ok := ast.Unparen(e).(*ast.Ident)
			if !ok {
				return false
			}
			v, ok := info.Uses[id].(*types.Var)
			return ok && v.Parent() == p.Types.Scope()
		}
		for _, fd := range pkgFuncDecls(p) {
			inInit := pn == "config" && strings.HasSuffix(fd.Name.Name, "Initialize")
			ast.Inspect(fd.Body, func(x ast.Node) bool {
				switch y := x.(type) {
				case *ast.AssignStmt:
					for i, l := range y.Lhs {
						if ie, ok := ast.Unparen(l).(*ast.IndexExpr); ok && isIfaces(ie.X) {
							n++
							// completing an entry under the key the loop is visiting is not a new entry
							if !inInit {
								stores = append(stores, funcKey(p, fd)+" ("+r.Pos(y.Pos())+")")
							}
						}
						if isIfaces(l) && i < len(y.Rhs) {
							n++
							if pkgLevel(y.Rhs[i]) {
								shared = append(shared, funcKey(p, fd)+" assigns "+types.ExprString(y.Rhs[i])+" ("+r.Pos(y.Pos())+")")
							}
						}
					}
				case *ast.KeyValueExpr:
					if k, ok := y.Key.(*ast.Ident); ok && k.Name == "Interfaces" {
						n++
						if pkgLevel(y.Value) {
							shared = append(shared, funcKey(p, fd)+" initialises the field with "+types.ExprString(y.Value)+" ("+r.Pos(y.Pos())+")")
						}
					}
				}
				return true
			})
		}
	}
	bad := len(stores) > 0 && len(shared) > 0
	c.Check(n > 0 && !bad, rule, "Interfaces|own-map-per-package", "config/config.go", "no interfaces map that is stored into is shared between packages", fmt.Sprintf("an interfaces map shared between packages (%s) is stored into (%s): an interface resolved for one package becomes a listed interface, with that package's rendered config, in every package that shares the map", strings.Join(shared, "; "), strings.Join(stores, "; ")))
}
