package main

// Thorough tier, part 2: the rules of a property are re-run, in fresh
// processes, on scratch copies of the working tree to which one seeded change
// (/verif/seeded/<id>/patch.diff, recorded as caught by this property's check)
// has been applied. The copies live under the system temp directory and are
// removed before the function returns. The result is evidence about the
// checker's sensitivity; it never changes the verdict on the tree itself.

import (
	"encoding/json"
	"fmt"
	"os"
	"os/exec"
	"path/filepath"
	"sort"
	"strings"
	"sync"
)

type selfResult struct {
	ID       string   `json:"id"`
	Applied  bool     `json:"applied"`
	Detected bool     `json:"detected"`
	Reports  []string `json:"reports,omitempty"`
	Note     string   `json:"note,omitempty"`
}

func seededFor(home, prop string) []string {
	var out []string
	ents, _ := os.ReadDir(filepath.Join(home, "seeded"))
	for _, e := range ents {
		if !e.IsDir() {
			continue
		}
		b, err := os.ReadFile(filepath.Join(home, "seeded", e.Name(), "meta.json"))
		if err != nil {
			continue
		}
		var m struct {
			CaughtBy []string `json:"caught_by"`
		}
		if json.Unmarshal(b, &m) != nil {
			continue
		}
		for _, p := range m.CaughtBy {
			if p == prop {
				out = append(out, e.Name())
			}
		}
	}
	sort.Strings(out)
	return out
}

func runSelfVariant(home, repo, prop, id string) selfResult {
	return runVariant(home, repo, prop, id, filepath.Join(home, "seeded", id, "patch.diff"))
}

func runVariant(home, repo, prop, id, patch string) selfResult {
	res := selfResult{ID: id}
	work, err := os.MkdirTemp("", "mvself-")
	if err != nil {
		res.Note = err.Error()
		return res
	}
	defer os.RemoveAll(work)
	wrepo, whome := filepath.Join(work, "repo"), filepath.Join(work, "home")
	os.MkdirAll(whome, 0o755)
	if out, err := exec.Command("rsync", "-a", "--exclude", ".git", repo+"/", wrepo+"/").CombinedOutput(); err != nil {
		if out2, err2 := exec.Command("cp", "-a", repo, wrepo).CombinedOutput(); err2 != nil {
			res.Note = "cannot copy the tree: " + string(out) + string(out2)
			return res
		}
		os.RemoveAll(filepath.Join(wrepo, ".git"))
	}
	if b, err := os.ReadFile(filepath.Join(home, "known_findings.json")); err == nil {
		os.WriteFile(filepath.Join(whome, "known_findings.json"), b, 0o644)
	}
	p := exec.Command("patch", "-p1", "-s", "-i", patch)
	p.Dir = wrepo
	if out, err := p.CombinedOutput(); err != nil {
		res.Note = "patch does not apply to the current tree: " + firstLines(string(out), 2)
		return res
	}
	res.Applied = true
	cmd := exec.Command(os.Args[0], prop, "--tier", "quick")
	cmd.Env = append(os.Environ(), "MVCHECK_REPO="+wrepo, "MVCHECK_HOME="+whome, "MVCHECK_NOSELFTEST=1")
	out, _ := cmd.CombinedOutput()
	code := cmd.ProcessState.ExitCode()
	res.Detected = code == 1 && strings.Contains(string(out), "VIOLATION property="+prop)
	for _, l := range strings.Split(string(out), "\n") {
		if strings.HasPrefix(l, "  "+prop+" ") && len(res.Reports) < 3 {
			if len(l) > 200 {
				l = l[:200]
			}
			res.Reports = append(res.Reports, strings.TrimSpace(l))
		}
	}
	if !res.Detected {
		res.Note = fmt.Sprintf("exit=%d", code)
		if code != 0 && code != 1 {
			res.Note = "error"
		}
	}
	return res
}

// selfTestInto runs the seeded variants for c.Prop and records the outcome in the evidence.
func selfTestInto(c *Ctx) {
	if os.Getenv("MVCHECK_NOSELFTEST") != "" {
		return
	}
	ids := seededFor(c.Home, c.Prop)
	results := make([]selfResult, len(ids))
	var wg sync.WaitGroup
	sem := make(chan struct{}, 8)
	for i, id := range ids {
		wg.Add(1)
		sem <- struct{}{}
		go func(i int, id string) {
			defer wg.Done()
			defer func() { <-sem }()
			results[i] = runSelfVariant(c.Home, c.Repo, c.Prop, id)
		}(i, id)
	}
	wg.Wait()
	applied, detected := 0, 0
	for _, r := range results {
		if r.Applied {
			applied++
			if r.Detected {
				detected++
			} else {
				fmt.Printf("SELF-TEST: seeded change %s (recorded as caught by %s) was applied to a scratch copy but not reported\n", r.ID, c.Prop)
			}
		}
	}
	// negative variants: behaviour-preserving refactorings under /verif/refactors*/<id>/patch.diff must stay silent
	var negIDs []string
	for _, dir := range []string{"refactors", "refactors2", "refactors3", "refactors4", "refactors5", "refactors6", "refactors7"} {
		ents, _ := os.ReadDir(filepath.Join(c.Home, dir))
		for _, e := range ents {
			if e.IsDir() {
				if _, err := os.Stat(filepath.Join(c.Home, dir, e.Name(), "patch.diff")); err == nil {
					negIDs = append(negIDs, dir+"/"+e.Name())
				}
			}
		}
	}
	sort.Strings(negIDs)
	neg := make([]selfResult, len(negIDs))
	for i, id := range negIDs {
		wg.Add(1)
		sem <- struct{}{}
		go func(i int, id string) {
			defer wg.Done()
			defer func() { <-sem }()
			neg[i] = runVariant(c.Home, c.Repo, c.Prop, id, filepath.Join(c.Home, id, "patch.diff"))
		}(i, id)
	}
	wg.Wait()
	negApplied, negSilent := 0, 0
	var alarms []selfResult
	for _, r := range neg {
		if r.Applied {
			negApplied++
			if !r.Detected && r.Note != "error" {
				negSilent++
			} else {
				alarms = append(alarms, r)
				fmt.Printf("SELF-TEST: behaviour-preserving variant %s makes %s report a violation (false alarm of the checker)\n", r.ID, c.Prop)
			}
		}
	}
	c.Extra["negative_variants"] = map[string]any{
		"what":     "each behaviour-preserving refactoring kept under /verif/refactors*/ is applied to a scratch copy of the working tree and the check's quick rules are re-run on it; the check must stay silent",
		"variants": len(negIDs), "applied": negApplied, "silent": negSilent, "alarms": alarms,
	}
	fmt.Printf("%s self-test: %d behaviour-preserving variant(s), %d applied, %d silent\n", c.Prop, len(negIDs), negApplied, negSilent)
	c.Extra["self_test"] = map[string]any{
		"what":     "each seeded change recorded as caught by this check is applied to a scratch copy of the working tree (outside /repo and /verif, deleted afterwards) and the check's quick rules are re-run on the copy in a fresh process; a change is 'detected' when that run exits 1 with a VIOLATION line",
		"variants": len(ids), "applied": applied, "detected": detected, "results": results,
	}
	fmt.Printf("%s self-test: %d seeded variant(s), %d applied, %d detected\n", c.Prop, len(ids), applied, detected)
}

func selfTest(ids []string) int {
	for _, id := range ids {
		c := newCtx(id, "thorough")
		selfTestInto(c)
	}
	return 0
}
