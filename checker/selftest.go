package main

func selfTest(ids []string) int { return 0 }
