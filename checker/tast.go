package main

// Helpers for rules that run on skeleton ASTs.

import (
	"go/ast"
	"go/token"
	"go/types"
	"sort"
	"strings"
)

// holesIn returns the holes whose emission overlaps the node's source range.
func (p *TPath) holesIn(n ast.Node) []*Hole {
	if n == nil {
		return nil
	}
	s := p.Fset.Position(n.Pos()).Offset
	e := p.Fset.Position(n.End()).Offset
	var out []*Hole
	em := p.E.emits
	i := sort.Search(len(em), func(i int) bool { return em[i].End > s })
	for ; i < len(em) && em[i].Start < e; i++ {
		if em[i].H != nil && em[i].End > em[i].Start {
			out = append(out, em[i].H)
		}
	}
	return out
}

// elemOf: the single model element an identifier derives from ("" if none or mixed).
func (p *TPath) elemOf(n ast.Node) string {
	el := ""
	for _, h := range p.holesIn(n) {
		if el != "" && el != h.Elem {
			return ""
		}
		el = h.Elem
	}
	return el
}

// fixedText returns the part of the identifier that is template text (not from holes).
func (p *TPath) fixedText(id *ast.Ident) string {
	s := p.Fset.Position(id.Pos()).Offset
	e := s + len(id.Name)
	var b strings.Builder
	for _, em := range p.E.emits {
		if em.End <= s || em.Start >= e {
			continue
		}
		if em.H != nil {
			b.WriteString("{}")
			continue
		}
		lo, hi := max(em.Start, s), min(em.End, e)
		b.WriteString(p.Src[lo:hi])
	}
	return b.String()
}

func (p *TPath) code(n ast.Node) string {
	if n == nil {
		return ""
	}
	s := p.Fset.Position(n.Pos()).Offset
	e := p.Fset.Position(n.End()).Offset
	if s < 0 || e > len(p.Src) || s > e {
		return ""
	}
	return strings.Join(strings.Fields(p.Src[s:e]), " ")
}

type mockType struct {
	ii      int
	name    string
	named   *types.Named
	st      *types.Struct
	decl    *ast.TypeSpec
	locks   map[string]*types.Var // elem -> lock field
	funcs   map[string]*types.Var // elem -> Func field
	guarded []*types.Var
}

// mockTypes finds, per interface of the shape, the struct type the template declared for it.
func (p *TPath) mockTypes() map[int]*mockType {
	out := map[int]*mockType{}
	if p.Pkg == nil {
		return out
	}
	for ii := range p.Shape.Ifaces {
		name := p.E.structName(ii)
		tn, _ := p.Pkg.Scope().Lookup(name).(*types.TypeName)
		if tn == nil {
			continue
		}
		named, _ := tn.Type().(*types.Named)
		if named == nil {
			continue
		}
		st, _ := named.Underlying().(*types.Struct)
		if st == nil {
			continue
		}
		mt := &mockType{ii: ii, name: name, named: named, st: st, locks: map[string]*types.Var{}, funcs: map[string]*types.Var{}}
		out[ii] = mt
	}
	// field classification needs the declaring AST for provenance
	for _, d := range p.File.Decls {
		gd, ok := d.(*ast.GenDecl)
		if !ok || gd.Tok != token.TYPE {
			continue
		}
		for _, s := range gd.Specs {
			ts := s.(*ast.TypeSpec)
			for _, mt := range out {
				if ts.Name.Name != mt.name {
					continue
				}
				mt.decl = ts
				ast.Inspect(ts.Type, func(n ast.Node) bool {
					stt, ok := n.(*ast.StructType)
					if !ok {
						return true
					}
					for _, f := range stt.Fields.List {
						for _, id := range f.Names {
							v, _ := p.Info.Defs[id].(*types.Var)
							if v == nil {
								continue
							}
							switch {
							case isSyncLock(v.Type()):
								mt.locks[p.elemOf(id)] = v
							case isFuncType(v.Type()):
								mt.funcs[p.elemOf(id)] = v
							default:
								mt.guarded = append(mt.guarded, v)
							}
						}
					}
					return false // only the outermost struct's direct fields
				})
			}
		}
	}
	return out
}

func isSyncLock(t types.Type) bool {
	n, ok := t.(*types.Named)
	if !ok || n.Obj().Pkg() == nil {
		return false
	}
	return n.Obj().Pkg().Path() == "sync" && (n.Obj().Name() == "RWMutex" || n.Obj().Name() == "Mutex")
}

func isFuncType(t types.Type) bool {
	_, ok := t.Underlying().(*types.Signature)
	return ok
}

// recvInfo: receiver identifier object and the mock type index of a method declaration.
func (p *TPath) recvInfo(fd *ast.FuncDecl, mts map[int]*mockType) (*types.Var, *mockType) {
	if fd.Recv == nil || len(fd.Recv.List) != 1 {
		return nil, nil
	}
	f := fd.Recv.List[0]
	name := recvTypeName(f.Type)
	for _, mt := range mts {
		if mt.name == name {
			if len(f.Names) == 1 {
				v, _ := p.Info.Defs[f.Names[0]].(*types.Var)
				return v, mt
			}
			return nil, mt
		}
	}
	return nil, nil
}

// selChain flattens a.b.c into root ident and selector idents.
func selChain(e ast.Expr) (*ast.Ident, []*ast.Ident) {
	var sels []*ast.Ident
	for {
		switch x := e.(type) {
		case *ast.SelectorExpr:
			sels = append([]*ast.Ident{x.Sel}, sels...)
			e = x.X
		case *ast.ParenExpr:
			e = x.X
		case *ast.Ident:
			return x, sels
		default:
			return nil, nil
		}
	}
}
