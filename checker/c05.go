package main

import (
	"fmt"
	"go/ast"
	"go/token"
	"go/types"
	"sort"
	"strings"
)

func init() { register("C05", checkC05) }

// ---- lock-discipline walker (shared by C04/C05) ----

type lockWalker struct {
	p      *TPath
	recv   *types.Var
	mt     *mockType
	fn     string
	report func(rule, what string, pos token.Pos)
	order  map[[2]string]bool // (held, acquired) pairs
	nAcc   int
	nAcq   int
	nLogW  int
}

type lockState struct {
	held     map[string]string // elem -> "W" | "R"
	deferred map[string]bool
	released map[string]bool // elem -> its lock was held and released earlier on this path
}

func (s lockState) clone() lockState {
	n := lockState{map[string]string{}, map[string]bool{}, map[string]bool{}}
	for k, v := range s.held {
		n.held[k] = v
	}
	for k, v := range s.released {
		n.released[k] = v
	}
	for k, v := range s.deferred {
		n.deferred[k] = v
	}
	return n
}

func (s lockState) String() string {
	var ks []string
	for k, v := range s.held {
		ks = append(ks, k+":"+v)
	}
	sort.Strings(ks)
	return "{" + strings.Join(ks, ",") + "}"
}

// lockOp recognises recv.<lockfield>.<Lock|RLock|Unlock|RUnlock>().
func (w *lockWalker) lockOp(e ast.Expr) (elem, op string, ok bool) {
	call, isCall := e.(*ast.CallExpr)
	if !isCall {
		return
	}
	sel, isSel := call.Fun.(*ast.SelectorExpr)
	if !isSel {
		return
	}
	root, sels := selChain(sel)
	if root == nil || len(sels) != 2 || w.p.Info.Uses[root] != w.recv {
		return
	}
	fld, _ := w.p.Info.Uses[sels[0]].(*types.Var)
	if fld == nil || !isSyncLock(fld.Type()) {
		return
	}
	for el, v := range w.mt.locks {
		if v == fld {
			switch sels[1].Name {
			case "Lock", "RLock", "Unlock", "RUnlock":
				return el, sels[1].Name, true
			}
		}
	}
	return
}

type access struct {
	elem  string
	write bool
	pos   token.Pos
	code  string
}

// accesses lists reads/writes of guarded fields of the receiver inside n
// (function literals excluded; they are walked separately).
func (w *lockWalker) accesses(n ast.Node, lhs map[ast.Expr]bool) []access {
	var out []access
	guarded := map[*types.Var]bool{}
	for _, g := range w.mt.guarded {
		guarded[g] = true
	}
	var visit func(n ast.Node, write bool)
	visit = func(n ast.Node, write bool) {
		ast.Inspect(n, func(x ast.Node) bool {
			switch e := x.(type) {
			case *ast.FuncLit:
				return false
			case *ast.UnaryExpr:
				if e.Op == token.AND {
					visit(e.X, true)
					return false
				}
			case *ast.SelectorExpr:
				root, sels := selChain(e)
				if root != nil && w.p.Info.Uses[root] == w.recv && len(sels) > 0 {
					if fld, _ := w.p.Info.Uses[sels[0]].(*types.Var); fld != nil && guarded[fld] {
						el := "*"
						if len(sels) > 1 {
							if x := w.p.elemOf(sels[1]); x != "" {
								el = x
							}
						}
						out = append(out, access{el, write || lhs[e], e.Pos(), w.p.code(e)})
						return false
					}
				}
			case *ast.IndexExpr:
				if lhs[e] {
					visit(e.X, true)
					visit(e.Index, false)
					return false
				}
			}
			return true
		})
	}
	visit(n, false)
	return out
}

func (w *lockWalker) checkAccesses(n ast.Node, lhs map[ast.Expr]bool, st lockState) {
	if n == nil {
		return
	}
	for _, a := range w.accesses(n, lhs) {
		w.nAcc++
		mode, held := st.held[a.elem]
		switch {
		case a.elem == "*":
			w.report("R05.1", fmt.Sprintf("%s touches the whole call log (%s) which no single method lock guards", w.fn, a.code), a.pos)
		case !held:
			w.report("R05.1", fmt.Sprintf("%s accesses %s without holding the lock of %s (held: %s)", w.fn, a.code, a.elem, st), a.pos)
		case a.write && mode != "W":
			w.report("R05.1", fmt.Sprintf("%s writes %s under a read lock", w.fn, a.code), a.pos)
		}
	}
	// calls into user code or other mock methods while a lock is held
	if len(st.held) > 0 {
		ast.Inspect(n, func(x ast.Node) bool {
			if _, ok := x.(*ast.FuncLit); ok {
				return false
			}
			call, ok := x.(*ast.CallExpr)
			if !ok {
				return true
			}
			if _, _, isLock := w.lockOp(call); isLock {
				return true
			}
			root, sels := selChain(call.Fun)
			if root != nil && w.p.Info.Uses[root] == w.recv && len(sels) >= 1 {
				obj := w.p.Info.Uses[sels[len(sels)-1]]
				if _, isFn := obj.(*types.Func); isFn || (obj != nil && isFuncType(obj.Type())) {
					w.report("R05.5", fmt.Sprintf("%s calls %s while holding %s: sync locks are not re-entrant, a user function that touches the mock deadlocks", w.fn, w.p.code(call.Fun), st), call.Pos())
				}
			}
			return true
		})
	}
}

// checkLogWrite (R05.6): snapshots of the call log are handed out by the Calls
// accessor, so the log may only grow by append-to-itself or be dropped (= nil);
// re-slicing or element stores would overwrite records a reader still holds.
func (w *lockWalker) checkLogWrite(x *ast.AssignStmt) {
	for i, l := range x.Lhs {
		acc := w.accesses(l, map[ast.Expr]bool{l: true})
		if len(acc) == 0 {
			continue
		}
		w.nLogW++
		if _, isSel := l.(*ast.SelectorExpr); !isSel {
			w.report("R05.6", fmt.Sprintf("%s stores into an element/part of the call log (%s)", w.fn, w.p.code(l)), l.Pos())
			continue
		}
		if len(x.Rhs) != len(x.Lhs) {
			w.report("R05.6", fmt.Sprintf("%s assigns the call log from a multi-value expression", w.fn), l.Pos())
			continue
		}
		r := x.Rhs[i]
		if id, ok := r.(*ast.Ident); ok && id.Name == "nil" && w.p.Info.Uses[id] == types.Universe.Lookup("nil") {
			continue
		}
		if call, ok := r.(*ast.CallExpr); ok && len(call.Args) >= 1 && !call.Ellipsis.IsValid() {
			if id, ok := call.Fun.(*ast.Ident); ok && id.Name == "append" && w.p.Info.Uses[id] == types.Universe.Lookup("append") && w.p.code(call.Args[0]) == w.p.code(l) {
				continue
			}
		}
		w.report("R05.6", fmt.Sprintf("%s assigns %s = %s: only append-to-itself or nil keep snapshots handed out by the Calls accessor intact", w.fn, w.p.code(l), w.p.code(r)), l.Pos())
	}
}

func isPanicCall(e ast.Expr) bool {
	call, ok := e.(*ast.CallExpr)
	if !ok {
		return false
	}
	id, ok := call.Fun.(*ast.Ident)
	return ok && id.Name == "panic"
}

func sameState(a, b lockState) bool {
	if len(a.held) != len(b.held) {
		return false
	}
	for k, v := range a.held {
		if b.held[k] != v {
			return false
		}
	}
	return true
}

// stmts walks a statement list; returns the state at fall-through and whether
// the list always terminates (return/panic).
func (w *lockWalker) stmts(list []ast.Stmt, st lockState) (lockState, bool) {
	for _, s := range list {
		var term bool
		st, term = w.stmt(s, st)
		if term {
			return st, true
		}
	}
	return st, false
}

func (w *lockWalker) exit(st lockState, what string, pos token.Pos) {
	for el := range st.held {
		if !st.deferred[el] {
			w.report("R05.1", fmt.Sprintf("%s: %s while the lock of %s is still held and no deferred release exists", w.fn, what, el), pos)
		}
	}
}

func (w *lockWalker) stmt(s ast.Stmt, st lockState) (lockState, bool) {
	switch x := s.(type) {
	case nil:
		return st, false
	case *ast.ExprStmt:
		if el, op, ok := w.lockOp(x.X); ok {
			switch op {
			case "Lock", "RLock":
				w.nAcq++
				if _, dup := st.held[el]; dup {
					w.report("R05.1", fmt.Sprintf("%s acquires the lock of %s twice", w.fn, el), x.Pos())
				}
				for other := range st.held {
					w.order[[2]string{other, el}] = true
				}
				if st.released[el] {
					// R05.7: what the second critical section sees need not be the state the first one looked at
					w.report("R05.7", fmt.Sprintf("%s acquires the lock of %s again after having released it: the two critical sections are not atomic together, a reset or a call that lands between them makes the function combine two different states of the call log", w.fn, el), x.Pos())
				}
				st = st.clone()
				st.held[el] = map[string]string{"Lock": "W", "RLock": "R"}[op]
			default:
				want := map[string]string{"Unlock": "W", "RUnlock": "R"}[op]
				if st.held[el] != want {
					w.report("R05.1", fmt.Sprintf("%s: %s of %s does not match the held state %s", w.fn, op, el, st), x.Pos())
				}
				st = st.clone()
				delete(st.held, el)
				st.released[el] = true
			}
			return st, false
		}
		w.checkAccesses(x.X, nil, st)
		if isPanicCall(x.X) {
			w.exit(st, "panic", x.Pos())
			return st, true
		}
		return st, false
	case *ast.DeferStmt:
		if el, op, ok := w.lockOp(x.Call); ok && (op == "Unlock" || op == "RUnlock") {
			want := map[string]string{"Unlock": "W", "RUnlock": "R"}[op]
			if st.held[el] != want {
				w.report("R05.1", fmt.Sprintf("%s defers %s of %s but holds %s", w.fn, op, el, st), x.Pos())
			}
			st = st.clone()
			st.deferred[el] = true
			return st, false
		}
		w.checkAccesses(x.Call, nil, st)
		return st, false
	case *ast.AssignStmt:
		lhs := map[ast.Expr]bool{}
		for _, l := range x.Lhs {
			lhs[l] = true
		}
		w.checkAccesses(x, lhs, st)
		w.checkLogWrite(x)
		return st, false
	case *ast.IncDecStmt:
		w.checkAccesses(x, map[ast.Expr]bool{x.X: true}, st)
		return st, false
	case *ast.ReturnStmt:
		w.checkAccesses(x, nil, st)
		w.exit(st, "return", x.Pos())
		return st, true
	case *ast.BlockStmt:
		return w.stmts(x.List, st)
	case *ast.IfStmt:
		st, _ = w.stmt(x.Init, st)
		w.checkAccesses(x.Cond, nil, st)
		a, ta := w.stmts(x.Body.List, st)
		b, tb := st, false
		if x.Else != nil {
			b, tb = w.stmt(x.Else, st)
		}
		switch {
		case ta && tb:
			return st, true
		case ta:
			return b, false
		case tb:
			return a, false
		}
		if !sameState(a, b) {
			w.report("R05.1", fmt.Sprintf("%s: branches leave different lock states %s vs %s", w.fn, a, b), x.Pos())
		}
		return a, false
	case *ast.ForStmt:
		st, _ = w.stmt(x.Init, st)
		w.checkAccesses(x.Cond, nil, st)
		a, _ := w.stmts(x.Body.List, st)
		if !sameState(a, st) {
			w.report("R05.1", fmt.Sprintf("%s: loop body changes the lock state %s -> %s", w.fn, st, a), x.Pos())
		}
		w.stmt(x.Post, a)
		return st, false
	case *ast.RangeStmt:
		w.checkAccesses(x.X, nil, st)
		a, _ := w.stmts(x.Body.List, st)
		if !sameState(a, st) {
			w.report("R05.1", fmt.Sprintf("%s: loop body changes the lock state %s -> %s", w.fn, st, a), x.Pos())
		}
		return st, false
	case *ast.SwitchStmt, *ast.TypeSwitchStmt, *ast.SelectStmt:
		var body *ast.BlockStmt
		switch y := x.(type) {
		case *ast.SwitchStmt:
			st, _ = w.stmt(y.Init, st)
			if y.Tag != nil {
				w.checkAccesses(y.Tag, nil, st)
			}
			body = y.Body
		case *ast.TypeSwitchStmt:
			st, _ = w.stmt(y.Init, st)
			st, _ = w.stmt(y.Assign, st)
			body = y.Body
		case *ast.SelectStmt:
			body = y.Body
		}
		for _, cc := range body.List {
			var list []ast.Stmt
			switch c := cc.(type) {
			case *ast.CaseClause:
				for _, e := range c.List {
					w.checkAccesses(e, nil, st)
				}
				list = c.Body
			case *ast.CommClause:
				st2, _ := w.stmt(c.Comm, st)
				_ = st2
				list = c.Body
			}
			a, term := w.stmts(list, st)
			if !term && !sameState(a, st) {
				w.report("R05.1", fmt.Sprintf("%s: case leaves lock state %s, entry was %s", w.fn, a, st), cc.Pos())
			}
		}
		return st, false
	case *ast.GoStmt:
		w.checkAccesses(x.Call, nil, lockState{map[string]string{}, map[string]bool{}, map[string]bool{}})
		return st, false
	case *ast.LabeledStmt:
		return w.stmt(x.Stmt, st)
	case *ast.BranchStmt:
		if len(st.held) > 0 {
			w.report("R05.1", fmt.Sprintf("%s: %s while holding %s", w.fn, x.Tok, st), x.Pos())
		}
		return st, false
	case *ast.DeclStmt, *ast.EmptyStmt, *ast.SendStmt:
		w.checkAccesses(x, nil, st)
		return st, false
	}
	w.checkAccesses(s, nil, st)
	return st, false
}

// walkFunc checks one method body and every function literal inside it.
func (w *lockWalker) walkFunc(body *ast.BlockStmt) {
	empty := lockState{map[string]string{}, map[string]bool{}, map[string]bool{}}
	st, term := w.stmts(body.List, empty)
	if !term {
		w.exit(st, "function end", body.Rbrace)
	}
	ast.Inspect(body, func(n ast.Node) bool {
		if fl, ok := n.(*ast.FuncLit); ok {
			st, term := w.stmts(fl.Body.List, empty)
			if !term {
				w.exit(st, "function literal end", fl.Body.Rbrace)
			}
		}
		return true
	})
}

// lockDiscipline runs the walker over every method of every mock type of a
// matryer skeleton. It returns (accesses seen, acquires seen).
func lockDiscipline(p *TPath, report func(rule, what string, pos token.Pos)) (int, int, int) {
	mts := p.mockTypes()
	order := map[[2]string]bool{}
	acc, acq, logw := 0, 0, 0
	for _, d := range p.File.Decls {
		fd, ok := d.(*ast.FuncDecl)
		if !ok || fd.Body == nil {
			continue
		}
		recv, mt := p.recvInfo(fd, mts)
		if mt == nil || recv == nil {
			continue
		}
		w := &lockWalker{p: p, recv: recv, mt: mt, fn: fd.Name.Name, report: report, order: order}
		w.walkFunc(fd.Body)
		acc += w.nAcc
		acq += w.nAcq
		logw += w.nLogW
	}
	for pr := range order {
		if order[[2]string{pr[1], pr[0]}] && pr[0] < pr[1] {
			report("R05.1", fmt.Sprintf("locks of %s and %s are acquired in both orders", pr[0], pr[1]), token.NoPos)
		}
	}
	return acc, acq, logw
}

func checkC05(c *Ctx) {
	c.Explanation = `Static lock-discipline and shared-state rules on the two built-in templates, decided on every path of the abstract evaluation (engine T; all template-data flag combinations x method shapes up to the tier bound, see coverage.template_paths). Each path's output skeleton is parsed and type-checked, then:
R05.1 (matryer) every read/write of a field of the mock struct other than the Func fields and the locks happens while the lock field deriving from the same .Methods element is held (write lock for writes), every acquire is released on every exit, no return/panic/branch escapes a held lock, locks are not taken in conflicting orders;
R05.2 (matryer) the mock struct has exactly one sync.RWMutex/Mutex field per method of the interface;
R05.4 (testify) no function literal in generated code writes a variable declared outside it (testify runs the Run closure outside its mutex), Called(xs...) never spreads a parameter (the recorded call would share the caller's array), the template declares no package-level variables, the mock struct holds nothing but the embedded mock.Mock, the expecter nothing but a *mock.Mock, call structs nothing but *mock.Call, and no generated method stores through its receiver or refers to package-level variables;
R05.6 (matryer) the call log is only ever assigned append(itself, ...) or nil, never re-sliced or stored into, so a snapshot handed out by the Calls accessor is never overwritten by a later call;
R05.7 (matryer) no generated function acquires a method's lock again after having released it: what it reads or writes under the lock is one atomic step (a Calls accessor that measures the log in one critical section and copies it in a second one returns records of calls nobody made when a reset lands in between - no data race, so the race detector is silent);
R05.5 (matryer) no user-supplied Func field and no other mock method is called while a lock is held (sync locks are not re-entrant).`
	c.NotDecided = "the interleavings themselves, the Go memory model and sync/testify internals (assumed), scheduling; shapes beyond the tier bound."
	c.Assumptions = []string{"sync.RWMutex/Mutex provide mutual exclusion and happens-before as documented", "testify's mock.Mock synchronises its own state", "the accessor table of engine T (checked against the Go code by C14) describes what the generator passes to the template"}
	c.Rule("R05.1", 500, "guarded accesses under the matching lock, on all exits")
	c.Rule("R05.2", 200, "one lock field per method")
	c.Rule("R05.4", 300, "testify adds no shared state")
	c.Rule("R05.5", 500, "no foreign call under a lock")
	c.Rule("R05.6", 500, "call log only grows by append-to-itself or is reset to nil")
	c.Rule("R05.7", 500, "one critical section per lock and function")
	c.Rule("R05.0", 500, "skeleton is analysable (evaluates, parses, type-checks)")

	analysable := func(p *TPath) bool {
		if usesTypeParamTypes(p.Shape) {
			return false
		}
		switch {
		case p.Err != nil:
			c.Fail("R05.0", p.Tmpl+"|eval|"+p.Err.err.Error(), p.E.nodePos(p.Err.node), "template path cannot be evaluated: "+p.Err.err.Error()+" ["+p.Env()+"]")
			return false
		case p.ParseEr != nil:
			c.Fail("R05.0", p.Tmpl+"|parse", "", "skeleton does not parse: "+p.ParseEr.Error()+" ["+p.Env()+"]")
			return false
		}
		c.OK("R05.0", p.Tmpl, "", "")
		return true
	}

	walkTemplate(c, "matryer", "body", func(p *TPath) {
		if !analysable(p) {
			return
		}
		bad := false
		acc, acq, logw := lockDiscipline(p, func(rule, what string, pos token.Pos) {
			bad = true
			c.Fail(rule, "matryer|"+normMsg(what), p.TmplPos(pos), what+" ["+p.Env()+"]")
		})
		if !bad {
			for i := 0; i < acc; i++ {
				c.OK("R05.1", "matryer", "", fmt.Sprintf("%d guarded accesses, %d acquires on path %s", acc, acq, p.Env()))
			}
			c.OK("R05.5", "matryer", "", p.Env())
			c.OK("R05.7", "matryer", "", p.Env())
			for i := 0; i < logw; i++ {
				c.OK("R05.6", "matryer", "", p.Env())
			}
		}
		// R05.2
		for ii, mt := range p.mockTypes() {
			is := p.Shape.Ifaces[ii]
			for mi := range is.Methods {
				el := fmt.Sprintf("%s.m%d", ifaceLetter(ii), mi)
				if _, ok := mt.locks[el]; ok {
					c.OK("R05.2", "matryer", "", "lock field for "+el)
				} else {
					c.Fail("R05.2", "matryer|no-lock-field", p.TmplPos(mt.decl.Pos()), fmt.Sprintf("mock struct %s has no sync lock field deriving from method %s [%s]", mt.name, el, p.Env()))
				}
			}
			if len(mt.locks) > len(is.Methods) {
				c.Fail("R05.2", "matryer|extra-lock-field", p.TmplPos(mt.decl.Pos()), fmt.Sprintf("mock struct %s has %d lock fields for %d methods [%s]", mt.name, len(mt.locks), len(is.Methods), p.Env()))
			}
		}
	})

	walkTemplate(c, "testify", "body", func(p *TPath) {
		if !analysable(p) {
			return
		}
		testifyNoSharedState(c, p)
	})
}

// testifyNoSharedState implements R05.4 on one testify skeleton.
func testifyNoSharedState(c *Ctx, p *TPath) {
	fail := func(key, what string, pos token.Pos) {
		c.Fail("R05.4", "testify|"+key, p.TmplPos(pos), what+" ["+p.Env()+"]")
	}
	ok := true
	for _, d := range p.File.Decls {
		switch x := d.(type) {
		case *ast.GenDecl:
			switch x.Tok {
			case token.VAR:
				for _, s := range x.Specs {
					for _, n := range s.(*ast.ValueSpec).Names {
						if n.Name != "_" {
							ok = false
							fail("package-var", "package-level variable "+n.Name+" is state shared by all mocks", n.Pos())
						}
					}
				}
			case token.TYPE:
				for _, s := range x.Specs {
					ts := s.(*ast.TypeSpec)
					st, isStruct := ts.Type.(*ast.StructType)
					if !isStruct {
						continue
					}
					for _, f := range st.Fields.List {
						t := p.Info.TypeOf(f.Type)
						allowed := false
						if t != nil {
							s := types.TypeString(t, nil)
							switch {
							case len(f.Names) == 0 && (s == "github.com/stretchr/testify/mock.Mock" || s == "*github.com/stretchr/testify/mock.Call"):
								allowed = true
							case len(f.Names) == 1 && s == "*github.com/stretchr/testify/mock.Mock":
								allowed = true
							}
						}
						if !allowed {
							ok = false
							fail("extra-field", fmt.Sprintf("type %s carries a field (%s) besides testify's own mock.Mock/*mock.Mock/*mock.Call: state the generated code would have to synchronise itself", normMsg(ts.Name.Name), normMsg(p.code(f))), f.Pos())
						}
					}
				}
			}
		case *ast.FuncDecl:
			if x.Body == nil {
				continue
			}
			var recv types.Object
			if x.Recv != nil && len(x.Recv.List) == 1 && len(x.Recv.List[0].Names) == 1 {
				recv = p.Info.Defs[x.Recv.List[0].Names[0]]
			}
			params := map[types.Object]bool{}
			for _, f := range x.Type.Params.List {
				for _, n := range f.Names {
					params[p.Info.Defs[n]] = true
				}
			}
			// closures: testify runs the function handed to Call.Run outside its mutex, once per call and
			// possibly concurrently, so a closure may only write variables it declares itself
			ast.Inspect(x.Body, func(n ast.Node) bool {
				fl, isLit := n.(*ast.FuncLit)
				if !isLit {
					return true
				}
				captured := func(e ast.Expr) (string, bool) {
					for {
						switch y := ast.Unparen(e).(type) {
						case *ast.SelectorExpr:
							e = y.X
							continue
						case *ast.IndexExpr:
							e = y.X
							continue
						case *ast.StarExpr:
							e = y.X
							continue
						case *ast.Ident:
							v, isVar := p.Info.Uses[y].(*types.Var)
							if !isVar || v.IsField() {
								return "", false
							}
							return y.Name, v.Pos() < fl.Pos() || v.Pos() > fl.End()
						}
						return "", false
					}
				}
				ast.Inspect(fl.Body, func(m ast.Node) bool {
					switch y := m.(type) {
					case *ast.AssignStmt:
						if y.Tok == token.DEFINE {
							return true
						}
						for _, l := range y.Lhs {
							if name, cap := captured(l); cap {
								ok = false
								fail("closure-captured-write", fmt.Sprintf("%s: a function literal assigns to %s, which is declared outside it: the variable is shared by every (possibly concurrent) invocation of the closure", normMsg(x.Name.Name), normMsg(name)), l.Pos())
							}
						}
					case *ast.IncDecStmt:
						if name, cap := captured(y.X); cap {
							ok = false
							fail("closure-captured-write", fmt.Sprintf("%s: a function literal modifies %s, which is declared outside it", normMsg(x.Name.Name), normMsg(name)), y.Pos())
						}
					}
					return true
				})
				return true
			})
			// locals that may hold a parameter's slice itself (x := param, x = param[lo:hi], transitively): spreading
			// one of them is spreading the parameter (round 6: "_va := args; Called(_va...)")
			for changed := true; changed; {
				changed = false
				ast.Inspect(x.Body, func(n ast.Node) bool {
					as, isAs := n.(*ast.AssignStmt)
					if !isAs || len(as.Lhs) != len(as.Rhs) {
						return true
					}
					for i, l := range as.Lhs {
						lid, isID := ast.Unparen(l).(*ast.Ident)
						if !isID {
							continue
						}
						lo := p.Info.Defs[lid]
						if lo == nil {
							lo = p.Info.Uses[lid]
						}
						if lo == nil || params[lo] {
							continue
						}
						rhs := ast.Unparen(as.Rhs[i])
						if se, isSl := rhs.(*ast.SliceExpr); isSl {
							rhs = ast.Unparen(se.X)
						}
						if rid, isRID := rhs.(*ast.Ident); isRID && params[p.Info.Uses[rid]] {
							if _, isSlice := lo.Type().Underlying().(*types.Slice); isSlice {
								params[lo] = true
								changed = true
							}
						}
					}
					return true
				})
			}
			ast.Inspect(x.Body, func(n ast.Node) bool {
				switch e := n.(type) {
				case *ast.CallExpr:
					// Called(xs...) stores xs itself in the recorded call: it must be a slice built here, not the caller's
					if sel, isSel := e.Fun.(*ast.SelectorExpr); isSel && sel.Sel.Name == "Called" && e.Ellipsis.IsValid() && len(e.Args) >= 1 {
						if id, isID := ast.Unparen(e.Args[len(e.Args)-1]).(*ast.Ident); isID && params[p.Info.Uses[id]] {
							ok = false
							fail("called-spreads-parameter", fmt.Sprintf("%s spreads its parameter %s into Called(...): the recorded call then shares the caller's backing array, which the caller may rewrite (unsynchronised) after the call", normMsg(x.Name.Name), normMsg(id.Name)), e.Pos())
						}
					}
				case *ast.AssignStmt:
					for _, l := range e.Lhs {
						if root, sels := selChain(l); root != nil && len(sels) > 0 && recv != nil && p.Info.Uses[root] == recv {
							ok = false
							fail("receiver-store", fmt.Sprintf("%s stores through its receiver (%s) without synchronisation", normMsg(x.Name.Name), normMsg(p.code(l))), l.Pos())
						}
					}
				case *ast.Ident:
					if v, isVar := p.Info.Uses[e].(*types.Var); isVar && !v.IsField() && v.Parent() == p.Pkg.Scope() {
						ok = false
						fail("package-var-use", fmt.Sprintf("%s refers to package-level variable %s", normMsg(x.Name.Name), e.Name), e.Pos())
					}
				}
				return true
			})
		}
	}
	if ok {
		c.OK("R05.4", "testify", "", p.Env())
	}
}
