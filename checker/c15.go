package main

import (
	"fmt"
	"go/ast"
	"go/token"
	"go/types"
	"strings"

	"golang.org/x/tools/go/packages"
)

func init() { register("C15", checkC15) }

func checkC15(c *Ctx) {
	c.Explanation = `Per-call contracts of the allocators (the inductive step of the history property):
R15.1 MethodScope.SuggestName: the loop body is enumerated as a decision table; the loop is left only on a path where NameExists(<the value suggestion holds at that moment>) was false; candidates are the prefix itself, then prefix followed by the decimal counter (distinct for distinct counters); the function returns that suggestion and has no effect on the scope (no AddName, no store);
R15.2 AllocateName returns exactly the value it passed to AddName, which is SuggestName(prefix)'s result;
R15.3 visibleNames is monotone: the only store into the map anywhere in the package is AddName's, nothing deletes from it or replaces it after construction, and NameExists reads that map with the name as key; a new scope starts from the registry's qualifiers;
R15.4 Registry.addImport: nil only for the destination package when in-package; a known path returns the cached package; otherwise the candidate qualifier is tested against importQualifiers, a taken candidate is replaced by <qualifier><counter>, Alias is set iff the final candidate differs from the package name, and after the search the package is stored under its path in imports and under exactly its final qualifier in importQualifiers; Package.Qualifier returns the alias when set, else the package name; MethodScope.addImport makes the qualifier visible in the scope;
R15.5 Registry.Imports appends each map value once and sorts by Path(); Packages.PkgQualifier returns the qualifier of the element whose Path() equals the argument and an error otherwise.`
	c.NotDecided = "arbitrary call histories (only each call's contract); termination of the candidate searches (finite maps)."
	c.Assumptions = []string{"fmt.Sprintf(\"%s%d\", p, i) is injective in i"}
	c.Rule("R15.1", 4, "")
	c.Rule("R15.2", 1, "")
	c.Rule("R15.3", 4, "")
	c.Rule("R15.4", 7, "")
	c.Rule("R15.5", 3, "")
	r := loadRepo(c, packages.LoadSyntax, "", "./template")
	ruleNameAllocators(c, r, "R15.1", "R15.2", "R15.3")
	ruleAddImport(c, r, "R15.4")
	ruleImportsListing(c, r, "R15.5")
	// a name handed out by the collision resolver is registered like an allocated one (C14 rule R14.5)
	subRules(c, "R15.3", "resolver-registers", "every name the scope hands out must be recorded as taken: ", func(sub *Ctx) {
		ruleNameResolution(sub, loadRepo(sub, packages.LoadSyntax, "", "./template", "./internal"), "R14.5")
	})
}

func ruleNameAllocators(c *Ctx, r *Repo, r1, r2, r3 string) {
	tp := r.Pkg("template")
	info := tp.TypesInfo
	// ---- SuggestName
	fd := FuncDecl(tp, "MethodScope.SuggestName")
	if fd == nil {
		c.Fail(r1, "SuggestName|missing", "template/method_scope.go", "SuggestName not found")
	} else {
		c.Func(funcKey(tp, fd))
		var loop *ast.ForStmt
		ast.Inspect(fd.Body, func(n ast.Node) bool {
			if fs, ok := n.(*ast.ForStmt); ok && loop == nil {
				loop = fs
			}
			return loop == nil
		})
		// what the function returns after the loop (when the loop is left by break)
		var sugObj types.Object
		if l := len(fd.Body.List); l > 0 {
			if rs, ok := fd.Body.List[l-1].(*ast.ReturnStmt); ok && len(rs.Results) == 1 {
				if id, ok := rs.Results[0].(*ast.Ident); ok {
					sugObj = info.Uses[id]
				}
			}
		}
		if loop == nil {
			c.Fail(r1, "SuggestName|shape", r.Pos(fd.Pos()), "SuggestName has no candidate loop")
		} else {
			// 'for init; cond; post { body }' is 'for init; ; post { if !cond { break }; body }'
			loopBody := loop.Body.List
			if loop.Cond != nil {
				guard := &ast.IfStmt{If: loop.Cond.Pos(), Cond: &ast.UnaryExpr{OpPos: loop.Cond.Pos(), Op: token.NOT, X: loop.Cond},
					Body: &ast.BlockStmt{Lbrace: loop.Cond.End(), List: []ast.Stmt{&ast.BranchStmt{TokPos: loop.Cond.End(), Tok: token.BREAK}}, Rbrace: loop.Cond.End()}}
				loopBody = append([]ast.Stmt{guard}, loopBody...)
			}
			d := newDT(info)
			start := d.envBefore(seedEnv(d, fd), fd.Body.List, loop)
			d.loopUnknown(start, loop)
			var ctr types.Object
			if as, ok := loop.Init.(*ast.AssignStmt); ok {
				ctr = info.Defs[as.Lhs[0].(*ast.Ident)]
				start.env[ctr] = "I"
			}
			d.paths = nil
			d.stmts(start, loopBody, func(p *dtPath) { d.finish(p, "end") })
			okLeave, okCont := false, true
			cands := map[string]bool{}
			const ne = "RECV.NameExists<(template.MethodScope).NameExists>("
			// a first candidate may be tried before the loop (peeled first round): the statements before
			// the loop either fall through to it after a taken candidate or return a free one
			{
				pd := newDT(info)
				pd.paths = nil
				var prefix []ast.Stmt
				for _, st := range fd.Body.List {
					if st == ast.Stmt(loop) {
						break
					}
					prefix = append(prefix, st)
				}
				pd.stmts(seedEnv(pd, fd), prefix, func(p *dtPath) { pd.finish(p, "end") })
				for _, p := range pd.paths {
					tested := map[string]bool{}
					for _, a := range p.Atoms {
						if strings.HasPrefix(a.Expr, ne) && strings.HasSuffix(a.Expr, ")") {
							cand := a.Expr[len(ne) : len(a.Expr)-1]
							tested[cand] = a.Val
							cands[cand] = true
						}
					}
					switch p.Exit {
					case "return":
						if ex, has := tested[p.Ret[0]]; !(len(p.Ret) == 1 && has && !ex) {
							okCont = false
							c.Fail(r1, "SuggestName|commit-unchecked", r.Pos(p.RetPos), "SuggestName returns "+strings.Join(p.Ret, ",")+" before the loop without NameExists having just reported it free: "+p.String())
						}
					case "end":
						for _, ex := range tested {
							if !ex {
								okCont = false
								c.Fail(r1, "SuggestName|skip-free-name", r.Pos(loop.Pos()), "a candidate found free before the loop is not returned: "+p.String())
							}
						}
					}
				}
			}
			for _, p := range d.paths {
				// the candidates this round tested
				tested := map[string]bool{}
				for _, a := range p.Atoms {
					if strings.HasPrefix(a.Expr, ne) && strings.HasSuffix(a.Expr, ")") {
						cand := a.Expr[len(ne) : len(a.Expr)-1]
						tested[cand] = a.Val
						cands[cand] = true
					}
				}
				switch p.Exit {
				case "break", "return":
					cur := ""
					if p.Exit == "break" && sugObj != nil {
						cur = p.env[sugObj]
					} else if p.Exit == "return" && len(p.Ret) == 1 {
						cur = p.Ret[0]
					}
					if ex, has := tested[cur]; cur != "" && has && !ex {
						okLeave = true
					} else {
						okCont = false
						c.Fail(r1, "SuggestName|commit-unchecked", r.Pos(p.RetPos), fmt.Sprintf("the candidate loop is left with suggestion = %s without NameExists(%s) having just returned false: %s", cur, cur, p.String()))
					}
				case "continue", "end":
					free := len(tested) == 0
					for _, ex := range tested {
						if !ex {
							free = true
						}
					}
					if free {
						okCont = false
						c.Fail(r1, "SuggestName|skip-free-name", r.Pos(loop.Pos()), "a candidate that was not found taken is skipped, or the loop continues without testing: "+p.String())
					}
				default:
					okCont = false
					c.Fail(r1, "SuggestName|exit", r.Pos(p.RetPos), "unexpected exit from the candidate loop: "+p.String())
				}
			}
			// a candidate held in a variable that is carried from one round to the next stands for the
			// value it has before the loop and the values the continuing rounds leave in it
			if sugObj != nil && cands["unknown("+sugObj.Name()+")"] {
				delete(cands, "unknown("+sugObj.Name()+")")
				if before := d.envBefore(seedEnv(d, fd), fd.Body.List, loop); before.env[sugObj] != "" {
					cands[before.env[sugObj]] = true
				}
				for _, p := range d.paths {
					if p.Exit == "continue" || p.Exit == "end" {
						cands[p.env[sugObj]] = true
					}
				}
			}
			c.Check(okLeave && okCont, r1, "SuggestName|fresh-only", r.Pos(loop.Pos()), "a name is committed only right after NameExists said it is free", "SuggestName can return a name that was not just tested free")
			wantC := map[string]bool{"ARG0": true, `ARG0 + strconv.Itoa(I)`: true}
			okC := len(cands) == 2
			for k := range cands {
				if !wantC[k] {
					okC = false
				}
			}
			c.Check(okC, r1, "SuggestName|candidates", r.Pos(loop.Pos()), "candidates: prefix, then prefix+counter", fmt.Sprintf("candidate names are %v, want the prefix and then fmt.Sprintf(\"%%s%%d\", prefix, counter)", keysOf(cands)))
			inc, _ := loop.Post.(*ast.IncDecStmt)
			c.Check(inc != nil && inc.Tok == token.INC, r1, "SuggestName|counter", r.Pos(loop.Pos()), "counter increases every round", "the candidate counter does not increase every round")
		}
		// effect-free
		effect := ""
		ast.Inspect(fd.Body, func(n ast.Node) bool {
			switch x := n.(type) {
			case *ast.CallExpr:
				if fn := calleeFunc(info, x); fn != nil && (fn.Name() == "AddName" || fn.Name() == "AllocateName") {
					effect = fn.Name()
				}
			case *ast.AssignStmt:
				for _, l := range x.Lhs {
					if strings.Contains(types.ExprString(l), "visibleNames") {
						effect = "store " + types.ExprString(l)
					}
				}
			}
			return true
		})
		c.Check(effect == "", r1, "SuggestName|no-effect", r.Pos(fd.Pos()), "suggestion does not change the scope", "SuggestName changes the scope ("+effect+"): suggestion without allocation must have no effect")
	}
	// ---- AllocateName
	if fd := FuncDecl(tp, "MethodScope.AllocateName"); fd == nil {
		c.Fail(r2, "AllocateName|missing", "template/method_scope.go", "AllocateName not found")
	} else {
		paths, _ := enumerateFunc(info, fd)
		ok := len(paths) == 1
		if ok {
			p := paths[0]
			sug := "RECV.SuggestName<(template.MethodScope).SuggestName>(ARG0)"
			add := p.CallsTo("MethodScope).AddName")
			ok = p.Exit == "return" && len(p.Ret) == 1 && p.Ret[0] == sug && len(add) == 1 && add[0].Recv == "RECV" && len(add[0].Args) == 1 && add[0].Args[0] == sug
		}
		c.Check(ok, r2, "AllocateName|registers-what-it-returns", r.Pos(fd.Pos()), "returns SuggestName(prefix) after AddName of the same value", "AllocateName does not return exactly the value it registered with AddName (the result of SuggestName(prefix))")
	}
	// ---- visibleNames discipline (whole package)
	nStore := 0
	for _, f := range tp.Syntax {
		for _, d := range f.Decls {
			fd, ok := d.(*ast.FuncDecl)
			if !ok || fd.Body == nil {
				continue
			}
			fk := funcKey(tp, fd)
			ast.Inspect(fd.Body, func(n ast.Node) bool {
				switch x := n.(type) {
				case *ast.AssignStmt:
					for _, l := range x.Lhs {
						s := types.ExprString(l)
						if ie, ok := l.(*ast.IndexExpr); ok && strings.HasSuffix(types.ExprString(ie.X), ".visibleNames") {
							nStore++
							c.Check(fk == "template.MethodScope.AddName", r3, "visibleNames|store|"+fk, r.Pos(l.Pos()), "the only store is AddName's", fk+" stores into visibleNames directly; only AddName may add names")
						} else if strings.HasSuffix(s, ".visibleNames") {
							c.Fail(r3, "visibleNames|replaced|"+fk, r.Pos(l.Pos()), fk+" replaces the visibleNames map: names reported as existing would stop existing")
						}
					}
				case *ast.CallExpr:
					if calleeName(info, x) == "builtin.delete" && len(x.Args) == 2 && strings.HasSuffix(types.ExprString(x.Args[0]), ".visibleNames") {
						c.Fail(r3, "visibleNames|delete|"+fk, r.Pos(x.Pos()), fk+" deletes from visibleNames: a name reported as existing must stay existing, otherwise it can be handed out again")
					}
				}
				return true
			})
		}
	}
	c.Check(nStore == 1, r3, "visibleNames|single-writer", "template/method_scope.go", "exactly one store site", fmt.Sprintf("%d store sites into visibleNames, want 1 (AddName)", nStore))
	if fd := FuncDecl(tp, "MethodScope.AddName"); fd != nil {
		paths, _ := enumerateFunc(info, fd)
		ok := len(paths) == 1 && len(paths[0].Steps) == 1 && strings.HasPrefix(paths[0].Steps[0], "store RECV.visibleNames[ARG0] = ")
		c.Check(ok, r3, "AddName|stores-its-argument", r.Pos(fd.Pos()), "visibleNames[name] = nil", "AddName does not record exactly its argument")
	}
	if fd := FuncDecl(tp, "MethodScope.NameExists"); fd != nil {
		paths, _ := enumerateFunc(info, fd)
		ok := len(paths) == 1 && paths[0].Exit == "return" && paths[0].Ret[0] == "RECV.visibleNames[ARG0]#ok"
		c.Check(ok, r3, "NameExists|reads-the-map", r.Pos(fd.Pos()), "NameExists = presence of the name in visibleNames", "NameExists is not the presence test of its argument in visibleNames")
	}
	if fd := FuncDecl(tp, "NewMethodScope"); fd != nil {
		rs := rangeOverC(tp, fd, "ARG0.importQualifiers")
		ok := false
		if rs != nil && len(rs.Body.List) == 1 {
			if k, isId := rs.Key.(*ast.Ident); isId {
				if es, isES := rs.Body.List[0].(*ast.ExprStmt); isES {
					if call, isCall := es.X.(*ast.CallExpr); isCall && strings.HasSuffix(calleeName(info, call), "MethodScope).AddName") && len(call.Args) == 1 && isObj(info, call.Args[0], info.Defs[k]) {
						ok = true
					}
				}
			}
		}
		c.Check(ok, r3, "NewMethodScope|seeds-qualifiers", r.Pos(fd.Pos()), "every import qualifier of the file is visible in a new scope", "a new method scope does not start with every import qualifier of the file as a visible name")
	}
}

func nodeStringStmt(s ast.Stmt) string {
	switch x := s.(type) {
	case *ast.AssignStmt:
		var l, rr []string
		for _, e := range x.Lhs {
			l = append(l, types.ExprString(e))
		}
		for _, e := range x.Rhs {
			rr = append(rr, types.ExprString(e))
		}
		return strings.Join(l, ", ") + " " + x.Tok.String() + " " + strings.Join(rr, ", ")
	case *ast.ExprStmt:
		return types.ExprString(x.X)
	case *ast.ReturnStmt:
		var rr []string
		for _, e := range x.Results {
			rr = append(rr, types.ExprString(e))
		}
		return "return " + strings.Join(rr, ", ")
	}
	return fmt.Sprintf("%T", s)
}

func keysOf(m map[string]bool) []string {
	var out []string
	for k := range m {
		out = append(out, k)
	}
	return out
}

func ruleAddImport(c *Ctx, r *Repo, rule string) {
	tp := r.Pkg("template")
	info := tp.TypesInfo
	fd := FuncDecl(tp, "Registry.addImport")
	if fd == nil {
		c.Fail(rule, "addImport|missing", "template/registry.go", "Registry.addImport not found")
		return
	}
	c.Func(funcKey(tp, fd))
	// the qualifier search may have been extracted into a helper that returns the chosen qualifier
	fd = inlineHelpers(tp, fd, func(g *ast.FuncDecl) bool {
		for _, h := range withCallees(tp, g) {
			if strings.Contains(nodeString(h.Body), ".importQualifiers") {
				return true
			}
		}
		return false
	})
	var loop *ast.ForStmt
	loopIdx := -1
	for i, s := range fd.Body.List {
		if fs, ok := s.(*ast.ForStmt); ok {
			loop, loopIdx = fs, i
		}
	}
	// prefix decision table (before the loop)
	if loopIdx > 0 {
		d := newDT(info)
		d.paths = nil
		d.stmts(seedEnv(d, fd), fd.Body.List[:loopIdx], func(p *dtPath) { d.finish(p, "end") })
		okNil, okHit, okMiss := false, false, false
		for _, p := range d.paths {
			same, _ := p.atom("ARG1.Path<(template.TypesPackage).Path>() == RECV.dstPkgPath")
			inPkg, hasIn := p.atom("RECV.inPackage")
			hit, hasHit := p.atom("RECV.imports[ARG1.Path<(template.TypesPackage).Path>()]#ok")
			switch {
			case p.Exit == "return" && p.Ret[0] == "nil":
				if same && hasIn && inPkg {
					okNil = true
				} else {
					c.Fail(rule, "addImport|nil-return", r.Pos(p.RetPos), "addImport returns nil (no import, empty qualifier) on a path other than 'destination package while in-package': "+p.String())
				}
			case p.Exit == "return":
				if hasHit && hit && p.Ret[0] == "RECV.imports[ARG1.Path<(template.TypesPackage).Path>()]" {
					okHit = true
				} else {
					c.Fail(rule, "addImport|cached-return", r.Pos(p.RetPos), "early return of something other than the package cached under the same path: "+p.String())
				}
			case p.Exit == "end":
				if hasHit && !hit {
					okMiss = true
				}
			}
		}
		c.Check(okNil && okHit && okMiss, rule, "addImport|prefix", r.Pos(fd.Pos()), "nil only for the in-package destination; same path => same package", "addImport's early exits are not: nil for the destination package when in-package, the cached package for a known path")
	}
	if loop == nil {
		c.Fail(rule, "addImport|candidate-loop", r.Pos(fd.Pos()), "no qualifier search loop")
		return
	}
	// the loop: conflict test on the candidate, alias assignment, break.
	// The candidate is the variable used as the key of the importQualifiers lookup inside the loop.
	var cand types.Object
	findCand := func(n ast.Node) bool {
		switch x := n.(type) {
		case *ast.IndexExpr:
			if se, ok := ast.Unparen(x.X).(*ast.SelectorExpr); ok && se.Sel.Name == "importQualifiers" && cand == nil {
				if id, ok := ast.Unparen(x.Index).(*ast.Ident); ok {
					cand = info.Uses[id]
				}
			}
		case *ast.CallExpr:
			// a predicate of the package that looks its argument up in importQualifiers
			if fn := calleeFunc(info, x); fn != nil && cand == nil && len(x.Args) == 1 {
				if pd := pkgSingleReturn(tp)[fn]; pd != nil && strings.Contains(nodeString(pd.Body), ".importQualifiers") {
					if id, ok := ast.Unparen(x.Args[0]).(*ast.Ident); ok {
						cand = info.Uses[id]
					}
				}
			}
		}
		return true
	}
	ast.Inspect(loop.Body, findCand)
	// 'for init; cond; post { body }' is 'for init; ; post { if !cond { break }; body }'
	loopBody := loop.Body.List
	if loop.Cond != nil {
		ast.Inspect(loop.Cond, findCand)
		guard := &ast.IfStmt{If: loop.Cond.Pos(), Cond: &ast.UnaryExpr{OpPos: loop.Cond.Pos(), Op: token.NOT, X: loop.Cond},
			Body: &ast.BlockStmt{Lbrace: loop.Cond.End(), List: []ast.Stmt{&ast.BranchStmt{TokPos: loop.Cond.End(), Tok: token.BREAK}}, Rbrace: loop.Cond.End()}}
		loopBody = append([]ast.Stmt{guard}, loopBody...)
	}
	okConflict, okAlias, okNext := false, false, false
	if cand != nil {
		d := newDTP(tp, fd)
		before := d.envBefore(seedEnv(d, fd), fd.Body.List, loop)
		q := before.env[cand] // the first candidate: the package's own qualifier
		okFirst := strings.HasSuffix(q, ".Qualifier<(template.Package).Qualifier>()")
		start := before.clone()
		d.loopUnknown(start, loop)
		start.env[cand] = "CAND"
		if as, ok := loop.Init.(*ast.AssignStmt); ok && len(as.Lhs) == 1 {
			start.env[info.Defs[as.Lhs[0].(*ast.Ident)]] = "I"
		}
		d.paths = nil
		d.stmts(start, loopBody, func(p *dtPath) { d.finish(p, "end") })
		body := d.paths
		okConflict, okNext = okFirst && len(body) > 0, okFirst
		var leaving []*dtPath
		for _, p := range body {
			taken, tested := p.atom("RECV.importQualifiers[CAND]#ok")
			switch p.Exit {
			case "continue", "end":
				// only a taken candidate is passed over, and the next one is <qualifier><counter>
				if !(tested && taken) {
					okConflict = false
				}
				if p.env[cand] != q+` + strconv.Itoa(I)` {
					okNext = false
				}
			case "break":
				if !(tested && !taken) || p.env[cand] != "CAND" {
					okConflict = false
				}
				leaving = append(leaving, p)
			default:
				okConflict = false
			}
		}
		// continue the leaving paths through the statements after the loop: Alias = final candidate iff it differs
		var post []ast.Stmt
		if loopIdx >= 0 {
			post = fd.Body.List[loopIdx+1:]
		}
		okAlias = len(leaving) > 0
		for _, lp := range leaving {
			d.paths = nil
			cont := lp.clone()
			d.stmts(cont, post, func(p *dtPath) { d.finish(p, "end") })
			for _, p := range d.paths {
				same, has := p.atom(q + " == CAND")
				if !has {
					same, has = p.atom("CAND == " + q)
				}
				sets := 0
				for _, st := range p.Steps {
					if strings.HasPrefix(st, "store ") && strings.Contains(st, ".Alias = ") {
						if strings.HasSuffix(st, ".Alias = CAND") {
							sets++
						} else {
							sets = -100
						}
					}
				}
				if !has || (same && sets != 0) || (!same && sets != 1) {
					okAlias = false
				}
			}
		}
	}
	c.Check(okConflict && okNext, rule, "addImport|conflict-test", r.Pos(loop.Pos()), "candidate tested against importQualifiers; taken => <qualifier><counter>", "the qualifier search does not test the current candidate against importQualifiers and move on to <qualifier><counter> when it is taken")
	c.Check(okAlias, rule, "addImport|alias", r.Pos(loop.Pos()), "Alias = final candidate iff it differs from the package name", "the alias is not set to the final candidate when it differs from the package's own name")
	// stores after the loop
	nQ, nI := 0, 0
	for i, s := range fd.Body.List {
		as, ok := s.(*ast.AssignStmt)
		if !ok || len(as.Lhs) != 1 {
			continue
		}
		ie, ok := as.Lhs[0].(*ast.IndexExpr)
		if !ok {
			continue
		}
		m := types.ExprString(ie.X)
		key := types.ExprString(ie.Index)
		switch {
		case strings.HasSuffix(m, ".importQualifiers"):
			nQ++
			final := false
			if id, ok := ie.Index.(*ast.Ident); ok && info.Uses[id] == cand {
				final = true
			}
			if call, ok := ie.Index.(*ast.CallExpr); ok && strings.HasSuffix(calleeName(info, call), "template.Package).Qualifier") {
				// <the new package>.Qualifier(), evaluated after the alias was set
				if sel, ok := call.Fun.(*ast.SelectorExpr); ok {
					stored := ast.Unparen(as.Rhs[0])
					if ue, ok := stored.(*ast.UnaryExpr); ok && ue.Op == token.AND {
						stored = ast.Unparen(ue.X) // the package value, stored by address
					}
					if a, ok := stored.(*ast.Ident); ok && isObj(info, sel.X, info.Uses[a]) {
						final = true
					}
				}
			}
			c.Check(final && i > loopIdx, rule, "addImport|qualifier-registration", r.Pos(as.Pos()), "registered under the final qualifier", fmt.Sprintf("the new import is recorded in importQualifiers under %s, not under the qualifier finally chosen: an alias handed out once is not marked taken and is handed out again to another package of the same name", key))
		case strings.HasSuffix(m, ".imports"):
			nI++
			c.Check(newFuncCanon(info, fd).E(ie.Index) == "ARG1.Path<(template.TypesPackage).Path>()" && i > loopIdx, rule, "addImport|path-registration", r.Pos(as.Pos()), "registered under its path", "the new import is not recorded in imports under its own path")
		}
	}
	c.Check(nQ == 1 && nI == 1, rule, "addImport|registrations", r.Pos(fd.Pos()), "one registration per table", fmt.Sprintf("%d/%d stores into importQualifiers/imports, want 1/1", nQ, nI))
	// Package.Qualifier
	if q := FuncDecl(tp, "Package.Qualifier"); q != nil {
		paths, _ := enumerateFunc(info, q)
		ok := len(paths) > 0
		for _, p := range paths {
			isNil, _ := p.atom("RECV == nil")
			aliasEmpty, hasA := p.atom(`RECV.Alias == ""`)
			switch {
			case isNil:
				ok = ok && p.Ret[0] == `""`
			case hasA && !aliasEmpty:
				ok = ok && p.Ret[0] == "RECV.Alias"
			default:
				ok = ok && p.Ret[0] == "RECV.pkg.Name<(template.TypesPackage).Name>()"
			}
		}
		c.Check(ok, rule, "Package.Qualifier|semantics", r.Pos(q.Pos()), "alias when set, else package name", "Package.Qualifier is not 'the alias when set, else the package name'")
	}
	// MethodScope.addImport
	if a := FuncDecl(tp, "MethodScope.addImport"); a != nil {
		paths, _ := enumerateFunc(info, a)
		ok := len(paths) == 1
		if ok {
			p := paths[0]
			imp := "RECV.registry.addImport<(template.Registry).addImport>(ARG0, ARG1)"
			add := p.CallsTo("MethodScope).AddName")
			// the variable's own import table is filled either here (third parameter) or by the caller from the
			// returned package
			fillsParam := hasStep(p, "store ARG2[ARG1.Path<(template.TypesPackage).Path>()] = "+imp) == 1
			returnsIt := p.Exit == "return" && len(p.Ret) == 1 && p.Ret[0] == imp
			ok = len(add) == 1 && add[0].Args[0] == imp+".Qualifier<(template.Package).Qualifier>()" &&
				(fillsParam || returnsIt) &&
				hasStep(p, "store RECV.imports[ARG1.Path<(template.TypesPackage).Path>()] = "+imp) == 1
			if ok && returnsIt && !fillsParam {
				// every caller stores the result under that same package's path
				aObj := info.Defs[a.Name]
				for _, g := range pkgFuncDecls(tp) {
					gc := newFuncCanon(info, g)
					ast.Inspect(g.Body, func(n ast.Node) bool {
						call, isCall := n.(*ast.CallExpr)
						if !isCall || len(call.Args) != 2 || !sameFunc(info.Uses[selIdent(call.Fun)], aObj) {
							return true
						}
						stored := false
						ast.Inspect(g.Body, func(m ast.Node) bool {
							if as, isAs := m.(*ast.AssignStmt); isAs && len(as.Lhs) == 1 && len(as.Rhs) == 1 && ast.Unparen(as.Rhs[0]) == ast.Expr(call) {
								if ie, isIdx := ast.Unparen(as.Lhs[0]).(*ast.IndexExpr); isIdx && stripRes(gc.E(ie.Index)) == stripRes(gc.E(call.Args[1]))+".Path()" {
									stored = true
								}
							}
							return true
						})
						c.Check(stored, rule, "MethodScope.addImport|caller-stores|"+g.Name.Name, r.Pos(call.Pos()), "the returned package is stored under its path in the variable's imports", g.Name.Name+" does not store the package returned by the scope's addImport under that package's own path: the variable's qualifier table misses it")
						return true
					})
				}
			}
		}
		c.Check(ok, rule, "MethodScope.addImport|bookkeeping", r.Pos(a.Pos()), "the registry's package is stored under the package path and its qualifier becomes a visible name", "MethodScope.addImport does not store the registry's package under pkg.Path() in both maps and make its qualifier a visible name")
		// only the scope's addImport (and the registry itself) may ask the registry for an import: any other
		// caller would add a qualifier to the file without making it a visible name of the method scope
		if ra := FuncDecl(tp, "Registry.addImport"); ra != nil {
			raObj := info.Defs[ra.Name]
			for _, g := range pkgFuncDecls(tp) {
				if g == a || g.Recv != nil && strings.HasSuffix(types.ExprString(g.Recv.List[0].Type), "Registry") {
					continue
				}
				ast.Inspect(g.Body, func(n ast.Node) bool {
					if call, isCall := n.(*ast.CallExpr); isCall && sameFunc(info.Uses[selIdent(call.Fun)], raObj) {
						c.Fail(rule, "Registry.addImport|caller|"+g.Name.Name, r.Pos(call.Pos()), g.Name.Name+" asks the registry for an import directly: the package gets a qualifier in the file, but the qualifier is not recorded as a visible name of the method scope, so a variable may be given the same name")
					}
					return true
				})
			}
		}
	}
}

func ruleImportsListing(c *Ctx, r *Repo, rule string) {
	tp := r.Pkg("template")
	info := tp.TypesInfo
	fd := FuncDecl(tp, "Registry.Imports")
	if fd == nil {
		c.Fail(rule, "Imports|missing", "template/registry.go", "Registry.Imports not found")
		return
	}
	c.Func(funcKey(tp, fd))
	okAppend, okSort, okRet := false, false, false
	var listObj types.Object
	for _, s := range fd.Body.List {
		switch x := s.(type) {
		case *ast.RangeStmt:
			if strings.HasSuffix(types.ExprString(x.X), ".imports") && len(x.Body.List) == 1 {
				if as, ok := x.Body.List[0].(*ast.AssignStmt); ok && len(as.Rhs) == 1 {
					if v, ok := x.Value.(*ast.Ident); ok {
						if call, ok := as.Rhs[0].(*ast.CallExpr); ok && calleeName(info, call) == "builtin.append" && len(call.Args) == 2 && types.ExprString(call.Args[1]) == v.Name && types.ExprString(call.Args[0]) == types.ExprString(as.Lhs[0]) {
							okAppend = true
							listObj = info.Uses[as.Lhs[0].(*ast.Ident)]
						}
					}
				}
			}
		case *ast.ExprStmt:
			if call, ok := x.X.(*ast.CallExpr); ok && (calleeName(info, call) == "sort.Slice" || calleeName(info, call) == "sort.SliceStable") && len(call.Args) == 2 {
				if id, ok := call.Args[0].(*ast.Ident); ok && info.Uses[id] == listObj {
					if fl, ok := call.Args[1].(*ast.FuncLit); ok && len(fl.Body.List) == 1 {
						if rs, ok := fl.Body.List[0].(*ast.ReturnStmt); ok && len(rs.Results) == 1 {
							s := types.ExprString(rs.Results[0])
							n := id.Name
							i, j := fl.Type.Params.List[0].Names[0].Name, fl.Type.Params.List[0].Names[len(fl.Type.Params.List[0].Names)-1].Name
							if len(fl.Type.Params.List) == 2 {
								j = fl.Type.Params.List[1].Names[0].Name
							}
							if s == fmt.Sprintf("%s[%s].Path() < %s[%s].Path()", n, i, n, j) {
								okSort = true
							} else {
								c.Fail(rule, "Imports|comparator", r.Pos(rs.Pos()), "the import list is ordered by "+s+", want ascending Path(): with aliases the list is no longer sorted by path")
							}
						}
					}
				}
			}
		case *ast.ReturnStmt:
			if len(x.Results) == 1 {
				if id, ok := x.Results[0].(*ast.Ident); ok && info.Uses[id] == listObj {
					okRet = true
				}
			}
		}
	}
	// the same with the standard-library helpers: list := slices.AppendSeq(<empty>, maps.Values(imports)) /
	// slices.Collect(maps.Values(imports)); slices.SortFunc(list, func(a, b) int { return strings.Compare(a.Path(), b.Path()) })
	if !okAppend {
		fcI := newFuncCanon(info, fd)
		for _, s := range fd.Body.List {
			switch x := s.(type) {
			case *ast.AssignStmt:
				if len(x.Lhs) == 1 && len(x.Rhs) == 1 {
					cx := fcI.E(x.Rhs[0])
					if cx == "slices.Collect(maps.Values(RECV.imports))" || strings.HasPrefix(cx, "slices.AppendSeq(builtin.make([]*Package, 0") && strings.HasSuffix(cx, "), maps.Values(RECV.imports))") {
						if id, ok := x.Lhs[0].(*ast.Ident); ok {
							okAppend = true
							listObj = objOf(info, id)
						}
					}
				}
			case *ast.ExprStmt:
				call, ok := x.X.(*ast.CallExpr)
				if !ok || len(call.Args) != 2 || !isObj(info, call.Args[0], listObj) {
					continue
				}
				if n := calleeName(info, call); n != "slices.SortFunc" && n != "slices.SortStableFunc" {
					continue
				}
				if fl, ok := call.Args[1].(*ast.FuncLit); ok && len(fl.Body.List) == 1 {
					var ps []string
					for _, f := range fl.Type.Params.List {
						for _, n := range f.Names {
							ps = append(ps, n.Name)
						}
					}
					if rs, ok := fl.Body.List[0].(*ast.ReturnStmt); ok && len(rs.Results) == 1 && len(ps) == 2 {
						got := types.ExprString(rs.Results[0])
						if got == fmt.Sprintf("strings.Compare(%s.Path(), %s.Path())", ps[0], ps[1]) || got == fmt.Sprintf("cmp.Compare(%s.Path(), %s.Path())", ps[0], ps[1]) {
							okSort = true
						} else {
							c.Fail(rule, "Imports|comparator", r.Pos(rs.Pos()), "the import list is ordered by "+got+", want ascending Path()")
						}
					}
				}
			case *ast.ReturnStmt:
				if len(x.Results) == 1 && isObj(info, x.Results[0], listObj) {
					okRet = true
				}
			}
		}
	}
	c.Check(okAppend, rule, "Imports|one-per-path", r.Pos(fd.Pos()), "each imports entry appended once", "Imports does not append each value of the imports map exactly once")
	c.Check(okSort && okRet, rule, "Imports|sorted-by-path", r.Pos(fd.Pos()), "sorted by Path() before being returned", "Imports does not return the list sorted by Path()")
	if pq := FuncDecl(tp, "Packages.PkgQualifier"); pq != nil {
		ok := false
		if rs := rangeOverC(tp, pq, "RECV"); rs != nil && len(rs.Body.List) == 1 {
			if ifs, isIf := rs.Body.List[0].(*ast.IfStmt); isIf {
				v := rs.Value.(*ast.Ident).Name
				arg := pq.Type.Params.List[0].Names[0].Name
				fcq := newFuncCanon(info, pq)
				retOK := false
				if len(ifs.Body.List) == 1 {
					if rs2, isRet := ifs.Body.List[0].(*ast.ReturnStmt); isRet && len(rs2.Results) == 2 && isNilIdent(info, rs2.Results[1]) {
						retOK = fcq.E(rs2.Results[0]) == "rangeval(RECV).Qualifier<(template.Package).Qualifier>()"
					}
				}
				_, _ = v, arg
				if c1 := fcq.E(ifs.Cond); (c1 == "rangeval(RECV).Path<(template.Package).Path>() == ARG0" || c1 == "ARG0 == rangeval(RECV).Path<(template.Package).Path>()") && retOK {
					if last, isRet := pq.Body.List[len(pq.Body.List)-1].(*ast.ReturnStmt); isRet && len(last.Results) == 2 && !isNilIdent(info, last.Results[1]) {
						ok = true
					}
				}
			}
		}
		if !ok {
			// idx := slices.IndexFunc(p, func(x *Package) bool { return x.Path() == pkgPath }); idx < 0 => error; else p[idx].Qualifier()
			var pred *ast.FuncLit
			var idxCall *ast.CallExpr
			ast.Inspect(pq.Body, func(n ast.Node) bool {
				if call, isCall := n.(*ast.CallExpr); isCall && calleeName(info, call) == "slices.IndexFunc" && len(call.Args) == 2 && isObj(info, call.Args[0], info.Defs[pq.Recv.List[0].Names[0]]) {
					if fl, isLit := call.Args[1].(*ast.FuncLit); isLit {
						pred, idxCall = fl, call
					}
				}
				return true
			})
			if pred != nil && len(pred.Body.List) == 1 && pred.Type.Params.NumFields() == 1 && len(pred.Type.Params.List[0].Names) == 1 {
				elem := pred.Type.Params.List[0].Names[0].Name
				arg := pq.Type.Params.List[0].Names[0].Name
				predOK := false
				if rs, isRet := pred.Body.List[0].(*ast.ReturnStmt); isRet && len(rs.Results) == 1 {
					got := types.ExprString(rs.Results[0])
					predOK = got == elem+".Path() == "+arg || got == arg+" == "+elem+".Path()"
				}
				paths, _ := enumerateFunc(info, pq)
				idx := newFuncCanon(info, pq).E(idxCall)
				good := predOK && len(paths) > 0
				for _, p := range paths {
					neg, has := p.atom(idx + " < 0")
					if !has {
						if v, h2 := p.atom(idx + " >= 0"); h2 {
							neg, has = !v, true
						}
					}
					if !has || p.Exit != "return" || len(p.Ret) != 2 {
						good = false
						continue
					}
					if neg {
						good = good && p.Ret[1] != "nil"
					} else {
						good = good && p.Ret[1] == "nil" && p.Ret[0] == "RECV["+idx+"].Qualifier<(template.Package).Qualifier>()"
					}
				}
				ok = good
			}
		}
		c.Check(ok, rule, "PkgQualifier|lookup", r.Pos(pq.Pos()), "qualifier of the element with that path, else an error", "Packages.PkgQualifier does not return the qualifier of the element whose Path() equals the argument (and an error otherwise)")
	}
}

// selIdent: the identifier naming the called function or method (nil for anything else).
func selIdent(fun ast.Expr) *ast.Ident {
	switch x := ast.Unparen(fun).(type) {
	case *ast.Ident:
		return x
	case *ast.SelectorExpr:
		return x.Sel
	}
	return nil
}
