package main

// Effect ownership: which call sites in the repository's own packages call
// file-system / process mutators. Callees are resolved with go/types.

import (
	"fmt"
	"go/ast"
	"go/constant"
	"go/types"
	"os"
	"strings"

	"golang.org/x/tools/go/packages"
)

var mutatorPkgs = map[string]bool{"os": true, "io/ioutil": true, "github.com/chigopher/pathlib": true, "github.com/spf13/afero": true, "os/exec": true, "syscall": true}

var mutatorNames = map[string]bool{
	"WriteFile": true, "WriteFileMode": true, "WriteReader": true, "SafeWriteReader": true, "Create": true, "CreateTemp": true, "TempFile": true, "TempDir": true,
	"Mkdir": true, "MkdirMode": true, "MkdirAll": true, "MkdirAllMode": true, "MkdirTemp": true, "Remove": true, "RemoveAll": true, "Rename": true, "RenameStr": true,
	"Chmod": true, "Chown": true, "Lchown": true, "Chtimes": true, "Truncate": true, "Symlink": true, "SymlinkStr": true, "Link": true, "Copy": true, "OpenFile": true,
	"Command": true, "CommandContext": true, "StartProcess": true, "Setenv": true, "Unsetenv": true, "Chdir": true,
}

type effectSite struct {
	Func   string   // funcKey of the function containing the call
	Chain  []string // Func and the functions it is a private helper of (ownerChain)
	Callee string
	Flags  string // for OpenFile: symbolic flags, "" otherwise
	Write  bool
	Pos    string
	Call   *ast.CallExpr
}

func (e effectSite) Key() string { return e.keyFor(e.Func) }

func (e effectSite) keyFor(fn string) string {
	k := fn + " -> " + e.Callee
	if e.Flags != "" {
		k += "[" + e.Flags + "]"
	}
	return k
}

// OwnedBy: is the site inside fn or inside a private helper of fn?
func (e effectSite) OwnedBy(fn string) bool {
	for _, k := range e.Chain {
		if k == fn {
			return true
		}
	}
	return false
}

// KeyIn returns the site's key under the first owner that the table knows (its own function's otherwise).
func (e effectSite) KeyIn(table map[string]string) string {
	for _, fn := range e.Chain {
		if _, ok := table[e.keyFor(fn)]; ok {
			return e.keyFor(fn)
		}
	}
	// an unexported method turned into a plain function (or the other way round) keeps its entry:
	// same package, same bare name, same callee
	for _, fn := range e.Chain {
		for k := range table {
			i := strings.Index(k, " -> ")
			if i < 0 || k[i:] != e.keyFor(fn)[len(fn):] {
				continue
			}
			if bareFuncKey(k[:i]) == bareFuncKey(fn) && !ast.IsExported(bareFuncKey(fn)[strings.LastIndex(bareFuncKey(fn), ".")+1:]) {
				return k
			}
		}
	}
	return e.Key()
}

func openFlags(info *types.Info, e ast.Expr) (string, bool, bool) {
	tv := info.Types[e]
	if tv.Value == nil || tv.Value.Kind() != constant.Int {
		return "non-constant", true, false
	}
	v, _ := constant.Int64Val(tv.Value)
	var names []string
	acc := v & int64(os.O_RDONLY|os.O_WRONLY|os.O_RDWR)
	switch acc {
	case int64(os.O_RDONLY):
		names = append(names, "O_RDONLY")
	case int64(os.O_WRONLY):
		names = append(names, "O_WRONLY")
	case int64(os.O_RDWR):
		names = append(names, "O_RDWR")
	}
	for _, f := range []struct {
		n string
		v int
	}{{"O_APPEND", os.O_APPEND}, {"O_CREATE", os.O_CREATE}, {"O_EXCL", os.O_EXCL}, {"O_SYNC", os.O_SYNC}, {"O_TRUNC", os.O_TRUNC}} {
		if v&int64(f.v) != 0 {
			names = append(names, f.n)
		}
	}
	write := acc != int64(os.O_RDONLY) || v&int64(os.O_CREATE|os.O_TRUNC|os.O_APPEND) != 0
	return strings.Join(names, "|"), write, true
}

// effectSites lists mutator call sites (and packages.Load, which runs `go list`) in a package.
func effectSites(r *Repo, p *packages.Package) []effectSite {
	info := p.TypesInfo
	var out []effectSite
	for _, f := range p.Syntax {
		for _, d := range f.Decls {
			fd, ok := d.(*ast.FuncDecl)
			if !ok || fd.Body == nil {
				continue
			}
			ast.Inspect(fd.Body, func(n ast.Node) bool {
				call, ok := n.(*ast.CallExpr)
				if !ok {
					return true
				}
				fn := calleeFunc(info, call)
				if fn == nil || fn.Pkg() == nil {
					return true
				}
				pkg := fn.Pkg().Path()
				name := strings.ReplaceAll(fn.FullName(), "*", "")
				switch {
				case pkg == "golang.org/x/tools/go/packages" && fn.Name() == "Load":
					out = append(out, effectSite{Func: funcKey(p, fd), Chain: ownerChain(p, fd), Callee: name, Write: false, Pos: r.Pos(call.Pos()), Call: call})
				case mutatorPkgs[pkg] && mutatorNames[fn.Name()]:
					s := effectSite{Func: funcKey(p, fd), Chain: ownerChain(p, fd), Callee: name, Write: true, Pos: r.Pos(call.Pos()), Call: call}
					if fn.Name() == "OpenFile" {
						var fe ast.Expr
						sig := fn.Type().(*types.Signature)
						for i := 0; i < sig.Params().Len() && i < len(call.Args); i++ {
							if b, ok := sig.Params().At(i).Type().Underlying().(*types.Basic); ok && b.Kind() == types.Int {
								fe = call.Args[i]
								break
							}
						}
						if fe != nil {
							s.Flags, s.Write, _ = openFlags(info, fe)
						} else {
							s.Flags = "unknown"
						}
					}
					out = append(out, s)
				}
				return true
			})
		}
	}
	return out
}

// checkEffectTable compares the sites of the given packages with the allowed table.
func checkEffectTable(c *Ctx, r *Repo, rule string, pkgs []string, allowed map[string]string, only func(effectSite) bool) map[string][]effectSite {
	seen := map[string][]effectSite{}
	for _, rel := range pkgs {
		for _, s := range effectSites(r, r.Pkg(rel)) {
			if only != nil && !only(s) {
				continue
			}
			key := s.KeyIn(allowed)
			seen[key] = append(seen[key], s)
			if why, ok := allowed[key]; ok {
				c.OK(rule, key, s.Pos, why)
			} else {
				c.Fail(rule, "effect|"+s.Key(), s.Pos, fmt.Sprintf("%s calls %s%s, which is not in the table of sites allowed to touch the file system / spawn processes", s.Func, s.Callee, map[bool]string{true: " with flags " + s.Flags}[s.Flags != ""]))
			}
		}
	}
	return seen
}

// bareFuncKey drops the receiver type from a function key: "config.RootConfig.subPackages" -> "config.subPackages".
func bareFuncKey(k string) string {
	parts := strings.Split(k, ".")
	if len(parts) >= 3 {
		return strings.Join(parts[:len(parts)-2], ".") + "." + parts[len(parts)-1]
	}
	return k
}
