package main

// Effect ownership: which call sites in the repository's own packages call
// file-system / process mutators. Callees are resolved with go/types.

import (
	"fmt"
	"go/ast"
	"go/constant"
	"go/types"
	"os"
	"sort"
	"strings"

	"golang.org/x/tools/go/packages"
)

var mutatorPkgs = map[string]bool{"os": true, "io/ioutil": true, "github.com/chigopher/pathlib": true, "github.com/spf13/afero": true, "os/exec": true, "syscall": true}

var mutatorNames = map[string]bool{
	"WriteFile": true, "WriteFileMode": true, "WriteReader": true, "SafeWriteReader": true, "Create": true, "CreateTemp": true, "TempFile": true, "TempDir": true,
	"Mkdir": true, "MkdirMode": true, "MkdirAll": true, "MkdirAllMode": true, "MkdirTemp": true, "Remove": true, "RemoveAll": true, "Rename": true, "RenameStr": true,
	"Chmod": true, "Chown": true, "Lchown": true, "Chtimes": true, "Truncate": true, "Symlink": true, "SymlinkStr": true, "Link": true, "Copy": true, "OpenFile": true,
	"Command": true, "CommandContext": true, "StartProcess": true, "Setenv": true, "Unsetenv": true, "Chdir": true,
}

type effectSite struct {
	Func   string   // funcKey of the function containing the call
	Chain  []string // Func and the functions it is a private helper of (ownerChain)
	Callee string
	Flags  string // for OpenFile: symbolic flags, "" otherwise
	Write  bool
	Pos    string
	Call   *ast.CallExpr
}

func (e effectSite) Key() string { return e.keyFor(e.Func) }

func (e effectSite) keyFor(fn string) string {
	k := fn + " -> " + e.Callee
	if e.Flags != "" {
		k += "[" + e.Flags + "]"
	}
	return k
}

// OwnedBy: is the site inside fn or inside a private helper of fn?
func (e effectSite) OwnedBy(fn string) bool {
	for _, k := range e.Chain {
		if k == fn {
			return true
		}
	}
	return false
}

// KeyIn returns the site's key under the first owner that the table knows (its own function's otherwise).
func (e effectSite) KeyIn(table map[string]string) string {
	for _, fn := range e.Chain {
		if _, ok := table[e.keyFor(fn)]; ok {
			return e.keyFor(fn)
		}
	}
	// an unexported method turned into a plain function (or the other way round) keeps its entry:
	// same package, same bare name, same callee
	for _, fn := range e.Chain {
		for k := range table {
			i := strings.Index(k, " -> ")
			if i < 0 || k[i:] != e.keyFor(fn)[len(fn):] {
				continue
			}
			if bareFuncKey(k[:i]) == bareFuncKey(fn) && !ast.IsExported(bareFuncKey(fn)[strings.LastIndex(bareFuncKey(fn), ".")+1:]) {
				return k
			}
		}
	}
	return e.Key()
}

func openFlags(info *types.Info, e ast.Expr) (string, bool, bool) {
	tv := info.Types[e]
	if tv.Value == nil || tv.Value.Kind() != constant.Int {
		return "non-constant", true, false
	}
	v, _ := constant.Int64Val(tv.Value)
	names, write := flagNames(v)
	return names, write, true
}

// flagNames prints an os.OpenFile flag value symbolically and says whether it opens for writing.
func flagNames(v int64) (string, bool) {
	var names []string
	acc := v & int64(os.O_RDONLY|os.O_WRONLY|os.O_RDWR)
	switch acc {
	case int64(os.O_RDONLY):
		names = append(names, "O_RDONLY")
	case int64(os.O_WRONLY):
		names = append(names, "O_WRONLY")
	case int64(os.O_RDWR):
		names = append(names, "O_RDWR")
	}
	for _, f := range []struct {
		n string
		v int
	}{{"O_APPEND", os.O_APPEND}, {"O_CREATE", os.O_CREATE}, {"O_EXCL", os.O_EXCL}, {"O_SYNC", os.O_SYNC}, {"O_TRUNC", os.O_TRUNC}} {
		if v&int64(f.v) != 0 {
			names = append(names, f.n)
		}
	}
	write := acc != int64(os.O_RDONLY) || v&int64(os.O_CREATE|os.O_TRUNC|os.O_APPEND) != 0
	return strings.Join(names, "|"), write
}

// pathFlags: for an OpenFile call whose flags are not a constant expression, the values the flags
// evaluate to along the enumerated paths of the enclosing function (a local built up conditionally:
// flags := A; if w { flags = A|B }). ok is false when some path leaves them symbolic.
func pathFlags(p *packages.Package, fd *ast.FuncDecl, call *ast.CallExpr, argIdx int) (vals []int64, ok bool) {
	d := newDT(p.TypesInfo)
	d.paths = nil
	d.stmts(seedEnv(d, fd), fd.Body.List, func(q *dtPath) { d.finish(q, "end") })
	if d.overflow {
		return nil, false
	}
	known := map[string]int64{"os.O_RDONLY": int64(os.O_RDONLY), "os.O_WRONLY": int64(os.O_WRONLY), "os.O_RDWR": int64(os.O_RDWR), "os.O_APPEND": int64(os.O_APPEND),
		"os.O_CREATE": int64(os.O_CREATE), "os.O_EXCL": int64(os.O_EXCL), "os.O_SYNC": int64(os.O_SYNC), "os.O_TRUNC": int64(os.O_TRUNC)}
	seen := map[int64]bool{}
	n := 0
	for _, q := range d.paths {
		for _, c := range q.Calls {
			if c.Pos != call.Pos() || argIdx >= len(c.Args) {
				continue
			}
			n++
			var v int64
			for _, t := range strings.Split(c.Args[argIdx], " | ") {
				k, isKnown := known[strings.TrimSpace(t)]
				if !isKnown {
					return nil, false
				}
				v |= k
			}
			if !seen[v] {
				seen[v] = true
				vals = append(vals, v)
			}
		}
	}
	sort.Slice(vals, func(i, j int) bool { return vals[i] < vals[j] })
	return vals, n > 0
}

// effectSites lists mutator call sites (and packages.Load, which runs `go list`) in a package.
func effectSites(r *Repo, p *packages.Package) []effectSite {
	info := p.TypesInfo
	var out []effectSite
	for _, f := range p.Syntax {
		for _, d := range f.Decls {
			fd, ok := d.(*ast.FuncDecl)
			if !ok || fd.Body == nil {
				continue
			}
			ast.Inspect(fd.Body, func(n ast.Node) bool {
				call, ok := n.(*ast.CallExpr)
				if !ok {
					return true
				}
				fn := calleeFunc(info, call)
				if fn == nil || fn.Pkg() == nil {
					return true
				}
				pkg := fn.Pkg().Path()
				name := strings.ReplaceAll(fn.FullName(), "*", "")
				switch {
				case pkg == "golang.org/x/tools/go/packages" && fn.Name() == "Load":
					out = append(out, effectSite{Func: funcKey(p, fd), Chain: ownerChain(p, fd), Callee: name, Write: false, Pos: r.Pos(call.Pos()), Call: call})
				case mutatorPkgs[pkg] && mutatorNames[fn.Name()]:
					s := effectSite{Func: funcKey(p, fd), Chain: ownerChain(p, fd), Callee: name, Write: true, Pos: r.Pos(call.Pos()), Call: call}
					if fn.Name() == "OpenFile" {
						var fe ast.Expr
						feIdx := -1
						sig := fn.Type().(*types.Signature)
						for i := 0; i < sig.Params().Len() && i < len(call.Args); i++ {
							if b, ok := sig.Params().At(i).Type().Underlying().(*types.Basic); ok && b.Kind() == types.Int {
								fe, feIdx = call.Args[i], i
								break
							}
						}
						if fe != nil {
							var constant bool
							s.Flags, s.Write, constant = openFlags(info, fe)
							if !constant {
								// flags handed in by the callers (a parameter of this unexported function): one
								// site per caller, owned by that caller, with the constant it passes
								if sv, ok := callerFlags(r, p, fd, fe, s); ok {
									out = append(out, sv...)
									return true
								}
								// one site per value the flags take along the function's paths
								if vals, ok := pathFlags(p, fd, call, feIdx); ok {
									for _, v := range vals {
										sv := s
										sv.Flags, sv.Write = flagNames(v)
										out = append(out, sv)
									}
									return true
								}
							}
						} else {
							s.Flags = "unknown"
						}
					}
					out = append(out, s)
				}
				return true
			})
		}
	}
	return out
}

// checkEffectTable compares the sites of the given packages with the allowed table.
func checkEffectTable(c *Ctx, r *Repo, rule string, pkgs []string, allowed map[string]string, only func(effectSite) bool) map[string][]effectSite {
	seen := map[string][]effectSite{}
	for _, rel := range pkgs {
		for _, s := range effectSites(r, r.Pkg(rel)) {
			if only != nil && !only(s) {
				continue
			}
			key := s.KeyIn(allowed)
			seen[key] = append(seen[key], s)
			if why, ok := allowed[key]; ok {
				c.OK(rule, key, s.Pos, why)
			} else {
				c.Fail(rule, "effect|"+s.Key(), s.Pos, fmt.Sprintf("%s calls %s%s, which is not in the table of sites allowed to touch the file system / spawn processes", s.Func, s.Callee, map[bool]string{true: " with flags " + s.Flags}[s.Flags != ""]))
			}
		}
	}
	return seen
}

// bareFuncKey drops the receiver type from a function key: "config.RootConfig.subPackages" -> "config.subPackages".
func bareFuncKey(k string) string {
	parts := strings.Split(k, ".")
	if len(parts) >= 3 {
		return strings.Join(parts[:len(parts)-2], ".") + "." + parts[len(parts)-1]
	}
	return k
}

// callerFlags: when the flags expression is a parameter of the enclosing unexported function and every caller
// passes a constant, the site is reported once per caller, with that caller's flags and ownership.
func callerFlags(r *Repo, p *packages.Package, fd *ast.FuncDecl, fe ast.Expr, s effectSite) ([]effectSite, bool) {
	info := p.TypesInfo
	id, ok := ast.Unparen(fe).(*ast.Ident)
	if !ok {
		return nil, false
	}
	idx, i := -1, 0
	for _, f := range fd.Type.Params.List {
		for _, n := range f.Names {
			if info.Defs[n] == info.Uses[id] {
				idx = i
			}
			i++
		}
	}
	fn, _ := info.Defs[fd.Name].(*types.Func)
	if idx < 0 || fn == nil || fn.Exported() {
		return nil, false
	}
	// the parameter must not be reassigned
	reassigned := false
	ast.Inspect(fd.Body, func(n ast.Node) bool {
		if as, ok := n.(*ast.AssignStmt); ok {
			for _, l := range as.Lhs {
				if isObj(info, l, info.Uses[id]) {
					reassigned = true
				}
			}
		}
		return true
	})
	if reassigned {
		return nil, false
	}
	var out []effectSite
	for _, g := range pkgFuncDecls(p) {
		bad := false
		ast.Inspect(g.Body, func(n ast.Node) bool {
			call, ok := n.(*ast.CallExpr)
			if !ok || calleeFunc(info, call) != fn || idx >= len(call.Args) {
				return true
			}
			flags, write, constant := openFlags(info, call.Args[idx])
			if !constant {
				bad = true
				return true
			}
			sv := s
			sv.Flags, sv.Write = flags, write
			sv.Chain = append([]string{s.Func}, ownerChain(p, g)...)
			out = append(out, sv)
			return true
		})
		if bad {
			return nil, false
		}
	}
	return out, len(out) > 0
}
