package main

// Rename-insensitive printing of expressions inside one function: receiver
// and parameters are printed by position, a local with exactly one definition
// is replaced by the canonical form of what it is defined from (range
// variables by the ranged expression), a local assigned more than once by its
// type. Package-level objects, fields and methods keep their names. Rules
// match on these strings instead of on source identifiers, so renaming a
// local, parameter or receiver does not change what a rule sees.

import (
	"go/ast"
	"go/token"
	"go/types"
	"strings"

	"golang.org/x/tools/go/packages"
)

type fcanon struct {
	d *dtEnum
	p *dtPath
}

func shortType(t types.Type) string {
	return types.TypeString(t, func(p *types.Package) string {
		return strings.TrimPrefix(p.Path(), modPath+"/")
	})
}

func newFuncCanon(info *types.Info, fd *ast.FuncDecl) *fcanon { return newFuncCanonMode(info, fd, false) }

// newFuncCanonG additionally prints calls of the package's trivial getters as the field they return.
func newFuncCanonG(p *packages.Package, fd *ast.FuncDecl) *fcanon {
	return newFuncCanonOpt(p.TypesInfo, fd, false, pkgGetters(p))
}

// newFuncCanonAbs prints receiver, parameters and every other variable without a single definition
// by type (var<T>), so the result does not depend on which function the expression sits in.
func newFuncCanonAbs(info *types.Info, fd *ast.FuncDecl) *fcanon { return newFuncCanonMode(info, fd, true) }

func newFuncCanonMode(info *types.Info, fd *ast.FuncDecl, abs bool) *fcanon {
	return newFuncCanonOpt(info, fd, abs, nil)
}

func newFuncCanonOpt(info *types.Info, fd *ast.FuncDecl, abs bool, getters map[*types.Func]string) *fcanon {
	d := newDT(info)
	d.getters = getters
	p := seedEnv(d, fd)
	if abs {
		d.absVars = true
		for o := range p.env {
			p.env[o] = "var<" + shortType(o.Type()) + ">"
		}
	}
	f := &fcanon{d, p}
	// count definitions/assignments per local
	n := map[types.Object]int{}
	note := func(id *ast.Ident) {
		if id == nil || id.Name == "_" {
			return
		}
		obj := info.Defs[id]
		if obj == nil {
			obj = info.Uses[id]
		}
		if v, ok := obj.(*types.Var); ok && !v.IsField() {
			n[obj]++
		}
	}
	ast.Inspect(fd.Body, func(x ast.Node) bool {
		switch s := x.(type) {
		case *ast.AssignStmt:
			for _, l := range s.Lhs {
				if id, ok := l.(*ast.Ident); ok {
					note(id)
				}
			}
		case *ast.ValueSpec:
			for _, id := range s.Names {
				note(id)
			}
		case *ast.RangeStmt:
			if id, ok := s.Key.(*ast.Ident); ok {
				note(id)
			}
			if id, ok := s.Value.(*ast.Ident); ok {
				note(id)
			}
		case *ast.IncDecStmt:
			if id, ok := s.X.(*ast.Ident); ok {
				note(id)
				note(id)
			}
		case *ast.UnaryExpr:
			if s.Op == token.AND {
				if id, ok := s.X.(*ast.Ident); ok {
					note(id) // address taken: may be written elsewhere
				}
			}
		}
		return true
	})
	bind := func(id *ast.Ident, val string) {
		if id == nil || id.Name == "_" {
			return
		}
		obj := info.Defs[id]
		if obj == nil {
			obj = info.Uses[id]
		}
		v, ok := obj.(*types.Var)
		if !ok || v.IsField() {
			return
		}
		if cur, seeded := p.env[obj]; seeded && (cur == "RECV" || strings.HasPrefix(cur, "ARG") || abs) {
			// a parameter that is also assigned holds more than one value
			p.env[obj] = "var<" + shortType(obj.Type()) + ">"
			return
		}
		if n[obj] == 1 {
			p.env[obj] = val
		} else {
			p.env[obj] = "var<" + shortType(obj.Type()) + ">"
		}
	}
	// definitions in source order
	ast.Inspect(fd.Body, func(x ast.Node) bool {
		switch s := x.(type) {
		case *ast.AssignStmt:
			switch {
			case len(s.Lhs) == len(s.Rhs):
				for i, l := range s.Lhs {
					if id, ok := l.(*ast.Ident); ok {
						bind(id, d.canon(p, s.Rhs[i]))
					}
				}
			case len(s.Rhs) == 1:
				base := d.canon(p, s.Rhs[0])
				for i, l := range s.Lhs {
					if id, ok := l.(*ast.Ident); ok {
						suf := "#" + string(rune('0'+i))
						switch ast.Unparen(s.Rhs[0]).(type) {
						case *ast.IndexExpr, *ast.TypeAssertExpr:
							suf = []string{"", "#ok"}[i]
						}
						bind(id, base+suf)
					}
				}
			}
		case *ast.ValueSpec:
			for i, id := range s.Names {
				if i < len(s.Values) {
					bind(id, d.canon(p, s.Values[i]))
				} else {
					bind(id, "zero<"+shortType(info.Defs[id].Type())+">")
				}
			}
		case *ast.RangeStmt:
			base := d.canon(p, s.X)
			if id, ok := s.Key.(*ast.Ident); ok {
				bind(id, "rangekey("+base+")")
			}
			if id, ok := s.Value.(*ast.Ident); ok {
				bind(id, "rangeval("+base+")")
			}
		}
		return true
	})
	return f
}

// E prints an expression rename-insensitively.
func (f *fcanon) E(e ast.Expr) string { return f.d.canon(f.p, e) }

// Obj returns the canonical definition recorded for a local, or "".
func (f *fcanon) Obj(o types.Object) string { return f.p.env[o] }
