package main

// Rename-insensitive printing of expressions inside one function: receiver
// and parameters are printed by position, a local with exactly one definition
// is replaced by the canonical form of what it is defined from (range
// variables by the ranged expression), a local assigned more than once by its
// type. Package-level objects, fields and methods keep their names. Rules
// match on these strings instead of on source identifiers, so renaming a
// local, parameter or receiver does not change what a rule sees.

import (
	"go/ast"
	"go/token"
	"go/types"
	"strings"

	"golang.org/x/tools/go/packages"
)

type fcanon struct {
	d *dtEnum
	p *dtPath
}

func shortType(t types.Type) string {
	return types.TypeString(t, func(p *types.Package) string {
		return strings.TrimPrefix(p.Path(), modPath+"/")
	})
}

func newFuncCanon(info *types.Info, fd *ast.FuncDecl) *fcanon {
	return newFuncCanonMode(info, fd, false)
}

// newFuncCanonG additionally prints calls of the package's trivial getters as the field they return.
func newFuncCanonG(p *packages.Package, fd *ast.FuncDecl) *fcanon {
	return newFuncCanonOpt(p.TypesInfo, fd, false, pkgGetters(p))
}

// newFuncCanonAbs prints receiver, parameters and every other variable without a single definition
// by type (var<T>), so the result does not depend on which function the expression sits in.
func newFuncCanonAbs(info *types.Info, fd *ast.FuncDecl) *fcanon {
	return newFuncCanonMode(info, fd, true)
}

func newFuncCanonMode(info *types.Info, fd *ast.FuncDecl, abs bool) *fcanon {
	return newFuncCanonOpt(info, fd, abs, nil)
}

func newFuncCanonOpt(info *types.Info, fd *ast.FuncDecl, abs bool, getters map[*types.Func]string) *fcanon {
	return newFuncCanonSeed(info, fd, abs, getters, nil)
}

// calleeCanon: the canonical printer of callee g as seen from a call site: g's parameters print as the
// caller's canonical argument expressions and its receiver as the caller's canonical receiver expression.
// nil when the call does not bind g's parameters one to one.
func calleeCanon(info *types.Info, caller *fcanon, call *ast.CallExpr, g *ast.FuncDecl) *fcanon {
	if g == nil || g.Body == nil || call.Ellipsis.IsValid() || g.Type.Params.NumFields() != len(call.Args) {
		return nil
	}
	for _, f := range g.Type.Params.List {
		if _, variadic := f.Type.(*ast.Ellipsis); variadic {
			return nil
		}
	}
	seed := make([]string, len(call.Args))
	for i, a := range call.Args {
		seed[i] = caller.E(a)
	}
	fc := newFuncCanonSeed(info, g, false, caller.d.getters, seed)
	if g.Recv != nil && len(g.Recv.List) == 1 && len(g.Recv.List[0].Names) == 1 {
		sel, ok := ast.Unparen(call.Fun).(*ast.SelectorExpr)
		if !ok {
			return nil
		}
		if rv := caller.E(sel.X); rv != "RECV" {
			// re-seed with the receiver's canonical form: definitions were computed with RECV, recompute
			fc = newFuncCanonSeedRecv(info, g, false, caller.d.getters, seed, rv)
		}
	}
	return fc
}

// newFuncCanonSeed: seed[i] != "" is printed for the i-th parameter instead of ARGi (a callee seen
// from a call site: its parameters are the caller's canonical argument expressions).
func newFuncCanonSeed(info *types.Info, fd *ast.FuncDecl, abs bool, getters map[*types.Func]string, seed []string) *fcanon {
	return newFuncCanonSeedRecv(info, fd, abs, getters, seed, "")
}

func newFuncCanonSeedRecv(info *types.Info, fd *ast.FuncDecl, abs bool, getters map[*types.Func]string, seed []string, recv string) *fcanon {
	d := newDT(info)
	d.getters = getters
	p := seedEnv(d, fd)
	params := map[types.Object]bool{}
	for o := range p.env {
		params[o] = true
	}
	if recv != "" && fd.Recv != nil {
		for _, f := range fd.Recv.List {
			for _, n := range f.Names {
				p.env[info.Defs[n]] = recv
			}
		}
	}
	if seed != nil {
		i := 0
		for _, f := range fd.Type.Params.List {
			for _, n := range f.Names {
				if i < len(seed) && seed[i] != "" {
					p.env[info.Defs[n]] = seed[i]
				}
				i++
			}
			if len(f.Names) == 0 {
				i++
			}
		}
	}
	if abs {
		d.absVars = true
		for o := range p.env {
			p.env[o] = "var<" + shortType(o.Type()) + ">"
		}
	}
	f := &fcanon{d, p}
	// count definitions/assignments per local
	n := map[types.Object]int{}
	note := func(id *ast.Ident) {
		if id == nil || id.Name == "_" {
			return
		}
		obj := info.Defs[id]
		if obj == nil {
			obj = info.Uses[id]
		}
		if v, ok := obj.(*types.Var); ok && !v.IsField() {
			n[obj]++
		}
	}
	ast.Inspect(fd.Body, func(x ast.Node) bool {
		switch s := x.(type) {
		case *ast.AssignStmt:
			for _, l := range s.Lhs {
				if id, ok := l.(*ast.Ident); ok {
					note(id)
				}
			}
		case *ast.ValueSpec:
			for _, id := range s.Names {
				note(id)
			}
		case *ast.RangeStmt:
			if id, ok := s.Key.(*ast.Ident); ok {
				note(id)
			}
			if id, ok := s.Value.(*ast.Ident); ok {
				note(id)
			}
		case *ast.IncDecStmt:
			if id, ok := s.X.(*ast.Ident); ok {
				note(id)
				note(id)
			}
		case *ast.UnaryExpr:
			if s.Op == token.AND {
				if id, ok := s.X.(*ast.Ident); ok {
					note(id) // address taken: may be written elsewhere
				}
			}
		}
		return true
	})
	bind := func(id *ast.Ident, val string) {
		if id == nil || id.Name == "_" {
			return
		}
		obj := info.Defs[id]
		if obj == nil {
			obj = info.Uses[id]
		}
		v, ok := obj.(*types.Var)
		if !ok || v.IsField() {
			return
		}
		if _, seeded := p.env[obj]; seeded && (params[obj] || abs) {
			// a parameter that is also assigned holds more than one value
			p.env[obj] = "var<" + shortType(obj.Type()) + ">"
			return
		}
		if n[obj] == 1 {
			p.env[obj] = val
		} else {
			p.env[obj] = "var<" + shortType(obj.Type()) + ">"
		}
	}
	// definitions in source order
	ast.Inspect(fd.Body, func(x ast.Node) bool {
		switch s := x.(type) {
		case *ast.AssignStmt:
			switch {
			case len(s.Lhs) == len(s.Rhs):
				for i, l := range s.Lhs {
					if id, ok := l.(*ast.Ident); ok {
						bind(id, d.canon(p, s.Rhs[i]))
					}
				}
			case len(s.Rhs) == 1:
				base := d.canon(p, s.Rhs[0])
				for i, l := range s.Lhs {
					if id, ok := l.(*ast.Ident); ok {
						suf := "#" + string(rune('0'+i))
						switch ast.Unparen(s.Rhs[0]).(type) {
						case *ast.IndexExpr, *ast.TypeAssertExpr:
							suf = []string{"", "#ok"}[i]
						}
						bind(id, base+suf)
					}
				}
			}
		case *ast.ValueSpec:
			for i, id := range s.Names {
				if i < len(s.Values) {
					bind(id, d.canon(p, s.Values[i]))
				} else {
					bind(id, "zero<"+shortType(info.Defs[id].Type())+">")
				}
			}
		case *ast.RangeStmt:
			base := d.canon(p, s.X)
			if id, ok := s.Key.(*ast.Ident); ok {
				bind(id, "rangekey("+base+")")
			}
			if id, ok := s.Value.(*ast.Ident); ok {
				bind(id, "rangeval("+base+")")
			}
		}
		return true
	})
	return f
}

// E prints an expression rename-insensitively.
func (f *fcanon) E(e ast.Expr) string { return f.d.canon(f.p, e) }

// Obj returns the canonical definition recorded for a local, or "".
func (f *fcanon) Obj(o types.Object) string { return f.p.env[o] }
