package main

import (
	"fmt"
	"go/ast"
	"go/token"
	"go/types"
	"sort"
	"strconv"
	"strings"

	"golang.org/x/tools/go/packages"
)

func init() { register("C18", checkC18); register("C19", checkC19) }

// ruleTagAgreement: what the YAML encoder can emit, the strict koanf decoder knows.
func ruleTagAgreement(c *Ctx, r *Repo, rule string) {
	cp := r.Pkg("config")
	for _, tn := range []string{"Config", "RootConfig", "PackageConfig", "InterfaceConfig", "ReplaceType"} {
		obj, _ := cp.Types.Scope().Lookup(tn).(*types.TypeName)
		if obj == nil {
			c.Fail(rule, "tags|"+tn+"|missing", "config/config.go", "type "+tn+" not found")
			continue
		}
		st := obj.Type().Underlying().(*types.Struct)
		for i := 0; i < st.NumFields(); i++ {
			f := st.Field(i)
			if !f.Exported() {
				continue
			}
			y, k := tagName(st.Tag(i), "yaml"), tagName(st.Tag(i), "koanf")
			yo, ko := tagOpts(st.Tag(i), "yaml"), tagOpts(st.Tag(i), "koanf")
			key := "tags|" + tn + "." + f.Name()
			switch {
			case f.Embedded():
				c.Check(strings.Contains(yo, "inline") && strings.Contains(ko, "squash"), rule, key, "config/config.go", "embedded: yaml inline <-> koanf squash", fmt.Sprintf("embedded field %s.%s is not inlined by both the YAML encoder (yaml:\",inline\") and the decoder (koanf:\",squash\")", tn, f.Name()))
			default:
				c.Check(y != "" && y == k, rule, key, "config/config.go", "yaml and koanf name: "+y, fmt.Sprintf("%s.%s is written as %q by the YAML encoder (init, migrate) but read as %q by the strict loader: a file mockery wrote itself is rejected or the value is lost", tn, f.Name(), y, k))
			}
		}
	}
}

// ruleFindConfig: nearest directory first, then the name alternatives.
func ruleFindConfig(c *Ctx, r *Repo, rule string) {
	p := r.Pkg("internal/config")
	fd := FuncDecl(p, "FindConfig")
	if fd == nil {
		c.Fail(rule, "FindConfig|missing", "internal/config/config.go", "FindConfig not found")
		return
	}
	c.Func(funcKey(p, fd))
	info := p.TypesInfo
	fc := newFuncCanon(info, fd)
	// X = X.Parent(): returns the advanced variable
	advance := func(n ast.Node) types.Object {
		as, isAssign := n.(*ast.AssignStmt)
		if !isAssign || as.Tok != token.ASSIGN || len(as.Lhs) != 1 || len(as.Rhs) != 1 {
			return nil
		}
		l, isID := as.Lhs[0].(*ast.Ident)
		call, isCall := ast.Unparen(as.Rhs[0]).(*ast.CallExpr)
		if !isID || !isCall || !strings.HasSuffix(calleeName(info, call), "pathlib.Path).Parent") {
			return nil
		}
		if sel, isSel := call.Fun.(*ast.SelectorExpr); isSel {
			if x, isX := ast.Unparen(sel.X).(*ast.Ident); isX && info.Uses[x] == info.Uses[l] {
				return info.Uses[l]
			}
		}
		return nil
	}
	ok := false
	ast.Inspect(fd.Body, func(n ast.Node) bool {
		outer, isFor := n.(*ast.ForStmt)
		if !isFor || ok {
			return true
		}
		// inner loops over the candidate names: contain <dir>.Join(..).Exists() and a return
		var inner []ast.Stmt
		ast.Inspect(outer.Body, func(m ast.Node) bool {
			switch m.(type) {
			case *ast.RangeStmt, *ast.ForStmt:
				probes, returns := false, false
				ast.Inspect(m, func(k ast.Node) bool {
					switch y := k.(type) {
					case *ast.CallExpr:
						if strings.HasSuffix(calleeName(info, y), "pathlib.Path).Exists") && strings.Contains(fc.E(y), ".Join<(github.com/chigopher/pathlib.Path).Join>(") {
							probes = true
						}
					case *ast.ReturnStmt:
						returns = true
					}
					return true
				})
				if probes && returns {
					inner = append(inner, m.(ast.Stmt))
				}
				return false
			}
			return true
		})
		if len(inner) == 0 {
			// the loop over the names may sit in a function of the package that is handed the directory: the
			// statement that calls it stands for the loop
			ast.Inspect(outer.Body, func(m ast.Node) bool {
				call, isCall := m.(*ast.CallExpr)
				if !isCall {
					return true
				}
				h := pkgFuncs(p)[calleeFunc(info, call)]
				if h == nil || h == fd || h.Body == nil {
					return true
				}
				hfc := newFuncCanon(info, h)
				good := false
				ast.Inspect(h.Body, func(k ast.Node) bool {
					switch k.(type) {
					case *ast.RangeStmt, *ast.ForStmt:
						probes, returns := false, false
						ast.Inspect(k, func(q ast.Node) bool {
							switch y := q.(type) {
							case *ast.CallExpr:
								if strings.HasSuffix(calleeName(info, y), "pathlib.Path).Exists") && strings.HasPrefix(hfc.E(y), "ARG") && strings.Contains(hfc.E(y), ".Join<(github.com/chigopher/pathlib.Path).Join>(") {
									probes = true
								}
							case *ast.ReturnStmt:
								returns = true
							}
							return true
						})
						if probes && returns {
							good = true
						}
						return false
					}
					return true
				})
				if good {
					for _, st := range outer.Body.List {
						if st.Pos() <= call.Pos() && call.End() <= st.End() {
							inner = append(inner, st)
						}
					}
				}
				return true
			})
		}
		if len(inner) != 1 {
			return true
		}
		// the directory advances once per outer iteration, after (outside) the loop over the names
		var dir types.Object
		insideInner := false
		if outer.Post != nil {
			dir = advance(outer.Post)
		}
		ast.Inspect(outer.Body, func(m ast.Node) bool {
			if o := advance(m); o != nil {
				if m.Pos() >= inner[0].Pos() && m.End() <= inner[0].End() {
					insideInner = true
				} else if m.Pos() > inner[0].End() {
					dir = o
				}
			}
			return true
		})
		if dir != nil && !insideInner {
			ok = true
		}
		return true
	})
	// or: the directories are listed first (nearest first: a loop that appends the current directory and then
	// moves to its parent, in FindConfig or in a helper it calls) and the list is ranged over, with the loop over
	// the names inside
	if !ok {
		builtNearestFirst := func(g *ast.FuncDecl) bool {
			found := false
			ast.Inspect(g.Body, func(n ast.Node) bool {
				fs, isFor := n.(*ast.ForStmt)
				if !isFor || found {
					return true
				}
				var dir types.Object
				if fs.Post != nil {
					dir = advance(fs.Post)
				}
				var appendPos, advPos token.Pos
				ast.Inspect(fs.Body, func(m ast.Node) bool {
					if o := advance(m); o != nil && dir == nil {
						dir, advPos = o, m.Pos()
					}
					return true
				})
				if dir == nil {
					return true
				}
				ast.Inspect(fs.Body, func(m ast.Node) bool {
					if call, isCall := m.(*ast.CallExpr); isCall && calleeName(info, call) == "builtin.append" && len(call.Args) == 2 && isObj(info, call.Args[1], dir) {
						appendPos = call.Pos()
					}
					return true
				})
				if appendPos.IsValid() && (!advPos.IsValid() || appendPos < advPos) {
					found = true
				}
				return true
			})
			return found
		}
		ast.Inspect(fd.Body, func(n ast.Node) bool {
			outer, isRange := n.(*ast.RangeStmt)
			if !isRange || ok {
				return true
			}
			val, isID := outer.Value.(*ast.Ident)
			if !isID || !typeIs(info.TypeOf(outer.X), "[]*github.com/chigopher/pathlib.Path") {
				return true
			}
			// where the list comes from
			listOK := false
			if id, isList := ast.Unparen(outer.X).(*ast.Ident); isList {
				ast.Inspect(fd.Body, func(m ast.Node) bool {
					as, isAs := m.(*ast.AssignStmt)
					if !isAs || len(as.Lhs) != 1 || len(as.Rhs) != 1 || !isObj(info, as.Lhs[0], info.Uses[id]) {
						return true
					}
					if call, isCall := ast.Unparen(as.Rhs[0]).(*ast.CallExpr); isCall {
						if h := pkgFuncs(p)[calleeFunc(info, call)]; h != nil && builtNearestFirst(h) {
							listOK = true
						}
					}
					return true
				})
				if !listOK && builtNearestFirst(fd) {
					listOK = true
				}
			}
			// the loop over the names probes <this directory>.Join(name) and returns
			probes := false
			ast.Inspect(outer.Body, func(m ast.Node) bool {
				switch m.(type) {
				case *ast.RangeStmt, *ast.ForStmt:
					hasProbe, returns := false, false
					ast.Inspect(m, func(k ast.Node) bool {
						switch y := k.(type) {
						case *ast.CallExpr:
							if strings.HasSuffix(calleeName(info, y), "pathlib.Path).Join") {
								if sel, isSel := y.Fun.(*ast.SelectorExpr); isSel && isObj(info, sel.X, info.Defs[val]) {
									hasProbe = true
								}
							}
						case *ast.ReturnStmt:
							returns = true
						}
						return true
					})
					if hasProbe && returns {
						probes = true
					}
					return false
				}
				return true
			})
			if listOK && probes {
				ok = true
			}
			return true
		})
	}
	c.Check(ok, rule, "FindConfig|nearest-directory-first", r.Pos(fd.Pos()), "for each directory upwards: try every config file name, return the first that exists", "FindConfig does not try all config file names in the current directory before moving to the parent: a config file in an ancestor directory can win over the one next to the sources")
}

func checkC18(c *Ctx) {
	c.Explanation = `R18.1 exclusive create: initRun's only file-system mutator is one OpenFile whose constant flags contain O_CREATE|O_EXCL and not O_TRUNC, on the path built from the --config value (defaulted to .mockery.yml when empty, the defaulting preceding every use of the name); the YAML encoder writes to that handle;
R18.2 failure is reported: every path of initRun that observes an error ends in os.Exit(<non-zero>) or hands the error back, and then every caller turns it into a non-zero exit;
R18.3 same defaults and the named package: defaults come from config.NewDefaultKoanf (the loader's source) unmarshalled into a RootConfig; the packages map is a literal keyed by the raw first argument with config {all: true} (no key-path string is built from the argument);
R18.4 what init writes the loader reads: for every exported field of Config, RootConfig, PackageConfig, InterfaceConfig and ReplaceType the yaml name equals the koanf name (embedded: inline <-> squash);
R18.5 the written file is the one a plain run picks up: FindConfig tries all config file names in a directory before moving to its parent;
R18.6 the follow-up run gives every interface selected by the written 'all: true' its own deep copy of the package config (C08 rule R08.3), so the per-interface rendering of structname/filename cannot leak from one interface to the next.`
	c.NotDecided = "YAML quoting of unusual package paths (yaml.v3); that the follow-up run generates mocks (C07/C09)."
	c.Assumptions = []string{"os.OpenFile with O_CREATE|O_EXCL fails if the file exists", "yaml.v3 round-trips map keys"}
	c.Rule("R18.1", 3, "")
	c.Rule("R18.2", 3, "")
	c.Rule("R18.3", 4, "")
	c.Rule("R18.4", 25, "")
	c.Rule("R18.5", 1, "")
	c.Rule("R18.6", 1, "")
	r := loadRepo(c, packages.LoadSyntax, "", "./internal/cmd", "./config", "./internal/config")
	cmdp := r.Pkg("internal/cmd")
	info := cmdp.TypesInfo
	fd := FuncDecl(cmdp, "initRun")
	if fd == nil {
		c.Fail("R18.1", "initRun|missing", "internal/cmd/init.go", "initRun not found")
		return
	}
	c.Func(funcKey(cmdp, fd))
	var sites []effectSite
	for _, s := range effectSites(r, cmdp) {
		if s.OwnedBy("internal/cmd.initRun") {
			sites = append(sites, s)
		}
	}
	if len(sites) != 1 || !strings.HasSuffix(sites[0].Callee, "pathlib.Path).OpenFile") {
		var ks []string
		for _, s := range sites {
			ks = append(ks, s.Key())
		}
		c.Fail("R18.1", "initRun|mutators", r.Pos(fd.Pos()), fmt.Sprintf("initRun's file-system mutators are %v, want exactly one OpenFile", ks))
	} else {
		s := sites[0]
		fl := "|" + s.Flags + "|"
		c.Check(strings.Contains(fl, "|O_CREATE|") && strings.Contains(fl, "|O_EXCL|") && !strings.Contains(fl, "|O_TRUNC|") && !strings.Contains(fl, "|O_APPEND|"), "R18.1", "initRun|exclusive-create", s.Pos, "OpenFile("+s.Flags+")", "the config file is opened with "+s.Flags+": without O_CREATE|O_EXCL (and with O_TRUNC/O_APPEND) an existing file is modified instead of the command failing")
		// receiver: pathlib.NewPath(filename) with filename defaulted before
		d := newDT(info)
		d.callInline = pkgUnexported(cmdp)
		d.paths = nil
		d.stmts(seedEnv(d, fd), fd.Body.List, func(p *dtPath) { d.finish(p, "end") })
		okPath, okEnc := true, true
		n := 0
		for _, p := range d.paths {
			of := p.CallsTo("pathlib.Path).OpenFile")
			if len(of) == 0 {
				continue
			}
			n++
			name := `ARG1.GetString<(internal/cmd.argGetter).GetString>("config")#0`
			empty, has := p.atom(name + ` == ""`)
			want := "github.com/chigopher/pathlib.NewPath(" + name + ")"
			if has && empty {
				want = `github.com/chigopher/pathlib.NewPath(".mockery.yml")`
			}
			if !has || of[0].Recv != want {
				okPath = false
				c.Fail("R18.1", "initRun|target-path", r.Pos(of[0].Pos), fmt.Sprintf("the file is created at %s on path %s; want the --config value, or .mockery.yml when it is empty", of[0].Recv, p.String()))
			}
			// any earlier use of the file name (e.g. an existence test) must use the same, defaulted name
			for _, call := range p.Calls {
				if call.Step < of[0].Step && strings.Contains(call.Name, "pathlib.") && strings.Contains(strings.Join(call.Args, ",")+call.Recv, "NewPath(") && call.Recv != want && call.Name != "github.com/chigopher/pathlib.NewPath" {
					okPath = false
					c.Fail("R18.1", "initRun|name-used-before-default", r.Pos(call.Pos), "the target name is used ("+call.Recv+") before it was defaulted to .mockery.yml")
				}
			}
			if p.Exit == "end" || p.Exit == "return" {
				enc := p.CallsTo("yaml.v3.NewEncoder")
				if len(enc) != 1 || len(enc[0].Args) != 1 || !strings.Contains(enc[0].Args[0], ".OpenFile<") || !strings.HasSuffix(enc[0].Args[0], "#0") {
					if !failingExit(info, p, returnsErrorLast(info, fd.Type)) {
						okEnc = false
					}
				}
			}
		}
		if okPath && n > 0 {
			c.OK("R18.1", "initRun|target-path", s.Pos, "created at the --config path (default .mockery.yml)")
		}
		c.Check(okEnc && n > 0, "R18.1", "initRun|encoder-target", s.Pos, "the YAML encoder writes to the handle just created", "the YAML encoder does not write to the exclusively created handle")
	}
	// R18.2
	c.Rule("R18.2", 3, "")
	errorPaths(c, r, "R18.2", cmdp, fd, nil)
	// an initRun that hands its failure back: every caller must turn it into a non-zero exit
	if returnsErrorLast(info, fd.Type) {
		fnObj := info.Defs[fd.Name]
		nCallers := 0
		for _, g := range pkgFuncDecls(cmdp) {
			for _, rg := range regionsOf(g) {
				direct := false
				for _, st := range rg.list {
					ast.Inspect(st, func(n ast.Node) bool {
						if _, isLit := n.(*ast.FuncLit); isLit {
							return false
						}
						if call, ok := n.(*ast.CallExpr); ok {
							if id, ok := ast.Unparen(call.Fun).(*ast.Ident); ok && info.Uses[id] == fnObj {
								direct = true
							}
						}
						return true
					})
				}
				if !direct {
					continue
				}
				nCallers++
				d := newDT(info)
				d.paths = nil
				d.stmts(seedEnv(d, g), rg.list, func(p *dtPath) { d.finish(p, "end") })
				good := len(d.paths) > 0
				for _, p := range d.paths {
					for _, a := range p.Atoms {
						if a.Err && !a.Val && strings.Contains(a.Expr, "internal/cmd.initRun(") && !failingExit(info, p, returnsErrorLast(info, g.Type)) {
							good = false
						}
					}
					// the result must be examined at all
					examined := false
					for _, a := range p.Atoms {
						if a.Err && strings.Contains(a.Expr, "internal/cmd.initRun(") {
							examined = true
						}
					}
					if !examined && len(p.CallsTo("internal/cmd.initRun")) > 0 {
						good = false
					}
				}
				c.Check(good, "R18.2", "initRun|caller|"+g.Name.Name, r.Pos(g.Pos()), "the caller exits non-zero when initRun fails", g.Name.Name+" calls initRun and does not turn a returned error into a non-zero exit status: a failed init (existing file, write error) would report success")
			}
		}
		c.Check(nCallers > 0, "R18.2", "initRun|callers", r.Pos(fd.Pos()), "callers examined", "initRun returns an error but no caller was found to examine")
	}
	// R18.3
	fci := newFuncCanon(info, fd)
	okDefaults := false
	inspectWithHelpers(cmdp, fd, fci, 2, func(fci *fcanon, _ *ast.FuncDecl, n ast.Node) bool {
		if call, ok := n.(*ast.CallExpr); ok && strings.HasSuffix(calleeName(info, call), "koanf/v2.Koanf).Unmarshal") && len(call.Args) == 2 {
			recv := fci.E(call.Fun.(*ast.SelectorExpr).X)
			if strings.HasPrefix(recv, "config.NewDefaultKoanf(") && strings.HasSuffix(recv, "#0") && typeIs(info.TypeOf(call.Args[1]), "*config.RootConfig") {
				okDefaults = true
			}
		}
		return true
	})
	c.Check(okDefaults, "R18.3", "initRun|defaults", r.Pos(fd.Pos()), "defaults from NewDefaultKoanf unmarshalled into the RootConfig", "initRun does not take its defaults from config.NewDefaultKoanf (the loader's own defaults)")
	if nr := FuncDecl(r.Pkg("config"), "NewRootConfig"); nr != nil {
		uses := false
		ast.Inspect(nr.Body, func(n ast.Node) bool {
			if call, ok := n.(*ast.CallExpr); ok && strings.HasSuffix(calleeName(r.Pkg("config").TypesInfo, call), "config.NewDefaultKoanf") {
				uses = true
			}
			return true
		})
		// what init serialises is the documented defaults and nothing else: NewDefaultKoanf loads
		// exactly one source, the struct of defaults (no environment, file or flag provider)
		if nd := FuncDecl(r.Pkg("config"), "NewDefaultKoanf"); nd != nil {
			cinfo := r.Pkg("config").TypesInfo
			var provs []string
			for _, g := range withCallees(r.Pkg("config"), nd) {
				ast.Inspect(g.Body, func(n ast.Node) bool {
					if call, ok := n.(*ast.CallExpr); ok && strings.HasSuffix(calleeName(cinfo, call), "koanf/v2.Koanf).Load") && len(call.Args) >= 1 {
						if t := cinfo.TypeOf(call.Args[0]); t != nil {
							provs = append(provs, t.String())
						}
					}
					return true
				})
			}
			okOnly := len(provs) == 1 && strings.Contains(provs[0], "providers/structs.")
			c.Check(okOnly, "R18.3", "NewDefaultKoanf|defaults-only", r.Pos(nd.Pos()), "NewDefaultKoanf loads the defaults struct only", fmt.Sprintf("NewDefaultKoanf loads %v: what `mockery init` writes as defaults must not depend on the environment, a file or flags of the init run", provs))
		}
		c.Check(uses, "R18.3", "NewRootConfig|defaults", r.Pos(nr.Pos()), "the loader uses the same defaults", "NewRootConfig no longer starts from NewDefaultKoanf")
	}
	okPkgs := false
	inspectWithHelpers(cmdp, fd, fci, 2, func(fci *fcanon, _ *ast.FuncDecl, n ast.Node) bool {
		as, ok := n.(*ast.AssignStmt)
		if !ok || len(as.Lhs) != 1 || len(as.Rhs) != 1 {
			return true
		}
		if se, ok := as.Lhs[0].(*ast.SelectorExpr); ok && se.Sel.Name == "Packages" && typeIs(info.TypeOf(se.X), "*config.RootConfig") {
			if cl, ok := as.Rhs[0].(*ast.CompositeLit); ok && len(cl.Elts) == 1 {
				kv := cl.Elts[0].(*ast.KeyValueExpr)
				if fci.E(kv.Key) == "ARG0[0]" {
					ast.Inspect(kv.Value, func(m ast.Node) bool {
						if k2, ok := m.(*ast.KeyValueExpr); ok && types.ExprString(k2.Key) == "All" {
							if call, ok := k2.Value.(*ast.CallExpr); ok && len(call.Args) == 1 && types.ExprString(call.Args[0]) == "true" {
								okPkgs = true
							}
						}
						return true
					})
				}
			}
		}
		return true
	})
	c.Check(okPkgs, "R18.3", "initRun|package-entry", r.Pos(fd.Pos()), "packages = {<args[0]>: {config: {all: true}}} as a map literal", "the package entry is not a map literal keyed by the raw first argument with all: true (a key path assembled from the argument would split package paths containing the delimiter)")
	ruleTagAgreement(c, r, "R18.4")
	ruleFindConfig(c, r, "R18.5")
	// R18.6: the file init writes selects interfaces with all: true, i.e. through GetInterfaceConfig's copies
	subRules(c, "R18.6", "own-config", "the config init writes uses all: true, whose interfaces get their config from GetInterfaceConfig: ", func(sub *Ctx) { ruleNoSharing(sub, r, r.Pkg("config")) })
}

// ---------------------------------------------------------------------------

// v2 yaml name -> v3 koanf name (direct fields) and v2 yaml name -> template-data key
var migrateDirect = map[string]string{"all": "all", "_anchors": "_anchors", "config": "config", "dir": "dir", "exclude": "exclude-subpkg-regex", "exclude-regex": "exclude-interface-regex",
	"include-regex": "include-interface-regex", "log-level": "log-level", "mockname": "structname", "outpkg": "pkgname", "recursive": "recursive"}
var migrateTemplateData = map[string]string{"boilerplate-file": "boilerplate-file", "mock-build-tags": "mock-build-tags", "unroll-variadic": "unroll-variadic"}

func checkC19(c *Ctx) {
	c.Explanation = `R19.1 key mapping: in migrateConfig every assignment to a v3 Config field or template-data key is matched, by struct tags, against the documented table (all, _anchors, config, dir, exclude -> exclude-subpkg-regex, exclude-regex -> exclude-interface-regex, include-regex -> include-interface-regex, log-level, mockname -> structname, outpkg -> pkgname, recursive; boilerplate-file, mock-build-tags, unroll-variadic -> the same key under template-data); direct fields are copied unconditionally, template-data keys only under 'that v2 field != nil' (helpers handed the v3 level are followed, an early return is a guard on what follows, a literal table of rows applied in a loop is unrolled); no other v3 field or key is written;
R19.2 level and name preservation: run migrates (root, root), each package's config into Packages[<same name>].Config, each interface's config into Interfaces[<same name>].Config, and each configs entry into a freshly appended entry, in order;
R19.3 input untouched, output replaced: the only mutator reachable in run (private helpers that reach an effect site followed; flags evaluated along the path) is the OpenFile of --outfile with O_CREATE and O_TRUNC; the v2 file is opened O_RDONLY;
R19.4 strict decoding: KnownFields(true) is set on the decoder before Decode;
R19.5 no nil dereference: every '*v2Config.X' is evaluated only where 'v2Config.X != nil' is established (enclosing if, or the left operand of the same && / ||); a nil section returns early;
R19.6 what migrate writes is loadable: yaml and koanf names agree for every config field, every map field has a non-nil default, and every template-data key migrate writes is a property of the schema of the template it selects (testify).`
	c.NotDecided = "value fidelity through yaml.v3; the deprecation report."
	c.Assumptions = []string{"yaml.v3 KnownFields(true) rejects unknown keys"}
	c.Rule("R19.1", 14, "")
	c.Rule("R19.2", 4, "")
	c.Rule("R19.3", 2, "")
	c.Rule("R19.4", 1, "")
	c.Rule("R19.5", 8, "")
	c.Rule("R19.6", 25, "")
	r := loadRepo(c, packages.LoadSyntax, "", "./internal/cmd", "./config")
	cmdp := r.Pkg("internal/cmd")
	info := cmdp.TypesInfo
	mc := FuncDecl(cmdp, "migrateConfig")
	if mc == nil {
		c.Fail("R19.1", "migrateConfig|missing", "internal/cmd/migrate.go", "migrateConfig not found")
		return
	}
	c.Func(funcKey(cmdp, mc))
	v2t := cmdp.Types.Scope().Lookup("V2Config").Type().Underlying().(*types.Struct)
	v2yaml := map[string]string{}
	for i := 0; i < v2t.NumFields(); i++ {
		v2yaml[v2t.Field(i).Name()] = tagName(v2t.Tag(i), "yaml")
	}
	v3t := r.Pkg("config").Types.Scope().Lookup("Config").Type().Underlying().(*types.Struct)
	v3koanf := map[string]string{}
	for i := 0; i < v3t.NumFields(); i++ {
		v3koanf[v3t.Field(i).Name()] = tagName(v3t.Tag(i), "koanf")
	}
	// the v2 level and the v3 destination are identified by their types, not by their position
	i2, i3 := migrateParamIndex(info, mc)
	if i2 < 0 || i3 < 0 {
		c.Fail("R19.1", "migrateConfig|signature", r.Pos(mc.Pos()), "migrateConfig has no *V2Config and **config.Config parameters")
		return
	}
	v2param := declParamName(mc, i2)
	_ = v2param
	fcm0 := newFuncCanon(info, mc)
	v3p, v2p := fmt.Sprintf("*ARG%d.", i3), fmt.Sprintf("ARG%d.", i2)
	seenDirect, seenTD := map[string]bool{}, map[string]bool{}
	funcs := pkgFuncs(cmdp)
	isTDSetter := func(fd *ast.FuncDecl) bool { return isTemplateDataSetter(info, fd) }
	sectionNil := "!(" + strings.TrimSuffix(v2p, ".") + " == nil)"
	// a guard that does not narrow the condition 'src != nil': the section's own nil check, or the
	// complement of an early return taken only when src (and possibly other v2 keys) is nil
	neutralFor := func(g, src string) bool {
		if g == sectionNil {
			return true
		}
		if !strings.HasPrefix(g, "!(") || !strings.HasSuffix(g, ")") || src == "" {
			return false
		}
		has := false
		for _, cj := range strings.Split(g[2:len(g)-1], " && ") {
			if !strings.HasPrefix(cj, v2p) || !strings.HasSuffix(cj, " == nil") {
				return false
			}
			if cj == v2p+src+" == nil" {
				has = true
			}
		}
		return has
	}
	var walk func(fcm *fcanon, subs [][2]string, list []ast.Stmt, guards []string, depth int)
	walk = func(fcm *fcanon, subs [][2]string, list []ast.Stmt, guards []string, depth int) {
		E := func(e ast.Expr) string {
			s := fcm.E(e)
			for _, sb := range subs {
				s = replaceToken(s, sb[0], sb[1])
			}
			return strings.ReplaceAll(s, "*&", "")
		}
		guards = append([]string{}, guards...)
		for _, s := range list {
			if es, ok := s.(*ast.ExprStmt); ok {
				if call, ok := es.X.(*ast.CallExpr); ok {
					fn := calleeFunc(info, call)
					// setter(v3, "key", value) counts as v3.TemplateData["key"] = value
					if len(call.Args) == 3 && fn != nil && isTDSetter(funcs[fn]) && E(call.Args[0])+"." == v3p {
						s = &ast.AssignStmt{
							Lhs:    []ast.Expr{&ast.IndexExpr{X: &ast.SelectorExpr{X: call.Args[0], Sel: ast.NewIdent("TemplateData")}, Index: call.Args[1]}},
							TokPos: call.Pos(), Tok: token.ASSIGN,
							Rhs: []ast.Expr{call.Args[2]},
						}
					} else if fd := funcs[fn]; fn != nil && fd != nil && fd.Recv == nil && fd.Body != nil && depth < 3 {
						// a helper that is handed the v3 level: its body is part of the mapping
						seed := make([]string, len(call.Args))
						touches := false
						for i, a := range call.Args {
							seed[i] = E(a)
							if seed[i]+"." == v3p || seed[i] == "&"+strings.TrimSuffix(v3p, ".") || "*"+seed[i]+"." == v3p {
								touches = true
							}
						}
						if touches && !(call.Ellipsis.IsValid()) && fd.Type.Params.NumFields() == len(call.Args) {
							c.Func(funcKey(cmdp, fd))
							walk(newFuncCanonSeed(info, fd, false, nil, seed), nil, fd.Body.List, guards, depth+1)
							continue
						}
					}
				}
			}
			switch x := s.(type) {
			case *ast.BlockStmt:
				walk(fcm, subs, x.List, guards, depth)
			case *ast.IfStmt:
				walk(fcm, subs, x.Body.List, append(append([]string{}, guards...), E(x.Cond)), depth)
				if eb, ok := x.Else.(*ast.BlockStmt); ok {
					walk(fcm, subs, eb.List, append(append([]string{}, guards...), "!("+E(x.Cond)+")"), depth)
				} else if x.Else == nil && terminates(x.Body) {
					// early exit: what follows runs only when the condition is false
					guards = append(guards, "!("+E(x.Cond)+")")
				}
			case *ast.RangeStmt:
				// a loop over a literal table of (destination, source) rows is the unrolled list of its bodies
				cl, ok := ast.Unparen(x.X).(*ast.CompositeLit)
				vid, ok2 := x.Value.(*ast.Ident)
				if !ok || !ok2 {
					continue
				}
				var st *types.Struct
				switch t := info.TypeOf(cl).Underlying().(type) {
				case *types.Slice:
					st, _ = t.Elem().Underlying().(*types.Struct)
				case *types.Array:
					st, _ = t.Elem().Underlying().(*types.Struct)
				}
				if st == nil {
					continue
				}
				base := fcm.E(vid)
				for _, el := range cl.Elts {
					row, ok := ast.Unparen(el).(*ast.CompositeLit)
					if !ok {
						continue
					}
					rs := append([][2]string{}, subs...)
					for i, fe := range row.Elts {
						name, val := "", fe
						if kv, ok := fe.(*ast.KeyValueExpr); ok {
							name, val = types.ExprString(kv.Key), kv.Value
						} else if i < st.NumFields() {
							name = st.Field(i).Name()
						}
						rs = append(rs, [2]string{base + "." + name, E(val)})
					}
					walk(fcm, rs, x.Body.List, guards, depth)
				}
			case *ast.AssignStmt:
				if len(x.Lhs) != 1 || len(x.Rhs) != 1 {
					continue
				}
				lhs := E(x.Lhs[0])
				rhs := E(x.Rhs[0])
				switch {
				case strings.HasPrefix(lhs, v3p+"TemplateData[\""):
					key := strings.TrimSuffix(strings.TrimPrefix(lhs, v3p+"TemplateData[\""), "\"]")
					src := strings.TrimPrefix(strings.TrimPrefix(rhs, "*"), v2p)
					want, ok := migrateTemplateData[v2yaml[src]]
					var eff []string
					for _, g := range guards {
						if !neutralFor(g, src) {
							eff = append(eff, g)
						}
					}
					guardOK := len(eff) == 1 && eff[0] == v2p+src+" != nil"
					pos := r.Pos(x.Pos())
					switch {
					case !ok || want != key:
						c.Fail("R19.1", "migrateConfig|template-data|"+key, pos, fmt.Sprintf("template-data[%q] is written from v2 %q; not in the documented mapping", key, v2yaml[src]))
					case !guardOK:
						c.Fail("R19.1", "migrateConfig|template-data-guard|"+key, pos, fmt.Sprintf("template-data[%q] is written under %v, want exactly '<v2 section>.%s != nil'", key, guards, src))
					default:
						seenTD[key] = true
						c.OK("R19.1", "migrateConfig|template-data|"+key, pos, v2yaml[src]+" -> template-data."+key)
					}
				case strings.HasPrefix(lhs, v3p) && lhs != v3p+"TemplateData":
					field := strings.TrimPrefix(lhs, v3p)
					src := strings.TrimPrefix(rhs, v2p)
					pos := r.Pos(x.Pos())
					want, ok := migrateDirect[v2yaml[src]]
					var eff []string
					for _, g := range guards {
						if g != sectionNil {
							eff = append(eff, g)
						}
					}
					switch {
					case !strings.HasPrefix(rhs, v2p) || !ok || want != v3koanf[field]:
						c.Fail("R19.1", "migrateConfig|direct|"+v3koanf[field], pos, fmt.Sprintf("v3 %q is assigned from %s (v2 %q); documented source: the v2 key mapped to it", v3koanf[field], types.ExprString(x.Rhs[0]), v2yaml[src]))
					case len(eff) != 0:
						c.Fail("R19.1", "migrateConfig|direct-conditional|"+v3koanf[field], pos, fmt.Sprintf("v3 %q is copied only under %v: the setting is dropped at levels where that condition does not hold although configuration is inherited across levels", v3koanf[field], eff))
					default:
						seenDirect[v2yaml[src]] = true
						c.OK("R19.1", "migrateConfig|direct|"+v3koanf[field], pos, v2yaml[src]+" -> "+v3koanf[field])
					}
				}
			}
		}
	}
	walk(fcm0, nil, mc.Body.List, nil, 0)
	for k := range migrateDirect {
		if !seenDirect[k] {
			c.Fail("R19.1", "migrateConfig|unmapped|"+k, r.Pos(mc.Pos()), "the v2 setting "+k+" is no longer carried to "+migrateDirect[k])
		}
	}
	for k := range migrateTemplateData {
		if !seenTD[k] {
			c.Fail("R19.1", "migrateConfig|unmapped|"+k, r.Pos(mc.Pos()), "the v2 setting "+k+" is no longer carried to template-data."+k)
		}
	}
	ruleNilDeref(c, r, cmdp, mc, v2param)
	ruleMigrateRun(c, r, cmdp)
	// R19.6
	ruleTagAgreement(c, r, "R19.6")
	ruleMapDefaults(c, r, "R19.6")
	// migrate copies v2 `exclude` path strings verbatim into exclude-subpkg-regex (and the regex settings into
	// their v3 names): the strict loader takes them as they are. The only places of the config package that hand a
	// configured string to regexp are the two questions asked while mocks are selected (round 6: a load-time
	// compile of every expression made the loader reject migrated files whose exclude entries are plain paths)
	{
		cp := r.Pkg("config")
		n := 0
		for _, g := range pkgFuncDecls(cp) {
			ast.Inspect(g.Body, func(x ast.Node) bool {
				call, ok := x.(*ast.CallExpr)
				if !ok {
					return true
				}
				name := calleeName(cp.TypesInfo, call)
				if !strings.HasPrefix(name, "regexp.") && !strings.HasPrefix(name, "(regexp.") {
					return true
				}
				n++
				okOwner := ownedBy(cp, g, "config.Config.ShouldExcludeSubpkg") || ownedBy(cp, g, "config.PackageConfig.ShouldGenerateInterface")
				c.Check(okOwner, "R19.6", "loader|regexp-use|"+funcKey(cp, g), r.Pos(call.Pos()), "regexp is consulted only when mocks are selected", funcKey(cp, g)+" hands a configured string to "+name+": if that happens while the configuration is loaded, a migrated file whose `exclude` entries are plain paths (not valid expressions) is rejected by the loader")
				return true
			})
		}
		c.Check(n >= 2, "R19.6", "loader|regexp-sites", "config/config.go", "regexp use sites found", "no use of regexp found in the config package (anchor unresolved)")
	}
	_ = info
	_ = sort.Strings
}

// ruleNilDeref: R19.5.
func ruleNilDeref(c *Ctx, r *Repo, p *packages.Package, fd *ast.FuncDecl, param string) {
	// early return on a nil section
	okEarly := false
	if len(fd.Body.List) > 0 {
		if ifs, ok := fd.Body.List[0].(*ast.IfStmt); ok && types.ExprString(ifs.Cond) == param+" == nil" && terminates(ifs.Body) {
			okEarly = true
		}
	}
	c.Check(okEarly, "R19.5", "migrateConfig|nil-section", r.Pos(fd.Pos()), "a nil section returns first", "migrateConfig does not return first when the v2 section is nil")
	var visit func(n ast.Node, known map[string]bool)
	addFacts := func(known map[string]bool, e ast.Expr, positive bool) map[string]bool {
		out := map[string]bool{}
		for k := range known {
			out[k] = true
		}
		var conj func(e ast.Expr)
		conj = func(e ast.Expr) {
			e = ast.Unparen(e)
			if be, ok := e.(*ast.BinaryExpr); ok {
				switch {
				case positive && be.Op == token.LAND, !positive && be.Op == token.LOR:
					conj(be.X)
					conj(be.Y)
				case positive && be.Op == token.NEQ && types.ExprString(be.Y) == "nil":
					out[types.ExprString(be.X)] = true
				case !positive && be.Op == token.EQL && types.ExprString(be.Y) == "nil":
					out[types.ExprString(be.X)] = true
				}
			}
		}
		conj(e)
		return out
	}
	visit = func(n ast.Node, known map[string]bool) {
		switch x := n.(type) {
		case nil:
		case *ast.IfStmt:
			if x.Init != nil {
				visit(x.Init, known)
			}
			visit(x.Cond, known)
			visit(x.Body, addFacts(known, x.Cond, true))
			if x.Else != nil {
				visit(x.Else, addFacts(known, x.Cond, false))
			}
		case *ast.BinaryExpr:
			switch x.Op {
			case token.LAND:
				visit(x.X, known)
				visit(x.Y, addFacts(known, x.X, true))
			case token.LOR:
				visit(x.X, known)
				visit(x.Y, addFacts(known, x.X, false))
			default:
				visit(x.X, known)
				visit(x.Y, known)
			}
		case *ast.BlockStmt:
			// facts established by a repairing guard ('if m == nil { m = <fresh map> }') hold for what follows
			cur := known
			for _, st := range x.List {
				visit(st, cur)
				if ifs, ok := st.(*ast.IfStmt); ok && ifs.Else == nil && ifs.Init == nil {
					if be, ok := ast.Unparen(ifs.Cond).(*ast.BinaryExpr); ok && be.Op == token.EQL && types.ExprString(be.Y) == "nil" {
						target := types.ExprString(be.X)
						for _, bs := range ifs.Body.List {
							if as, ok := bs.(*ast.AssignStmt); ok && as.Tok == token.ASSIGN && len(as.Lhs) == 1 && len(as.Rhs) == 1 && types.ExprString(as.Lhs[0]) == target {
								fresh := false
								switch rv := ast.Unparen(as.Rhs[0]).(type) {
								case *ast.CompositeLit:
									fresh = true
								case *ast.CallExpr:
									if id, ok := rv.Fun.(*ast.Ident); ok && id.Name == "make" {
										fresh = true
									}
								}
								if fresh {
									cur = addFacts(cur, &ast.BinaryExpr{X: be.X, Op: token.NEQ, Y: be.Y}, true)
								}
							}
						}
					}
				}
			}
		case *ast.AssignStmt:
			for _, l := range x.Lhs {
				ix, ok := ast.Unparen(l).(*ast.IndexExpr)
				if !ok {
					continue
				}
				if _, isSel := ast.Unparen(ix.X).(*ast.SelectorExpr); !isSel {
					continue
				}
				if tv, ok := p.TypesInfo.Types[ix.X]; !ok || tv.Type == nil {
					continue
				} else if _, isMap := tv.Type.Underlying().(*types.Map); !isMap {
					continue
				}
				s := types.ExprString(ix.X)
				c.Check(known[s], "R19.5", "migrateConfig|map-store|"+s+"["+types.ExprString(ix.Index)+"]", r.Pos(x.Pos()), "a map field is stored into only after a guard installed a map where it was nil", fmt.Sprintf("%s[%s] is stored into without a preceding 'if %s == nil { %s = <fresh map> }' (or an enclosing non-nil test): a v2 file that sets this key makes migrate store into a nil map and crash", s, types.ExprString(ix.Index), s, s))
			}
			for _, rh := range x.Rhs {
				visit(rh, known)
			}
		case *ast.StarExpr:
			s := types.ExprString(x.X)
			if strings.HasPrefix(s, param+".") {
				c.Check(known[s], "R19.5", "migrateConfig|deref|"+s, r.Pos(x.Pos()), "dereferenced only where non-nil is established", fmt.Sprintf("*%s is evaluated without %s != nil being established: a v2 file that leaves the key out crashes migrate", s, s))
			}
			visit(x.X, known)
		default:
			// generic traversal of children
			ast.Inspect(n, func(m ast.Node) bool {
				if m == n || m == nil {
					return true
				}
				switch m.(type) {
				case *ast.IfStmt, *ast.BinaryExpr, *ast.StarExpr, *ast.BlockStmt, *ast.AssignStmt:
					visit(m, known)
					return false
				}
				return true
			})
		}
	}
	visit(fd.Body, map[string]bool{})
}

func ruleMigrateRun(c *Ctx, r *Repo, cmdp *packages.Package) {
	info := cmdp.TypesInfo
	run := FuncDecl(cmdp, "run")
	if run == nil {
		c.Fail("R19.2", "run|missing", "internal/cmd/migrate.go", "migrate's run not found")
		return
	}
	c.Func(funcKey(cmdp, run))
	// run and the private helpers it may have been split into
	inRun := func(visit func(ast.Node) bool) {
		for _, g := range familyOf(cmdp, run) {
			ast.Inspect(g.Body, visit)
		}
	}
	var calls []string
	inRun(func(n ast.Node) bool {
		if call, ok := n.(*ast.CallExpr); ok {
			if fn := calleeFunc(info, call); fn != nil && fn.Name() == "migrateConfig" && len(call.Args) == 4 {
				i2, i3 := migrateParamIndex(info, FuncDecl(cmdp, "migrateConfig"))
				if i2 < 0 || i3 < 0 {
					return true
				}
				calls = append(calls, typeShape(info, call.Args[i2])+" -> "+typeShape(info, call.Args[i3]))
			}
		}
		return true
	})
	want := []string{"&<internal/cmd.V2RootConfig>.V2Config -> &<*config.Config>", "<internal/cmd.V2PackageConfig>.Config -> &<*config.PackageConfig>.Config", "<internal/cmd.V2InterfaceConfig>.Config -> &<config.InterfaceConfig>.Config", "&<internal/cmd.V2Config> -> &<*config.Config>"}
	c.Check(strings.Join(calls, "; ") == strings.Join(want, "; "), "R19.2", "run|level-pairs", r.Pos(run.Pos()), strings.Join(want, "; "), fmt.Sprintf("migrateConfig is applied to the level pairs %v, want %v", calls, want))
	// stores keyed by the names ranged over
	rangeKeyOf := func(field, holder string) types.Object { // key variable of `for k, _ := range <holder value>.<field>`
		var out types.Object
		inRun(func(n ast.Node) bool {
			if rs, ok := n.(*ast.RangeStmt); ok {
				if se, ok := ast.Unparen(rs.X).(*ast.SelectorExpr); ok && se.Sel.Name == field && typeIs(info.TypeOf(se.X), holder) {
					if k, ok := rs.Key.(*ast.Ident); ok && k.Name != "_" {
						out = info.Defs[k]
					}
				}
			}
			return true
		})
		return out
	}
	storeKeyed := func(field, holder string, key types.Object) bool {
		found := false
		inRun(func(n ast.Node) bool {
			if as, ok := n.(*ast.AssignStmt); ok && len(as.Lhs) == 1 {
				if ie, ok := as.Lhs[0].(*ast.IndexExpr); ok && key != nil && isObj(info, ie.Index, key) {
					if se, ok := ast.Unparen(ie.X).(*ast.SelectorExpr); ok && se.Sel.Name == field && typeIs(info.TypeOf(se.X), holder) {
						found = true
					}
				}
			}
			return true
		})
		return found
	}
	pk := rangeKeyOf("Packages", "internal/cmd.V2RootConfig")
	c.Check(pk != nil && storeKeyed("Packages", "config.RootConfig", pk), "R19.2", "run|package-names", r.Pos(run.Pos()), "packages stored under the name ranged over", "a migrated package is not stored under exactly the package name it was read from")
	ik := rangeKeyOf("Interfaces", "internal/cmd.V2PackageConfig")
	c.Check(ik != nil && storeKeyed("Interfaces", "*config.PackageConfig", ik), "R19.2", "run|interface-names", r.Pos(run.Pos()), "interfaces stored under the name ranged over", "a migrated interface is not stored under exactly the interface name it was read from")
	okAppend := false
	inRun(func(n ast.Node) bool {
		rs, ok := n.(*ast.RangeStmt)
		if !ok {
			return true
		}
		if se, ok := ast.Unparen(rs.X).(*ast.SelectorExpr); !ok || se.Sel.Name != "Configs" || !typeIs(info.TypeOf(se.X), "internal/cmd.V2InterfaceConfig") {
			return true
		}
		for _, s := range rs.Body.List {
			if as, ok := s.(*ast.AssignStmt); ok && len(as.Lhs) == 1 && len(as.Rhs) == 1 {
				if call, ok := as.Rhs[0].(*ast.CallExpr); ok && calleeName(info, call) == "builtin.append" && len(call.Args) == 2 && types.ExprString(call.Args[0]) == types.ExprString(as.Lhs[0]) {
					if se, ok := as.Lhs[0].(*ast.SelectorExpr); ok && se.Sel.Name == "Configs" && typeIs(info.TypeOf(se.X), "config.InterfaceConfig") {
						okAppend = true
					}
				}
			}
		}
		return true
	})
	c.Check(okAppend, "R19.2", "run|configs-order", r.Pos(run.Pos()), "configs entries appended in order", "configs entries are not appended one by one in their original order")
	okRoot := false
	inRun(func(n ast.Node) bool {
		if as, ok := n.(*ast.AssignStmt); ok && len(as.Lhs) == 1 && len(as.Rhs) == 1 {
			if se, ok := as.Lhs[0].(*ast.SelectorExpr); ok && se.Sel.Name == "Config" && typeIs(info.TypeOf(se.X), "config.RootConfig") && typeShape(info, as.Rhs[0]) == "*<*config.Config>" {
				okRoot = true
			}
		}
		return true
	})
	c.Check(okRoot, "R19.2", "run|root-config", r.Pos(run.Pos()), "root config assigned", "the migrated root config is not stored in the v3 root")
	// R19.3
	var sites []effectSite
	for _, e := range effectSites(r, cmdp) {
		if e.OwnedBy("internal/cmd.run") {
			sites = append(sites, e)
		}
	}
	// Every (path, flags) pair an OpenFile call is reached with; the flags are evaluated along the path, so
	// a helper that picks them from a parameter is seen with the value each caller passes.
	type openInst struct {
		pos         token.Pos
		recv, flags string
	}
	var opens []openInst
	reached := map[token.Pos]bool{}
	{
		d := newDT(info)
		d.constInts = true // flag sets given a name (const openReplace = os.O_CREATE | ..) print as their value
		// followed: the private helpers an effect site sits in (not migrateConfig, whose independent
		// branches are not path-enumerable and which reaches no effect)
		d.callInline = map[*types.Func]*ast.FuncDecl{}
		for fn, fd := range pkgUnexported(cmdp) {
			for _, g := range withCallees(cmdp, fd) {
				for _, e := range sites {
					if e.Func == funcKey(cmdp, g) {
						d.callInline[fn] = fd
					}
				}
			}
		}
		d.paths = nil
		d.stmts(seedEnv(d, run), run.Body.List, func(p *dtPath) { d.finish(p, "end") })
		seen := map[openInst]bool{}
		for _, p := range d.paths {
			for _, call := range p.CallsTo("pathlib.Path).OpenFile") {
				reached[call.Pos] = true
				oi := openInst{call.Pos, call.Recv, strings.Join(call.Args, ",")}
				if !seen[oi] {
					seen[oi] = true
					opens = append(opens, oi)
				}
			}
		}
		c.Check(!d.overflow, "R19.3", "run|paths", r.Pos(run.Pos()), "run's paths enumerated", "run has too many paths to enumerate: not decided")
	}
	nRead, nWrite := 0, 0
	counted := map[string]bool{}
	count := func(oi openInst, n *int) {
		if k := fmt.Sprint(oi.pos, oi.flags); !counted[k] {
			counted[k] = true
			*n++
		}
	}
	for _, e := range sites {
		if strings.HasSuffix(e.Callee, ".OpenFile") {
			c.Check(reached[e.Call.Pos()], "R19.3", "run|open-reached|"+e.Func, e.Pos, "the open lies on an enumerated path of run", "an OpenFile call owned by run is not on any enumerated path of run: its path and flags are not decided")
			continue
		}
		c.Fail("R19.3", "run|other-mutator|"+e.Key(), e.Pos, "migrate's run calls "+e.Callee)
	}
	for _, oi := range opens {
		var names []string
		okFlags := true
		var numeric int64
		for _, f := range strings.Split(oi.flags, " | ") {
			f = strings.TrimSpace(f)
			if v, err := strconv.ParseInt(f, 10, 64); err == nil {
				numeric |= v // a named constant of the package, printed as its value
				continue
			}
			if !strings.HasPrefix(f, "os.O_") {
				okFlags = false
			}
			names = append(names, strings.TrimPrefix(f, "os."))
		}
		if numeric != 0 || len(names) == 0 {
			ns, _ := flagNames(numeric)
			names = append(names, strings.Split(ns, "|")...)
		}
		fl := "|" + strings.Join(names, "|") + "|"
		pos := r.Pos(oi.pos)
		switch {
		case !okFlags:
			c.Fail("R19.3", "run|open-flags", pos, fmt.Sprintf("OpenFile is called with %s on %s: the flags do not evaluate to os.O_* constants along the path", oi.flags, oi.recv))
		case fl == "|O_RDONLY|":
			count(oi, &nRead)
			c.Check(oi.recv != "" && !strings.Contains(oi.recv, "ARG2"), "R19.3", "run|input-read-only", pos, "the v2 file is opened O_RDONLY", "the read-only open is not on the v2 config path")
		default:
			count(oi, &nWrite)
			onOut := oi.recv == "github.com/chigopher/pathlib.NewPath(ARG2)"
			c.Check(onOut && strings.Contains(fl, "|O_CREATE|") && (strings.Contains(fl, "|O_TRUNC|") || strings.Contains(fl, "|O_EXCL|")), "R19.3", "run|output-open", pos, "the v3 file is opened "+strings.Join(names, "|"), fmt.Sprintf("the output is opened with %s on %s: without O_TRUNC a longer previous file leaves a stale tail in the result; the write must go to --outfile only", strings.Join(names, "|"), oi.recv))
		}
	}
	c.Check(nRead == 1 && nWrite == 1, "R19.3", "run|opens", r.Pos(run.Pos()), "one read-only open, one output open", fmt.Sprintf("%d read-only / %d writing opens in migrate's run, want 1/1", nRead, nWrite))
	// R19.4
	var kf, dec token.Pos
	inRun(func(n ast.Node) bool {
		if call, ok := n.(*ast.CallExpr); ok {
			switch calleeName(info, call) {
			case "(gopkg.in/yaml.v3.Decoder).KnownFields":
				if types.ExprString(call.Args[0]) == "true" {
					kf = call.Pos()
				}
			case "(gopkg.in/yaml.v3.Decoder).Decode":
				dec = call.Pos()
			}
		}
		return true
	})
	c.Check(kf.IsValid() && dec.IsValid() && kf < dec, "R19.4", "run|strict-decoding", r.Pos(run.Pos()), "KnownFields(true) before Decode", "the v2 file is not decoded strictly (KnownFields(true) before Decode)")
	// R19.6: template-data keys written vs. the schema of the selected template
	tmpl := ""
	inRun(func(n ast.Node) bool {
		if as, ok := n.(*ast.AssignStmt); ok && len(as.Lhs) == 1 && typeShape(info, as.Lhs[0]) == "<*config.Config>.Template" {
			if call, ok := as.Rhs[0].(*ast.CallExpr); ok && len(call.Args) == 1 {
				tmpl = strings.Trim(types.ExprString(call.Args[0]), `"`)
			}
		}
		return true
	})
	c.Check(tmpl == "testify" || tmpl == "matryer", "R19.6", "run|template-choice", r.Pos(run.Pos()), "migrated configs select the built-in "+tmpl+" template", "migrate does not select a built-in template")
	if tmpl != "" {
		props := schemaProperties(c, tmpl)
		mc := FuncDecl(cmdp, "migrateConfig")
		fcs := newFuncCanon(info, mc)
		v3dst := "*ARG3"
		if _, i3 := migrateParamIndex(info, mc); i3 >= 0 {
			v3dst = fmt.Sprintf("*ARG%d", i3)
		}
		ast.Inspect(mc.Body, func(n ast.Node) bool {
			if call, ok := n.(*ast.CallExpr); ok && len(call.Args) == 3 {
				if fn := calleeFunc(info, call); fn != nil && isTemplateDataSetter(info, pkgFuncs(cmdp)[fn]) && fcs.E(call.Args[0]) == v3dst {
					key := strings.Trim(fcs.E(call.Args[1]), `"`)
					c.Check(props[key], "R19.6", "migrateConfig|schema-key|"+key, r.Pos(call.Pos()), "template-data."+key+" is a property of the "+tmpl+" schema", fmt.Sprintf("migrate writes template-data[%q], which the %s schema (additionalProperties: false) rejects: the migrated file fails validation when mocks are generated", key, tmpl))
				}
			}
			if as, ok := n.(*ast.AssignStmt); ok && len(as.Lhs) == 1 {
				lhs := fcs.E(as.Lhs[0])
				if strings.HasPrefix(lhs, v3dst+".TemplateData[\"") {
					key := strings.TrimSuffix(strings.TrimPrefix(lhs, v3dst+".TemplateData[\""), "\"]")
					c.Check(props[key], "R19.6", "migrateConfig|schema-key|"+key, r.Pos(as.Pos()), "template-data."+key+" is a property of the "+tmpl+" schema", fmt.Sprintf("migrate writes template-data[%q], which the %s schema (additionalProperties: false) rejects: the migrated file fails validation when mocks are generated", key, tmpl))
				}
			}
			return true
		})
	}
}

// typeShape prints an expression with its root identifier replaced by the
// identifier's type: &v2.V2Config -> &<internal/cmd.V2RootConfig>.V2Config.
func typeShape(info *types.Info, e ast.Expr) string {
	switch x := ast.Unparen(e).(type) {
	case *ast.UnaryExpr:
		return x.Op.String() + typeShape(info, x.X)
	case *ast.StarExpr:
		return "*" + typeShape(info, x.X)
	case *ast.SelectorExpr:
		return typeShape(info, x.X) + "." + x.Sel.Name
	case *ast.Ident:
		if t := info.TypeOf(x); t != nil {
			return "<" + shortType(t) + ">"
		}
	}
	return types.ExprString(e)
}

// isTemplateDataSetter: a function of the package that, on every path, stores its third argument under
// its second in the TemplateData of the config passed first and stores nothing else.
func isTemplateDataSetter(info *types.Info, fd *ast.FuncDecl) bool {
	if fd == nil || fd.Recv != nil || fd.Type.Params.NumFields() != 3 {
		return false
	}
	paths, _ := enumerateFunc(info, fd)
	for _, p := range paths {
		if hasStep(p, "store ARG0.TemplateData[ARG1] = ARG2") != 1 {
			return false
		}
		for _, st := range p.Steps {
			if strings.HasPrefix(st, "store ") && !strings.HasPrefix(st, "store ARG0.TemplateData") {
				return false
			}
		}
	}
	return len(paths) > 0
}

// migrateParamIndex returns the positions of migrateConfig's *V2Config and **config.Config parameters.
func migrateParamIndex(info *types.Info, fd *ast.FuncDecl) (v2, v3 int) {
	v2, v3 = -1, -1
	if fd == nil {
		return
	}
	i := 0
	for _, f := range fd.Type.Params.List {
		n := len(f.Names)
		if n == 0 {
			n = 1
		}
		for k := 0; k < n; k++ {
			switch shortType(info.TypeOf(f.Type)) {
			case "*internal/cmd.V2Config":
				v2 = i
			case "**config.Config":
				v3 = i
			}
			i++
		}
	}
	return
}

func declParamName(fd *ast.FuncDecl, idx int) string {
	i := 0
	for _, f := range fd.Type.Params.List {
		for _, n := range f.Names {
			if i == idx {
				return n.Name
			}
			i++
		}
	}
	return ""
}
