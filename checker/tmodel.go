package main

// Engine T, part 1: abstract values and the shape-indexed model of the data
// that mockery hands to its built-in templates. One Shape stands for the class
// of all interfaces with that many methods / parameters / results / type
// parameters etc.; identifiers and types are placeholders whose spelling
// encodes their provenance (pa0x1 = parameter 1 of method 0 of interface a).
// The spelling produced by each accessor for a given shape is the "accessor
// table"; the Go implementations of the accessors are checked against it by
// the C14 rules.

import (
	"fmt"
	"sort"
	"strings"
)

type tval = any

type Hole struct {
	ID   int
	Expr string // canonical accessor, e.g. "method.ArgList"
	Elem string // model element it derives from, e.g. "a.m0" or "a.m0.p1"
	Text string // spelling under the current shape
}

type Seg struct {
	Text string
	H    *Hole
}

// SV is a string value with provenance.
type SV struct{ Segs []Seg }

func (s *SV) String() string {
	var b strings.Builder
	for _, g := range s.Segs {
		b.WriteString(g.Text)
	}
	return b.String()
}

type Nil struct{}

type List struct {
	Kind  string // "params","returns","tparams","methods","ifaces","imports",...
	Elems []tval
	Owner tval
}

type RetKind int

const (
	RPlain RetKind = iota
	RError
	RNillable
)

func (k RetKind) String() string { return [...]string{"plain", "error", "nillable"}[k] }

type MShape struct {
	NP       int
	Variadic bool
	VarElem  string // "named" | "interface{}" | "any"
	Rets     []RetKind
	SrcType  bool // parameter 0 (or result 0 when NP==0) is a type of the source package
	NilP     bool // the fixed parameters have nillable (interface) types
	TPType   bool // parameter 0 has the interface's type parameter 0 as its type
}

func (m MShape) String() string {
	v := ""
	if m.Variadic {
		v = "...(" + m.VarElem + ")"
	}
	var r []string
	for _, k := range m.Rets {
		r = append(r, k.String())
	}
	s := ""
	if m.SrcType {
		s = ",srcT"
	}
	if m.NilP {
		s += ",nilP"
	}
	if m.TPType {
		s += ",tpT"
	}
	return fmt.Sprintf("p%d%s->[%s]%s", m.NP, v, strings.Join(r, ","), s)
}

type IShape struct {
	Methods []MShape
	NTP     int
	Lower   bool // struct name starts with a lower-case letter
	TPLower bool // the type parameters have lower-case names in the source
}

type Shape struct {
	Ifaces []IShape
	OutPkg bool // mock rendered outside the source package
}

func (s Shape) String() string {
	var is []string
	for _, i := range s.Ifaces {
		var ms []string
		for _, m := range i.Methods {
			ms = append(ms, m.String())
		}
		tl := ""
		if i.TPLower {
			tl = " tpLower"
		}
		is = append(is, fmt.Sprintf("{tp%d lower=%v%s [%s]}", i.NTP, i.Lower, tl, strings.Join(ms, " ")))
	}
	return fmt.Sprintf("out=%v %s", s.OutPkg, strings.Join(is, " "))
}

// ---- model objects ----

type obj struct {
	kind string
	id   string
	// indices
	ii, mi, pi int
	ret        bool
}

func (o *obj) String() string { return o.kind + ":" + o.id }

const depQual = "dep."
const srcQual = "srcpkg."

func ifaceLetter(i int) string { return string(rune('a' + i)) }

// spelling helpers (the accessor table's leaves)
func (e *Eval) ifaceName(ii int) string { return "Iface" + strings.ToUpper(ifaceLetter(ii)) }
func (e *Eval) structName(ii int) string {
	if e.sh.Ifaces[ii].Lower {
		return "mock" + strings.ToUpper(ifaceLetter(ii))
	}
	return "Mock" + strings.ToUpper(ifaceLetter(ii))
}
func methName(ii, mi int) string   { return fmt.Sprintf("Meth%s%d", strings.ToUpper(ifaceLetter(ii)), mi) }
func paramName(ii, mi, pi int) string { return fmt.Sprintf("p%s%dx%d", ifaceLetter(ii), mi, pi) }
func retName(ii, mi, pi int) string   { return fmt.Sprintf("r%s%dx%d", ifaceLetter(ii), mi, pi) }
func tpName(ii, pi int) string        { return fmt.Sprintf("Q%s%d", ifaceLetter(ii), pi) }

// tpSrcName is the type parameter's name as written in the source (what
// types.TypeString prints wherever the parameter is used as a type).
func (e *Eval) tpSrcName(ii, pi int) string {
	if e.sh.Ifaces[ii].TPLower {
		return lowFirst(tpName(ii, pi))
	}
	return tpName(ii, pi)
}

func (e *Eval) srcQ() string {
	if e.sh.OutPkg {
		return srcQual
	}
	return ""
}

func (e *Eval) paramType(ii, mi, pi int) string {
	m := e.sh.Ifaces[ii].Methods[mi]
	if m.Variadic && pi == m.NP-1 {
		switch m.VarElem {
		case "interface{}", "any":
			return "[]" + m.VarElem
		}
		return "[]" + depQual + fmt.Sprintf("EP%s%dx%d", ifaceLetter(ii), mi, pi)
	}
	if m.TPType && pi == 0 && e.sh.Ifaces[ii].NTP > 0 {
		return e.tpSrcName(ii, 0)
	}
	if m.SrcType && pi == 0 {
		return e.srcQ() + fmt.Sprintf("SP%s%dx%d", ifaceLetter(ii), mi, pi)
	}
	if m.NilP {
		return depQual + fmt.Sprintf("NP%s%dx%d", ifaceLetter(ii), mi, pi)
	}
	return depQual + fmt.Sprintf("TP%s%dx%d", ifaceLetter(ii), mi, pi)
}

func (e *Eval) retType(ii, mi, pi int) string {
	m := e.sh.Ifaces[ii].Methods[mi]
	switch m.Rets[pi] {
	case RError:
		return "error"
	case RNillable:
		return depQual + fmt.Sprintf("NR%s%dx%d", ifaceLetter(ii), mi, pi)
	}
	if m.SrcType && m.NP == 0 && pi == 0 {
		return e.srcQ() + fmt.Sprintf("SR%s%dx%d", ifaceLetter(ii), mi, pi)
	}
	return depQual + fmt.Sprintf("TR%s%dx%d", ifaceLetter(ii), mi, pi)
}

func tpConstraintType(ii, pi int) string { return depQual + fmt.Sprintf("CQ%s%d", ifaceLetter(ii), pi) }

func capFirst(s string) string {
	if s == "" {
		return s
	}
	return strings.ToUpper(s[:1]) + s[1:]
}
func lowFirst(s string) string {
	if s == "" {
		return s
	}
	return strings.ToLower(s[:1]) + s[1:]
}

// usesDep / usesSrc: which imports the generator's registry would hold before
// the template runs (one per package referenced by some parameter/result type).
func (e *Eval) baseImports() []string {
	dep, src := false, false
	for ii, is := range e.sh.Ifaces {
		for mi, m := range is.Methods {
			for pi := 0; pi < m.NP; pi++ {
				t := e.paramType(ii, mi, pi)
				dep = dep || strings.Contains(t, depQual)
				src = src || strings.Contains(t, srcQual)
			}
			for pi := range m.Rets {
				t := e.retType(ii, mi, pi)
				dep = dep || strings.Contains(t, depQual)
				src = src || strings.Contains(t, srcQual)
			}
		}
		if is.NTP > 0 {
			dep = true
		}
	}
	var out []string
	if dep {
		out = append(out, "example.com/dep")
	}
	if src {
		out = append(out, "example.com/srcpkg")
	}
	return out
}

var importNames = map[string]string{"example.com/dep": "dep", "example.com/srcpkg": "srcpkg"}

func (e *Eval) sortedImports() []string {
	var out []string
	for p := range e.imports {
		out = append(out, p)
	}
	sort.Strings(out)
	return out
}

// field evaluates X.name(args...) on a model object: the accessor table.
func (e *Eval) field(recv tval, name string, args []tval) (tval, error) {
	switch o := recv.(type) {
	case *List:
		return e.listField(o, name, args)
	case *obj:
		return e.objField(o, name, args)
	case Nil, nil:
		return nil, fmt.Errorf("nil pointer evaluating .%s", name)
	}
	return nil, fmt.Errorf("can't evaluate field %s in type %T", name, recv)
}

func noArgs(name string, args []tval) error {
	if len(args) != 0 {
		return fmt.Errorf("%s is a field/niladic method, got %d argument(s)", name, len(args))
	}
	return nil
}

func (e *Eval) listField(l *List, name string, args []tval) (tval, error) {
	switch {
	case l.Kind == "ifaces" && name == "ImplementsSomeMethod":
		if err := noArgs(name, args); err != nil {
			return nil, err
		}
		for _, is := range e.sh.Ifaces {
			if len(is.Methods) > 0 {
				return true, nil
			}
		}
		return false, nil
	case l.Kind == "imports" && name == "PkgQualifier":
		if len(args) != 1 {
			return nil, fmt.Errorf("PkgQualifier wants 1 argument")
		}
		p := valString(args[0])
		for _, el := range l.Elems {
			io := el.(*obj)
			if io.id == p {
				return e.hole("imports.PkgQualifier("+p+")", "import:"+p, e.imports[p]), nil
			}
		}
		return nil, fmt.Errorf("template error: unknown import %s", p)
	}
	return nil, fmt.Errorf("unmodelled accessor %s on list of %s", name, l.Kind)
}

func (e *Eval) methodShape(o *obj) MShape { return e.sh.Ifaces[o.ii].Methods[o.mi] }

func (e *Eval) paramList(ii, mi int) *List {
	m := e.sh.Ifaces[ii].Methods[mi]
	l := &List{Kind: "params"}
	for pi := 0; pi < m.NP; pi++ {
		l.Elems = append(l.Elems, &obj{kind: "param", id: fmt.Sprintf("%s.m%d.p%d", ifaceLetter(ii), mi, pi), ii: ii, mi: mi, pi: pi})
	}
	return l
}

func (e *Eval) retList(ii, mi int) *List {
	m := e.sh.Ifaces[ii].Methods[mi]
	l := &List{Kind: "returns"}
	for pi := range m.Rets {
		l.Elems = append(l.Elems, &obj{kind: "param", id: fmt.Sprintf("%s.m%d.r%d", ifaceLetter(ii), mi, pi), ii: ii, mi: mi, pi: pi, ret: true})
	}
	return l
}

// per-parameter spellings
func (e *Eval) pName(o *obj) string {
	switch {
	case o.kind == "tparam":
		return e.tpSrcName(o.ii, o.pi)
	case o.ret:
		return retName(o.ii, o.mi, o.pi)
	}
	return paramName(o.ii, o.mi, o.pi)
}
func (e *Eval) pType(o *obj) string {
	switch {
	case o.kind == "tparam":
		return tpConstraintType(o.ii, o.pi)
	case o.ret:
		return e.retType(o.ii, o.mi, o.pi)
	}
	return e.paramType(o.ii, o.mi, o.pi)
}
func (e *Eval) pVariadic(o *obj) bool {
	if o.kind != "param" || o.ret {
		return false
	}
	m := e.methodShape(o)
	return m.Variadic && o.pi == m.NP-1
}
func (e *Eval) pTypeEllipsis(o *obj) string {
	t := e.pType(o)
	if !e.pVariadic(o) {
		return t
	}
	return strings.Replace(t, "[]", "...", 1)
}
func (e *Eval) pMethodArg(o *obj) string {
	if e.pVariadic(o) {
		return e.pName(o) + " ..." + e.pType(o)[2:]
	}
	return e.pName(o) + " " + e.pType(o)
}
func (e *Eval) pCallName(o *obj, ellipsis bool) string {
	if ellipsis && e.pVariadic(o) {
		return e.pName(o) + "..."
	}
	return e.pName(o)
}

func joinMap(l *List, f func(*obj) string) string {
	var out []string
	for _, el := range l.Elems {
		out = append(out, f(el.(*obj)))
	}
	return strings.Join(out, ", ")
}

func (e *Eval) argCallListSlice(o *obj, start, end int, ellipsis bool) (string, error) {
	ps := e.paramList(o.ii, o.mi)
	n := len(ps.Elems)
	if end < 0 {
		end = n
	}
	if end == 1 && n == 0 {
		end = 0
	}
	if start < 0 || end > n || start > end {
		return "", fmt.Errorf("template error: slice bounds out of range [%d:%d] with %d parameter(s)", start, end, n)
	}
	sub := &List{Elems: ps.Elems[start:end]}
	return joinMap(sub, func(p *obj) string { return e.pCallName(p, ellipsis) }), nil
}

func (e *Eval) objField(o *obj, name string, args []tval) (tval, error) {
	H := func(text string) *SV { return e.hole(o.kind+"."+name, o.id, text) }
	niladic := func() error { return noArgs(o.kind+"."+name, args) }
	switch o.kind {
	case "data":
		if err := niladic(); err != nil {
			return nil, err
		}
		switch name {
		case "PkgName":
			return H("pkgout"), nil
		case "SrcPkgQualifier":
			return H(e.srcQ()), nil
		case "Interfaces":
			l := &List{Kind: "ifaces"}
			for ii := range e.sh.Ifaces {
				l.Elems = append(l.Elems, &obj{kind: "iface", id: ifaceLetter(ii), ii: ii})
			}
			return l, nil
		case "TemplateData":
			return &obj{kind: "tdata", id: "file"}, nil
		case "Registry":
			return &obj{kind: "registry", id: "registry"}, nil
		case "Imports":
			return e.importList(), nil
		}
	case "registry":
		switch name {
		case "AddImport":
			if len(args) != 2 {
				return nil, fmt.Errorf("AddImport wants 2 arguments")
			}
			pkgName, path := valString(args[0]), valString(args[1])
			if _, ok := e.imports[path]; !ok {
				q := pkgName
				for i := 0; e.qualTaken(q); i++ {
					q = fmt.Sprintf("%s%d", pkgName, i)
				}
				e.imports[path] = q
				e.importDecl[path] = pkgName
			}
			return &obj{kind: "import", id: path}, nil
		case "Imports":
			if err := niladic(); err != nil {
				return nil, err
			}
			return e.importList(), nil
		case "SrcPkgName":
			if err := niladic(); err != nil {
				return nil, err
			}
			return H("srcpkg"), nil
		}
	case "import":
		if err := niladic(); err != nil {
			return nil, err
		}
		q := e.imports[o.id]
		switch name {
		case "ImportStatement":
			if q != e.importDecl[o.id] {
				return H(q + ` "` + o.id + `"`), nil
			}
			return H(`"` + o.id + `"`), nil
		case "Qualifier":
			return H(q), nil
		case "Path":
			return H(o.id), nil
		case "Alias":
			if q != e.importDecl[o.id] {
				return H(q), nil
			}
			return H(""), nil
		}
	case "tdata":
		// only reachable through index; a field access .TemplateData.key behaves the same
		if err := niladic(); err != nil {
			return nil, err
		}
		return e.flag(o, name), nil
	case "iface":
		is := e.sh.Ifaces[o.ii]
		if err := niladic(); err != nil {
			return nil, err
		}
		switch name {
		case "Name":
			return H(e.ifaceName(o.ii)), nil
		case "StructName":
			return H(e.structName(o.ii)), nil
		case "TemplateData":
			return &obj{kind: "tdata", id: "iface:" + o.id}, nil
		case "Methods":
			l := &List{Kind: "methods"}
			for mi := range is.Methods {
				l.Elems = append(l.Elems, &obj{kind: "method", id: fmt.Sprintf("%s.m%d", o.id, mi), ii: o.ii, mi: mi})
			}
			return l, nil
		case "TypeParams":
			l := &List{Kind: "tparams"}
			for pi := 0; pi < is.NTP; pi++ {
				l.Elems = append(l.Elems, &obj{kind: "tparam", id: fmt.Sprintf("%s.q%d", o.id, pi), ii: o.ii, pi: pi})
			}
			return l, nil
		case "TypeConstraint", "TypeConstraintTest", "TypeInstantiation":
			if is.NTP == 0 {
				return H(""), nil
			}
			var parts []string
			for pi := 0; pi < is.NTP; pi++ {
				// interface.go applies template_funcs.Exported to the name at these sites
				if name == "TypeInstantiation" {
					parts = append(parts, capFirst(e.tpSrcName(o.ii, pi)))
				} else {
					parts = append(parts, capFirst(e.tpSrcName(o.ii, pi))+" "+tpConstraintType(o.ii, pi))
				}
			}
			return H("[" + strings.Join(parts, ", ") + "]"), nil
		}
	case "method":
		m := e.methodShape(o)
		ps, rs := e.paramList(o.ii, o.mi), e.retList(o.ii, o.mi)
		switch name {
		case "ArgCallListSlice", "ArgCallListSliceNoEllipsis":
			if len(args) != 2 {
				return nil, fmt.Errorf("%s wants 2 arguments", name)
			}
			a, ok1 := args[0].(int)
			b, ok2 := args[1].(int)
			if !ok1 || !ok2 {
				return nil, fmt.Errorf("%s wants int arguments", name)
			}
			s, err := e.argCallListSlice(o, a, b, name == "ArgCallListSlice")
			if err != nil {
				return nil, err
			}
			return e.hole(fmt.Sprintf("method.%s(%d,%d)", name, a, b), o.id, s), nil
		}
		if err := niladic(); err != nil {
			return nil, err
		}
		switch name {
		case "Name":
			return H(methName(o.ii, o.mi)), nil
		case "Params":
			return ps, nil
		case "Returns":
			return rs, nil
		case "Scope":
			return &obj{kind: "scope", id: o.id, ii: o.ii, mi: o.mi}, nil
		case "IsVariadic":
			return m.Variadic && m.NP > 0, nil
		case "HasParams":
			return m.NP > 0, nil
		case "HasReturns":
			return len(m.Rets) > 0, nil
		case "ReturnsError":
			for _, k := range m.Rets {
				if k == RError {
					return true, nil
				}
			}
			return false, nil
		case "AcceptsContext":
			return false, nil
		case "ReturnStatement":
			if len(m.Rets) > 0 {
				return H("return"), nil
			}
			return H(""), nil
		case "ArgList":
			return H(joinMap(ps, e.pMethodArg)), nil
		case "ArgTypeList":
			return H(joinMap(ps, e.pType)), nil
		case "ArgTypeListEllipsis":
			return H(joinMap(ps, e.pTypeEllipsis)), nil
		case "ArgCallList":
			s, _ := e.argCallListSlice(o, 0, -1, true)
			return H(s), nil
		case "ArgCallListNoEllipsis":
			s, _ := e.argCallListSlice(o, 0, -1, false)
			return H(s), nil
		case "ReturnArgTypeList":
			s := joinMap(rs, e.pType)
			if len(rs.Elems) > 1 {
				s = "(" + s + ")"
			}
			return H(s), nil
		case "ReturnArgNameList":
			return H(joinMap(rs, e.pName)), nil
		case "ReturnArgList":
			return H(joinMap(rs, func(p *obj) string { return e.pName(p) + " " + e.pType(p) })), nil
		case "Call":
			s, _ := e.argCallListSlice(o, 0, -1, true)
			return H(methName(o.ii, o.mi) + "(" + s + ")"), nil
		case "Signature":
			return H("(" + joinMap(ps, e.pMethodArg) + ") (" + joinMap(rs, func(p *obj) string { return e.pName(p) + " " + e.pType(p) }) + ")"), nil
		case "Declaration":
			return H(methName(o.ii, o.mi) + "(" + joinMap(ps, e.pMethodArg) + ") (" + joinMap(rs, func(p *obj) string { return e.pName(p) + " " + e.pType(p) }) + ")"), nil
		}
	case "scope":
		switch name {
		case "AllocateName", "SuggestName":
			if len(args) != 1 {
				return nil, fmt.Errorf("%s wants 1 argument", name)
			}
			prefix := valString(args[0])
			names := e.scopeNames(o)
			s := prefix
			for i := 1; names[s]; i++ {
				s = fmt.Sprintf("%s%d", prefix, i)
			}
			if name == "AllocateName" {
				names[s] = true
			}
			return e.hole("scope."+name+"("+prefix+")", o.id, s), nil
		case "AddName":
			if len(args) != 1 {
				return nil, fmt.Errorf("AddName wants 1 argument")
			}
			e.scopeNames(o)[valString(args[0])] = true
			return Nil{}, nil
		case "NameExists":
			if len(args) != 1 {
				return nil, fmt.Errorf("NameExists wants 1 argument")
			}
			return e.scopeNames(o)[valString(args[0])], nil
		}
	case "param", "tparam":
		if name == "CallName" {
			if len(args) != 1 {
				return nil, fmt.Errorf("CallName wants 1 argument")
			}
			b, _ := args[0].(bool)
			return H(e.pCallName(o, b)), nil
		}
		if err := niladic(); err != nil {
			return nil, err
		}
		switch name {
		case "Var":
			return &obj{kind: "var", id: o.id, ii: o.ii, mi: o.mi, pi: o.pi, ret: o.ret}, nil
		case "Param":
			if o.kind == "tparam" {
				return o, nil
			}
		case "Variadic":
			return e.pVariadic(o), nil
		case "Name":
			return H(e.pName(o)), nil
		case "TypeString":
			return H(e.pType(o)), nil
		case "TypeStringEllipsis":
			return H(e.pTypeEllipsis(o)), nil
		case "TypeStringVariadicUnderlying":
			return H(strings.Replace(e.pTypeEllipsis(o), "...", "", 1)), nil
		case "MethodArg":
			return H(e.pMethodArg(o)), nil
		case "Constraint":
			if o.kind == "tparam" {
				if e.decideKey("explicit-constraint:"+o.id, "type parameter "+o.id+" has an explicit basic/union constraint") {
					return &obj{kind: "constraint", id: o.id, ii: o.ii, pi: o.pi}, nil
				}
				// not a single explicit type: either an ordinary (method-set) interface, which is a valid
				// type argument, or a constraint interface such as comparable, which is not
				e.decideKey("comparable-constraint:"+o.id, "the constraint of type parameter "+o.id+" is (or embeds) comparable")
				return Nil{}, nil
			}
		}
	case "constraint":
		if err := niladic(); err != nil {
			return nil, err
		}
		if name == "String" {
			return H("int"), nil
		}
	case "var":
		if err := niladic(); err != nil {
			return nil, err
		}
		po := &obj{kind: "param", id: o.id, ii: o.ii, mi: o.mi, pi: o.pi, ret: o.ret}
		if strings.Contains(o.id, ".q") {
			po.kind = "tparam"
		}
		switch name {
		case "Name":
			return H(e.pName(po)), nil
		case "TypeString":
			return H(e.pType(po)), nil
		case "Nillable":
			if po.kind == "param" && po.ret {
				k := e.methodShape(po).Rets[po.pi]
				return k == RNillable || k == RError, nil
			}
			if po.kind == "param" && e.pVariadic(po) {
				return true, nil
			}
			return false, nil
		case "IsSlice":
			return po.kind == "param" && e.pVariadic(po), nil
		}
	}
	return nil, fmt.Errorf("unmodelled accessor .%s on %s", name, o.kind)
}

func (e *Eval) qualTaken(q string) bool {
	for _, v := range e.imports {
		if v == q {
			return true
		}
	}
	return false
}

func (e *Eval) importList() *List {
	l := &List{Kind: "imports"}
	for _, p := range e.sortedImports() {
		l.Elems = append(l.Elems, &obj{kind: "import", id: p})
	}
	return l
}

func (e *Eval) scopeNames(o *obj) map[string]bool {
	if n, ok := e.scopes[o.id]; ok {
		return n
	}
	n := map[string]bool{}
	m := e.methodShape(o)
	for pi := 0; pi < m.NP; pi++ {
		n[paramName(o.ii, o.mi, pi)] = true
		n[e.paramType(o.ii, o.mi, pi)] = true
	}
	for pi := range m.Rets {
		n[retName(o.ii, o.mi, pi)] = true
		n[e.retType(o.ii, o.mi, pi)] = true
	}
	for _, q := range e.imports {
		n[q] = true
	}
	e.scopes[o.id] = n
	return n
}
