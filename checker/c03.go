package main

import (
	"fmt"
	"go/ast"
	"go/constant"
	"go/token"
	"go/types"
	"strings"
)

func init() { register("C03", checkC03) }

// item of an argument tuple handed to mock.Called / mock.On
type argItem struct {
	param  int  // parameter index
	spread bool // all elements of the (variadic) parameter, in order
}

func (a argItem) String() string {
	if a.spread {
		return fmt.Sprintf("p%d...", a.param)
	}
	return fmt.Sprintf("p%d", a.param)
}

func itemsString(it []argItem) string {
	var s []string
	for _, i := range it {
		s = append(s, i.String())
	}
	return "(" + strings.Join(s, ", ") + ")"
}

func sameItems(a, b []argItem) bool {
	if len(a) != len(b) {
		return false
	}
	for i := range a {
		if a[i] != b[i] {
			return false
		}
	}
	return true
}

// tupleEval is a tiny abstract interpreter for the []interface{} locals the
// template builds before calling Called/On: it tracks, per local, the sequence
// of parameters it holds.
type tupleEval struct {
	p      *TPath
	params map[types.Object]int
	locals map[types.Object][]argItem
	bad    string
}

func (t *tupleEval) universe(id *ast.Ident, name string) bool {
	return id != nil && id.Name == name && t.p.Info.Uses[id] == types.Universe.Lookup(name)
}

// items of an expression list with optional trailing ellipsis
func (t *tupleEval) exprItems(args []ast.Expr, ellipsis bool) ([]argItem, bool) {
	var out []argItem
	for i, a := range args {
		last := i == len(args)-1
		switch x := ast.Unparen(a).(type) {
		case *ast.Ident:
			obj := t.p.Info.Uses[x]
			if pi, ok := t.params[obj]; ok {
				out = append(out, argItem{pi, last && ellipsis})
				continue
			}
			if it, ok := t.locals[obj]; ok && last && ellipsis {
				out = append(out, it...)
				continue
			}
			return nil, false
		case *ast.CallExpr:
			// append([]interface{}{a, b}, c...)  used with trailing ellipsis
			if id, ok := x.Fun.(*ast.Ident); ok && t.universe(id, "append") && last && ellipsis && len(x.Args) >= 1 {
				base, ok := t.sliceItems(x.Args[0])
				if !ok {
					return nil, false
				}
				rest, ok := t.exprItems(x.Args[1:], x.Ellipsis.IsValid())
				if !ok {
					return nil, false
				}
				out = append(out, append(base, rest...)...)
				continue
			}
			return nil, false
		default:
			return nil, false
		}
	}
	return out, true
}

func (t *tupleEval) sliceItems(e ast.Expr) ([]argItem, bool) {
	switch x := ast.Unparen(e).(type) {
	case *ast.Ident:
		it, ok := t.locals[t.p.Info.Uses[x]]
		return it, ok
	case *ast.CompositeLit:
		return t.exprItems(x.Elts, false)
	}
	return nil, false
}

// run interprets the top-level statements that build tuples.
func (t *tupleEval) run(list []ast.Stmt) {
	for i, s := range list {
		switch x := s.(type) {
		case *ast.DeclStmt:
			gd, _ := x.Decl.(*ast.GenDecl)
			if gd == nil || gd.Tok != token.VAR {
				continue
			}
			for _, sp := range gd.Specs {
				vs := sp.(*ast.ValueSpec)
				for _, n := range vs.Names {
					if obj := t.p.Info.Defs[n]; obj != nil && isIfaceSlice(obj.Type()) && len(vs.Values) == 0 {
						t.locals[obj] = []argItem{}
					}
				}
			}
		case *ast.AssignStmt:
			if len(x.Lhs) != 1 || len(x.Rhs) != 1 {
				continue
			}
			id, _ := x.Lhs[0].(*ast.Ident)
			if id == nil {
				continue
			}
			obj := t.p.Info.Defs[id]
			if obj == nil {
				obj = t.p.Info.Uses[id]
			}
			if obj == nil || !isIfaceSlice(obj.Type()) {
				continue
			}
			call, _ := x.Rhs[0].(*ast.CallExpr)
			if call == nil {
				delete(t.locals, obj)
				continue
			}
			fid, _ := call.Fun.(*ast.Ident)
			switch {
			case t.universe(fid, "append") && len(call.Args) >= 1:
				base, ok := t.sliceItems(call.Args[0])
				rest, ok2 := t.exprItems(call.Args[1:], call.Ellipsis.IsValid())
				if ok && ok2 {
					t.locals[obj] = append(append([]argItem{}, base...), rest...)
				} else {
					delete(t.locals, obj)
					t.bad = "cannot follow " + t.p.code(x)
				}
			case t.universe(fid, "make") && len(call.Args) == 2:
				// x := make([]interface{}, len(P)) followed by: for i := range P { x[i] = P[i] }
				pi, ok := t.lenOfParam(call.Args[1])
				if ok && i+1 < len(list) && t.isCopyLoop(list[i+1], obj, pi) {
					t.locals[obj] = []argItem{{pi, true}}
				} else {
					delete(t.locals, obj)
					t.bad = "make() of an argument slice is not followed by an element-wise copy of the same parameter: " + t.p.code(x)
				}
			default:
				delete(t.locals, obj)
			}
		}
	}
}

func isIfaceSlice(t types.Type) bool {
	s, ok := t.Underlying().(*types.Slice)
	if !ok {
		return false
	}
	i, ok := s.Elem().Underlying().(*types.Interface)
	return ok && i.NumMethods() == 0
}

func (t *tupleEval) lenOfParam(e ast.Expr) (int, bool) {
	call, ok := ast.Unparen(e).(*ast.CallExpr)
	if !ok || len(call.Args) != 1 {
		return 0, false
	}
	id, _ := call.Fun.(*ast.Ident)
	if !t.universe(id, "len") {
		return 0, false
	}
	a, _ := ast.Unparen(call.Args[0]).(*ast.Ident)
	if a == nil {
		return 0, false
	}
	pi, ok := t.params[t.p.Info.Uses[a]]
	return pi, ok
}

// for i := range P { dst[i] = P[i] }
func (t *tupleEval) isCopyLoop(s ast.Stmt, dst types.Object, pi int) bool {
	rs, ok := s.(*ast.RangeStmt)
	if !ok || rs.Value != nil || len(rs.Body.List) != 1 {
		return false
	}
	x, _ := ast.Unparen(rs.X).(*ast.Ident)
	k, _ := rs.Key.(*ast.Ident)
	if x == nil || k == nil {
		return false
	}
	if p, ok := t.params[t.p.Info.Uses[x]]; !ok || p != pi {
		return false
	}
	kobj := t.p.Info.Defs[k]
	as, ok := rs.Body.List[0].(*ast.AssignStmt)
	if !ok || len(as.Lhs) != 1 || len(as.Rhs) != 1 || as.Tok != token.ASSIGN {
		return false
	}
	isIdx := func(e ast.Expr, base func(*ast.Ident) bool) bool {
		ie, ok := e.(*ast.IndexExpr)
		if !ok {
			return false
		}
		b, _ := ie.X.(*ast.Ident)
		i, _ := ie.Index.(*ast.Ident)
		return b != nil && i != nil && base(b) && t.p.Info.Uses[i] == kobj
	}
	return isIdx(as.Lhs[0], func(b *ast.Ident) bool { return t.p.Info.Uses[b] == dst }) &&
		isIdx(as.Rhs[0], func(b *ast.Ident) bool { p, ok := t.params[t.p.Info.Uses[b]]; return ok && p == pi })
}

// ---------------------------------------------------------------------

type tfunc struct {
	fd       *ast.FuncDecl
	recv     *types.Var
	elem     string
	role     string
	recvType string
}

func checkC03(c *Ctx) {
	c.Explanation = `Positional-wiring rules on every path of the testify template (engine T: both unroll-variadic settings x method shapes up to the tier bound incl. variadic element kinds, error/nillable/plain results, nillable parameters; each skeleton parsed and type-checked):
R03.1 each mock method hands mock.Called exactly one argument tuple per execution, and that tuple is: all parameters in order (non-variadic); under unroll-variadic the fixed parameters followed by every variadic element; otherwise the fixed parameters plus the variadic slice when it is non-empty and the fixed parameters alone when it is empty (guard len(last) > 0);
R03.2 every result variable is fed only from index k of the returned arguments (ret.Get(k)/ret.Error(k)) where k is its position in the return statement, error results through ret.Error, nillable results asserted only under a != nil test;
R03.3 a method with results panics with a message containing the method name when no return values were configured, before any extraction;
R03.4 the whole-function provider exists iff there are >= 2 results, has exactly the method's signature and is called with exactly the method's parameters (variadic spread); each per-result provider has the method's parameters and result k;
R03.6 the expecter method registers mock.On(<method name>, parameters in order, variadic spread);
R03.7 the typed Run wrapper unpacks what Called packed: args[i] is asserted to the type packed at position i, the variadic tail only to the type of the items packed there, nillable types only under a nil test; run is called once with all parameters in order;
R03.8 Return forwards exactly its parameters to Call.Return; RunAndReturn takes a func of exactly the method's signature and installs it through Call.Return (results) or Run (no results);
R03.9 the constructor calls Mock.Test(t), registers t.Cleanup(func(){ AssertExpectations(t) }) and returns that mock;
R03.5 no identifier fixed by the template is declared in a scope enclosing a use of a user-named parameter (it would capture the argument handed to providers/Called) unless allocated through Scope.AllocateName;
R03.10 unroll-variadic is read from the interface's merged template-data.`
	c.NotDecided = "testify's matching, Once/Times, failure reporting; run-time values; shapes beyond the tier bound."
	c.Assumptions = []string{"testify's mock.Mock/Call/Arguments behave as documented (stubbed signatures)", "engine T's accessor table (C14 checks it against the Go code)"}
	c.Rule("R03.0", 300, "")
	for _, r := range []string{"R03.1", "R03.2", "R03.3", "R03.4", "R03.6", "R03.7", "R03.8"} {
		c.Rule(r, 300, "")
	}
	c.Rule("R03.9", 300, "")
	c.Rule("R03.10", 100, "")

	walkTemplate(c, "testify", "body", func(p *TPath) {
		if usesTypeParamTypes(p.Shape) {
			return
		}
		switch {
		case p.Err != nil:
			c.Fail("R03.0", "testify|eval|"+p.Err.err.Error(), p.E.nodePos(p.Err.node), "template path cannot be evaluated: "+p.Err.err.Error()+" ["+p.Env()+"]")
			return
		case p.ParseEr != nil:
			c.Fail("R03.0", "testify|parse", "", "skeleton does not parse: "+p.ParseEr.Error()+" ["+p.Env()+"]")
			return
		case len(p.TypeErr) > 0:
			c.Fail("R03.0", "testify|type|"+p.TypeErr[0], p.TmplPos(p.rawErrs[0].Pos), "skeleton does not type-check: "+p.TypeErr[0]+" ["+p.Env()+"]")
			return
		}
		c.OK("R03.0", "testify", "", "")
		for k := range p.E.flagsSeen {
			key := k[strings.LastIndex(k, ":")+1:]
			if perMockKeys[key] {
				if strings.HasPrefix(k, "file:") {
					c.Fail("R03.10", "testify|file-level|"+key, "internal/mock_testify.templ", fmt.Sprintf("per-mock option %q is read from the file-level template-data", key))
				} else {
					c.OK("R03.10", "testify|"+key, "", "")
				}
			}
		}
		testifyRules(c, p)
	})
	accessorTableGuard(c, "R03.11")
	configResolutionGuard(c, "R03.12")
	// R03.5: no template-fixed local may capture a parameter where the body passes it on
	hz, hp := map[string]string{}, map[string]string{}
	n := 0
	walkTemplate(c, "testify", "body", func(p *TPath) {
		if p.Err == nil && p.ParseEr == nil && !usesTypeParamTypes(p.Shape) {
			n += captureHazards(p, hz, hp)
		}
	})
	c.Rule("R03.5", 100, "")
	for k, d := range hz {
		if strings.Contains(k, "|capture|") {
			c.Fail("R03.5", k, hp[k], d)
		}
	}
	for i := 0; i < n; i++ {
		c.OK("R03.5", "scope-analysis", "", "")
	}
}

func testifyRules(c *Ctx, p *TPath) {
	env := " [" + p.Env() + "]"
	fail := func(rule, key, what string, pos token.Pos) {
		c.Fail(rule, "testify|"+key, p.TmplPos(pos), what+env)
	}
	// classify functions by receiver type name and method-name hole
	byRole := map[string][]tfunc{}
	for _, d := range p.File.Decls {
		fd, ok := d.(*ast.FuncDecl)
		if !ok || fd.Body == nil {
			continue
		}
		tf := tfunc{fd: fd, elem: p.elemOf(fd.Name), role: p.fixedText(fd.Name)}
		if fd.Recv != nil && len(fd.Recv.List) == 1 {
			tf.recvType = recvTypeName(fd.Recv.List[0].Type)
			if len(fd.Recv.List[0].Names) == 1 {
				tf.recv, _ = p.Info.Defs[fd.Recv.List[0].Names[0]].(*types.Var)
			}
		}
		byRole[tf.recvType] = append(byRole[tf.recvType], tf)
	}
	for ii, is := range p.Shape.Ifaces {
		sn := p.E.structName(ii)
		unroll := p.E.Flag("iface:"+ifaceLetter(ii), "unroll-variadic")
		testifyConstructor(c, p, ii, byRole[""], fail)
		for mi, ms := range is.Methods {
			el := fmt.Sprintf("%s.m%d", ifaceLetter(ii), mi)
			mname := methName(ii, mi)
			var mock, exp *tfunc
			for i, f := range byRole[sn] {
				if f.elem == el && f.role == "{}" {
					mock = &byRole[sn][i]
				}
			}
			for i, f := range byRole[sn+"_Expecter"] {
				if f.elem == el && f.role == "{}" {
					exp = &byRole[sn+"_Expecter"][i]
				}
			}
			if mock == nil {
				fail("R03.1", "no-mock-method", "no method "+normMsg(mname)+" on the mock struct", token.NoPos)
				continue
			}
			packed := testifyMockMethod(c, p, *mock, ii, mi, ms, unroll, fail)
			if exp == nil {
				fail("R03.6", "no-expecter-method", "no expecter method for "+normMsg(mname), token.NoPos)
			} else {
				testifyExpecter(c, p, *exp, ii, mi, ms, fail)
			}
			callT := sn + "_" + mname + "_Call"
			var run, ret, rar *tfunc
			for i, f := range byRole[callT] {
				switch f.fd.Name.Name {
				case "Run":
					run = &byRole[callT][i]
				case "Return":
					ret = &byRole[callT][i]
				case "RunAndReturn":
					rar = &byRole[callT][i]
				}
			}
			if run == nil || ret == nil || rar == nil {
				fail("R03.8", "call-methods-missing", "call type of "+normMsg(mname)+" lacks Run/Return/RunAndReturn", token.NoPos)
				continue
			}
			testifyRun(c, p, *run, *mock, ii, mi, ms, packed, fail)
			testifyReturn(c, p, *ret, *rar, *mock, ii, mi, ms, fail)
		}
	}
}

// paramObjs maps the parameter objects of a function declaration to their index.
func (p *TPath) paramObjs(ft *ast.FuncType) (map[types.Object]int, []types.Object) {
	m := map[types.Object]int{}
	var list []types.Object
	i := 0
	for _, f := range ft.Params.List {
		for _, n := range f.Names {
			obj := p.Info.Defs[n]
			m[obj] = i
			list = append(list, obj)
			i++
		}
	}
	return m, list
}

func (p *TPath) isMethodCallOn(call *ast.CallExpr, recv types.Object, name string) bool {
	sel, ok := call.Fun.(*ast.SelectorExpr)
	if !ok || sel.Sel.Name != name {
		return false
	}
	root, _ := selChain(sel.X)
	return root != nil && p.Info.Uses[root] == recv
}

func wantItems(ms MShape, mode string) []argItem {
	var out []argItem
	n := ms.NP
	switch mode {
	case "all": // every parameter as is
		for i := 0; i < n; i++ {
			out = append(out, argItem{i, false})
		}
	case "fixed":
		for i := 0; i < n-1; i++ {
			out = append(out, argItem{i, false})
		}
	case "spread":
		for i := 0; i < n-1; i++ {
			out = append(out, argItem{i, false})
		}
		out = append(out, argItem{n - 1, true})
	}
	return out
}

// testifyMockMethod checks R03.1-R03.4 and returns the packed tuples
// (one per Called site) for the Run wrapper check.
func testifyMockMethod(c *Ctx, p *TPath, f tfunc, ii, mi int, ms MShape, unroll bool, fail func(rule, key, what string, pos token.Pos)) [][]argItem {
	name := normMsg(f.fd.Name.Name)
	params, plist := p.paramObjs(f.fd.Type)
	body := f.fd.Body.List
	te := &tupleEval{p: p, params: params, locals: map[types.Object][]argItem{}}
	te.run(body)

	// ---- R03.1: Called sites
	type site struct {
		call  *ast.CallExpr
		items []argItem
		ok    bool
		guard string // "", "nonempty", "empty"
		top   bool
	}
	var sites []site
	var visit func(list []ast.Stmt, guard string, top bool)
	collect := func(n ast.Node, guard string, top bool) {
		ast.Inspect(n, func(x ast.Node) bool {
			switch y := x.(type) {
			case *ast.FuncLit:
				return false
			case *ast.CallExpr:
				if f.recv != nil && p.isMethodCallOn(y, f.recv, "Called") {
					it, ok := te.exprItems(y.Args, y.Ellipsis.IsValid())
					sites = append(sites, site{y, it, ok, guard, top})
				}
			}
			return true
		})
	}
	visit = func(list []ast.Stmt, guard string, top bool) {
		for _, s := range list {
			if ifs, ok := s.(*ast.IfStmt); ok && top && ifs.Init == nil {
				if pi, ok := lenGtZero(te, ifs.Cond); ok && ms.Variadic && pi == ms.NP-1 {
					visit(ifs.Body.List, "nonempty", false)
					if eb, ok := ifs.Else.(*ast.BlockStmt); ok {
						visit(eb.List, "empty", false)
					}
					continue
				}
			}
			_, isIf := s.(*ast.IfStmt)
			_, isFor := s.(*ast.ForStmt)
			_, isRange := s.(*ast.RangeStmt)
			_, isSwitch := s.(*ast.SwitchStmt)
			collect(s, guard, top && !isIf && !isFor && !isRange && !isSwitch)
		}
	}
	visit(body, "", true)
	okCalled := true
	report := func(key, what string, pos token.Pos) {
		okCalled = false
		fail("R03.1", key, name+": "+what, pos)
	}
	if te.bad != "" {
		report("tuple-unfollowable", te.bad, f.fd.Pos())
	}
	var packed [][]argItem
	switch {
	case !ms.Variadic:
		if len(sites) != 1 || !sites[0].top {
			report("called-count", fmt.Sprintf("%d Called site(s) (want one unconditional)", len(sites)), f.fd.Pos())
		} else if !sites[0].ok || !sameItems(sites[0].items, wantItems(ms, "all")) {
			report("called-args", fmt.Sprintf("Called receives %s, want every parameter in order", normMsg(p.code(sites[0].call))), sites[0].call.Pos())
		}
	case unroll:
		if len(sites) != 1 || !sites[0].top {
			report("called-count", fmt.Sprintf("%d Called site(s) (want one unconditional)", len(sites)), f.fd.Pos())
		} else if !sites[0].ok || !sameItems(sites[0].items, wantItems(ms, "spread")) {
			got := "?"
			if sites[0].ok {
				got = itemsString(sites[0].items)
			}
			report("called-args-unrolled", fmt.Sprintf("under unroll-variadic Called receives %s, want the fixed parameters followed by every variadic element %s", got, itemsString(wantItems(ms, "spread"))), sites[0].call.Pos())
		}
	default:
		var ne, em *site
		for i := range sites {
			switch sites[i].guard {
			case "nonempty":
				ne = &sites[i]
			case "empty":
				em = &sites[i]
			}
		}
		if len(sites) != 2 || ne == nil || em == nil {
			report("called-count-rolled", fmt.Sprintf("without unroll-variadic a variadic method needs one Called in each arm of 'if len(<variadic>) > 0' (found %d site(s))", len(sites)), f.fd.Pos())
		} else {
			if !ne.ok || !sameItems(ne.items, wantItems(ms, "all")) {
				report("called-args-rolled", fmt.Sprintf("non-empty arm passes %s, want all parameters with the variadic slice as one trailing argument", normMsg(p.code(ne.call))), ne.call.Pos())
			}
			if !em.ok || !sameItems(em.items, wantItems(ms, "fixed")) {
				report("called-args-rolled-empty", fmt.Sprintf("empty arm passes %s, want the fixed parameters only", normMsg(p.code(em.call))), em.call.Pos())
			}
		}
	}
	for _, s := range sites {
		if s.ok {
			packed = append(packed, s.items)
		}
	}
	if okCalled {
		c.OK("R03.1", "testify|called", "", name)
	}
	_ = plist

	if len(ms.Rets) == 0 {
		return packed
	}
	// ---- results: find the variable holding the Called result
	var retObj types.Object
	callIdx := -1
	for i, s := range body {
		ast.Inspect(s, func(x ast.Node) bool {
			as, ok := x.(*ast.AssignStmt)
			if !ok {
				return true
			}
			for j, r := range as.Rhs {
				if call, ok := r.(*ast.CallExpr); ok && f.recv != nil && p.isMethodCallOn(call, f.recv, "Called") && len(as.Lhs) == len(as.Rhs) {
					if id, ok := as.Lhs[j].(*ast.Ident); ok {
						obj := p.Info.Defs[id]
						if obj == nil {
							obj = p.Info.Uses[id]
						}
						if retObj == nil {
							retObj = obj
						} else if retObj != obj {
							retObj = nil
						}
						if callIdx < i {
							callIdx = i
						}
					}
				}
			}
			return true
		})
	}
	// a tmp variable may be copied into the final one (tmpRet -> ret)
	if retObj != nil {
		for i, s := range body {
			if as, ok := s.(*ast.AssignStmt); ok && len(as.Lhs) == 1 && len(as.Rhs) == 1 {
				if r, ok := as.Rhs[0].(*ast.Ident); ok && p.Info.Uses[r] == retObj {
					if l, ok := as.Lhs[0].(*ast.Ident); ok {
						if obj := p.Info.Defs[l]; obj != nil {
							retObj = obj
							callIdx = i
						}
					}
				}
			}
		}
	}
	if retObj == nil {
		fail("R03.2", "no-ret-var", name+": cannot identify the variable holding the result of Called", f.fd.Pos())
		return packed
	}
	isRetMethod := func(call *ast.CallExpr, names ...string) (string, int, bool) {
		sel, ok := call.Fun.(*ast.SelectorExpr)
		if !ok {
			return "", 0, false
		}
		id, _ := sel.X.(*ast.Ident)
		if id == nil || p.Info.Uses[id] != retObj || len(call.Args) != 1 {
			return "", 0, false
		}
		for _, n := range names {
			if sel.Sel.Name == n {
				tv := p.Info.Types[call.Args[0]]
				if tv.Value == nil || tv.Value.Kind() != constant.Int {
					return n, -1, true
				}
				v, _ := constant.Int64Val(tv.Value)
				return n, int(v), true
			}
		}
		return "", 0, false
	}
	// ---- R03.3 panic contract
	firstGet := len(body)
	for i, s := range body {
		found := false
		ast.Inspect(s, func(x ast.Node) bool {
			if call, ok := x.(*ast.CallExpr); ok {
				if _, _, ok := isRetMethod(call, "Get", "Error", "String", "Int", "Bool"); ok {
					found = true
				}
			}
			return true
		})
		if found && i < firstGet {
			firstGet = i
		}
	}
	panicOK := false
	for i, s := range body {
		ifs, ok := s.(*ast.IfStmt)
		if !ok || i <= callIdx || i >= firstGet {
			continue
		}
		b, ok := ifs.Cond.(*ast.BinaryExpr)
		if !ok || b.Op != token.EQL {
			continue
		}
		lc, _ := b.X.(*ast.CallExpr)
		if lc == nil || len(lc.Args) != 1 {
			continue
		}
		lid, _ := lc.Fun.(*ast.Ident)
		arg, _ := lc.Args[0].(*ast.Ident)
		if !te.universe(lid, "len") || arg == nil || p.Info.Uses[arg] != retObj {
			continue
		}
		if tv := p.Info.Types[b.Y]; tv.Value == nil || constant.Compare(tv.Value, token.NEQ, constant.MakeInt64(0)) {
			continue
		}
		if len(ifs.Body.List) == 1 {
			if es, ok := ifs.Body.List[0].(*ast.ExprStmt); ok && isPanicCall(es.X) {
				if lit, ok := es.X.(*ast.CallExpr).Args[0].(*ast.BasicLit); ok && strings.Contains(lit.Value, methName(ii, mi)) {
					panicOK = true
				}
			}
		}
	}
	if panicOK {
		c.OK("R03.3", "testify|panic-contract", "", name)
	} else {
		fail("R03.3", "panic-contract", name+": no 'if len(ret) == 0 { panic(\"...<method name>...\") }' between Called and the first extraction", f.fd.Pos())
	}

	// ---- R03.2 / R03.4: final return and the feeding statements
	var final *ast.ReturnStmt
	if l := len(body); l > 0 {
		final, _ = body[l-1].(*ast.ReturnStmt)
	}
	if final == nil || len(final.Results) != len(ms.Rets) {
		fail("R03.2", "final-return", name+": the body does not end in a return of one variable per result", f.fd.Pos())
		return packed
	}
	sig := p.Info.Defs[f.fd.Name].Type().(*types.Signature)
	wantCall := wantItems(ms, "all")
	if ms.Variadic {
		wantCall = wantItems(ms, "spread")
	}
	// provider checks shared by whole-function and per-result forms
	checkProvider := func(ifs *ast.IfStmt, k int, whole bool) (types.Object, bool) {
		as, ok := ifs.Init.(*ast.AssignStmt)
		if !ok || len(as.Lhs) != 2 || len(as.Rhs) != 1 {
			return nil, false
		}
		ta, ok := as.Rhs[0].(*ast.TypeAssertExpr)
		if !ok {
			return nil, false
		}
		gc, ok := ta.X.(*ast.CallExpr)
		if !ok {
			return nil, false
		}
		m, idx, ok := isRetMethod(gc, "Get")
		if !ok || m != "Get" {
			return nil, false
		}
		fid, _ := as.Lhs[0].(*ast.Ident)
		okid, _ := as.Lhs[1].(*ast.Ident)
		cid, _ := ifs.Cond.(*ast.Ident)
		if fid == nil || okid == nil || cid == nil || p.Info.Uses[cid] != p.Info.Defs[okid] {
			return nil, false
		}
		fsig, isSig := p.Info.TypeOf(ta.Type).(*types.Signature)
		if !isSig {
			return nil, false
		}
		key := "provider"
		if whole {
			key = "whole-provider"
		}
		if idx != k {
			fail("R03.4", key+"-index", fmt.Sprintf("%s: provider for result %d is read from ret.Get(%d)", name, k, idx), gc.Pos())
		}
		okSig := types.Identical(fsig.Params(), sig.Params()) && fsig.Variadic() == sig.Variadic()
		if whole {
			okSig = okSig && types.Identical(fsig.Results(), sig.Results())
		} else {
			okSig = okSig && fsig.Results().Len() == 1 && types.Identical(fsig.Results().At(0).Type(), sig.Results().At(k).Type())
		}
		if !okSig {
			fail("R03.4", key+"-signature", fmt.Sprintf("%s: the provider asserted for result %d has type %s, want the method's parameters (variadic as declared) and %s", name, k, normMsg(types.TypeString(fsig, nil)), map[bool]string{true: "all results", false: "that result"}[whole]), ta.Pos())
		}
		// the call of the provider inside the then-branch
		fobj := p.Info.Defs[fid]
		ncalls := 0
		ast.Inspect(ifs.Body, func(x ast.Node) bool {
			if call, ok := x.(*ast.CallExpr); ok {
				if id, ok := call.Fun.(*ast.Ident); ok && p.Info.Uses[id] == fobj {
					ncalls++
					it, ok := te.exprItems(call.Args, call.Ellipsis.IsValid())
					if !ok || !sameItems(it, wantCall) {
						fail("R03.4", key+"-args", fmt.Sprintf("%s: the provider is called with %s, want exactly the method's parameters in order%s", name, normMsg(p.code(call)), map[bool]string{true: " (variadic spread)"}[ms.Variadic]), call.Pos())
					}
				}
			}
			return true
		})
		if ncalls != 1 {
			fail("R03.4", key+"-calls", fmt.Sprintf("%s: the provider for result %d is called %d times in its branch", name, k, ncalls), ifs.Pos())
		}
		return fobj, true
	}

	resObj := make([]types.Object, len(ms.Rets))
	for k, r := range final.Results {
		id, _ := r.(*ast.Ident)
		if id == nil {
			fail("R03.2", "final-return", name+": the final return does not list plain result variables", final.Pos())
			return packed
		}
		resObj[k] = p.Info.Uses[id]
	}
	wholeSeen := 0
	perSeen := make([]int, len(ms.Rets))
	okExtract := true
	for i, s := range body {
		if i <= callIdx {
			continue
		}
		ifs, isIf := s.(*ast.IfStmt)
		if !isIf || ifs.Init == nil {
			continue
		}
		// which result variables does this statement assign?
		assigned := map[int]bool{}
		ast.Inspect(ifs, func(x ast.Node) bool {
			if as, ok := x.(*ast.AssignStmt); ok && as.Tok == token.ASSIGN {
				for _, l := range as.Lhs {
					if id, ok := l.(*ast.Ident); ok {
						for k, o := range resObj {
							if p.Info.Uses[id] == o {
								assigned[k] = true
							}
						}
					}
				}
			}
			return true
		})
		switch len(assigned) {
		case 0:
			// whole-function provider: then-branch returns the provider call
			if _, ok := checkProvider(ifs, 0, true); ok {
				wholeSeen++
				rs, _ := ifs.Body.List[len(ifs.Body.List)-1].(*ast.ReturnStmt)
				if rs == nil || len(rs.Results) != 1 {
					fail("R03.4", "whole-provider-return", name+": the whole-function provider's results are not returned directly", ifs.Pos())
				}
			}
		case 1:
			k := 0
			for kk := range assigned {
				k = kk
			}
			perSeen[k]++
			if _, ok := checkProvider(ifs, k, false); !ok {
				fail("R03.4", "provider-shape", fmt.Sprintf("%s: the statement feeding result %d is not 'if f, ok := ret.Get(%d).(func...); ok {...} else {...}'", name, k, k), ifs.Pos())
				okExtract = false
				continue
			}
			// every ret.Get/ret.Error index inside must be k
			ast.Inspect(ifs, func(x ast.Node) bool {
				if call, ok := x.(*ast.CallExpr); ok {
					if m, idx, ok := isRetMethod(call, "Get", "Error"); ok && idx != k {
						okExtract = false
						fail("R03.2", "index-mismatch", fmt.Sprintf("%s: result %d is fed from ret.%s(%d)", name, k, m, idx), call.Pos())
					}
				}
				return true
			})
			// else branch: kind-specific extraction
			eb, _ := ifs.Else.(*ast.BlockStmt)
			if eb == nil {
				okExtract = false
				fail("R03.2", "no-plain-extraction", fmt.Sprintf("%s: result %d has no extraction for plain (non-function) return values", name, k), ifs.Pos())
				continue
			}
			usesError, guarded, unguarded := false, false, false
			var walk func(n ast.Node, underNilTest bool)
			walk = func(n ast.Node, under bool) {
				ast.Inspect(n, func(x ast.Node) bool {
					switch y := x.(type) {
					case *ast.IfStmt:
						cond := false
						if b, ok := y.Cond.(*ast.BinaryExpr); ok && b.Op == token.NEQ {
							if gc, ok := b.X.(*ast.CallExpr); ok {
								if m, _, ok := isRetMethod(gc, "Get"); ok && m == "Get" {
									if nid, ok := b.Y.(*ast.Ident); ok && te.universe(nid, "nil") {
										cond = true
									}
								}
							}
						}
						if cond {
							walk(y.Body, true)
							if y.Else != nil {
								walk(y.Else, under)
							}
							return false
						}
					case *ast.CallExpr:
						if m, _, ok := isRetMethod(y, "Error"); ok && m == "Error" {
							usesError = true
						}
					case *ast.TypeAssertExpr:
						if gc, ok := y.X.(*ast.CallExpr); ok {
							if m, _, ok := isRetMethod(gc, "Get"); ok && m == "Get" {
								if !types.Identical(p.Info.TypeOf(y.Type), sig.Results().At(k).Type()) {
									okExtract = false
									fail("R03.2", "assert-type", fmt.Sprintf("%s: result %d is asserted to %s", name, k, normMsg(types.TypeString(p.Info.TypeOf(y.Type), nil))), y.Pos())
								}
								if under {
									guarded = true
								} else {
									unguarded = true
								}
							}
						}
					}
					return true
				})
			}
			walk(eb, false)
			switch ms.Rets[k] {
			case RError:
				if !usesError || unguarded {
					okExtract = false
					fail("R03.2", "error-extraction", fmt.Sprintf("%s: error result %d is not extracted with ret.Error(%d) (a nil error would panic in a type assertion)", name, k, k), eb.Pos())
				}
			case RNillable:
				if unguarded || !guarded {
					okExtract = false
					fail("R03.2", "nillable-unguarded", fmt.Sprintf("%s: nillable result %d is type-asserted without a preceding ret.Get(%d) != nil test (returning nil would panic)", name, k, k), eb.Pos())
				}
			default:
				if !unguarded && !guarded {
					okExtract = false
					fail("R03.2", "plain-extraction", fmt.Sprintf("%s: result %d is never extracted from ret.Get(%d)", name, k, k), eb.Pos())
				}
			}
		default:
			okExtract = false
			fail("R03.2", "multi-assign", name+": one statement feeds several result variables", ifs.Pos())
		}
	}
	for k, n := range perSeen {
		if n != 1 {
			okExtract = false
			fail("R03.2", "result-feed-count", fmt.Sprintf("%s: result %d is fed by %d statements, want 1", name, k, n), f.fd.Pos())
		}
	}
	wantWhole := 0
	if len(ms.Rets) >= 2 {
		wantWhole = 1
	}
	if wholeSeen != wantWhole {
		fail("R03.4", "whole-provider-presence", fmt.Sprintf("%s: %d whole-function provider branch(es) for %d result(s), want %d", name, wholeSeen, len(ms.Rets), wantWhole), f.fd.Pos())
	} else {
		c.OK("R03.4", "testify|providers", "", name)
	}
	if okExtract {
		c.OK("R03.2", "testify|extraction", "", name)
	}
	return packed
}

// lenGtZero recognises len(<param>) > 0.
func lenGtZero(t *tupleEval, e ast.Expr) (int, bool) {
	b, ok := ast.Unparen(e).(*ast.BinaryExpr)
	if !ok || b.Op != token.GTR {
		return 0, false
	}
	if tv := t.p.Info.Types[b.Y]; tv.Value == nil || constant.Compare(tv.Value, token.NEQ, constant.MakeInt64(0)) {
		return 0, false
	}
	return t.lenOfParam(b.X)
}

func testifyExpecter(c *Ctx, p *TPath, f tfunc, ii, mi int, ms MShape, fail func(rule, key, what string, pos token.Pos)) {
	name := "expecter " + normMsg(f.fd.Name.Name)
	params, _ := p.paramObjs(f.fd.Type)
	te := &tupleEval{p: p, params: params, locals: map[types.Object][]argItem{}}
	te.run(f.fd.Body.List)
	var on []*ast.CallExpr
	ast.Inspect(f.fd.Body, func(x ast.Node) bool {
		if call, ok := x.(*ast.CallExpr); ok {
			if sel, ok := call.Fun.(*ast.SelectorExpr); ok && sel.Sel.Name == "On" {
				if root, _ := selChain(sel.X); root != nil && p.Info.Uses[root] == f.recv {
					on = append(on, call)
				}
			}
		}
		return true
	})
	if len(on) != 1 || len(on[0].Args) < 1 {
		fail("R03.6", "on-count", fmt.Sprintf("%s registers %d mock.On calls, want 1", name, len(on)), f.fd.Pos())
		return
	}
	ok := true
	if tv := p.Info.Types[on[0].Args[0]]; tv.Value == nil || tv.Value.Kind() != constant.String || constant.StringVal(tv.Value) != methName(ii, mi) {
		ok = false
		fail("R03.6", "on-name", fmt.Sprintf("%s: mock.On is given %s, want the method's name", name, normMsg(p.code(on[0].Args[0]))), on[0].Pos())
	}
	want := wantItems(ms, "all")
	if ms.Variadic {
		want = wantItems(ms, "spread")
	}
	it, okIt := te.exprItems(on[0].Args[1:], on[0].Ellipsis.IsValid())
	if !okIt || !sameItems(it, want) {
		ok = false
		got := "?"
		if okIt {
			got = itemsString(it)
		}
		fail("R03.6", "on-args", fmt.Sprintf("%s: mock.On receives %s, want %s", name, got, itemsString(want)), on[0].Pos())
	}
	// parameter count / variadic-ness of the expecter method itself
	sig := p.Info.Defs[f.fd.Name].Type().(*types.Signature)
	if sig.Params().Len() != ms.NP || sig.Variadic() != ms.Variadic {
		ok = false
		fail("R03.6", "expecter-params", fmt.Sprintf("%s takes %d parameter(s) (variadic=%v), the method has %d (variadic=%v)", name, sig.Params().Len(), sig.Variadic(), ms.NP, ms.Variadic), f.fd.Pos())
	}
	if ok {
		c.OK("R03.6", "testify|expecter", "", name)
	}
}

// testifyRun checks R03.7.
func testifyRun(c *Ctx, p *TPath, f, mock tfunc, ii, mi int, ms MShape, packed [][]argItem, fail func(rule, key, what string, pos token.Pos)) {
	name := "Run wrapper of " + normMsg(methName(ii, mi))
	msig := p.Info.Defs[mock.fd.Name].Type().(*types.Signature)
	ok := true
	bad := func(key, what string, pos token.Pos) {
		ok = false
		fail("R03.7", key, name+": "+what, pos)
	}
	if len(f.fd.Type.Params.List) != 1 || len(f.fd.Type.Params.List[0].Names) != 1 {
		bad("run-param", "Run does not take exactly one callback", f.fd.Pos())
		return
	}
	runObj := p.Info.Defs[f.fd.Type.Params.List[0].Names[0]]
	rsig, _ := runObj.Type().(*types.Signature)
	if rsig == nil || !types.Identical(rsig.Params(), msig.Params()) || rsig.Variadic() != msig.Variadic() || rsig.Results().Len() != 0 {
		bad("run-signature", fmt.Sprintf("the callback has type %s, want the method's parameters and no results", normMsg(types.TypeString(runObj.Type(), nil))), f.fd.Pos())
	}
	// the inner func(args mock.Arguments)
	var lit *ast.FuncLit
	ast.Inspect(f.fd.Body, func(x ast.Node) bool {
		if fl, ok := x.(*ast.FuncLit); ok && lit == nil {
			lit = fl
		}
		return true
	})
	if lit == nil || len(lit.Type.Params.List) != 1 || len(lit.Type.Params.List[0].Names) != 1 {
		bad("run-inner", "no inner func(args mock.Arguments) handed to Call.Run", f.fd.Pos())
		return
	}
	argsObj := p.Info.Defs[lit.Type.Params.List[0].Names[0]]
	// packed types per position, for each Called site
	elemType := func(pi int) types.Type {
		t := msig.Params().At(pi).Type()
		if s, ok := t.(*types.Slice); ok && msig.Variadic() && pi == msig.Params().Len()-1 {
			return s.Elem()
		}
		return t
	}
	packedType := func(items []argItem, pos int) (types.Type, bool) { // type at position pos; spread repeats
		for i, it := range items {
			if it.spread {
				if pos >= i {
					return elemType(it.param), true
				}
			}
			if i == pos {
				return msig.Params().At(it.param).Type(), true
			}
		}
		return nil, false
	}
	// calls of run
	var runCalls []*ast.CallExpr
	ast.Inspect(lit.Body, func(x ast.Node) bool {
		if call, ok := x.(*ast.CallExpr); ok {
			if id, ok := call.Fun.(*ast.Ident); ok && p.Info.Uses[id] == runObj {
				runCalls = append(runCalls, call)
			}
		}
		return true
	})
	if len(runCalls) != 1 {
		bad("run-calls", fmt.Sprintf("the callback is invoked %d times per call, want exactly once", len(runCalls)), lit.Pos())
		return
	}
	rc := runCalls[0]
	if len(rc.Args) != ms.NP || rc.Ellipsis.IsValid() != ms.Variadic {
		bad("run-arity", fmt.Sprintf("run is called with %s, want %d argument(s)%s", normMsg(p.code(rc)), ms.NP, map[bool]string{true: ", the last one spread"}[ms.Variadic]), rc.Pos())
		return
	}
	isArgsIndex := func(e ast.Expr) (int, bool) {
		ie, ok := ast.Unparen(e).(*ast.IndexExpr)
		if !ok {
			return 0, false
		}
		id, _ := ie.X.(*ast.Ident)
		if id == nil || p.Info.Uses[id] != argsObj {
			return 0, false
		}
		tv := p.Info.Types[ie.Index]
		if tv.Value == nil {
			return -1, true
		}
		v, _ := constant.Int64Val(tv.Value)
		return int(v), true
	}
	// is node n under an `x != nil` test of expression code xcode?
	underNilTest := func(target ast.Node, xcode string) bool {
		found := false
		var walk func(n ast.Node, under bool)
		walk = func(n ast.Node, under bool) {
			ast.Inspect(n, func(x ast.Node) bool {
				if x == target {
					if under {
						found = true
					}
					return false
				}
				if ifs, ok := x.(*ast.IfStmt); ok {
					if b, ok := ifs.Cond.(*ast.BinaryExpr); ok && b.Op == token.NEQ && p.code(b.X) == xcode {
						if id, ok := b.Y.(*ast.Ident); ok && id.Name == "nil" {
							walk(ifs.Body, true)
							if ifs.Else != nil {
								walk(ifs.Else, under)
							}
							return false
						}
					}
				}
				return true
			})
		}
		walk(lit.Body, false)
		return found
	}
	nFixed := ms.NP
	if ms.Variadic {
		nFixed--
	}
	fixedArg := func(i int, a ast.Expr) {
		ta, ok := ast.Unparen(a).(*ast.TypeAssertExpr)
		if !ok {
			// maybe a local assigned under a nil guard: var argI T; if args[i] != nil { argI = args[i].(T) }
			if id, isId := ast.Unparen(a).(*ast.Ident); isId {
				obj := p.Info.Uses[id]
				nAssign := 0
				ast.Inspect(lit.Body, func(x ast.Node) bool {
					if as, ok := x.(*ast.AssignStmt); ok && (len(as.Lhs) == 1 || len(as.Lhs) == 2) && len(as.Rhs) == 1 {
						if l, ok := as.Lhs[0].(*ast.Ident); ok && (p.Info.Uses[l] == obj || p.Info.Defs[l] == obj) {
							if t2, ok := as.Rhs[0].(*ast.TypeAssertExpr); ok {
								nAssign++
								ta = t2
							}
						}
					}
					return true
				})
				if nAssign != 1 {
					ta = nil
				}
			}
			if ta == nil {
				bad("run-arg-shape", fmt.Sprintf("argument %d of run is %s, not a type assertion of args[%d]", i, normMsg(p.code(a)), i), a.Pos())
				return
			}
		}
		idx, isIdx := isArgsIndex(ta.X)
		if !isIdx || idx != i {
			bad("run-arg-index", fmt.Sprintf("argument %d of run is taken from %s", i, normMsg(p.code(ta.X))), ta.Pos())
			return
		}
		at := p.Info.TypeOf(ta.Type)
		for _, items := range packed {
			pt, has := packedType(items, i)
			if has && !types.Identical(pt, at) {
				bad("run-arg-type", fmt.Sprintf("args[%d] is asserted to %s but Called packs a %s there", i, normMsg(types.TypeString(at, nil)), normMsg(types.TypeString(pt, nil))), ta.Pos())
			}
		}
		if nillable(at) && !underNilTest(ta, p.code(ta.X)) {
			if isCommaOk(p.Info, ta) {
				return // v, _ := args[i].(T) leaves the zero value for nil and cannot panic
			}
			bad("run-nil-assert", fmt.Sprintf("args[%d].(%s): the parameter type is nillable and the assertion is not under an 'args[%d] != nil' test, so passing nil panics inside Run", i, "<nillable type>", i), ta.Pos())
		}
	}
	for i := 0; i < nFixed; i++ {
		fixedArg(i, rc.Args[i])
	}
	if ms.Variadic {
		// the variadic tail: a local slice filled from args[nFixed:] element by element
		id, _ := ast.Unparen(rc.Args[ms.NP-1]).(*ast.Ident)
		var tailOK bool
		if id != nil {
			vobj := p.Info.Uses[id]
			ast.Inspect(lit.Body, func(x ast.Node) bool {
				rs, ok := x.(*ast.RangeStmt)
				if !ok {
					return true
				}
				se, ok := ast.Unparen(rs.X).(*ast.SliceExpr)
				if !ok || se.High != nil {
					return true
				}
				base, _ := se.X.(*ast.Ident)
				if base == nil || p.Info.Uses[base] != argsObj {
					return true
				}
				lowTV := p.Info.Types[se.Low]
				low := int64(-1)
				if lowTV.Value != nil {
					low, _ = constant.Int64Val(lowTV.Value)
				}
				if int(low) != nFixed {
					bad("run-tail-start", fmt.Sprintf("the variadic tail is rebuilt from args[%d:], want args[%d:]", low, nFixed), se.Pos())
				}
				val, _ := rs.Value.(*ast.Ident)
				// assertions on the range value
				ast.Inspect(rs.Body, func(y ast.Node) bool {
					ta, ok := y.(*ast.TypeAssertExpr)
					if !ok {
						return true
					}
					a, _ := ta.X.(*ast.Ident)
					if a == nil || val == nil || p.Info.Uses[a] != p.Info.Defs[val] {
						return true
					}
					tailOK = true
					at := p.Info.TypeOf(ta.Type)
					for _, items := range packed {
						for pos := nFixed; pos < nFixed+2; pos++ {
							pt, has := packedType(items, pos)
							if has && !types.Identical(pt, at) {
								bad("run-tail-type", fmt.Sprintf("elements of args[%d:] are asserted to %s but Called packs a %s at position %d (rolled variadic slice vs. unrolled elements)", nFixed, normMsg(types.TypeString(at, nil)), normMsg(types.TypeString(pt, nil)), pos), ta.Pos())
							}
						}
					}
					if !underNilTest(ta, a.Name) && nillable(at) && !isCommaOk(p.Info, ta) {
						bad("run-tail-nil", "variadic elements are asserted without a nil test", ta.Pos())
					}
					return true
				})
				// destination must be the slice passed to run
				ast.Inspect(rs.Body, func(y ast.Node) bool {
					if as, ok := y.(*ast.AssignStmt); ok && len(as.Lhs) == 1 {
						if ie, ok := as.Lhs[0].(*ast.IndexExpr); ok {
							if b, ok := ie.X.(*ast.Ident); ok && p.Info.Uses[b] != vobj {
								bad("run-tail-dest", "the rebuilt elements are stored somewhere else than the slice handed to run", as.Pos())
							}
						}
					}
					return true
				})
				return true
			})
		}
		if !tailOK && id != nil {
			// rolled form: v = args[nFixed].([]E) under 'if len(args) > nFixed'
			vobj := p.Info.Uses[id]
			var walk func(n ast.Node, guarded bool)
			walk = func(n ast.Node, guarded bool) {
				ast.Inspect(n, func(x ast.Node) bool {
					switch y := x.(type) {
					case *ast.IfStmt:
						g := false
						if b, ok := y.Cond.(*ast.BinaryExpr); ok && b.Op == token.GTR {
							if lc, ok := b.X.(*ast.CallExpr); ok && len(lc.Args) == 1 {
								lid, _ := lc.Fun.(*ast.Ident)
								a, _ := lc.Args[0].(*ast.Ident)
								tv := p.Info.Types[b.Y]
								if lid != nil && lid.Name == "len" && a != nil && p.Info.Uses[a] == argsObj && tv.Value != nil && constant.Compare(tv.Value, token.GEQ, constant.MakeInt64(int64(nFixed))) {
									g = true
								}
							}
						}
						if g {
							walk(y.Body, true)
							if y.Else != nil {
								walk(y.Else, guarded)
							}
							return false
						}
					case *ast.AssignStmt:
						if (len(y.Lhs) == 1 || len(y.Lhs) == 2) && len(y.Rhs) == 1 {
							l, _ := y.Lhs[0].(*ast.Ident)
							ta, _ := y.Rhs[0].(*ast.TypeAssertExpr)
							if l != nil && ta != nil && (p.Info.Uses[l] == vobj || p.Info.Defs[l] == vobj) {
								idx, isIdx := isArgsIndex(ta.X)
								if !isIdx || idx != nFixed {
									bad("run-tail-index", fmt.Sprintf("the variadic slice is taken from %s, want args[%d]", normMsg(p.code(ta.X)), nFixed), ta.Pos())
									return true
								}
								tailOK = true
								if !guarded {
									bad("run-tail-unguarded", fmt.Sprintf("args[%d] is read without a len(args) > %d test although Called omits the variadic slice when it is empty", nFixed, nFixed), ta.Pos())
								}
								at := p.Info.TypeOf(ta.Type)
								for _, items := range packed {
									pt, has := packedType(items, nFixed)
									if has && !types.Identical(pt, at) {
										bad("run-tail-type", fmt.Sprintf("args[%d] is asserted to %s but Called packs a %s there", nFixed, normMsg(types.TypeString(at, nil)), normMsg(types.TypeString(pt, nil))), ta.Pos())
									}
								}
							}
						}
					}
					return true
				})
			}
			walk(lit.Body, false)
		}
		if !tailOK {
			bad("run-tail-shape", "cannot find the reconstruction of the variadic tail from args["+fmt.Sprint(nFixed)+":] or args["+fmt.Sprint(nFixed)+"]", rc.Pos())
		}
	}
	if ok {
		c.OK("R03.7", "testify|run", "", name)
	}
}

// isCommaOk: is the assertion used in its two-value form (which never panics)?
func isCommaOk(info *types.Info, ta *ast.TypeAssertExpr) bool {
	_, tuple := info.Types[ta].Type.(*types.Tuple)
	return tuple
}

// nillable mirrors the language rule: types whose zero value is nil and which
// an interface{} holding nil cannot be asserted to.
func nillable(t types.Type) bool {
	switch t.Underlying().(type) {
	case *types.Pointer, *types.Map, *types.Interface, *types.Signature, *types.Chan, *types.Slice:
		return true
	}
	return false
}

func testifyReturn(c *Ctx, p *TPath, ret, rar, mock tfunc, ii, mi int, ms MShape, fail func(rule, key, what string, pos token.Pos)) {
	name := "call type of " + normMsg(methName(ii, mi))
	msig := p.Info.Defs[mock.fd.Name].Type().(*types.Signature)
	ok := true
	bad := func(key, what string, pos token.Pos) {
		ok = false
		fail("R03.8", key, name+": "+what, pos)
	}
	// Return(params) -> _c.Call.Return(params...)
	rparams, rlist := p.paramObjs(ret.fd.Type)
	rsig := p.Info.Defs[ret.fd.Name].Type().(*types.Signature)
	if !types.Identical(rsig.Params(), msig.Results()) {
		bad("return-params", "Return's parameters are not the method's results in order", ret.fd.Pos())
	}
	n := 0
	ast.Inspect(ret.fd.Body, func(x ast.Node) bool {
		call, isCall := x.(*ast.CallExpr)
		if !isCall {
			return true
		}
		sel, isSel := call.Fun.(*ast.SelectorExpr)
		if !isSel || sel.Sel.Name != "Return" {
			return true
		}
		if root, _ := selChain(sel.X); root == nil || p.Info.Uses[root] != ret.recv {
			return true
		}
		n++
		good := len(call.Args) == len(rlist) && !call.Ellipsis.IsValid()
		for i := 0; good && i < len(rlist); i++ {
			id, _ := call.Args[i].(*ast.Ident)
			good = id != nil && rparams[p.Info.Uses[id]] == i && p.Info.Uses[id] == rlist[i]
		}
		if !good {
			bad("return-forward", fmt.Sprintf("Return forwards %s to Call.Return, want exactly its parameters in order", normMsg(p.code(call))), call.Pos())
		}
		return true
	})
	if n != 1 {
		bad("return-count", fmt.Sprintf("Return calls Call.Return %d times", n), ret.fd.Pos())
	}
	// RunAndReturn(run func(sig))
	if len(rar.fd.Type.Params.List) != 1 || len(rar.fd.Type.Params.List[0].Names) != 1 {
		bad("rar-param", "RunAndReturn does not take exactly one func", rar.fd.Pos())
	} else {
		runObj := p.Info.Defs[rar.fd.Type.Params.List[0].Names[0]]
		fs, _ := runObj.Type().(*types.Signature)
		if fs == nil || !types.Identical(fs.Params(), msig.Params()) || fs.Variadic() != msig.Variadic() || !types.Identical(fs.Results(), msig.Results()) {
			bad("rar-signature", fmt.Sprintf("RunAndReturn takes %s, want a func with exactly the method's signature", normMsg(types.TypeString(runObj.Type(), nil))), rar.fd.Pos())
		}
		wantSel := "Return"
		if len(ms.Rets) == 0 {
			wantSel = "Run"
		}
		found := 0
		ast.Inspect(rar.fd.Body, func(x ast.Node) bool {
			call, isCall := x.(*ast.CallExpr)
			if !isCall {
				return true
			}
			sel, isSel := call.Fun.(*ast.SelectorExpr)
			if !isSel {
				return true
			}
			if root, _ := selChain(sel.X); root == nil || p.Info.Uses[root] != rar.recv {
				return true
			}
			if len(call.Args) == 1 {
				if id, ok := call.Args[0].(*ast.Ident); ok && p.Info.Uses[id] == runObj {
					if sel.Sel.Name == wantSel {
						found++
					} else {
						bad("rar-install", fmt.Sprintf("RunAndReturn installs the func through %s, want %s", sel.Sel.Name, wantSel), call.Pos())
					}
				}
			}
			return true
		})
		if found != 1 {
			bad("rar-install-count", fmt.Sprintf("RunAndReturn hands its func to %s %d times, want once", wantSel, found), rar.fd.Pos())
		}
	}
	if ok {
		c.OK("R03.8", "testify|return", "", name)
	}
}

func testifyConstructor(c *Ctx, p *TPath, ii int, funcs []tfunc, fail func(rule, key, what string, pos token.Pos)) {
	sn := p.E.structName(ii)
	var ctor *tfunc
	for i, f := range funcs {
		if f.fd.Recv != nil || f.fd.Type.Results == nil || len(f.fd.Type.Results.List) != 1 {
			continue
		}
		if recvTypeName(f.fd.Type.Results.List[0].Type) == sn {
			if _, isPtr := f.fd.Type.Results.List[0].Type.(*ast.StarExpr); isPtr {
				ctor = &funcs[i]
			}
		}
	}
	if ctor == nil {
		fail("R03.9", "no-constructor", "no constructor returning *"+normMsg(sn), token.NoPos)
		return
	}
	name := normMsg(ctor.fd.Name.Name)
	if len(ctor.fd.Type.Params.List) != 1 || len(ctor.fd.Type.Params.List[0].Names) != 1 {
		fail("R03.9", "ctor-param", name+" does not take exactly one testing value", ctor.fd.Pos())
		return
	}
	tObj := p.Info.Defs[ctor.fd.Type.Params.List[0].Names[0]]
	body := ctor.fd.Body.List
	var ret *ast.ReturnStmt
	if len(body) > 0 {
		ret, _ = body[len(body)-1].(*ast.ReturnStmt)
	}
	var mObj types.Object
	if ret != nil && len(ret.Results) == 1 {
		if id, ok := ret.Results[0].(*ast.Ident); ok {
			mObj = p.Info.Uses[id]
		}
	}
	if mObj == nil {
		fail("R03.9", "ctor-return", name+" does not end by returning the mock it built", ctor.fd.Pos())
		return
	}
	isArgT := func(call *ast.CallExpr) bool {
		if len(call.Args) != 1 {
			return false
		}
		id, ok := call.Args[0].(*ast.Ident)
		return ok && p.Info.Uses[id] == tObj
	}
	testOK, cleanupOK := false, false
	for _, s := range body {
		es, ok := s.(*ast.ExprStmt)
		if !ok {
			continue
		}
		call, ok := es.X.(*ast.CallExpr)
		if !ok {
			continue
		}
		sel, ok := call.Fun.(*ast.SelectorExpr)
		if !ok {
			continue
		}
		root, _ := selChain(sel.X)
		switch {
		case sel.Sel.Name == "Test" && root != nil && p.Info.Uses[root] == mObj && isArgT(call):
			testOK = true
		case sel.Sel.Name == "Cleanup" && root != nil && p.Info.Uses[root] == tObj && len(call.Args) == 1:
			if fl, ok := call.Args[0].(*ast.FuncLit); ok {
				// unconditionally: a statement of the function literal itself, not under a branch or loop, and
				// nothing before it can leave the function (round 6: "if !t.Failed() { AssertExpectations }")
				for _, st := range fl.Body.List {
					es, isExpr := st.(*ast.ExprStmt)
					if !isExpr {
						switch st.(type) {
						case *ast.AssignStmt, *ast.DeclStmt:
							continue
						}
						break // a branch, loop or return before the assertion: not unconditional
					}
					if ic, ok := es.X.(*ast.CallExpr); ok {
						if is, ok := ic.Fun.(*ast.SelectorExpr); ok && is.Sel.Name == "AssertExpectations" && isArgT(ic) {
							if r, _ := selChain(is.X); r != nil && p.Info.Uses[r] == mObj {
								cleanupOK = true
							}
						}
					}
				}
			}
		}
	}
	switch {
	case !testOK:
		fail("R03.9", "ctor-test", name+" does not register the testing value on the mock it returns (Mock.Test(t)): unexpected calls would panic instead of failing the test", ctor.fd.Pos())
	case !cleanupOK:
		fail("R03.9", "ctor-cleanup", name+" does not register t.Cleanup(func(){ <mock>.AssertExpectations(t) }) with an unconditional assertion for the mock it returns", ctor.fd.Pos())
	default:
		c.OK("R03.9", "testify|constructor", "", name)
	}
}
