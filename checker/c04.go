package main

import (
	"fmt"
	"go/ast"
	"go/token"
	"go/types"
	"strings"
)

func init() { register("C04", checkC04) }

// perMockKeys are template-data options that configure one mock; they must be
// read from the interface's (most specific, merged) template-data.
var perMockKeys = map[string]bool{"skip-ensure": true, "stub-impl": true, "with-resets": true, "unroll-variadic": true}

type mfunc struct {
	fd   *ast.FuncDecl
	recv *types.Var
	mt   *mockType
	elem string // method element the name derives from ("" if none)
	role string // fixed text of the name with {} for the method-name hole
}

// mockMethods classifies the methods declared on the mock structs of a skeleton.
func (p *TPath) mockMethods() []mfunc {
	mts := p.mockTypes()
	var out []mfunc
	for _, d := range p.File.Decls {
		fd, ok := d.(*ast.FuncDecl)
		if !ok || fd.Body == nil {
			continue
		}
		recv, mt := p.recvInfo(fd, mts)
		if mt == nil {
			continue
		}
		out = append(out, mfunc{fd, recv, mt, p.elemOf(fd.Name), p.fixedText(fd.Name)})
	}
	return out
}

func (p *TPath) isRecvField(e ast.Expr, recv *types.Var, fld *types.Var) bool {
	root, sels := selChain(e)
	return root != nil && len(sels) == 1 && p.Info.Uses[root] == recv && p.Info.Uses[sels[0]] == fld
}

// isNilCheck: <recv>.<fld> == nil
func (p *TPath) isNilCheck(e ast.Expr, recv, fld *types.Var) bool {
	b, ok := e.(*ast.BinaryExpr)
	if !ok || b.Op != token.EQL {
		return false
	}
	isNil := func(x ast.Expr) bool {
		id, ok := x.(*ast.Ident)
		return ok && p.Info.Uses[id] == types.Universe.Lookup("nil")
	}
	return p.isRecvField(b.X, recv, fld) && isNil(b.Y) || p.isRecvField(b.Y, recv, fld) && isNil(b.X)
}

func checkC04(c *Ctx) {
	c.Explanation = `Structural rules on every path of the matryer template (engine T: all combinations of skip-ensure/stub-impl/with-resets x method shapes up to the tier bound; each skeleton parsed and type-checked):
R04.1 nil-Func contract: without stub-impl the first statement of each mock method panics, with a message containing the Func field's name, iff that method's Func field is nil; with stub-impl no panic exists and the nil test comes after the record and returns declared zero values / nothing;
R04.2 each mock method calls its own Func field exactly once, as the last top-level statement, with exactly its parameters in order (variadic spread), as the return operand iff the method has results;
R04.3 exactly one record per call, 'log = append(log, callInfo)' on the method's own log entry, top-level and before the forward;
R04.4 the callInfo literal has one field per parameter, in order, key = exported(parameter name), value = that parameter, field type = the parameter's type;
R04.5 <M>Calls returns what it read from the method's own log entry;
R04.6 reset methods exist iff with-resets; Reset<M>Calls assigns nil to the log entry of M only, ResetCalls to every entry and nothing else; no generated code assigns a Func field;
R04.8 the Func field is called with no mock lock held (sync locks are not re-entrant: a Func that reads <M>Calls() or calls the mock would never return);
R04.7 per-mock options (stub-impl, skip-ensure, with-resets) are read from the interface's merged template-data, never from the file-level map.`
	c.NotDecided = "value equality of recorded and passed arguments, run-time call order, shapes beyond the tier bound; locking is C05."
	c.Assumptions = []string{"engine T's accessor table (C14 checks it against the Go code)", "go/types semantics"}
	for _, r := range []string{"R04.0", "R04.1", "R04.2", "R04.3", "R04.4", "R04.5"} {
		c.Rule(r, 500, "")
	}
	c.Rule("R04.6", 200, "")
	c.Rule("R04.7", 500, "")
	c.Rule("R04.8", 500, "")

	walkTemplate(c, "matryer", "body", func(p *TPath) {
		if usesTypeParamTypes(p.Shape) {
			return
		}
		switch {
		case p.Err != nil:
			c.Fail("R04.0", "matryer|eval|"+p.Err.err.Error(), p.E.nodePos(p.Err.node), "template path cannot be evaluated: "+p.Err.err.Error()+" ["+p.Env()+"]")
			return
		case p.ParseEr != nil:
			c.Fail("R04.0", "matryer|parse", "", "skeleton does not parse: "+p.ParseEr.Error()+" ["+p.Env()+"]")
			return
		}
		c.OK("R04.0", "matryer", "", "")
		// R04.7
		for k := range p.E.flagsSeen {
			parts := strings.SplitN(k, ":", 2)
			scope, key := parts[0], k[strings.LastIndex(k, ":")+1:]
			if perMockKeys[key] {
				if scope == "file" {
					c.Fail("R04.7", "matryer|file-level|"+key, "internal/mock_matryer.templ", fmt.Sprintf("per-mock option %q is read from the file-level template-data ($.TemplateData); an interface-level or configs-level setting is ignored", key))
				} else {
					c.OK("R04.7", "matryer|"+key, "", "read at interface level")
				}
			}
		}
		matryerMethodRules(c, p)
		// R04.8: the forward must happen with no lock held, or a Func that reads
		// <M>Calls() / calls the mock again never returns.
		held := false
		lockDiscipline(p, func(rule, what string, pos token.Pos) {
			if rule == "R05.5" {
				held = true
				c.Fail("R04.8", "matryer|"+normMsg(what), p.TmplPos(pos), what+" ["+p.Env()+"]")
			}
		})
		if !held {
			c.OK("R04.8", "matryer", "", p.Env())
		}
	})
	accessorTableGuard(c, "R04.9")
	configResolutionGuard(c, "R04.10")
}

func matryerMethodRules(c *Ctx, p *TPath) {
	env := " [" + p.Env() + "]"
	fail := func(rule, key, what string, pos token.Pos) {
		c.Fail(rule, "matryer|"+key, p.TmplPos(pos), what+env)
	}
	methods := p.mockMethods()
	type seen struct{ main, calls, reset int }
	per := map[string]*seen{}
	resetAll := map[int]int{}
	for ii, is := range p.Shape.Ifaces {
		for mi := range is.Methods {
			per[fmt.Sprintf("%s.m%d", ifaceLetter(ii), mi)] = &seen{}
		}
	}
	// no store to a Func field anywhere
	for _, m := range methods {
		ast.Inspect(m.fd.Body, func(n ast.Node) bool {
			as, ok := n.(*ast.AssignStmt)
			if !ok {
				return true
			}
			for _, l := range as.Lhs {
				for _, f := range m.mt.funcs {
					if p.isRecvField(l, m.recv, f) {
						fail("R04.6", "func-field-store", fmt.Sprintf("%s assigns the user-supplied field %s", normMsg(m.fd.Name.Name), normMsg(p.code(l))), l.Pos())
					}
				}
			}
			return true
		})
	}
	for _, m := range methods {
		ii := m.mt.ii
		stub := p.E.Flag("iface:"+ifaceLetter(ii), "stub-impl")
		resets := p.E.Flag("iface:"+ifaceLetter(ii), "with-resets") || p.E.Flag("file", "with-resets")
		switch {
		case m.elem != "" && m.role == "{}":
			per[m.elem].main++
			matryerMain(c, p, m, stub, fail)
		case m.elem != "" && m.role == "{}Calls":
			per[m.elem].calls++
			matryerCalls(c, p, m, fail)
		case m.elem != "" && strings.HasPrefix(m.role, "Reset"):
			per[m.elem].reset++
			if !resets {
				fail("R04.6", "reset-without-flag", "reset method "+normMsg(m.fd.Name.Name)+" generated although with-resets is not set", m.fd.Pos())
			}
			matryerReset(c, p, m, methods, []string{m.elem}, fail)
		case m.elem == "" && strings.HasPrefix(m.role, "Reset"):
			resetAll[ii]++
			if !resets {
				fail("R04.6", "reset-without-flag", "ResetCalls generated although with-resets is not set", m.fd.Pos())
			}
			var all []string
			for mi := range p.Shape.Ifaces[ii].Methods {
				all = append(all, fmt.Sprintf("%s.m%d", ifaceLetter(ii), mi))
			}
			matryerReset(c, p, m, methods, all, fail)
		default:
			fail("R04.2", "unknown-method", fmt.Sprintf("method %s on the mock struct is of no recognised kind (mock method, <M>Calls, Reset<M>Calls, ResetCalls)", normMsg(m.fd.Name.Name)), m.fd.Pos())
		}
	}
	for ii, is := range p.Shape.Ifaces {
		resets := p.E.Flag("iface:"+ifaceLetter(ii), "with-resets") || p.E.Flag("file", "with-resets")
		for mi := range is.Methods {
			el := fmt.Sprintf("%s.m%d", ifaceLetter(ii), mi)
			s := per[el]
			if s.main != 1 {
				fail("R04.2", "method-count", fmt.Sprintf("%d mock methods generated for interface method %s, want 1", s.main, el), token.NoPos)
			}
			if s.calls != 1 {
				fail("R04.5", "calls-count", fmt.Sprintf("%d Calls accessors generated for interface method %s, want 1", s.calls, el), token.NoPos)
			}
			want := 0
			if resets {
				want = 1
			}
			if s.reset != want {
				fail("R04.6", "reset-count", fmt.Sprintf("%d Reset<M>Calls methods for %s, want %d (with-resets=%v)", s.reset, el, want, resets), token.NoPos)
			} else {
				c.OK("R04.6", "matryer|reset-presence", "", el+env)
			}
		}
		want := 0
		if resets {
			want = 1
		}
		if resetAll[ii] != want {
			fail("R04.6", "resetall-count", fmt.Sprintf("%d ResetCalls methods for interface %s, want %d", resetAll[ii], ifaceLetter(ii), want), token.NoPos)
		}
	}
}

// logEntry: recv.<guarded>.<X> with X deriving from elem.
func (p *TPath) logEntryElem(e ast.Expr, m mfunc) (string, bool) {
	root, sels := selChain(e)
	if root == nil || len(sels) != 2 || p.Info.Uses[root] != m.recv {
		return "", false
	}
	fld, _ := p.Info.Uses[sels[0]].(*types.Var)
	for _, g := range m.mt.guarded {
		if g == fld {
			return p.elemOf(sels[1]), true
		}
	}
	return "", false
}

func matryerMain(c *Ctx, p *TPath, m mfunc, stub bool, fail func(rule, key, what string, pos token.Pos)) {
	name := normMsg(m.fd.Name.Name)
	fn := m.mt.funcs[m.elem]
	if fn == nil {
		fail("R04.2", "no-func-field", "mock struct has no Func field deriving from method "+m.elem, m.fd.Pos())
		return
	}
	var o *obj
	fmt.Sscanf("", "")
	ii, mi := m.mt.ii, 0
	fmt.Sscanf(m.elem[strings.Index(m.elem, ".m")+2:], "%d", &mi)
	o = &obj{kind: "method", ii: ii, mi: mi}
	ms := p.E.methodShape(o)
	body := m.fd.Body.List

	// --- R04.1 nil-Func contract
	var panics []*ast.CallExpr
	ast.Inspect(m.fd.Body, func(n ast.Node) bool {
		if call, ok := n.(*ast.CallExpr); ok && isPanicCall(call) {
			panics = append(panics, call)
		}
		return true
	})
	// index of the record and forward statements at top level
	recIdx, fwdIdx := -1, -1
	nRec, nFwd := 0, 0
	var fwdCall *ast.CallExpr
	ast.Inspect(m.fd.Body, func(n ast.Node) bool {
		switch x := n.(type) {
		case *ast.CallExpr:
			if p.isRecvField(x.Fun, m.recv, fn) {
				nFwd++
				fwdCall = x
			} else {
				for el, f := range m.mt.funcs {
					if el != m.elem && p.isRecvField(x.Fun, m.recv, f) {
						fail("R04.2", "foreign-func", fmt.Sprintf("%s calls the Func field of another method (%s)", name, el), x.Pos())
					}
				}
			}
		case *ast.AssignStmt:
			for _, l := range x.Lhs {
				if el, ok := p.logEntryElem(l, m); ok {
					nRec++
					if el != m.elem {
						fail("R04.3", "foreign-log", fmt.Sprintf("%s records into the log entry of %s", name, el), l.Pos())
					}
				}
			}
		}
		return true
	})
	for i, s := range body {
		switch x := s.(type) {
		case *ast.AssignStmt:
			if len(x.Lhs) == 1 {
				if _, ok := p.logEntryElem(x.Lhs[0], m); ok {
					recIdx = i
					// shape: log = append(log, <ident>)
					okShape := false
					if call, ok := x.Rhs[0].(*ast.CallExpr); ok && len(call.Args) == 2 && !call.Ellipsis.IsValid() {
						if id, ok := call.Fun.(*ast.Ident); ok && p.Info.Uses[id] == types.Universe.Lookup("append") && p.code(call.Args[0]) == p.code(x.Lhs[0]) {
							okShape = matryerCallInfo(c, p, m, ms, call.Args[1], body[:i], fail)
						}
					}
					if !okShape {
						fail("R04.3", "record-shape", fmt.Sprintf("%s: the record statement is not 'log = append(log, callInfo)' with a callInfo built from the parameters (%s)", name, normMsg(p.code(x))), x.Pos())
					} else {
						c.OK("R04.3", "matryer|record", "", name)
					}
				}
			}
		case *ast.ReturnStmt:
			if len(x.Results) == 1 && x.Results[0] == ast.Expr(fwdCall) {
				fwdIdx = i
			}
		case *ast.ExprStmt:
			if x.X == ast.Expr(fwdCall) {
				fwdIdx = i
			}
		}
	}
	if nRec != 1 || recIdx < 0 {
		fail("R04.3", "record-count", fmt.Sprintf("%s has %d record statements (top-level index %d), want exactly one at top level", name, nRec, recIdx), m.fd.Pos())
	}
	if nFwd != 1 || fwdIdx != len(body)-1 {
		fail("R04.2", "forward-count", fmt.Sprintf("%s calls its Func field %d time(s); the call must be the last top-level statement (found at %d of %d)", name, nFwd, fwdIdx, len(body)), m.fd.Pos())
	} else {
		// arguments: exactly the parameters in order
		okArgs := len(fwdCall.Args) == ms.NP
		for i := 0; okArgs && i < ms.NP; i++ {
			id, ok := fwdCall.Args[i].(*ast.Ident)
			okArgs = ok && id.Name == paramName(ii, mi, i)
		}
		if ms.Variadic != fwdCall.Ellipsis.IsValid() {
			okArgs = false
		}
		_, isRet := body[fwdIdx].(*ast.ReturnStmt)
		if !okArgs {
			fail("R04.2", "forward-args", fmt.Sprintf("%s forwards (%s), want exactly its parameters in order%s", name, normMsg(p.code(fwdCall)), map[bool]string{true: " with the variadic one spread"}[ms.Variadic]), fwdCall.Pos())
		} else if isRet != (len(ms.Rets) > 0) {
			fail("R04.2", "forward-return", fmt.Sprintf("%s: results of the Func call are %s although the method has %d result(s)", name, map[bool]string{true: "returned", false: "dropped"}[isRet], len(ms.Rets)), fwdCall.Pos())
		} else if recIdx >= 0 && recIdx > fwdIdx {
			fail("R04.3", "record-after-forward", name+" records after forwarding", fwdCall.Pos())
		} else {
			c.OK("R04.2", "matryer|forward", "", name)
		}
	}

	if !stub {
		ok := false
		if len(body) > 0 {
			if ifs, isIf := body[0].(*ast.IfStmt); isIf && ifs.Init == nil && ifs.Else == nil && p.isNilCheck(ifs.Cond, m.recv, fn) && len(ifs.Body.List) == 1 {
				if es, isES := ifs.Body.List[0].(*ast.ExprStmt); isES && isPanicCall(es.X) {
					call := es.X.(*ast.CallExpr)
					if lit, isLit := call.Args[0].(*ast.BasicLit); isLit && lit.Kind == token.STRING && strings.Contains(lit.Value, fn.Name()) {
						ok = len(panics) == 1
					}
				}
			}
		}
		if !ok {
			fail("R04.1", "nil-panic", fmt.Sprintf("%s (stub-impl off) does not start with 'if %s == nil { panic(\"...%s...\") }' as its only panic", name, normMsg(fn.Name()), normMsg(fn.Name())), m.fd.Pos())
		} else {
			c.OK("R04.1", "matryer|nil-panic", "", name)
		}
		return
	}
	// stub-impl: no panic; nil test after the record returning zero values
	if len(panics) > 0 {
		fail("R04.1", "stub-panics", name+" panics although stub-impl is set", panics[0].Pos())
		return
	}
	found := false
	for i, s := range body {
		ifs, isIf := s.(*ast.IfStmt)
		if !isIf || !p.isNilCheck(ifs.Cond, m.recv, fn) {
			continue
		}
		found = true
		if recIdx < 0 || i < recIdx {
			fail("R04.1", "stub-before-record", name+": with stub-impl the nil test must come after the call is recorded (the call is still recorded)", ifs.Pos())
			continue
		}
		if i > fwdIdx && fwdIdx >= 0 {
			fail("R04.1", "stub-after-forward", name+": the nil test comes after the Func call", ifs.Pos())
			continue
		}
		// body: optional var decls without values, then return of those names
		zero := map[string]bool{}
		var ret *ast.ReturnStmt
		okBody := true
		for _, bs := range ifs.Body.List {
			switch y := bs.(type) {
			case *ast.DeclStmt:
				gd := y.Decl.(*ast.GenDecl)
				for _, sp := range gd.Specs {
					vs, isVS := sp.(*ast.ValueSpec)
					if !isVS || len(vs.Values) != 0 {
						okBody = false
						continue
					}
					for _, n := range vs.Names {
						zero[n.Name] = true
					}
				}
			case *ast.ReturnStmt:
				ret = y
			default:
				okBody = false
			}
		}
		if ret == nil || len(ret.Results) != len(ms.Rets) {
			okBody = false
		} else {
			for _, r := range ret.Results {
				id, isId := r.(*ast.Ident)
				if !isId || !zero[id.Name] {
					okBody = false
				}
			}
		}
		if !okBody {
			fail("R04.1", "stub-zero-return", name+": with stub-impl a nil Func must return declared zero values only ("+normMsg(p.code(ifs.Body))+")", ifs.Pos())
		} else {
			c.OK("R04.1", "matryer|stub", "", name)
		}
	}
	if !found {
		fail("R04.1", "stub-no-nil-test", name+": stub-impl is set but the Func field is called without a nil test", m.fd.Pos())
	}
}

// matryerCallInfo checks R04.4 for the value appended to the log.
func matryerCallInfo(c *Ctx, p *TPath, m mfunc, ms MShape, v ast.Expr, before []ast.Stmt, fail func(rule, key, what string, pos token.Pos)) bool {
	name := normMsg(m.fd.Name.Name)
	var lit *ast.CompositeLit
	switch x := v.(type) {
	case *ast.CompositeLit:
		lit = x
	case *ast.Ident:
		obj := p.Info.Uses[x]
		n := 0
		for _, s := range before {
			as, ok := s.(*ast.AssignStmt)
			if !ok {
				continue
			}
			for i, l := range as.Lhs {
				if id, ok := l.(*ast.Ident); ok && (p.Info.Defs[id] == obj || p.Info.Uses[id] == obj) {
					n++
					if len(as.Rhs) == len(as.Lhs) {
						lit, _ = as.Rhs[i].(*ast.CompositeLit)
					}
				}
			}
		}
		if n != 1 {
			lit = nil
		}
	}
	if lit == nil {
		return false
	}
	ii, mi := m.mt.ii, 0
	fmt.Sscanf(m.elem[strings.Index(m.elem, ".m")+2:], "%d", &mi)
	st, _ := p.Info.TypeOf(lit).Underlying().(*types.Struct)
	ok := st != nil && st.NumFields() == ms.NP && len(lit.Elts) == ms.NP
	for i := 0; ok && i < ms.NP; i++ {
		kv, isKV := lit.Elts[i].(*ast.KeyValueExpr)
		if !isKV {
			ok = false
			break
		}
		k, _ := kv.Key.(*ast.Ident)
		val, _ := kv.Value.(*ast.Ident)
		pn := paramName(ii, mi, i)
		ok = k != nil && val != nil && k.Name == capFirst(pn) && val.Name == pn && st.Field(i).Name() == capFirst(pn)
		if ok {
			// field type = the parameter's type
			pv, _ := p.Info.Uses[val].(*types.Var)
			ok = pv != nil && types.Identical(pv.Type(), st.Field(i).Type())
		}
	}
	if !ok {
		fail("R04.4", "callinfo-fields", fmt.Sprintf("%s: the call record is not one field per parameter, in order, exported(name): name (%s)", name, normMsg(p.code(lit))), lit.Pos())
		return true // shape of the append itself is fine
	}
	c.OK("R04.4", "matryer|callinfo", "", name)
	return true
}

func matryerCalls(c *Ctx, p *TPath, m mfunc, fail func(rule, key, what string, pos token.Pos)) {
	name := normMsg(m.fd.Name.Name)
	// one read of the own log entry; the returned identifier is what was read
	var src ast.Expr
	var dst *ast.Ident
	n := 0
	ast.Inspect(m.fd.Body, func(x ast.Node) bool {
		switch y := x.(type) {
		case *ast.AssignStmt:
			for i, r := range y.Rhs {
				// a copy of the entry, `calls = append(calls, <entry>...)` into the local declared without a value,
				// holds the same records as the entry itself
				if ap, isCall := ast.Unparen(r).(*ast.CallExpr); isCall && len(ap.Args) == 2 && ap.Ellipsis.IsValid() && len(y.Lhs) == len(y.Rhs) {
					if fid, isID := ap.Fun.(*ast.Ident); isID && fid.Name == "append" {
						a0, ok0 := ast.Unparen(ap.Args[0]).(*ast.Ident)
						l0, okl := y.Lhs[i].(*ast.Ident)
						if ok0 && okl && p.Info.Uses[a0] != nil && p.Info.Uses[a0] == p.Info.Uses[l0] && declaredWithoutValue(m.fd.Body, p.Info, p.Info.Uses[a0]) {
							r = ap.Args[1]
						}
					}
				}
				if el, ok := p.logEntryElem(r, m); ok {
					n++
					if el != m.elem {
						fail("R04.5", "foreign-log", fmt.Sprintf("%s reads the log entry of %s", name, el), r.Pos())
					}
					src = r
					if len(y.Lhs) == len(y.Rhs) {
						dst, _ = y.Lhs[i].(*ast.Ident)
					}
				}
			}
		case *ast.ReturnStmt:
			for _, r := range y.Results {
				if el, ok := p.logEntryElem(r, m); ok {
					n++
					src = r
					if el != m.elem {
						fail("R04.5", "foreign-log", fmt.Sprintf("%s returns the log entry of %s", name, el), r.Pos())
					}
				}
			}
		}
		return true
	})
	var ret *ast.ReturnStmt
	if l := len(m.fd.Body.List); l > 0 {
		ret, _ = m.fd.Body.List[l-1].(*ast.ReturnStmt)
	}
	ok := n == 1 && src != nil && ret != nil && len(ret.Results) == 1
	if ok && dst != nil {
		id, isId := ret.Results[0].(*ast.Ident)
		ok = isId && (p.Info.Uses[id] == p.Info.Defs[dst] || p.Info.Uses[id] == p.Info.Uses[dst]) && p.Info.Uses[id] != nil
	}
	if !ok {
		fail("R04.5", "calls-shape", fmt.Sprintf("%s does not return exactly what it read from its own log entry", name), m.fd.Pos())
		return
	}
	c.OK("R04.5", "matryer|calls", "", name)
}

func matryerReset(c *Ctx, p *TPath, m mfunc, methods []mfunc, want []string, fail func(rule, key, what string, pos token.Pos)) {
	name := normMsg(m.fd.Name.Name)
	got := map[string]int{}
	ok := true
	// delegation: a call, on the same receiver, of the reset method of one mocked method empties that
	// method's records (that method is examined on its own)
	for _, st := range m.fd.Body.List {
		es, isEs := st.(*ast.ExprStmt)
		if !isEs {
			continue
		}
		call, isCall := es.X.(*ast.CallExpr)
		if !isCall || len(call.Args) != 0 {
			continue
		}
		sel, isSel := call.Fun.(*ast.SelectorExpr)
		root, _ := sel.X.(*ast.Ident)
		if !isSel || root == nil || p.Info.Uses[root] != m.recv {
			continue
		}
		for _, m2 := range methods {
			if m2.fd != m.fd && m2.mt == m.mt && m2.elem != "" && strings.HasPrefix(m2.role, "Reset") && sameFunc(p.Info.Uses[sel.Sel], p.Info.Defs[m2.fd.Name]) {
				got[m2.elem]++
			}
		}
	}
	ast.Inspect(m.fd.Body, func(x ast.Node) bool {
		as, isAs := x.(*ast.AssignStmt)
		if !isAs {
			return true
		}
		for i, l := range as.Lhs {
			el, isLog := p.logEntryElem(l, m)
			if !isLog {
				ok = false
				fail("R04.6", "reset-other-store", fmt.Sprintf("%s assigns %s; a reset may only empty call records", name, normMsg(p.code(l))), l.Pos())
				continue
			}
			got[el]++
			id, isId := as.Rhs[min(i, len(as.Rhs)-1)].(*ast.Ident)
			if !isId || p.Info.Uses[id] != types.Universe.Lookup("nil") {
				ok = false
				fail("R04.6", "reset-not-nil", fmt.Sprintf("%s assigns %s instead of nil to the call records", name, normMsg(p.code(as.Rhs[min(i, len(as.Rhs)-1)]))), l.Pos())
			}
		}
		return true
	})
	for _, el := range want {
		if got[el] != 1 {
			ok = false
			fail("R04.6", "reset-coverage", fmt.Sprintf("%s empties the records of %s %d time(s), want once", name, el, got[el]), m.fd.Pos())
		}
		delete(got, el)
	}
	for el := range got {
		ok = false
		fail("R04.6", "reset-foreign", fmt.Sprintf("%s also empties the records of %s", name, el), m.fd.Pos())
	}
	if ok {
		c.OK("R04.6", "matryer|reset", "", name)
	}
}

// sameFunc: the same declared function (a method selected on a generic receiver is an instance of it).
func sameFunc(a, b types.Object) bool {
	fa, ok1 := a.(*types.Func)
	fb, ok2 := b.(*types.Func)
	return ok1 && ok2 && fa.Origin() == fb.Origin()
}

// declaredWithoutValue: obj is declared in body by `var x T` (no initial value) and assigned exactly once.
func declaredWithoutValue(body *ast.BlockStmt, info *types.Info, obj types.Object) bool {
	decl, assigns := false, 0
	ast.Inspect(body, func(n ast.Node) bool {
		switch x := n.(type) {
		case *ast.ValueSpec:
			for _, nm := range x.Names {
				if info.Defs[nm] == obj && len(x.Values) == 0 {
					decl = true
				}
			}
		case *ast.AssignStmt:
			for _, l := range x.Lhs {
				if id, ok := ast.Unparen(l).(*ast.Ident); ok && info.Uses[id] == obj {
					assigns++
				}
			}
		}
		return true
	})
	return decl && assigns == 1
}
