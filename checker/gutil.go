package main

// Helpers for rules over the type-checked Go packages (engine G).

import (
	"go/ast"
	"go/constant"
	"go/token"
	"go/types"
	"sort"
	"strings"

	"golang.org/x/tools/go/packages"
	"golang.org/x/tools/go/types/typeutil"
)

func calleeFunc(info *types.Info, call *ast.CallExpr) *types.Func {
	fn, _ := typeutil.Callee(info, call).(*types.Func)
	return fn
}

// calleeName: "pkgpath.Func" or "(pkgpath.Type).Method" with pointer receivers normalised.
func calleeName(info *types.Info, call *ast.CallExpr) string {
	fn := calleeFunc(info, call)
	if fn == nil {
		if id, ok := call.Fun.(*ast.Ident); ok {
			if _, ok := info.Uses[id].(*types.Builtin); ok {
				return "builtin." + id.Name
			}
		}
		return ""
	}
	return strings.ReplaceAll(fn.FullName(), "*", "")
}

func objOf(info *types.Info, id *ast.Ident) types.Object {
	if o := info.Defs[id]; o != nil {
		return o
	}
	return info.Uses[id]
}

// funcMapEntry returns the value expression of FuncMap[key] in template_funcs.
func funcMapEntry(p *packages.Package, key string) ast.Expr {
	for k, v := range funcMapEntries(p) {
		if k == key {
			return v
		}
	}
	return nil
}

func funcMapEntries(p *packages.Package) map[string]ast.Expr {
	inits := map[types.Object]ast.Expr{} // package-level variables -> initialiser
	var root ast.Expr
	for _, f := range p.Syntax {
		for _, d := range f.Decls {
			gd, ok := d.(*ast.GenDecl)
			if !ok || gd.Tok != token.VAR {
				continue
			}
			for _, s := range gd.Specs {
				vs := s.(*ast.ValueSpec)
				for i, n := range vs.Names {
					if i < len(vs.Values) && len(vs.Values) == len(vs.Names) {
						inits[p.TypesInfo.Defs[n]] = vs.Values[i]
						if n.Name == "FuncMap" {
							root = vs.Values[i]
						}
					}
				}
			}
		}
	}
	ev := &mapEval{p: p, inits: inits, funcs: pkgFuncs(p)}
	out := ev.expr(root, nil, 0)
	if out == nil || ev.bad {
		return map[string]ast.Expr{} // not decidable here (or a key defined twice): reported as FuncMap missing
	}
	return out
}

// mapEval evaluates the small language in which a string-keyed map of functions is put together:
// composite literals, package-level variables initialised by such expressions, make, and calls of
// functions of the package whose bodies only create a map, copy their (possibly variadic) map
// arguments into one (maps.Copy in a range, or directly), assign constant keys and return a map.
type mapEval struct {
	p     *packages.Package
	inits map[types.Object]ast.Expr
	funcs map[*types.Func]*ast.FuncDecl
	bad   bool
}

func (ev *mapEval) put(dst map[string]ast.Expr, k string, v ast.Expr) {
	if _, dup := dst[k]; dup {
		ev.bad = true // which definition wins is not decided here
	}
	dst[k] = v
}

func (ev *mapEval) expr(e ast.Expr, env map[types.Object]map[string]ast.Expr, depth int) map[string]ast.Expr {
	info := ev.p.TypesInfo
	if e == nil || depth > 4 {
		return nil
	}
	switch x := ast.Unparen(e).(type) {
	case *ast.CompositeLit:
		out := map[string]ast.Expr{}
		for _, el := range x.Elts {
			kv, ok := el.(*ast.KeyValueExpr)
			if !ok {
				return nil
			}
			tv := info.Types[kv.Key]
			if tv.Value == nil || tv.Value.Kind() != constant.String {
				return nil
			}
			ev.put(out, constant.StringVal(tv.Value), kv.Value)
		}
		return out
	case *ast.Ident:
		obj := info.Uses[x]
		if m, ok := env[obj]; ok {
			return m
		}
		if init, ok := ev.inits[obj]; ok {
			return ev.expr(init, nil, depth+1)
		}
	case *ast.CallExpr:
		if calleeName(info, x) == "builtin.make" {
			return map[string]ast.Expr{}
		}
		fn := calleeFunc(info, x)
		if fn == nil || ev.funcs[fn] == nil {
			return nil
		}
		fd := ev.funcs[fn]
		if fd.Recv != nil {
			return nil
		}
		// bind parameters
		local := map[types.Object]map[string]ast.Expr{}
		var variadic []map[string]ast.Expr
		var variadicObj types.Object
		i := 0
		for _, f := range fd.Type.Params.List {
			_, isVar := f.Type.(*ast.Ellipsis)
			for _, n := range f.Names {
				if isVar {
					variadicObj = info.Defs[n]
					for ; i < len(x.Args); i++ {
						m := ev.expr(x.Args[i], env, depth+1)
						if m == nil {
							return nil
						}
						variadic = append(variadic, m)
					}
				} else if i < len(x.Args) {
					m := ev.expr(x.Args[i], env, depth+1)
					if m == nil {
						return nil
					}
					local[info.Defs[n]] = m
					i++
				}
			}
		}
		for _, st := range fd.Body.List {
			switch y := st.(type) {
			case *ast.AssignStmt:
				if len(y.Lhs) != 1 || len(y.Rhs) != 1 {
					return nil
				}
				switch l := ast.Unparen(y.Lhs[0]).(type) {
				case *ast.Ident:
					m := ev.expr(y.Rhs[0], local, depth+1)
					if m == nil {
						return nil
					}
					cp := map[string]ast.Expr{}
					for k, v := range m {
						cp[k] = v
					}
					local[objOf(info, l)] = cp
				case *ast.IndexExpr:
					id, ok := ast.Unparen(l.X).(*ast.Ident)
					tv := info.Types[l.Index]
					if !ok || local[info.Uses[id]] == nil || tv.Value == nil || tv.Value.Kind() != constant.String {
						return nil
					}
					ev.put(local[info.Uses[id]], constant.StringVal(tv.Value), y.Rhs[0])
				default:
					return nil
				}
			case *ast.RangeStmt:
				id, ok := ast.Unparen(y.X).(*ast.Ident)
				val, okv := y.Value.(*ast.Ident)
				if !ok || !okv || info.Uses[id] != variadicObj || len(y.Body.List) != 1 {
					return nil
				}
				for _, g := range variadic {
					local[info.Defs[val]] = g
					if !ev.copyStmt(y.Body.List[0], local) {
						return nil
					}
				}
			case *ast.ExprStmt:
				if !ev.copyStmt(y, local) {
					return nil
				}
			case *ast.ReturnStmt:
				if len(y.Results) != 1 {
					return nil
				}
				return ev.expr(y.Results[0], local, depth+1)
			default:
				return nil
			}
		}
	}
	return nil
}

// copyStmt: maps.Copy(dst, src) on known maps.
func (ev *mapEval) copyStmt(st ast.Stmt, local map[types.Object]map[string]ast.Expr) bool {
	info := ev.p.TypesInfo
	es, ok := st.(*ast.ExprStmt)
	if !ok {
		return false
	}
	call, ok := es.X.(*ast.CallExpr)
	if !ok || calleeName(info, call) != "maps.Copy" || len(call.Args) != 2 {
		return false
	}
	d, ok0 := ast.Unparen(call.Args[0]).(*ast.Ident)
	s, ok1 := ast.Unparen(call.Args[1]).(*ast.Ident)
	if !ok0 || !ok1 || local[info.Uses[d]] == nil || local[info.Uses[s]] == nil {
		return false
	}
	for k, v := range local[info.Uses[s]] {
		ev.put(local[info.Uses[d]], k, v)
	}
	return true
}

// isMapUnion: func(groups ...M) M { m := M{}; for _, g := range groups { maps.Copy(m, g) }; return m }
func isMapUnion(p *packages.Package, fd *ast.FuncDecl) bool {
	if fd == nil || fd.Recv != nil || fd.Type.Params.NumFields() != 1 || len(fd.Body.List) != 3 {
		return false
	}
	info := p.TypesInfo
	param := fd.Type.Params.List[0]
	if _, variadic := param.Type.(*ast.Ellipsis); !variadic || len(param.Names) != 1 {
		return false
	}
	as, ok := fd.Body.List[0].(*ast.AssignStmt)
	if !ok || as.Tok != token.DEFINE || len(as.Lhs) != 1 || len(as.Rhs) != 1 {
		return false
	}
	dst := info.Defs[as.Lhs[0].(*ast.Ident)]
	switch r := ast.Unparen(as.Rhs[0]).(type) {
	case *ast.CompositeLit:
		if len(r.Elts) != 0 {
			return false
		}
	case *ast.CallExpr:
		if calleeName(info, r) != "builtin.make" {
			return false
		}
	default:
		return false
	}
	rs, ok := fd.Body.List[1].(*ast.RangeStmt)
	if !ok || len(rs.Body.List) != 1 {
		return false
	}
	if id, ok := ast.Unparen(rs.X).(*ast.Ident); !ok || info.Uses[id] != info.Defs[param.Names[0]] {
		return false
	}
	val, ok := rs.Value.(*ast.Ident)
	if !ok {
		return false
	}
	es, ok := rs.Body.List[0].(*ast.ExprStmt)
	if !ok {
		return false
	}
	call, ok := es.X.(*ast.CallExpr)
	if !ok || calleeName(info, call) != "maps.Copy" || len(call.Args) != 2 {
		return false
	}
	a0, ok0 := ast.Unparen(call.Args[0]).(*ast.Ident)
	a1, ok1 := ast.Unparen(call.Args[1]).(*ast.Ident)
	if !ok0 || !ok1 || info.Uses[a0] != dst || info.Uses[a1] != info.Defs[val] {
		return false
	}
	ret, ok := fd.Body.List[2].(*ast.ReturnStmt)
	if !ok || len(ret.Results) != 1 {
		return false
	}
	id, ok := ast.Unparen(ret.Results[0]).(*ast.Ident)
	return ok && info.Uses[id] == dst
}

// isArgSwapper: func(f func(S, A) R) func(A, S) R { return func(a A, s S) R { return f(s, a) } }
func isArgSwapper(p *packages.Package, fd *ast.FuncDecl) bool {
	if fd == nil || fd.Recv != nil || fd.Type.Params.NumFields() != 1 || len(fd.Type.Params.List[0].Names) != 1 || len(fd.Body.List) != 1 {
		return false
	}
	info := p.TypesInfo
	f := info.Defs[fd.Type.Params.List[0].Names[0]]
	rs, ok := fd.Body.List[0].(*ast.ReturnStmt)
	if !ok || len(rs.Results) != 1 {
		return false
	}
	fl, ok := ast.Unparen(rs.Results[0]).(*ast.FuncLit)
	if !ok || len(fl.Body.List) != 1 {
		return false
	}
	var ps []types.Object
	for _, fld := range fl.Type.Params.List {
		for _, n := range fld.Names {
			ps = append(ps, info.Defs[n])
		}
	}
	inner, ok := fl.Body.List[0].(*ast.ReturnStmt)
	if !ok || len(inner.Results) != 1 || len(ps) != 2 {
		return false
	}
	call, ok := ast.Unparen(inner.Results[0]).(*ast.CallExpr)
	if !ok || len(call.Args) != 2 {
		return false
	}
	fid, ok := ast.Unparen(call.Fun).(*ast.Ident)
	a0, ok0 := ast.Unparen(call.Args[0]).(*ast.Ident)
	a1, ok1 := ast.Unparen(call.Args[1]).(*ast.Ident)
	return ok && ok0 && ok1 && info.Uses[fid] == f && info.Uses[a0] == ps[1] && info.Uses[a1] == ps[0]
}

func isNilIdent(info *types.Info, e ast.Expr) bool {
	id, ok := ast.Unparen(e).(*ast.Ident)
	return ok && id.Name == "nil" && info.Uses[id] == types.Universe.Lookup("nil")
}

// structTag returns the value of key in the field's tag ("" if absent), name part only.
func tagName(tag, key string) string {
	v := reflectTagGet(tag, key)
	if i := strings.Index(v, ","); i >= 0 {
		v = v[:i]
	}
	return v
}

func tagOpts(tag, key string) string {
	v := reflectTagGet(tag, key)
	if i := strings.Index(v, ","); i >= 0 {
		return v[i+1:]
	}
	return ""
}

// reflectTagGet is reflect.StructTag.Get without importing reflect semantics differences.
func reflectTagGet(tag, key string) string {
	for tag != "" {
		i := 0
		for i < len(tag) && tag[i] == ' ' {
			i++
		}
		tag = tag[i:]
		if tag == "" {
			break
		}
		i = 0
		for i < len(tag) && tag[i] > ' ' && tag[i] != ':' && tag[i] != '"' && tag[i] != 0x7f {
			i++
		}
		if i == 0 || i+1 >= len(tag) || tag[i] != ':' || tag[i+1] != '"' {
			break
		}
		name := tag[:i]
		tag = tag[i+1:]
		i = 1
		for i < len(tag) && tag[i] != '"' {
			if tag[i] == '\\' {
				i++
			}
			i++
		}
		if i >= len(tag) {
			break
		}
		qvalue := tag[:i+1]
		tag = tag[i+1:]
		if key == name {
			v := qvalue[1 : len(qvalue)-1]
			return v
		}
	}
	return ""
}

// indexLoop recognises both `for i := 0; i < N; i++ {..}` and `for i := range N {..}` (N an integer)
// and returns the index variable, the bound expression and the body.
func indexLoop(info *types.Info, s ast.Stmt) (types.Object, ast.Expr, *ast.BlockStmt, bool) {
	switch x := s.(type) {
	case *ast.ForStmt:
		if iv, bound, ok := countingLoop(info, x); ok {
			return iv, bound, x.Body, true
		}
	case *ast.RangeStmt:
		if x.Value == nil && x.Key != nil {
			if t := info.TypeOf(x.X); t != nil {
				if b, ok := t.Underlying().(*types.Basic); ok && b.Info()&types.IsInteger != 0 {
					if id, ok := x.Key.(*ast.Ident); ok {
						return info.Defs[id], x.X, x.Body, true
					}
				}
			}
		}
	}
	return nil, nil, nil, false
}

// indexLoopIn is indexLoop plus `for i := range S {..}` where S is a local of fd defined exactly once as
// make([]T, N) and never assigned again: the bound is N.
func indexLoopIn(info *types.Info, fd *ast.FuncDecl, s ast.Stmt) (types.Object, ast.Expr, *ast.BlockStmt, bool) {
	if iv, bound, body, ok := indexLoop(info, s); ok {
		return iv, bound, body, true
	}
	rs, ok := s.(*ast.RangeStmt)
	if !ok || rs.Value != nil || rs.Key == nil {
		return nil, nil, nil, false
	}
	key, ok := rs.Key.(*ast.Ident)
	sid, ok2 := ast.Unparen(rs.X).(*ast.Ident)
	if !ok || !ok2 || info.Defs[key] == nil {
		return nil, nil, nil, false
	}
	obj := info.Uses[sid]
	var bound ast.Expr
	nDef := 0
	ast.Inspect(fd.Body, func(n ast.Node) bool {
		as, ok := n.(*ast.AssignStmt)
		if !ok {
			return true
		}
		for i, l := range as.Lhs {
			id, ok := l.(*ast.Ident)
			if !ok || objOf(info, id) != obj {
				continue
			}
			nDef++
			if len(as.Lhs) == len(as.Rhs) {
				if call, ok := ast.Unparen(as.Rhs[i]).(*ast.CallExpr); ok && len(call.Args) == 2 {
					if b, ok := call.Fun.(*ast.Ident); ok && b.Name == "make" && info.Uses[b] == types.Universe.Lookup("make") {
						bound = call.Args[1]
					}
				}
			}
		}
		return true
	})
	if nDef != 1 || bound == nil {
		return nil, nil, nil, false
	}
	return info.Defs[key], bound, rs.Body, true
}

// pkgFuncs maps the package's function objects to their declarations.
func pkgFuncs(p *packages.Package) map[*types.Func]*ast.FuncDecl {
	out := map[*types.Func]*ast.FuncDecl{}
	for _, f := range p.Syntax {
		for _, d := range f.Decls {
			if fd, ok := d.(*ast.FuncDecl); ok && fd.Body != nil {
				if fn, ok := p.TypesInfo.Defs[fd.Name].(*types.Func); ok {
					out[fn] = fd
				}
			}
		}
	}
	return out
}

// withCallees returns fd followed by the same-package functions it calls (transitively, bounded).
func withCallees(p *packages.Package, fd *ast.FuncDecl) []*ast.FuncDecl {
	funcs := pkgFuncs(p)
	seen := map[*ast.FuncDecl]bool{fd: true}
	out := []*ast.FuncDecl{fd}
	for i := 0; i < len(out) && len(out) < 12; i++ {
		ast.Inspect(out[i].Body, func(n ast.Node) bool {
			// calls and references (method values, functions stored in a field) alike
			if id, ok := n.(*ast.Ident); ok {
				if fn, ok := p.TypesInfo.Uses[id].(*types.Func); ok {
					if d := funcs[fn]; d != nil && !seen[d] {
						seen[d] = true
						out = append(out, d)
					}
				}
			}
			return true
		})
	}
	return out
}

// pkgFuncDecls lists the package's function declarations with bodies in file/source order.
func pkgFuncDecls(p *packages.Package) []*ast.FuncDecl {
	var out []*ast.FuncDecl
	for _, f := range p.Syntax {
		for _, d := range f.Decls {
			if fd, ok := d.(*ast.FuncDecl); ok && fd.Body != nil {
				out = append(out, fd)
			}
		}
	}
	return out
}

// pkgGetters maps the package's methods whose whole body is `return <receiver>.<field>` to that field's name.
func pkgGetters(p *packages.Package) map[*types.Func]string {
	out := map[*types.Func]string{}
	for fn, fd := range pkgFuncs(p) {
		if fd.Recv == nil || len(fd.Recv.List) != 1 || len(fd.Recv.List[0].Names) != 1 || len(fd.Body.List) != 1 || fd.Type.Params.NumFields() != 0 {
			continue
		}
		rs, ok := fd.Body.List[0].(*ast.ReturnStmt)
		if !ok || len(rs.Results) != 1 {
			continue
		}
		se, ok := ast.Unparen(rs.Results[0]).(*ast.SelectorExpr)
		if !ok {
			continue
		}
		id, ok := se.X.(*ast.Ident)
		if !ok || p.TypesInfo.Uses[id] != p.TypesInfo.Defs[fd.Recv.List[0].Names[0]] {
			continue
		}
		if sel := p.TypesInfo.Selections[se]; sel != nil && sel.Kind() == types.FieldVal {
			out[fn] = se.Sel.Name
		}
	}
	return out
}

// pkgSingleReturn maps the package's functions whose whole body is one `return <expr>` (one result,
// no function literal inside) to their declarations.
func pkgSingleReturn(p *packages.Package) map[*types.Func]*ast.FuncDecl {
	out := map[*types.Func]*ast.FuncDecl{}
	for fn, fd := range pkgFuncs(p) {
		if fd.Type.Results == nil || fd.Type.Results.NumFields() != 1 {
			continue
		}
		// comma-ok predicates: '_, ok := m[k]' (or a type assertion) followed by 'return ok'
		if len(fd.Body.List) == 2 {
			as, ok1 := fd.Body.List[0].(*ast.AssignStmt)
			rs, ok2 := fd.Body.List[1].(*ast.ReturnStmt)
			if ok1 && ok2 && as.Tok == token.DEFINE && len(as.Lhs) == 2 && len(as.Rhs) == 1 && len(rs.Results) == 1 {
				blank, okb := as.Lhs[0].(*ast.Ident)
				okv, oko := as.Lhs[1].(*ast.Ident)
				ret, okr := rs.Results[0].(*ast.Ident)
				_, isIdx := ast.Unparen(as.Rhs[0]).(*ast.IndexExpr)
				_, isTA := ast.Unparen(as.Rhs[0]).(*ast.TypeAssertExpr)
				if okb && oko && okr && blank.Name == "_" && p.TypesInfo.Uses[ret] == p.TypesInfo.Defs[okv] && (isIdx || isTA) {
					out[fn] = fd
				}
			}
			continue
		}
		if len(fd.Body.List) != 1 {
			continue
		}
		rs, ok := fd.Body.List[0].(*ast.ReturnStmt)
		if !ok || len(rs.Results) != 1 {
			continue
		}
		lit := false
		ast.Inspect(rs.Results[0], func(n ast.Node) bool {
			if _, ok := n.(*ast.FuncLit); ok {
				lit = true
			}
			return true
		})
		if !lit {
			out[fn] = fd
		}
	}
	// a function whose expression calls a multi-statement function of the package does real work on
	// behalf of its name (a documented accessor delegating to a helper): it is not printed inline
	funcs := pkgFuncs(p)
	for changed := true; changed; {
		changed = false
		for fn, fd := range out {
			drop := false
			ast.Inspect(fd.Body, func(n ast.Node) bool {
				if call, ok := n.(*ast.CallExpr); ok {
					if c := calleeFunc(p.TypesInfo, call); c != nil && funcs[c] != nil && out[c] == nil {
						drop = true
					}
				}
				return true
			})
			if drop {
				delete(out, fn)
				changed = true
			}
		}
	}
	return out
}

// pkgUnexported maps the package's unexported functions and methods to their declarations.
func pkgUnexported(p *packages.Package) map[*types.Func]*ast.FuncDecl {
	out := map[*types.Func]*ast.FuncDecl{}
	for fn, fd := range pkgFuncs(p) {
		if !fn.Exported() {
			out[fn] = fd
		}
	}
	return out
}

var ownerCache = map[*ast.FuncDecl][]string{}

// ownerChain lists the keys under which something inside fd may be reviewed: fd itself, then, while
// the function is unexported and referenced from exactly one other function of its package, that
// caller (bounded). Reviewed tables are consulted with the first key of the chain they know, so
// extracting part of a reviewed function into a helper, or inlining such a helper again, does not
// detach a site from its entry.
func ownerChain(p *packages.Package, fd *ast.FuncDecl) []string {
	if k, ok := ownerCache[fd]; ok {
		return k
	}
	cur := fd
	funcs := pkgFuncs(p)
	chain := []string{funcKey(p, fd)}
	for depth := 0; depth < 3; depth++ {
		fn, _ := p.TypesInfo.Defs[cur.Name].(*types.Func)
		if fn == nil || fn.Exported() || cur.Name.Name == "main" || cur.Name.Name == "init" {
			break
		}
		var caller *ast.FuncDecl
		single := true
		var callers []*ast.FuncDecl
		for _, g := range funcs {
			if g == cur || g.Body == nil {
				continue
			}
			ast.Inspect(g.Body, func(n ast.Node) bool {
				id, ok := n.(*ast.Ident)
				if !ok || p.TypesInfo.Uses[id] != fn {
					return true
				}
				if caller == nil {
					caller = g
					callers = append(callers, g)
				} else if caller != g {
					single = false
					if callers[len(callers)-1] != g {
						callers = append(callers, g)
					}
				}
				return true
			})
		}
		sort.Slice(callers, func(i, j int) bool { return callers[i].Pos() < callers[j].Pos() })
		genDeclRef := false
		for _, f := range p.Syntax {
			for _, d := range f.Decls {
				if gd, ok := d.(*ast.GenDecl); ok {
					ast.Inspect(gd, func(n ast.Node) bool {
						if id, ok := n.(*ast.Ident); ok && p.TypesInfo.Uses[id] == fn {
							genDeclRef = true
						}
						return true
					})
				}
			}
		}
		if caller == nil || (!single && genDeclRef) {
			break
		}
		if !single {
			// several callers that are all private helpers of one function: that function (and its
			// owners) own this one too
			ownerCache[fd] = chain // cut cycles
			first := ownerChain(p, callers[0])
			var common []string
			for i, k := range first {
				inAll := true
				for _, g := range callers[1:] {
					found := false
					for _, k2 := range ownerChain(p, g) {
						if k2 == k {
							found = true
						}
					}
					inAll = inAll && found
				}
				if inAll {
					common = first[i:]
					break
				}
			}
			chain = append(chain, common...)
			break
		}
		if genDeclRef {
			break
		}
		cur = caller
		chain = append(chain, funcKey(p, cur))
	}
	ownerCache[fd] = chain
	return chain
}

// ownedBy: is owner one of fd's owner keys?
func ownedBy(p *packages.Package, fd *ast.FuncDecl, owner string) bool {
	for _, k := range ownerChain(p, fd) {
		if k == owner {
			return true
		}
	}
	return false
}

// familyOf returns fd followed by the unexported functions of the package that are private helpers
// of fd (referenced from exactly one function, transitively, up to fd): where a rule looks for a
// statement "in fd", a tidy-up may have moved that statement into one of them.
func familyOf(p *packages.Package, fd *ast.FuncDecl) []*ast.FuncDecl {
	out := []*ast.FuncDecl{fd}
	key := funcKey(p, fd)
	for _, g := range pkgFuncDecls(p) {
		if g != fd && ownedBy(p, g, key) {
			out = append(out, g)
		}
	}
	return out
}

// inlineHelpers returns a copy of fd in which top-level statements of the forms
//
//	x := g(args)   x = g(args)   if x := g(args); cond {..}   return g(args)
//
// with g a function or method of the same package that want() accepts and whose only return statement is
// its last statement, are replaced by g's body spliced in: receiver and parameters bound by synthetic
// definitions, the body, and the returned expression assigned to x. Identifiers resolve through the
// type-checker's objects, not through names, so no renaming is needed; the synthetic identifiers are
// entered into info.Defs/Uses. A rule that reads the shape of fd's top-level statement list thereby sees
// the same list whether a stretch of it was extracted into a helper or not.
func inlineHelpers(p *packages.Package, fd *ast.FuncDecl, want func(g *ast.FuncDecl) bool) *ast.FuncDecl {
	info := p.TypesInfo
	funcs := pkgFuncs(p)
	helperOf := func(e ast.Expr) (*ast.CallExpr, *ast.FuncDecl) {
		call, ok := ast.Unparen(e).(*ast.CallExpr)
		if !ok || call.Ellipsis.IsValid() {
			return nil, nil
		}
		fn := calleeFunc(info, call)
		if fn == nil {
			return nil, nil
		}
		g := funcs[fn]
		if g == nil || g == fd || g.Body == nil || len(g.Body.List) == 0 || !want(g) {
			return nil, nil
		}
		if g.Type.Results == nil || g.Type.Results.NumFields() != 1 || g.Type.Params.NumFields() != len(call.Args) {
			return nil, nil
		}
		if !trailingReturnOnly(g) && loopReturnForm(g) == nil {
			return nil, nil
		}
		for _, f := range g.Type.Params.List {
			if _, variadic := f.Type.(*ast.Ellipsis); variadic || len(f.Names) == 0 {
				return nil, nil
			}
		}
		return call, g
	}
	define := func(obj types.Object, val ast.Expr, pos token.Pos) ast.Stmt {
		id := &ast.Ident{NamePos: pos, Name: obj.Name()}
		info.Defs[id] = obj
		return &ast.AssignStmt{Lhs: []ast.Expr{id}, TokPos: pos, Tok: token.DEFINE, Rhs: []ast.Expr{val}}
	}
	splice := func(call *ast.CallExpr, g *ast.FuncDecl) (pre []ast.Stmt, result ast.Expr, ok bool) {
		if g.Recv != nil && len(g.Recv.List) == 1 && len(g.Recv.List[0].Names) == 1 {
			sel, isSel := ast.Unparen(call.Fun).(*ast.SelectorExpr)
			if !isSel {
				return nil, nil, false
			}
			if obj := info.Defs[g.Recv.List[0].Names[0]]; obj != nil {
				pre = append(pre, define(obj, sel.X, call.Pos()))
			}
		}
		i := 0
		for _, f := range g.Type.Params.List {
			for _, n := range f.Names {
				if obj := info.Defs[n]; obj != nil && n.Name != "_" {
					pre = append(pre, define(obj, call.Args[i], call.Pos()))
				}
				i++
			}
		}
		if trailingReturnOnly(g) {
			pre = append(pre, g.Body.List[:len(g.Body.List)-1]...)
			return pre, g.Body.List[len(g.Body.List)-1].(*ast.ReturnStmt).Results[0], true
		}
		// the helper ends in `for ..; ; .. { .. return X .. }`: the loop is kept, every return becomes
		// `result = X; break`, and the caller reads the result variable
		loop := loopReturnForm(g)
		fnObj, _ := info.Defs[g.Name].(*types.Func)
		if loop == nil || fnObj == nil {
			return nil, nil, false
		}
		resT := fnObj.Type().(*types.Signature).Results().At(0).Type()
		res := types.NewVar(call.Pos(), p.Types, "result·"+g.Name.Name, resT)
		use := func() *ast.Ident {
			id := &ast.Ident{NamePos: call.Pos(), Name: res.Name()}
			info.Uses[id] = res
			return id
		}
		var rewrite func(list []ast.Stmt) []ast.Stmt
		rewrite = func(list []ast.Stmt) []ast.Stmt {
			var out []ast.Stmt
			for _, st := range list {
				switch y := st.(type) {
				case *ast.ReturnStmt:
					out = append(out, &ast.AssignStmt{Lhs: []ast.Expr{use()}, TokPos: y.Pos(), Tok: token.ASSIGN, Rhs: []ast.Expr{y.Results[0]}},
						&ast.BranchStmt{TokPos: y.Pos(), Tok: token.BREAK})
				case *ast.BlockStmt:
					cp := *y
					cp.List = rewrite(y.List)
					out = append(out, &cp)
				case *ast.IfStmt:
					cp := *y
					b := *y.Body
					b.List = rewrite(y.Body.List)
					cp.Body = &b
					if eb, ok := y.Else.(*ast.BlockStmt); ok {
						e := *eb
						e.List = rewrite(eb.List)
						cp.Else = &e
					}
					out = append(out, &cp)
				default:
					out = append(out, st)
				}
			}
			return out
		}
		lc := *loop
		lb := *loop.Body
		lb.List = rewrite(loop.Body.List)
		lc.Body = &lb
		pre = append(pre, g.Body.List[:len(g.Body.List)-1]...)
		pre = append(pre, &lc)
		return pre, use(), true
	}
	changed := false
	var out []ast.Stmt
	for _, s := range fd.Body.List {
		switch x := s.(type) {
		case *ast.AssignStmt:
			if len(x.Lhs) == 1 && len(x.Rhs) == 1 {
				if call, g := helperOf(x.Rhs[0]); g != nil {
					if pre, res, ok := splice(call, g); ok {
						out = append(out, pre...)
						cp := *x
						cp.Rhs = []ast.Expr{res}
						out = append(out, &cp)
						changed = true
						continue
					}
				}
			}
		case *ast.IfStmt:
			if as, ok := x.Init.(*ast.AssignStmt); ok && len(as.Lhs) == 1 && len(as.Rhs) == 1 {
				if call, g := helperOf(as.Rhs[0]); g != nil {
					if pre, res, ok := splice(call, g); ok {
						out = append(out, pre...)
						cp := *as
						cp.Rhs = []ast.Expr{res}
						out = append(out, &cp)
						ifc := *x
						ifc.Init = nil
						out = append(out, &ifc)
						changed = true
						continue
					}
				}
			}
		case *ast.ReturnStmt:
			if len(x.Results) == 1 {
				if call, g := helperOf(x.Results[0]); g != nil {
					if pre, res, ok := splice(call, g); ok {
						out = append(out, pre...)
						cp := *x
						cp.Results = []ast.Expr{res}
						out = append(out, &cp)
						changed = true
						continue
					}
				}
			}
		}
		out = append(out, s)
	}
	if !changed {
		return fd
	}
	cp := *fd
	cp.Body = &ast.BlockStmt{Lbrace: fd.Body.Lbrace, List: out, Rbrace: fd.Body.Rbrace}
	return &cp
}

// inspectWithHelpers walks fd's body and, through calls, the bodies of the same-package functions it calls
// (bounded depth, no recursion), handing every node to visit together with a canonical printer in which the
// callee's receiver and parameters print as the caller's canonical argument expressions: a rule that
// looks for a construct "in fd" and reads its operands in terms of fd's parameters sees the same thing
// whether the construct sits in fd or in a helper it was extracted into.
func inspectWithHelpers(p *packages.Package, fd *ast.FuncDecl, fc *fcanon, depth int, visit func(fc *fcanon, g *ast.FuncDecl, n ast.Node) bool) {
	info := p.TypesInfo
	funcs := pkgFuncs(p)
	var stack []*ast.FuncDecl
	var rec func(g *ast.FuncDecl, gc *fcanon, d int)
	rec = func(g *ast.FuncDecl, gc *fcanon, d int) {
		stack = append(stack, g)
		ast.Inspect(g.Body, func(n ast.Node) bool {
			if n == nil {
				return true
			}
			if !visit(gc, g, n) {
				return false
			}
			if call, ok := n.(*ast.CallExpr); ok && d < depth {
				if fn := calleeFunc(info, call); fn != nil {
					if h := funcs[fn]; h != nil && h.Body != nil {
						for _, s := range stack {
							if s == h {
								return true
							}
						}
						if hc := calleeCanon(info, gc, call, h); hc != nil {
							rec(h, hc, d+1)
						}
					}
				}
			}
			return true
		})
		stack = stack[:len(stack)-1]
	}
	rec(fd, fc, 0)
}

// trailingReturnOnly: g's only return statement is its last statement, with one result.
func trailingReturnOnly(g *ast.FuncDecl) bool {
	last, ok := g.Body.List[len(g.Body.List)-1].(*ast.ReturnStmt)
	if !ok || len(last.Results) != 1 {
		return false
	}
	n := 0
	ast.Inspect(g.Body, func(x ast.Node) bool {
		switch x.(type) {
		case *ast.ReturnStmt:
			n++
		case *ast.FuncLit:
			return false
		}
		return true
	})
	return n == 1
}

// loopReturnForm: g's last statement is a condition-less for loop and every return of g (one result each) sits
// in that loop's body, nested in nothing but blocks and if statements. Returns the loop, or nil.
func loopReturnForm(g *ast.FuncDecl) *ast.ForStmt {
	loop, ok := g.Body.List[len(g.Body.List)-1].(*ast.ForStmt)
	if !ok || loop.Cond != nil {
		return nil
	}
	total := 0
	ast.Inspect(g.Body, func(x ast.Node) bool {
		switch x.(type) {
		case *ast.ReturnStmt:
			total++
		case *ast.FuncLit:
			return false
		}
		return true
	})
	reach := 0
	okShape := true
	var walk func(list []ast.Stmt)
	walk = func(list []ast.Stmt) {
		for _, st := range list {
			switch y := st.(type) {
			case *ast.ReturnStmt:
				if len(y.Results) != 1 {
					okShape = false
				}
				reach++
			case *ast.BlockStmt:
				walk(y.List)
			case *ast.IfStmt:
				walk(y.Body.List)
				switch e := y.Else.(type) {
				case *ast.BlockStmt:
					walk(e.List)
				case nil:
				default:
					okShape = false
				}
			}
		}
	}
	walk(loop.Body.List)
	if !okShape || reach == 0 || reach != total {
		return nil
	}
	return loop
}
