package main

// Helpers for rules over the type-checked Go packages (engine G).

import (
	"go/ast"
	"go/constant"
	"go/token"
	"go/types"
	"strings"

	"golang.org/x/tools/go/packages"
	"golang.org/x/tools/go/types/typeutil"
)

func calleeFunc(info *types.Info, call *ast.CallExpr) *types.Func {
	fn, _ := typeutil.Callee(info, call).(*types.Func)
	return fn
}

// calleeName: "pkgpath.Func" or "(pkgpath.Type).Method" with pointer receivers normalised.
func calleeName(info *types.Info, call *ast.CallExpr) string {
	fn := calleeFunc(info, call)
	if fn == nil {
		if id, ok := call.Fun.(*ast.Ident); ok {
			if _, ok := info.Uses[id].(*types.Builtin); ok {
				return "builtin." + id.Name
			}
		}
		return ""
	}
	return strings.ReplaceAll(fn.FullName(), "*", "")
}

func objOf(info *types.Info, id *ast.Ident) types.Object {
	if o := info.Defs[id]; o != nil {
		return o
	}
	return info.Uses[id]
}

// funcMapEntry returns the value expression of FuncMap[key] in template_funcs.
func funcMapEntry(p *packages.Package, key string) ast.Expr {
	for k, v := range funcMapEntries(p) {
		if k == key {
			return v
		}
	}
	return nil
}

func funcMapEntries(p *packages.Package) map[string]ast.Expr {
	out := map[string]ast.Expr{}
	for _, f := range p.Syntax {
		for _, d := range f.Decls {
			gd, ok := d.(*ast.GenDecl)
			if !ok || gd.Tok != token.VAR {
				continue
			}
			for _, s := range gd.Specs {
				vs := s.(*ast.ValueSpec)
				for i, n := range vs.Names {
					if n.Name != "FuncMap" || i >= len(vs.Values) {
						continue
					}
					cl, ok := vs.Values[i].(*ast.CompositeLit)
					if !ok {
						continue
					}
					for _, el := range cl.Elts {
						kv, ok := el.(*ast.KeyValueExpr)
						if !ok {
							continue
						}
						tv := p.TypesInfo.Types[kv.Key]
						if tv.Value != nil && tv.Value.Kind() == constant.String {
							out[constant.StringVal(tv.Value)] = kv.Value
						}
					}
				}
			}
		}
	}
	return out
}

func isNilIdent(info *types.Info, e ast.Expr) bool {
	id, ok := ast.Unparen(e).(*ast.Ident)
	return ok && id.Name == "nil" && info.Uses[id] == types.Universe.Lookup("nil")
}

// structTag returns the value of key in the field's tag ("" if absent), name part only.
func tagName(tag, key string) string {
	v := reflectTagGet(tag, key)
	if i := strings.Index(v, ","); i >= 0 {
		v = v[:i]
	}
	return v
}

func tagOpts(tag, key string) string {
	v := reflectTagGet(tag, key)
	if i := strings.Index(v, ","); i >= 0 {
		return v[i+1:]
	}
	return ""
}

// reflectTagGet is reflect.StructTag.Get without importing reflect semantics differences.
func reflectTagGet(tag, key string) string {
	for tag != "" {
		i := 0
		for i < len(tag) && tag[i] == ' ' {
			i++
		}
		tag = tag[i:]
		if tag == "" {
			break
		}
		i = 0
		for i < len(tag) && tag[i] > ' ' && tag[i] != ':' && tag[i] != '"' && tag[i] != 0x7f {
			i++
		}
		if i == 0 || i+1 >= len(tag) || tag[i] != ':' || tag[i+1] != '"' {
			break
		}
		name := tag[:i]
		tag = tag[i+1:]
		i = 1
		for i < len(tag) && tag[i] != '"' {
			if tag[i] == '\\' {
				i++
			}
			i++
		}
		if i >= len(tag) {
			break
		}
		qvalue := tag[:i+1]
		tag = tag[i+1:]
		if key == name {
			v := qvalue[1 : len(qvalue)-1]
			return v
		}
	}
	return ""
}
