package main

import (
	"encoding/json"
	"fmt"
	"go/ast"
	"go/constant"
	"go/token"
	"go/types"
	"os"
	"path/filepath"
	"sort"
	"strings"

	"golang.org/x/tools/go/packages"
)

func init() { register("C12", checkC12) }

func checkC12(c *Ctx) {
	c.Explanation = `R12.1 in TemplateGenerator.Generate, whenever a schema was obtained, validateSchema is called before the template is executed and its failure is an error return (decision table of Generate);
R12.2 validateSchema rejects a nil schema, validates the file-level template-data and, in a loop over ALL interfaces with no path that skips the call, each interface's own template-data; each failure returns an error; TemplateData.VerifyJSONSchema returns nil only on a path that called schema.Validate and saw result.Valid() == true;
R12.3 schema selection in getTemplate: a custom template (file://, https://, http:// - the same set download accepts) fetches its schema iff require-template-schema-exists, fetch errors are returned, a nil schema is returned only when the flag is false; a built-in template uses jsonSchemas[<same name>]; styleTemplates and jsonSchemas have the same keys and their embedded files are mock_<k>.templ and mock_<k>.templ.schema.json; the default template-schema is {{.Template}}.schema.json;
R12.4 the embedded schemas are closed JSON objects (additionalProperties: false) whose properties are exactly the template-data keys the built-in template reads (engine T);
R12.5 the schema location and the require flag handed to the generator come from the configuration of the mocks in the file.`
	c.NotDecided = "gojsonschema's validation semantics; remote retrieval."
	c.Assumptions = []string{"gojsonschema validates as specified"}
	c.Rule("R12.1", 2, "")
	c.Rule("R12.2", 4, "")
	c.Rule("R12.3", 9, "")
	c.Rule("R12.4", 4, "")
	c.Rule("R12.5", 0, "")
	r := loadRepo(c, packages.LoadSyntax, "", "./internal", "./template", "./config", "./internal/cmd")
	ip := r.Pkg("internal")
	info := ip.TypesInfo

	// ---- R12.1
	if fd := FuncDecl(ip, "TemplateGenerator.Generate"); fd == nil {
		c.Fail("R12.1", "Generate|missing", "internal/template_generator.go", "Generate not found")
	} else {
		c.Func(funcKey(ip, fd))
		d := newDT(info)
		d.paths = nil
		d.stmts(seedEnv(d, fd), fd.Body.List, func(p *dtPath) { d.finish(p, "end") })
		nExec := 0
		okAll := true
		for _, p := range d.paths {
			ex := p.CallsTo("template.Template).Execute")
			if len(ex) == 0 {
				continue
			}
			nExec++
			var schemaNil *dtAtom
			for i := range p.Atoms {
				if strings.HasSuffix(p.Atoms[i].Expr, ".getTemplate>(ARG0)#1 == nil") {
					schemaNil = &p.Atoms[i]
				}
			}
			if schemaNil == nil && validateNilTolerant(ip) {
				// validateSchema itself answers a nil schema with "nothing to validate": calling it
				// unconditionally, successfully, before Execute is the same decision
				okCall := false
				for _, a := range p.Atoms {
					if a.Err && a.Val && strings.HasPrefix(a.Expr, "internal.validateSchema(") && a.Step <= ex[0].Step {
						okCall = true
					}
				}
				if okCall {
					continue
				}
			}
			if schemaNil == nil {
				okAll = false
				c.Fail("R12.1", "Generate|execute-without-schema-test", r.Pos(ex[0].Pos), "the template is executed on a path that never looked at the schema returned by getTemplate")
				continue
			}
			if schemaNil.Val {
				continue // no schema: nothing to validate (R12.3 decides when that may happen)
			}
			vs := p.CallsTo("internal.validateSchema")
			okV := false
			for _, a := range p.Atoms {
				if a.Err && a.Val && strings.HasPrefix(a.Expr, "internal.validateSchema(") {
					okV = true
				}
			}
			if len(vs) != 1 || vs[0].Step > ex[0].Step || !okV {
				okAll = false
				c.Fail("R12.1", "Generate|execute-before-validation", r.Pos(ex[0].Pos), "with a schema present the template is executed without a preceding successful validateSchema: "+p.String())
			}
		}
		if okAll && nExec > 0 {
			c.OK("R12.1", "Generate|validate-before-execute", r.Pos(fd.Pos()), "validateSchema precedes Execute whenever a schema exists")
		}
		// failure of validateSchema is an error return (also covered by R09.1)
		okErr := false
		for _, p := range d.paths {
			for _, a := range p.Atoms {
				if a.Err && !a.Val && strings.HasPrefix(a.Expr, "internal.validateSchema(") && p.Exit == "return" && p.Ret[1] != "nil" && len(p.CallsTo("template.Template).Execute")) == 0 {
					okErr = true
				}
			}
		}
		c.Check(okErr, "R12.1", "Generate|validation-failure", r.Pos(fd.Pos()), "validation failure => error, nothing rendered", "a validateSchema failure does not end Generate with an error before rendering")
	}

	// ---- R12.2
	ruleValidateSchema(c, r, "R12.2")

	// ---- R12.3
	ruleGetTemplate(c, r, ip)
	ruleHTTPStatus(c, r, "R12.3") // a schema (or template) fetched over http(s) is the body of a 200 response
	ruleNoRetryOfMemo(c, r, "R12.3")
	// ---- R12.4
	ruleSchemaFiles(c)
	// ---- R12.5
	ruleConsumers(c, r, "R12.5", map[string]bool{"template-schema": true, "require-template-schema-exists": true})
}

func ruleGetTemplate(c *Ctx, r *Repo, ip *packages.Package) {
	info := ip.TypesInfo
	fd := FuncDecl(ip, "TemplateGenerator.getTemplate")
	if fd == nil {
		c.Fail("R12.3", "getTemplate|missing", "internal/template_generator.go", "getTemplate not found")
		return
	}
	c.Func(funcKey(ip, fd))
	// protocols
	// the list of URL schemes that make a template name a custom template: the []string literal of
	// "<scheme>://" constants in getTemplate (ranged over, or handed to a slices predicate)
	var protos []string
	var loop *ast.RangeStmt
	var protoLit *ast.CompositeLit
	ast.Inspect(fd.Body, func(n ast.Node) bool {
		cl, ok := n.(*ast.CompositeLit)
		if !ok || protoLit != nil || !typeIs(info.TypeOf(cl), "[]string") || len(cl.Elts) == 0 {
			return true
		}
		var vals []string
		for _, e := range cl.Elts {
			tv := info.Types[e]
			if tv.Value == nil || tv.Value.Kind() != constant.String || !strings.HasSuffix(constant.StringVal(tv.Value), "://") {
				return true
			}
			vals = append(vals, constant.StringVal(tv.Value))
		}
		protoLit, protos = cl, vals
		return true
	})
	ast.Inspect(fd.Body, func(n ast.Node) bool {
		if rs, ok := n.(*ast.RangeStmt); ok && loop == nil && protoLit != nil && ast.Unparen(rs.X) == ast.Expr(protoLit) {
			loop = rs
		}
		return true
	})
	sort.Strings(protos)
	var dl []string
	if dfd := FuncDecl(ip, "download"); dfd != nil {
		ast.Inspect(dfd.Body, func(n ast.Node) bool {
			if call, ok := n.(*ast.CallExpr); ok && (calleeName(info, call) == "strings.HasPrefix" || calleeName(info, call) == "strings.CutPrefix") && len(call.Args) == 2 {
				if tv := info.Types[call.Args[1]]; tv.Value != nil && tv.Value.Kind() == constant.String {
					dl = append(dl, constant.StringVal(tv.Value))
				}
			}
			return true
		})
	}
	sort.Strings(dl)
	c.Check(len(protos) > 0 && strings.Join(protos, ",") == strings.Join(dl, ","), "R12.3", "getTemplate|protocols", r.Pos(fd.Pos()), "custom-template prefixes "+strings.Join(protos, ","), fmt.Sprintf("getTemplate treats %v as custom templates but download accepts %v", protos, dl))
	if protoLit != nil {
		d := newDT(info)
		start := seedEnv(d, fd)
		d.paths = nil
		if loop != nil {
			d.stmts(start, loop.Body.List, func(p *dtPath) { d.finish(p, "end") })
		} else {
			// no loop over the schemes: the whole function, with "is a custom template" decided by a
			// slices predicate over the scheme list
			d.stmts(start, fd.Body.List, func(p *dtPath) { d.finish(p, "end") })
		}
		ok := len(d.paths) > 0
		rows := map[string]bool{}
		for _, p := range d.paths {
			match, has := atomVal(p, "strings.HasPrefix(RECV.templateName, ")
			if loop == nil {
				match, has = atomVal(p, "slices.ContainsFunc(")
			}
			if !has {
				ok = false
				continue
			}
			if !match {
				continue
			}
			for _, a := range p.Atoms {
				if a.Err && !a.Val && !(p.Exit == "return" && p.Ret[2] != "nil") {
					ok = false
					c.Fail("R12.3", "getTemplate|remote-error-ignored", r.Pos(a.Pos), "a retrieval error for a custom template/schema is not returned: "+a.Expr)
				}
			}
			req, hasReq := p.atom("RECV.requireSchemaExists")
			if p.Exit == "return" && p.Ret[2] == "nil" {
				if !hasReq {
					ok = false
					c.Fail("R12.3", "getTemplate|require-flag-unread", r.Pos(p.RetPos), "a custom template is returned on a path that never consulted require-template-schema-exists")
					continue
				}
				sc := p.CallsTo("RemoteTemplate).Schema")
				switch {
				case req && !(len(sc) == 1 && strings.HasSuffix(p.Ret[1], ".Schema>(ARG0)#0") || len(sc) == 1 && strings.Contains(p.Ret[1], ".Schema<")):
					ok = false
					c.Fail("R12.3", "getTemplate|schema-not-fetched", r.Pos(p.RetPos), "require-template-schema-exists is set but the returned schema is not the one fetched for the template: "+p.Ret[1])
				case !req && !(len(sc) == 0 && (p.Ret[1] == "zero" || p.Ret[1] == "nil")):
					ok = false
					c.Fail("R12.3", "getTemplate|schema-when-not-required", r.Pos(p.RetPos), "with the flag off the schema must be nil (no validation): "+p.Ret[1])
				default:
					rows[fmt.Sprint(req)] = true
				}
			}
		}
		c.Check(ok && rows["true"] && rows["false"], "R12.3", "getTemplate|custom-schema-selection", r.Pos(protoLit.Pos()), "schema fetched iff require flag; errors returned", "custom-template schema selection is not 'fetch iff require-template-schema-exists, errors returned, nil only when not required'")
	}
	ruleRemoteCache(c, r, "R12.3")
	ruleCacheKey(c, r, "R12.3")
	// built-in: jsonSchemas[RECV.templateName], error for NewSchema failure
	okBuiltin := false
	ast.Inspect(fd.Body, func(n ast.Node) bool {
		if call, ok := n.(*ast.CallExpr); ok && strings.HasSuffix(calleeName(info, call), "gojsonschema.NewStringLoader") && len(call.Args) == 1 {
			if newFuncCanon(info, fd).E(call.Args[0]) == "jsonSchemas[RECV.templateName]" {
				okBuiltin = true
			}
		}
		return true
	})
	c.Check(okBuiltin, "R12.3", "getTemplate|builtin-schema", r.Pos(fd.Pos()), "built-in template validated against jsonSchemas[its own name]", "the built-in schema is not looked up under the template's own name")
	// same key sets and embedded file names
	keysOf := func(name string) map[string]string {
		out := map[string]string{}
		for _, f := range ip.Syntax {
			for _, d := range f.Decls {
				gd, ok := d.(*ast.GenDecl)
				if !ok || gd.Tok != token.VAR {
					continue
				}
				for _, s := range gd.Specs {
					vs := s.(*ast.ValueSpec)
					for i, n := range vs.Names {
						if n.Name == name && i < len(vs.Values) {
							if cl, ok := vs.Values[i].(*ast.CompositeLit); ok {
								for _, el := range cl.Elts {
									kv := el.(*ast.KeyValueExpr)
									key := strings.Trim(types.ExprString(kv.Key), `"`)
									if tv := info.Types[kv.Key]; tv.Value != nil && tv.Value.Kind() == constant.String {
										key = constant.StringVal(tv.Value) // a named constant as key
									}
									out[key] = types.ExprString(kv.Value)
								}
							}
						}
					}
				}
			}
		}
		return out
	}
	embeds := map[string]string{} // var -> embedded file
	for _, f := range ip.Syntax {
		for _, d := range f.Decls {
			gd, ok := d.(*ast.GenDecl)
			if !ok || gd.Tok != token.VAR {
				continue
			}
			for _, s := range gd.Specs {
				vs := s.(*ast.ValueSpec)
				if vs.Doc != nil {
					for _, cm := range vs.Doc.List {
						if strings.HasPrefix(cm.Text, "//go:embed ") && len(vs.Names) == 1 {
							embeds[vs.Names[0].Name] = strings.TrimSpace(strings.TrimPrefix(cm.Text, "//go:embed "))
						}
					}
				}
			}
		}
	}
	st, js := keysOf("styleTemplates"), keysOf("jsonSchemas")
	var ks []string
	for k := range st {
		ks = append(ks, k)
	}
	for k := range js {
		if _, ok := st[k]; !ok {
			ks = append(ks, k)
		}
	}
	sort.Strings(ks)
	for _, k := range ks {
		tv, sv := st[k], js[k]
		ok := tv != "" && sv != "" && embeds[tv] == "mock_"+k+".templ" && embeds[sv] == "mock_"+k+".templ.schema.json"
		c.Check(ok, "R12.3", "builtin|"+k, "internal/template_generator.go", "template and schema of "+k+" are embedded from mock_"+k+".templ(.schema.json)", fmt.Sprintf("built-in %q: template var %q embeds %q, schema var %q embeds %q; want mock_%s.templ and mock_%s.templ.schema.json under the same key in both tables", k, tv, embeds[tv], sv, embeds[sv], k, k))
	}
	// default template-schema
	cp := r.Pkg("config")
	if nd := FuncDecl(cp, "NewDefaultKoanf"); nd != nil {
		ok := defaultConfigFields(cp, nd)["TemplateSchema"] == `config.addr("{{.Template}}.schema.json")`
		c.Check(ok, "R12.3", "default|template-schema", r.Pos(nd.Pos()), "default template-schema = {{.Template}}.schema.json", "the default template-schema is not '{{.Template}}.schema.json'")
	}
}

func ruleSchemaFiles(c *Ctx) {
	for _, name := range []string{"testify", "matryer"} {
		file := filepath.Join(c.Repo, "internal", "mock_"+name+".templ.schema.json")
		rel := "internal/mock_" + name + ".templ.schema.json"
		b, err := os.ReadFile(file)
		if err != nil {
			c.Fail("R12.4", name+"|schema-file", rel, "cannot read the embedded schema: "+err.Error())
			continue
		}
		var s struct {
			Type                 string                     `json:"type"`
			AdditionalProperties *bool                      `json:"additionalProperties"`
			Properties           map[string]json.RawMessage `json:"properties"`
		}
		if err := json.Unmarshal(b, &s); err != nil {
			c.Fail("R12.4", name+"|schema-json", rel, "the embedded schema is not valid JSON: "+err.Error())
			continue
		}
		c.Check(s.Type == "object" && s.AdditionalProperties != nil && !*s.AdditionalProperties, "R12.4", name+"|closed", rel, "object schema with additionalProperties: false", "the built-in schema no longer rejects unknown template-data keys (additionalProperties: false missing)")
		keys := map[string]bool{}
		for _, mode := range []string{"body", "header"} {
			walkTemplate(c, name, mode, func(p *TPath) {
				for k := range p.E.flagsSeen {
					keys[k[strings.LastIndex(k, ":")+1:]] = true
				}
			})
		}
		var ks []string
		for k := range keys {
			ks = append(ks, k)
		}
		for k := range s.Properties {
			if !keys[k] {
				ks = append(ks, k)
			}
		}
		sort.Strings(ks)
		for _, k := range ks {
			_, inSchema := s.Properties[k]
			switch {
			case keys[k] && inSchema:
				c.OK("R12.4", name+"|key|"+k, rel, "read by the template and declared in the schema")
			case keys[k]:
				c.Fail("R12.4", name+"|key-not-in-schema|"+k, rel, fmt.Sprintf("the %s template reads template-data[%q] but its schema (additionalProperties: false) does not declare it: setting the option is rejected", name, k))
			default:
				c.Fail("R12.4", name+"|key-unused|"+k, rel, fmt.Sprintf("the %s schema accepts %q but the template never reads it: the option is silently ineffective", name, k))
			}
		}
	}
}

// ruleValidateSchema: every level of template-data is validated (R12.2; also used by C09 as R09.4).
func ruleValidateSchema(c *Ctx, r *Repo, rule string) {
	ip := r.Pkg("internal")
	info := ip.TypesInfo
	if fd := FuncDecl(ip, "validateSchema"); fd == nil {
		c.Fail(rule, "validateSchema|missing", "internal/template_generator.go", "validateSchema not found")
	} else {
		c.Func(funcKey(ip, fd))
		// local closures (a shared "verify and wrap the error" helper, say) and private helpers are followed
		follow := func() *dtEnum {
			d := newDT(info)
			d.callInline = map[*types.Func]*ast.FuncDecl{}
			for fn, g := range pkgUnexported(ip) {
				if g != fd && g.Recv == nil {
					d.callInline[fn] = g
				}
			}
			d.closureFiles = ip.Syntax
			d.hoistCalls = true
			return d
		}
		fde := follow()
		fde.paths = nil
		fde.stmts(seedEnv(fde, fd), fd.Body.List, func(p *dtPath) { fde.finish(p, "end") })
		paths := fde.paths
		okNil, okFile := false, true
		for _, p := range paths {
			if v, has := p.atom("ARG2 == nil"); has && v {
				// a nil schema is rejected, or answered with "nothing to validate"; either way it is not used
				okNil = p.Exit == "return" && len(p.CallsTo("VerifyJSONSchema")) == 0
				continue
			}
			// every other path must validate the file-level data first
			calls := p.CallsTo("template.TemplateData).VerifyJSONSchema")
			if len(calls) == 0 || calls[0].Recv != "ARG1.TemplateData" {
				okFile = false
				c.Fail(rule, "validateSchema|file-level", r.Pos(fd.Pos()), "a path of validateSchema does not validate the file-level template-data first: "+p.String())
			}
			for _, a := range p.Atoms {
				if a.Err && !a.Val && !(p.Exit == "return" && p.Ret[0] != "nil") {
					okFile = false
					c.Fail(rule, "validateSchema|failure-ignored", r.Pos(a.Pos), "a validation failure does not make validateSchema return an error")
				}
			}
			searches := 0 // slices.IndexFunc / ContainsFunc over the interfaces: the loop in library form
			for _, call := range p.Calls {
				if (call.Name == "slices.IndexFunc" || call.Name == "slices.ContainsFunc") && len(call.Args) == 2 && call.Args[0] == "ARG1.Interfaces" {
					searches++
				}
			}
			if p.Exit == "return" && p.Ret[0] == "nil" && hasStep(p, "loop")+searches != 1 {
				okFile = false
				c.Fail(rule, "validateSchema|no-interface-loop", r.Pos(fd.Pos()), "validateSchema reports success without looping over the interfaces")
			}
		}
		c.Check(okNil, rule, "validateSchema|nil-schema", r.Pos(fd.Pos()), "nil schema is an error", "a nil schema is not rejected")
		if okFile {
			c.OK(rule, "validateSchema|file-level", r.Pos(fd.Pos()), "file-level template-data validated; failures returned")
		}
		rs := rangeOverC(ip, fd, "ARG1.Interfaces")
		var search *ast.CallExpr
		ast.Inspect(fd.Body, func(n ast.Node) bool {
			if call, ok := n.(*ast.CallExpr); ok && len(call.Args) == 2 {
				if cn := calleeName(info, call); (cn == "slices.IndexFunc" || cn == "slices.ContainsFunc") && newFuncCanon(info, fd).E(call.Args[0]) == "ARG1.Interfaces" {
					search = call
				}
			}
			return true
		})
		if fl, isLit := func() (*ast.FuncLit, bool) {
			if search == nil {
				return nil, false
			}
			fl, ok := search.Args[1].(*ast.FuncLit)
			return fl, ok && fl.Type.Params.NumFields() == 1 && len(fl.Type.Params.List[0].Names) == 1
		}(); rs == nil && isLit {
			// the search stops at the first interface whose own template-data fails validation, and a hit
			// makes validateSchema return an error
			d := newDT(info)
			d.boolReturns = true
			start := seedEnv(d, fd)
			start.env[info.Defs[fl.Type.Params.List[0].Names[0]]] = "ELEM"
			d.paths = nil
			d.stmts(start, fl.Body.List, func(p *dtPath) { d.finish(p, "end") })
			ok := len(d.paths) > 0
			for _, p := range d.paths {
				calls := p.CallsTo("template.TemplateData).VerifyJSONSchema")
				if len(calls) != 1 || calls[0].Recv != "ELEM.TemplateData" || len(calls[0].Args) != 2 || calls[0].Args[1] != "ARG2" {
					ok = false
					c.Fail(rule, "validateSchema|interface-data", r.Pos(fl.Pos()), "the search predicate does not validate exactly that interface's own template-data against the schema: "+p.String())
					continue
				}
				failed, tested := false, false
				for _, a := range p.Atoms {
					if a.Err {
						failed, tested = !a.Val, true
					}
				}
				if !tested || p.Exit != "return" || len(p.Ret) != 1 || (p.Ret[0] == "true") != failed {
					ok = false
					c.Fail(rule, "validateSchema|interface-failure-ignored", r.Pos(fl.Pos()), "the search predicate does not report exactly the interfaces whose validation failed: "+p.String())
				}
			}
			// a hit is an error
			sc := newFuncCanon(info, fd).E(search)
			for _, p := range enumOnce(info, fd) {
				hit, known := false, false
				for _, a := range p.Atoms {
					switch a.Expr {
					case sc + " >= 0", sc + " > -1", sc:
						hit, known = a.Val, true
					case sc + " < 0", sc + " == -1":
						hit, known = !a.Val, true
					}
				}
				if len(p.CallsTo("slices.IndexFunc"))+len(p.CallsTo("slices.ContainsFunc")) == 0 {
					continue
				}
				if !known || hit != (p.Exit == "return" && p.Ret[0] != "nil") {
					ok = false
					c.Fail(rule, "validateSchema|interface-failure-ignored", r.Pos(search.Pos()), "a failing interface found by the search does not make validateSchema return an error (or the result of the search is not examined): "+p.String())
				}
			}
			if ok {
				c.OK(rule, "validateSchema|interface-level", r.Pos(search.Pos()), "every interface's own template-data is validated, a failure is returned")
			}
		} else if rs == nil {
			c.Fail(rule, "validateSchema|interface-loop", r.Pos(fd.Pos()), "no loop over data.Interfaces")
		} else {
			d := follow()
			start := d.envBefore(seedEnv(d, fd), fd.Body.List, rs)
			if v, ok := rs.Value.(*ast.Ident); ok {
				start.env[info.Defs[v]] = "ELEM"
			}
			if types.ExprString(rs.X) != fd.Type.Params.List[1].Names[0].Name+".Interfaces" {
				c.Fail(rule, "validateSchema|loop-range", r.Pos(rs.Pos()), "the loop ranges over "+types.ExprString(rs.X)+", want all interfaces of the data")
			}
			d.paths = nil
			d.stmts(start, rs.Body.List, func(p *dtPath) { d.finish(p, "end") })
			ok := len(d.paths) > 0
			for _, p := range d.paths {
				calls := p.CallsTo("template.TemplateData).VerifyJSONSchema")
				if len(calls) != 1 || calls[0].Recv != "ELEM.TemplateData" || len(calls[0].Args) != 2 || calls[0].Args[1] != "ARG2" {
					ok = false
					recv := "<none>"
					if len(calls) > 0 {
						recv = calls[0].Recv
					}
					c.Fail(rule, "validateSchema|interface-data", r.Pos(rs.Pos()), fmt.Sprintf("an iteration of the interface loop validates %s (%d call(s)) instead of exactly that interface's own template-data against the schema: %s", recv, len(calls), p.String()))
				}
				for _, a := range p.Atoms {
					if a.Err && !a.Val && !(p.Exit == "return" && p.Ret[0] != "nil") {
						ok = false
						c.Fail(rule, "validateSchema|interface-failure-ignored", r.Pos(a.Pos), "an interface-level validation failure is not returned")
					}
				}
			}
			if ok {
				c.OK(rule, "validateSchema|interface-level", r.Pos(rs.Pos()), "every interface's own template-data is validated, no path skips it")
			}
		}
	}
	tp := r.Pkg("template")
	if fd := FuncDecl(tp, "TemplateData.VerifyJSONSchema"); fd == nil {
		c.Fail(rule, "VerifyJSONSchema|missing", "template/template_data.go", "VerifyJSONSchema not found")
	} else {
		c.Func(funcKey(tp, fd))
		paths, _ := enumerateFunc(tp.TypesInfo, fd)
		ok := len(paths) > 0
		nNil := 0
		for _, p := range paths {
			if p.Exit != "return" || len(p.Ret) != 1 {
				ok = false
				continue
			}
			val := p.CallsTo("gojsonschema.Schema).Validate")
			validTrue := false
			for _, a := range p.Atoms {
				if strings.HasSuffix(a.Expr, ".Valid<(github.com/xeipuuv/gojsonschema.Result).Valid>()") && a.Val {
					validTrue = true
				}
			}
			if p.Ret[0] == "nil" {
				nNil++
				okArgs := len(val) == 1 && val[0].Recv == "ARG1" && len(val[0].Args) == 1 && strings.HasSuffix(val[0].Args[0], "NewGoLoader(RECV)")
				if !okArgs || !validTrue {
					ok = false
					c.Fail(rule, "VerifyJSONSchema|accepts-unvalidated", r.Pos(p.RetPos), "VerifyJSONSchema returns nil on a path that did not validate the receiver against the schema and see Valid() == true: "+p.String())
				}
			}
		}
		c.Check(ok && nNil == 1, rule, "VerifyJSONSchema|contract", r.Pos(fd.Pos()), "nil only after Validate(receiver) said Valid()", "VerifyJSONSchema's accept path is not unique/validated")
	}

}

// schemaProperties reads the property names of a built-in template's schema.
func schemaProperties(c *Ctx, name string) map[string]bool {
	out := map[string]bool{}
	b, err := os.ReadFile(filepath.Join(c.Repo, "internal", "mock_"+name+".templ.schema.json"))
	if err != nil {
		return out
	}
	var s struct {
		Properties map[string]json.RawMessage `json:"properties"`
	}
	if json.Unmarshal(b, &s) == nil {
		for k := range s.Properties {
			out[k] = true
		}
	}
	return out
}

// ruleRemoteCache: RemoteTemplate objects are shared by all output files of a run that use the same
// template, so what Schema/Template hand out on the second and later calls is what the first call
// stored: on every successful path of the first call (flag not yet set) the result is stored in the
// cache field and that same value is returned; later calls return the cache field.
func ruleRemoteCache(c *Ctx, r *Repo, rule string) {
	ip := r.Pkg("internal")
	info := ip.TypesInfo
	for _, m := range []struct{ fn, flag, field string }{{"Schema", "RECV.schemaDownloaded", "RECV.schema"}, {"Template", "RECV.templateDownloaded", "RECV.templateString"}} {
		fd := FuncDecl(ip, "RemoteTemplate."+m.fn)
		if fd == nil {
			c.Fail(rule, "RemoteTemplate."+m.fn+"|missing", "internal/remote_template.go", "RemoteTemplate."+m.fn+" not found")
			continue
		}
		c.Func(funcKey(ip, fd))
		paths, _ := enumerateFunc(info, fd)
		ok := len(paths) > 0
		why := ""
		for _, p := range paths {
			if p.Exit != "return" || len(p.Ret) != 2 {
				ok, why = false, "a path does not return (value, error)"
				continue
			}
			if p.Ret[1] != "nil" {
				continue
			}
			done, has := p.atom(m.flag)
			switch {
			case !has:
				ok, why = false, "a successful path does not consult "+m.flag
			case done:
				if p.Ret[0] != m.field {
					ok, why = false, "a later call returns "+p.Ret[0]+" instead of the cached "+m.field
				}
			default:
				stored := ""
				for _, st := range p.Steps {
					if strings.HasPrefix(st, "store "+m.field+" = ") {
						stored = strings.TrimPrefix(st, "store "+m.field+" = ")
					}
				}
				if stored == "" {
					ok, why = false, "the first successful call does not store its result in "+m.field+": every later call (the next output file using this template) gets the zero value, i.e. no schema to validate against / an empty template"
				} else if p.Ret[0] != m.field && p.Ret[0] != stored {
					ok, why = false, "the first call returns "+p.Ret[0]+", which is not what it stored in "+m.field
				}
			}
		}
		c.Check(ok, rule, "RemoteTemplate."+m.fn+"|cache", r.Pos(fd.Pos()), "first call stores what it returns; later calls return the stored value", "RemoteTemplate."+m.fn+": "+why)
	}
}

// ruleCacheKey: the per-run cache of remote templates is shared by all output files, which are
// visited in map order. An entry must therefore depend on nothing but its key: every argument the
// cached object is constructed from occurs in the key it is stored (and looked up) under; otherwise
// which file is rendered first decides what the others get.
func ruleCacheKey(c *Ctx, r *Repo, rule string) {
	ip := r.Pkg("internal")
	info := ip.TypesInfo
	fd := FuncDecl(ip, "TemplateGenerator.getTemplate")
	if fd == nil {
		c.Fail(rule, "getTemplate|missing", "internal/template_generator.go", "getTemplate not found")
		return
	}
	fc := newFuncCanon(info, fd)
	isCache := func(e ast.Expr) bool {
		se, ok := ast.Unparen(e).(*ast.SelectorExpr)
		return ok && se.Sel.Name == "remoteTemplateCache"
	}
	var storeKey, ctor string
	var ctorArgs []string
	var lookups []string
	var pos token.Pos
	ast.Inspect(fd.Body, func(n ast.Node) bool {
		switch x := n.(type) {
		case *ast.AssignStmt:
			for i, l := range x.Lhs {
				if ie, ok := ast.Unparen(l).(*ast.IndexExpr); ok && isCache(ie.X) && len(x.Rhs) == len(x.Lhs) {
					storeKey = fc.E(ie.Index)
					ctor = fc.E(x.Rhs[i])
					pos = x.Pos()
				}
			}
			for _, rh := range x.Rhs {
				if ie, ok := ast.Unparen(rh).(*ast.IndexExpr); ok && isCache(ie.X) {
					lookups = append(lookups, fc.E(ie.Index))
				}
			}
		case *ast.CallExpr:
			if strings.HasSuffix(calleeName(info, x), "/internal.NewRemoteTemplate") {
				ctorArgs = nil
				for _, a := range x.Args {
					ctorArgs = append(ctorArgs, fc.E(a))
				}
			}
		}
		return true
	})
	_ = ctor
	if storeKey == "" || len(ctorArgs) == 0 || len(lookups) == 0 {
		c.Fail(rule, "getTemplate|cache-key", r.Pos(fd.Pos()), "cannot find where getTemplate stores a NewRemoteTemplate(...) in remoteTemplateCache and looks it up")
		return
	}
	missing := ""
	for _, a := range ctorArgs {
		if !strings.Contains(storeKey, a) {
			missing = a
		}
	}
	for _, l := range lookups {
		if l != storeKey {
			missing = "lookup key " + l + " differs from store key " + storeKey
		}
	}
	// a miss constructs and stores, a hit uses the stored entry: on every path that goes on to ask the entry for
	// its template, "entry present" false is followed by a NewRemoteTemplate call (never by the absent, nil,
	// entry) and "entry present" true is not (mechanical-mutation finding: the comma-ok test negated makes the
	// first custom-template file of a run call a method on a nil *RemoteTemplate)
	{
		nMiss, nHit := 0, 0
		// the function's own paths and those of every loop body in it (the cache sits in the loop over the schemes)
		allPaths := enumOnce(info, fd)
		ast.Inspect(fd.Body, func(n ast.Node) bool {
			var body *ast.BlockStmt
			switch l := n.(type) {
			case *ast.RangeStmt:
				body = l.Body
			case *ast.ForStmt:
				body = l.Body
			}
			if body != nil {
				d := newDT(info)
				d.paths = nil
				d.stmts(seedEnv(d, fd), body.List, func(p *dtPath) { d.finish(p, "end") })
				allPaths = append(allPaths, d.paths...)
			}
			return true
		})
		for _, p := range allPaths {
			present, seen := false, false
			for _, a := range p.Atoms {
				if strings.Contains(a.Expr, "remoteTemplateCache[") && (strings.HasSuffix(a.Expr, "]#ok") || strings.HasSuffix(a.Expr, "] == nil")) {
					seen = true
					present = a.Val
					if strings.HasSuffix(a.Expr, "] == nil") {
						present = !a.Val
					}
				}
			}
			if os.Getenv("MVCHECK_DEBUG") != "" {
				fmt.Println("R12.3 cache path:", seen, present, p.String())
			}
			if !seen {
				continue
			}
			built := hasStep(p, "NewRemoteTemplate(") > 0
			if present {
				nHit++
				c.Check(!built, rule, "getTemplate|cache-hit-uses-entry", r.Pos(pos), "a cache hit uses the stored entry", "on a cache hit getTemplate builds a new RemoteTemplate instead of using the stored one: the template and schema are retrieved again for every output file")
			} else {
				nMiss++
				c.Check(built, rule, "getTemplate|cache-miss-constructs", r.Pos(pos), "a cache miss constructs the entry", "on a cache miss getTemplate goes on with the absent (nil) entry instead of constructing one: the first output file that uses a custom template calls a method on a nil *RemoteTemplate (unrecovered panic)")
			}
		}
		c.Check(nMiss > 0 && nHit > 0, rule, "getTemplate|cache-paths", r.Pos(pos), "hit and miss paths of the cache found", fmt.Sprintf("cannot find the hit (%d) and miss (%d) paths of the remote-template cache in getTemplate", nHit, nMiss))
	}
	c.Check(missing == "", rule, "getTemplate|cache-key", r.Pos(pos), "cache key covers every constructor argument: "+storeKey, fmt.Sprintf("the remote-template cache entry is built from %v but keyed by %s (%s is not part of the key): two files that agree on the key and differ in that value share whichever entry was created first, and files are rendered in map order, so the run is not deterministic", ctorArgs, storeKey, missing))
}

func enumOnce(info *types.Info, fd *ast.FuncDecl) []*dtPath {
	paths, _ := enumerateFunc(info, fd)
	return paths
}

// validateNilTolerant: validateSchema returns nil straight away for a nil schema (without touching it).
func validateNilTolerant(ip *packages.Package) bool {
	fd := FuncDecl(ip, "validateSchema")
	if fd == nil {
		return false
	}
	n := 0
	for _, p := range enumOnce(ip.TypesInfo, fd) {
		if v, has := p.atom("ARG2 == nil"); has && v {
			n++
			if !(p.Exit == "return" && len(p.Ret) == 1 && p.Ret[0] == "nil" && len(p.CallsTo("VerifyJSONSchema")) == 0) {
				return false
			}
		}
	}
	return n > 0
}
