package main

import (
	"fmt"
	"go/ast"
	"go/token"
	"go/types"
	"os"
	"strings"

	"golang.org/x/tools/go/packages"
)

func init() { register("C06", checkC06) }

// reviewed map iterations: "<func>|<ranged expression>" -> shape class and reason.
// S1 = body only writes map entries keyed by the range key / fields reachable from the range value
// S2 = commutative accumulation (a flag set to a constant)
// S3 = appended and then sorted with a total order before any other use (checked mechanically)
// S4 = logging only
// X  = reasoned exception
var reviewedMapRanges = map[string]string{
	"config.Config.ParseTemplates|templateMap":           "S1/S2/S4: each value is rendered from the fixed TemplateData (not from the other entries) and written back through its own pointer; the changed flag is a commutative OR; the second loop only logs",
	"config.PackageConfig.Initialize|c.Interfaces":        "S1: writes c.Interfaces[key] and fields of the value; reads only the package config, which the loop does not modify",
	"config.RootConfig.GetPackages|c.Packages":            "X: the key slice is used as a set (patterns for packages.Load, keys of the missing map); interfaces of different packages can never share an output file (InterfaceCollection.Append), and within a package order comes from files and declarations",
	"config.RootConfig.Initialize|c.Packages":             "S1 + S3: per-package writes keyed by the range key; the recursive-package list collected here is sorted with a total order before use (re-checked mechanically)",
	"config.mergeStringMaps|src":                          "S1: dest[k] keyed by the range key; recursion on the value pair of the same key",
	"internal/cmd.RootApp.Run|config.Interfaces":          "S1: missingMap[p][name] keyed by the range key",
	"internal/cmd.RootApp.Run|missingMap":                 "S4/S2: logs each remaining entry and sets a flag",
	"internal/cmd.RootApp.Run|missingMap[packagePath]":    "S4/S2: logs each remaining entry and sets a flag",
	"internal/cmd.RootApp.Run|mockFileToInterfaces":       "X: iterations are independent (each renders and writes only its own file with a generator constructed in the iteration, R06.6); the early error return affects failing runs only, whose exit status is the same whichever file fails first",
	"internal/cmd.run|v2.Packages":                        "S1: v3.Packages[name] keyed by the range key; only the order of the deprecation report on the terminal depends on iteration order, the v3 file is encoded with sorted keys",
	"internal/cmd.run|pkgConfig.Interfaces":               "S1: Interfaces[name] keyed by the range key",
	"template.NewMethodScope|r.importQualifiers":          "S1: set insertion of the range key",
	"template.Registry.Imports|r.imports":                 "S3: appended, then sorted by Path() (unique map keys) before being returned (re-checked mechanically)",
}

var ambientCalls = map[string]bool{"time.Now": true, "time.Since": true, "os.Getpid": true, "os.Getppid": true, "os.Hostname": true, "os.Environ": true,
	"math/rand.Int": true, "math/rand.Intn": true, "math/rand/v2.Int": true, "math/rand/v2.IntN": true, "crypto/rand.Read": true, "os.Getuid": true}

func checkC06(c *Ctx) {
	c.Explanation = `R06.1 map iteration order never reaches an output: every 'range' over a map in config, internal, internal/cmd, internal/config, template, template_funcs and main is in a reviewed table with its order-insensitivity class (writes keyed by the range key, commutative flag, append-then-total-sort, logging only, or a reasoned exception); sites of the append-then-sort class are re-checked mechanically (Registry.Imports sorted by Path(); the recursive packages sorted longest-first with a total tie-break before expansion); an unlisted map range is a violation;
R06.2 no ambient nondeterminism in what is written: no call to time.Now, math/rand, os.Getpid, os.Hostname, os.Environ in those packages outside the function map (where a user template may ask for it), and the built-in templates call none of randInt, getenv, expandEnv; their header contains no hole other than boilerplate and build tags (C17);
R06.3 imports are emitted sorted: Data.Imports returns Registry.Imports() and both templates build the import block by ranging over .Imports after any AddImport call (engine T: the block lists the registry's imports in path order on every path);
R06.4 built-in output cannot be re-discovered: no path of either template declares a type whose type expression is an interface literal or an instantiation (the only shapes interface discovery collects), so re-running over a tree that contains earlier output finds no new candidates in it;
R06.5 interface order: ParsePackages builds its result by append inside nested ranges over slices only (packages, GoFiles, declared interfaces);
R06.6 one registry per output file: every iteration of the per-file loop in Run constructs its own TemplateGenerator (fresh import registry) and calls Generate on that one.`
	c.NotDecided = "determinism of go list/packages.Load, goimports and yaml.v3; that two runs see the same environment; byte equality as such."
	c.Assumptions = []string{"the reviewed table in checker/c06.go", "sort.Slice with a total order is deterministic"}
	c.Rule("R06.1", 12, "")
	c.Rule("R06.2", 3, "")
	c.Rule("R06.3", 100, "")
	c.Rule("R06.4", 100, "")
	c.Rule("R06.5", 3, "")
	c.Rule("R06.6", 1, "")
	r := loadRepo(c, packages.LoadSyntax, "", mainPatterns...)
	listing := os.Getenv("MVCHECK_LIST") != ""
	for _, rel := range scopePkgs {
		p := r.Pkg(rel)
		info := p.TypesInfo
		for _, f := range p.Syntax {
			for _, d := range f.Decls {
				fd, ok := d.(*ast.FuncDecl)
				if !ok || fd.Body == nil {
					continue
				}
				fk := funcKey(p, fd)
				ast.Inspect(fd.Body, func(n ast.Node) bool {
					switch x := n.(type) {
					case *ast.RangeStmt:
						t := info.TypeOf(x.X)
						if t == nil {
							return true
						}
						if _, isMap := t.Underlying().(*types.Map); !isMap {
							return true
						}
						key := fk + "|" + types.ExprString(x.X)
						if listing {
							fmt.Printf("SITE\t%q: \"\",\t// %s\n", key, r.Pos(x.Pos()))
						}
						if why, ok := reviewedMapRanges[key]; ok {
							c.OK("R06.1", key, r.Pos(x.Pos()), why)
						} else {
							c.Fail("R06.1", "map-range|"+key, r.Pos(x.Pos()), fmt.Sprintf("%s ranges over the map %s; the site is not in the reviewed table of order-insensitive iterations: if its order can reach a generated file, an exit status or which error is reported, runs of the same input differ", fk, types.ExprString(x.X)))
						}
					case *ast.CallExpr:
						name := calleeName(info, x)
						if ambientCalls[name] {
							c.Fail("R06.2", "ambient|"+fk+"|"+name, r.Pos(x.Pos()), fk+" calls "+name+": time, randomness or process identity must not influence what is generated")
						}
					}
					return true
				})
			}
		}
	}
	// mechanical re-check of the S3 sites
	ruleImportsListing(c, r, "R06.1")
	if fd := FuncDecl(r.Pkg("config"), "RootConfig.Initialize"); fd != nil {
		checkRecursiveOrder(c, r, r.Pkg("config"), fd, "R06.1", "config.RootConfig.Initialize|recursivePackages")
	}
	// R06.2: references to ambient functions only as FuncMap values
	fm := funcMapEntries(r.Pkg("template_funcs"))
	for k, v := range map[string]string{"randInt": "math/rand/v2.Int", "getenv": "os.Getenv", "expandEnv": "os.ExpandEnv"} {
		_ = v
		if fm[k] != nil {
			c.OK("R06.2", "funcmap-only|"+k, r.Pos(fm[k].Pos()), k+" is offered to user templates only")
		}
	}
	// engine T parts
	for _, name := range []string{"testify", "matryer"} {
		tname := name
		walkTemplate(c, name, "body", func(p *TPath) {
			if p.Err != nil || p.ParseEr != nil {
				c.Fail("R06.4", tname+"|unanalysable", "internal/mock_"+tname+".templ", "template path cannot be analysed ["+p.Env()+"]")
				return
			}
			for f := range p.E.funcsUsed {
				switch f {
				case "randInt", "getenv", "expandEnv":
					c.Fail("R06.2", tname+"|ambient-function|"+f, "internal/mock_"+tname+".templ", "the built-in "+tname+" template calls "+f+": its output depends on the environment/randomness")
				}
			}
			// R06.4
			found := false
			for _, d := range p.File.Decls {
				gd, ok := d.(*ast.GenDecl)
				if !ok || gd.Tok != token.TYPE {
					continue
				}
				for _, s := range gd.Specs {
					ts := s.(*ast.TypeSpec)
					switch ts.Type.(type) {
					case *ast.InterfaceType, *ast.IndexExpr, *ast.IndexListExpr:
						found = true
						c.Fail("R06.4", tname+"|rediscoverable-type", p.TmplPos(ts.Pos()), fmt.Sprintf("the %s template declares the package-level type %s whose type expression is an interface literal or an instantiation: when the output lies in a configured package (in-package mocks, a mocks directory under a recursive package) the next run discovers it as a candidate and generates a mock of the mock, growing the file on every run [%s]", tname, normMsg(ts.Name.Name), p.Env()))
					}
				}
			}
			if !found {
				c.OK("R06.4", tname, "", "no discoverable type declared")
			}
			// R06.3: import block = registry imports in path order (+ the template's own fixed imports)
			var got []string
			for _, d := range p.File.Decls {
				if gd, ok := d.(*ast.GenDecl); ok && gd.Tok == token.IMPORT {
					for _, s := range gd.Specs {
						is := s.(*ast.ImportSpec)
						if len(p.holesIn(is)) > 0 {
							got = append(got, strings.Trim(is.Path.Value, `"`))
						}
					}
				}
			}
			want := p.E.sortedImports()
			if strings.Join(got, ",") == strings.Join(want, ",") {
				c.OK("R06.3", tname+"|import-block", "", strings.Join(got, ","))
			} else {
				c.Fail("R06.3", tname+"|import-block", "internal/mock_"+tname+".templ", fmt.Sprintf("the import block lists %v, the registry holds (sorted by path) %v: imports are not emitted by ranging over .Imports after all AddImport calls [%s]", got, want, p.Env()))
			}
		})
	}
	// Data.Imports
	if fd := FuncDecl(r.Pkg("template"), "Data.Imports"); fd != nil {
		paths, _ := enumerateFunc(r.Pkg("template").TypesInfo, fd)
		c.Check(len(paths) == 1 && paths[0].Ret[0] == "RECV.Registry.Imports<(template.Registry).Imports>()", "R06.3", "Data.Imports", r.Pos(fd.Pos()), "Data.Imports = Registry.Imports() (sorted)", "Data.Imports does not return the registry's sorted import list")
	}
	// R06.5
	if fd := FuncDecl(r.Pkg("internal"), "Parser.ParsePackages"); fd != nil {
		info := r.Pkg("internal").TypesInfo
		for _, marker := range []string{"packages.Load(", ".GoFiles", ".declaredInterfaces"} {
			rs := rangeOverC(r.Pkg("internal"), fd, marker)
			ok := false
			if rs != nil {
				if t := info.TypeOf(rs.X); t != nil {
					_, ok = t.Underlying().(*types.Slice)
				}
			}
			c.Check(ok, "R06.5", "ParsePackages|range|"+marker, r.Pos(fd.Pos()), "range over a slice", "ParsePackages no longer ranges over the slice "+marker+" (interface order would not be package/file/declaration order)")
		}
	}
	// R06.6
	ruleFreshGenerator(c, r, "R06.6")
}

// ruleFreshGenerator: each output file gets its own generator/registry.
func ruleFreshGenerator(c *Ctx, r *Repo, rule string) {
	cmdp := r.Pkg("internal/cmd")
	info := cmdp.TypesInfo
	run := FuncDecl(cmdp, "RootApp.Run")
	if run == nil {
		return
	}
	rs := rangeOverC(cmdp, run, "map[string]*internal/cmd.InterfaceCollection")
	if rs == nil {
		c.Fail(rule, "Run|file-loop", r.Pos(run.Pos()), "no loop over the output files")
		return
	}
	d := newDT(info)
	d.paths = nil
	d.stmts(&dtPath{env: map[types.Object]string{}}, rs.Body.List, func(p *dtPath) { d.finish(p, "end") })
	ok, n := true, 0
	for _, p := range d.paths {
		gen := p.CallsTo("TemplateGenerator).Generate")
		if len(gen) == 0 {
			continue
		}
		n++
		ng := p.CallsTo("internal.NewTemplateGenerator")
		if len(ng) != 1 || ng[0].Step > gen[0].Step || !strings.HasPrefix(gen[0].Recv, "internal.NewTemplateGenerator(") || !strings.HasSuffix(gen[0].Recv, "#0") {
			ok = false
			c.Fail(rule, "Run|shared-generator", r.Pos(gen[0].Pos), "Generate is called on "+firstLines(gen[0].Recv, 1)+", not on a generator constructed in the same iteration: a generator (and its import registry, alias numbering and visible names) shared between output files makes each file's imports depend on which files were rendered before it, i.e. on map iteration order")
		}
	}
	if ok && n > 0 {
		c.OK(rule, "Run|fresh-generator", r.Pos(rs.Pos()), "each output file is rendered by a generator constructed in its own iteration")
	}
}
