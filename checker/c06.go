package main

import (
	"fmt"
	"go/ast"
	"go/token"
	"go/types"
	"os"
	"sort"
	"strings"

	"golang.org/x/tools/go/packages"
)

func init() { register("C06", checkC06) }

// reviewed map iterations that the mechanical classifier (mapRangeMechanical) does not discharge:
// "<func>|<origin of the ranged map>" -> number of such loops, shape class and reason.
// The origin is RECV/ARGn/local<type of the root variable> plus the selected field path, so
// renaming a variable or receiver does not change it.
// S1 = body only writes map entries keyed by the range key / fields reachable from the range value
// S2 = commutative accumulation (a flag set to a constant)
// S3 = appended and then sorted with a total order before any other use (checked mechanically)
// X  = reasoned exception
type reviewedRange struct {
	n   int
	why string
}

var reviewedMapRanges = map[string]reviewedRange{
	"config.Config.ParseTemplates|local<map[string]*string>":                       {1, "S1/S2: each value is rendered from the fixed TemplateData (not from the other entries) and written back through its own pointer; the changed flag is a commutative OR"},
	"config.PackageConfig.Initialize|RECV.Interfaces":                              {1, "S1: writes the entry of the range key and fields of the value; reads only the package config, which the loop does not modify"},
	"config.RootConfig.GetPackages|RECV.Packages":                                  {1, "X: the key slice is used as a set (patterns for packages.Load, keys of the missing map); interfaces of different packages can never share an output file (InterfaceCollection.Append), and within a package order comes from files and declarations"},
	"config.RootConfig.Initialize|RECV.Packages":                                   {1, "S1 + S3: per-package writes keyed by the range key; the recursive-package list collected here is sorted with a total order before use (re-checked mechanically)"},
	"config.mergeStringMaps|ARG0":                                                  {1, "S1: dest[k] keyed by the range key; recursion on the value pair of the same key"},
	"internal/cmd.RootApp.Run|local<map[string]*internal/cmd.InterfaceCollection>": {1, "X: iterations are independent (each renders and writes only its own file with a generator constructed in the iteration, R06.6); the early error return affects failing runs only, whose exit status is the same whichever file fails first"},
	"internal/cmd.run|local<internal/cmd.V2RootConfig>.Packages":                   {1, "S1: v3.Packages[name] keyed by the range key; only the order of the deprecation report on the terminal depends on iteration order, the v3 file is encoded with sorted keys"},
	"internal/cmd.run|local<internal/cmd.V2PackageConfig>.Interfaces":              {1, "S1: Interfaces[name] keyed by the range key"},
	"template.NewMethodScope|ARG0.importQualifiers":                                {1, "S1: set insertion of the range key (AddName)"},
	"template.Registry.Imports|RECV.imports":                                       {1, "S3: appended, then sorted by Path() (unique map keys) before being returned (re-checked mechanically)"},
}

// rangeOrigin names the ranged map independently of local names.
func rangeOrigin(info *types.Info, fd *ast.FuncDecl, e ast.Expr) string {
	e = ast.Unparen(e)
	switch x := e.(type) {
	case *ast.SelectorExpr:
		if _, ok := info.Selections[x]; ok {
			return rangeOrigin(info, fd, x.X) + "." + x.Sel.Name
		}
		return "expr<" + shortType(info.TypeOf(e)) + ">"
	case *ast.IndexExpr:
		return rangeOrigin(info, fd, x.X) + "[]"
	case *ast.StarExpr:
		return rangeOrigin(info, fd, x.X)
	case *ast.Ident:
		obj := info.Uses[x]
		if fd.Recv != nil {
			for _, f := range fd.Recv.List {
				for _, n := range f.Names {
					if info.Defs[n] == obj {
						return "RECV"
					}
				}
			}
		}
		i := 0
		for _, f := range fd.Type.Params.List {
			for _, n := range f.Names {
				if info.Defs[n] == obj {
					return fmt.Sprintf("ARG%d", i)
				}
				i++
			}
			if len(f.Names) == 0 {
				i++
			}
		}
		if obj != nil {
			t := obj.Type()
			if p, ok := t.(*types.Pointer); ok {
				t = p.Elem()
			}
			return "local<" + shortType(t) + ">"
		}
	}
	return "expr<" + shortType(info.TypeOf(e)) + ">"
}

// mapRangeMechanical decides the narrow cases in which a loop over a map is order-insensitive by
// construction: its body only (a) logs through zerolog, (b) sets a variable to a constant,
// (c) stores into a map element whose index list contains the range key, the stored value being the
// range value, a literal or a call-free composite, (d) defines call-free locals, under call-free
// conditions that read nothing the body writes. Returns the class for the evidence.
// constructors: functions of the analysed packages whose whole body returns a fresh composite literal.
var constructors map[*types.Func]bool

func mapRangeMechanical(info *types.Info, rs *ast.RangeStmt) (string, bool) {
	var keyObj, valObj types.Object
	if id, ok := rs.Key.(*ast.Ident); ok && id.Name != "_" {
		keyObj = objOf(info, id)
	}
	if id, ok := rs.Value.(*ast.Ident); ok && id.Name != "_" {
		valObj = objOf(info, id)
	}
	inLoop := func(o types.Object) bool { return o != nil && o.Pos() >= rs.Pos() && o.Pos() < rs.End() }
	// variables declared outside the loop that the body assigns
	written := map[types.Object]bool{}
	ast.Inspect(rs.Body, func(n ast.Node) bool {
		if as, ok := n.(*ast.AssignStmt); ok {
			for _, l := range as.Lhs {
				root := l
				for {
					switch x := ast.Unparen(root).(type) {
					case *ast.IndexExpr:
						root = x.X
						continue
					case *ast.SelectorExpr:
						root = x.X
						continue
					case *ast.StarExpr:
						root = x.X
						continue
					}
					break
				}
				if id, ok := ast.Unparen(root).(*ast.Ident); ok {
					if o := objOf(info, id); o != nil && !inLoop(o) {
						written[o] = true
					}
				}
			}
		}
		return true
	})
	isZerolog := func(fn *types.Func) bool {
		return fn != nil && fn.Pkg() != nil && fn.Pkg().Path() == "github.com/rs/zerolog"
	}
	var pure func(e ast.Expr, readsWritten *bool) bool
	pure = func(e ast.Expr, readsWritten *bool) bool {
		ok := true
		ast.Inspect(e, func(n ast.Node) bool {
			switch x := n.(type) {
			case *ast.CallExpr:
				if tv, isConv := info.Types[x.Fun]; isConv && tv.IsType() {
					return true
				}
				switch calleeName(info, x) {
				case "builtin.len", "builtin.cap", "builtin.make", "builtin.new":
					return true
				}
				if constructors != nil && len(x.Args) == 0 {
					if fn := calleeFunc(info, x); fn != nil && constructors[fn] {
						return true // a function of the package that only returns a fresh literal
					}
				}
				ok = false
			case *ast.FuncLit:
				ok = false
			case *ast.UnaryExpr:
				if x.Op == token.ARROW {
					ok = false
				}
			case *ast.Ident:
				if readsWritten != nil && written[objOf(info, x)] {
					*readsWritten = true
				}
			}
			return ok
		})
		return ok
	}
	var logChain func(e ast.Expr) bool
	logChain = func(e ast.Expr) bool {
		call, ok := ast.Unparen(e).(*ast.CallExpr)
		if !ok {
			t := info.TypeOf(e)
			return t != nil && strings.Contains(t.String(), "github.com/rs/zerolog.") && pure(e, nil)
		}
		if !isZerolog(calleeFunc(info, call)) {
			return false
		}
		for _, a := range call.Args {
			if !pure(a, nil) && !logChain(a) {
				return false
			}
		}
		if sel, ok := call.Fun.(*ast.SelectorExpr); ok {
			if _, isMethod := info.Selections[sel]; isMethod {
				return logChain(sel.X)
			}
		}
		return true
	}
	classes := map[string]bool{}
	var stmt func(s ast.Stmt) bool
	list := func(l []ast.Stmt) bool {
		for _, s := range l {
			if !stmt(s) {
				return false
			}
		}
		return true
	}
	stmt = func(s ast.Stmt) bool {
		switch x := s.(type) {
		case nil:
			return true
		case *ast.ExprStmt:
			if logChain(x.X) {
				classes["logging"] = true
				return true
			}
			return false
		case *ast.BranchStmt:
			return x.Tok == token.CONTINUE && x.Label == nil
		case *ast.BlockStmt:
			return list(x.List)
		case *ast.RangeStmt:
			rw := false
			return pure(x.X, &rw) && !rw && list(x.Body.List)
		case *ast.IfStmt:
			rw := false
			if !stmt(x.Init) || !pure(x.Cond, &rw) || rw {
				return false
			}
			return list(x.Body.List) && stmt(x.Else)
		case *ast.AssignStmt:
			if x.Tok == token.DEFINE {
				for _, r := range x.Rhs {
					rw := false
					if !(pure(r, &rw) && !rw) && !logChain(r) {
						return false
					}
				}
				return true
			}
			if x.Tok != token.ASSIGN || len(x.Lhs) != 1 || len(x.Rhs) != 1 {
				return false
			}
			rhs := ast.Unparen(x.Rhs[0])
			switch l := ast.Unparen(x.Lhs[0]).(type) {
			case *ast.Ident:
				if tv := info.Types[rhs]; tv.Value != nil && !inLoop(objOf(info, l)) {
					classes["constant flag"] = true
					return true
				}
				// the loop's own element variable re-pointed to a fresh value
				rw := false
				if valObj != nil && objOf(info, l) == valObj && pure(rhs, &rw) && !rw {
					return true
				}
				return false
			case *ast.SelectorExpr:
				// a field of the element the range value points to: touches only that element
				root, _ := selChain(l)
				rw := false
				if root != nil && valObj != nil && objOf(info, root) == valObj && pure(rhs, &rw) && !rw {
					classes["store into the element"] = true
					return true
				}
				return false
			case *ast.IndexExpr:
				keyed := false
				var cont ast.Expr = l
				for {
					ix, ok := ast.Unparen(cont).(*ast.IndexExpr)
					if !ok {
						break
					}
					if id, ok := ast.Unparen(ix.Index).(*ast.Ident); ok && keyObj != nil && objOf(info, id) == keyObj {
						keyed = true
					} else if !pure(ix.Index, nil) {
						return false
					}
					cont = ix.X
				}
				if !keyed || !pure(cont, nil) {
					return false
				}
				if _, isMap := info.TypeOf(l.X).Underlying().(*types.Map); !isMap {
					return false
				}
				usesVal := false
				ast.Inspect(cont, func(n ast.Node) bool {
					if id, ok := n.(*ast.Ident); ok && valObj != nil && objOf(info, id) == valObj {
						usesVal = true
					}
					return true
				})
				if usesVal {
					return false
				}
				rw := false
				if !pure(rhs, &rw) || rw {
					return false
				}
				classes["store keyed by the range key"] = true
				return true
			}
			return false
		}
		return false
	}
	if !list(rs.Body.List) {
		return "", false
	}
	var cl []string
	for k := range classes {
		cl = append(cl, k)
	}
	sort.Strings(cl)
	if len(cl) == 0 {
		cl = []string{"no effect"}
	}
	return strings.Join(cl, " + "), true
}

var ambientCalls = map[string]bool{"time.Now": true, "time.Since": true, "os.Getpid": true, "os.Getppid": true, "os.Hostname": true, "os.Environ": true,
	"math/rand.Int": true, "math/rand.Intn": true, "math/rand/v2.Int": true, "math/rand/v2.IntN": true, "crypto/rand.Read": true, "os.Getuid": true}

func checkC06(c *Ctx) {
	c.Explanation = `R06.1 map iteration order never reaches an output: every 'range' over a map in config, internal, internal/cmd, internal/config, template, template_funcs and main is in a reviewed table with its order-insensitivity class (writes keyed by the range key, commutative flag, append-then-total-sort, logging only, or a reasoned exception); sites of the append-then-sort class are re-checked mechanically (Registry.Imports sorted by Path(); the recursive packages sorted longest-first with a total tie-break before expansion); an unlisted map range is a violation;
R06.2 no ambient nondeterminism in what is written: no call to time.Now, math/rand, os.Getpid, os.Hostname, os.Environ in those packages outside the function map (where a user template may ask for it), and the built-in templates call none of randInt, getenv, expandEnv; their header contains no hole other than boilerplate and build tags (C17);
R06.3 imports are emitted sorted: Data.Imports returns Registry.Imports() and both templates build the import block by ranging over .Imports after any AddImport call (engine T: the block lists the registry's imports in path order on every path);
R06.4 built-in output cannot be re-discovered: no path of either template declares a type whose type expression is an interface literal or an instantiation (the only shapes interface discovery collects), so re-running over a tree that contains earlier output finds no new candidates in it;
R06.5 interface order: ParsePackages builds its result by append inside nested ranges over slices only (packages, GoFiles, declared interfaces);
R06.6 one registry per output file: every iteration of the per-file loop in Run constructs its own TemplateGenerator (fresh import registry) and calls Generate on that one;
R06.7 the only state shared between the output files of a run, the remote-template cache, holds entries that depend on nothing but their key (every constructor argument is part of the key), so the order in which files are rendered cannot change what a later file gets.`
	c.NotDecided = "determinism of go list/packages.Load, goimports and yaml.v3; that two runs see the same environment; byte equality as such."
	c.Assumptions = []string{"the reviewed table in checker/c06.go", "sort.Slice with a total order is deterministic"}
	c.Rule("R06.1", 12, "")
	c.Rule("R06.2", 3, "")
	c.Rule("R06.3", 100, "")
	c.Rule("R06.4", 100, "")
	c.Rule("R06.5", 3, "")
	c.Rule("R06.6", 2, "")
	c.Rule("R06.7", 1, "")
	r := loadRepo(c, packages.LoadSyntax, "", mainPatterns...)
	listing := os.Getenv("MVCHECK_LIST") != ""
	seenRanges := map[string]int{}
	constructors = map[*types.Func]bool{}
	for _, rel := range scopePkgs {
		for fn, fd := range pkgSingleReturn(r.Pkg(rel)) {
			if len(fd.Body.List) != 1 {
				continue // comma-ok predicate
			}
			e := ast.Unparen(fd.Body.List[0].(*ast.ReturnStmt).Results[0])
			if u, ok := e.(*ast.UnaryExpr); ok && u.Op == token.AND {
				e = u.X
			}
			if cl, ok := e.(*ast.CompositeLit); ok && fd.Type.Params.NumFields() == 0 {
				fresh := true
				ast.Inspect(cl, func(n ast.Node) bool {
					if call, ok := n.(*ast.CallExpr); ok {
						switch calleeName(r.Pkg(rel).TypesInfo, call) {
						case "builtin.make", "builtin.new":
						default:
							if tv := r.Pkg(rel).TypesInfo.Types[call.Fun]; !tv.IsType() {
								fresh = false
							}
						}
					}
					return true
				})
				if fresh {
					constructors[fn] = true
				}
			}
		}
	}
	for _, rel := range scopePkgs {
		p := r.Pkg(rel)
		info := p.TypesInfo
		for _, f := range p.Syntax {
			for _, d := range f.Decls {
				fd, ok := d.(*ast.FuncDecl)
				if !ok || fd.Body == nil {
					continue
				}
				fk := funcKey(p, fd)
				ast.Inspect(fd.Body, func(n ast.Node) bool {
					switch x := n.(type) {
					case *ast.RangeStmt:
						t := info.TypeOf(x.X)
						if t == nil {
							return true
						}
						if _, isMap := t.Underlying().(*types.Map); !isMap {
							return true
						}
						key := fk + "|" + rangeOrigin(info, fd, x.X)
						if class, ok := mapRangeMechanical(info, x); ok {
							if listing {
								fmt.Printf("MECH\t%s\t%s\t%s\n", key, class, r.Pos(x.Pos()))
							}
							c.OK("R06.1", "mechanical|"+key, r.Pos(x.Pos()), "order-insensitive by construction: "+class)
							return true
						}
						if listing {
							fmt.Printf("SITE\t%q: \"\",\t// %s\n", key, r.Pos(x.Pos()))
						}
						// a loop that sits in a private helper of a reviewed function is reviewed under that function
						if _, ok := reviewedMapRanges[key]; !ok {
							for _, owner := range ownerChain(p, fd)[1:] {
								if _, ok := reviewedMapRanges[owner+"|"+rangeOrigin(info, fd, x.X)]; ok {
									key = owner + "|" + rangeOrigin(info, fd, x.X)
									break
								}
							}
						}
						seenRanges[key]++
						if rv, ok := reviewedMapRanges[key]; ok && seenRanges[key] <= rv.n {
							c.OK("R06.1", key, r.Pos(x.Pos()), rv.why)
						} else {
							c.Fail("R06.1", "map-range|"+key, r.Pos(x.Pos()), fmt.Sprintf("%s ranges over the map %s; the loop is neither order-insensitive by construction (logging, constant flags, stores keyed by the range key) nor in the reviewed table of order-insensitive iterations: if its order can reach a generated file, an exit status or which error is reported, runs of the same input differ", fk, types.ExprString(x.X)))
						}
					case *ast.CallExpr:
						name := calleeName(info, x)
						if ambientCalls[name] {
							c.Fail("R06.2", "ambient|"+fk+"|"+name, r.Pos(x.Pos()), fk+" calls "+name+": time, randomness or process identity must not influence what is generated")
						}
					}
					return true
				})
			}
		}
	}
	// mechanical re-check of the S2 site: the changed-flag of the config-template fixpoint is a commutative OR
	// (set to true under 'value changed', never assigned otherwise inside the pass)
	if cp := r.Pkg("config"); cp != nil {
		if fd := FuncDecl(cp, "Config.ParseTemplates"); fd != nil {
			subRules(c, "R06.1", "config.Config.ParseTemplates|changed-flag", "the pass over the templated values visits them in map order: ", func(sub *Ctx) { ruleFixpoint(sub, r, cp, fd) })
		}
	}
	// mechanical re-check of the S1 site: inside the map-ordered pass nothing writes to the TemplateData the values
	// are rendered from (round 7: data.StructName refreshed inside the loop makes what {{.StructName | f}} renders
	// to depend on whether the map yielded structname before that value)
	if cp := r.Pkg("config"); cp != nil {
		if fd := FuncDecl(cp, "Config.ParseTemplates"); fd != nil {
			info := cp.TypesInfo
			nLoops, bad := 0, ""
			for _, g := range familyOf(cp, fd) {
				ast.Inspect(g.Body, func(n ast.Node) bool {
					rs, ok := n.(*ast.RangeStmt)
					if !ok {
						return true
					}
					if _, isMap := info.TypeOf(rs.X).Underlying().(*types.Map); !isMap {
						return true
					}
					nLoops++
					ast.Inspect(rs.Body, func(m ast.Node) bool {
						var lhs []ast.Expr
						switch st := m.(type) {
						case *ast.AssignStmt:
							lhs = st.Lhs
						case *ast.IncDecStmt:
							lhs = []ast.Expr{st.X}
						}
						for _, l := range lhs {
							root := ast.Unparen(l)
							for {
								switch x := root.(type) {
								case *ast.SelectorExpr:
									root = ast.Unparen(x.X)
									continue
								case *ast.IndexExpr:
									root = ast.Unparen(x.X)
									continue
								case *ast.StarExpr:
									root = ast.Unparen(x.X)
									continue
								}
								break
							}
							id, ok := root.(*ast.Ident)
							if !ok {
								continue
							}
							obj := info.Uses[id]
							if obj == nil || obj.Pos() >= rs.Pos() && obj.Pos() < rs.End() {
								continue
							}
							t := obj.Type()
							if p, ok := t.Underlying().(*types.Pointer); ok {
								t = p.Elem()
							}
							if nt, ok := t.(*types.Named); ok && nt.Obj().Name() == "TemplateData" {
								bad = types.ExprString(l) + " at " + r.Pos(m.Pos())
							}
						}
						return true
					})
					return true
				})
			}
			c.Check(nLoops > 0 && bad == "", "R06.1", "config.Config.ParseTemplates|snapshot", r.Pos(fd.Pos()), "the TemplateData the values are rendered from is not written inside the map-ordered pass", "the pass over the templated values (map order) writes to the data it renders from ("+bad+"): what a value renders to depends on which values the map yielded before it, so file names and exit status differ from run to run")
		}
	}
	// mechanical re-check of the S3 sites
	ruleImportsListing(c, r, "R06.1")
	if fd := FuncDecl(r.Pkg("config"), "RootConfig.Initialize"); fd != nil {
		checkRecursiveOrder(c, r, r.Pkg("config"), fd, "R06.1", "config.RootConfig.Initialize|recursivePackages")
	}
	// R06.2: references to ambient functions only as FuncMap values
	fm := funcMapEntries(r.Pkg("template_funcs"))
	for k, v := range map[string]string{"randInt": "math/rand/v2.Int", "getenv": "os.Getenv", "expandEnv": "os.ExpandEnv"} {
		_ = v
		if fm[k] != nil {
			c.OK("R06.2", "funcmap-only|"+k, r.Pos(fm[k].Pos()), k+" is offered to user templates only")
		}
	}
	// engine T parts
	for _, name := range []string{"testify", "matryer"} {
		tname := name
		walkTemplate(c, name, "body", func(p *TPath) {
			if p.Err != nil || p.ParseEr != nil {
				c.Fail("R06.4", tname+"|unanalysable", "internal/mock_"+tname+".templ", "template path cannot be analysed ["+p.Env()+"]")
				return
			}
			for f := range p.E.funcsUsed {
				switch f {
				case "randInt", "getenv", "expandEnv":
					c.Fail("R06.2", tname+"|ambient-function|"+f, "internal/mock_"+tname+".templ", "the built-in "+tname+" template calls "+f+": its output depends on the environment/randomness")
				}
			}
			// R06.4
			found := false
			for _, d := range p.File.Decls {
				gd, ok := d.(*ast.GenDecl)
				if !ok || gd.Tok != token.TYPE {
					continue
				}
				for _, s := range gd.Specs {
					ts := s.(*ast.TypeSpec)
					switch ts.Type.(type) {
					case *ast.InterfaceType, *ast.IndexExpr, *ast.IndexListExpr:
						found = true
						c.Fail("R06.4", tname+"|rediscoverable-type", p.TmplPos(ts.Pos()), fmt.Sprintf("the %s template declares the package-level type %s whose type expression is an interface literal or an instantiation: when the output lies in a configured package (in-package mocks, a mocks directory under a recursive package) the next run discovers it as a candidate and generates a mock of the mock, growing the file on every run [%s]", tname, normMsg(ts.Name.Name), p.Env()))
					}
				}
			}
			if !found {
				c.OK("R06.4", tname, "", "no discoverable type declared")
			}
			// R06.3: import block = registry imports in path order (+ the template's own fixed imports)
			var got []string
			for _, d := range p.File.Decls {
				if gd, ok := d.(*ast.GenDecl); ok && gd.Tok == token.IMPORT {
					for _, s := range gd.Specs {
						is := s.(*ast.ImportSpec)
						if len(p.holesIn(is)) > 0 {
							got = append(got, strings.Trim(is.Path.Value, `"`))
						}
					}
				}
			}
			want := p.E.sortedImports()
			if strings.Join(got, ",") == strings.Join(want, ",") {
				c.OK("R06.3", tname+"|import-block", "", strings.Join(got, ","))
			} else {
				c.Fail("R06.3", tname+"|import-block", "internal/mock_"+tname+".templ", fmt.Sprintf("the import block lists %v, the registry holds (sorted by path) %v: imports are not emitted by ranging over .Imports after all AddImport calls [%s]", got, want, p.Env()))
			}
		})
	}
	// Data.Imports
	if fd := FuncDecl(r.Pkg("template"), "Data.Imports"); fd != nil {
		paths, _ := enumerateFunc(r.Pkg("template").TypesInfo, fd)
		c.Check(len(paths) == 1 && paths[0].Ret[0] == "RECV.Registry.Imports<(template.Registry).Imports>()", "R06.3", "Data.Imports", r.Pos(fd.Pos()), "Data.Imports = Registry.Imports() (sorted)", "Data.Imports does not return the registry's sorted import list")
	}
	// R06.5
	if fd := FuncDecl(r.Pkg("internal"), "Parser.ParsePackages"); fd != nil {
		info := r.Pkg("internal").TypesInfo
		for _, marker := range []string{"packages.Load(", ".GoFiles", ".declaredInterfaces"} {
			rs := rangeOverC(r.Pkg("internal"), fd, marker)
			ok := false
			if rs != nil {
				if t := info.TypeOf(rs.X); t != nil {
					_, ok = t.Underlying().(*types.Slice)
				}
			}
			c.Check(ok, "R06.5", "ParsePackages|range|"+marker, r.Pos(fd.Pos()), "range over a slice", "ParsePackages no longer ranges over the slice "+marker+" (interface order would not be package/file/declaration order)")
		}
	}
	// R06.6
	ruleFreshGenerator(c, r, "R06.6")
	// the iterations of the per-file loop are independent (reviewed table, map range of Run) only if two keys
	// never designate one file: the keys are absolute paths
	if okAbs, badKey := collectionKeyIsAbsolute(r); true {
		c.Check(okAbs, "R06.6", "Run|collection-key-absolute", "internal/cmd/mockery.go", "distinct keys of the per-file map designate distinct files", "the per-file collections are keyed by the path as spelled ("+badKey+"): one output file reachable through a relative and an absolute spelling is written once per spelling, in map order, so which mocks the file ends up with differs from run to run")
	}
	// re-running over one's own output: the overwrite guard consults the file's (or its package's) force-file-write,
	// so enabling overwriting where the mocks are configured is enough for the second run to succeed
	{
		sub := newCtx(c.Prop, c.Tier)
		sub.known = nil
		ruleConsumers(sub, r, "R08.6", map[string]bool{"force-file-write": true})
		bad := ""
		for _, k := range sub.failKeys {
			if o := sub.fails[k]; strings.Contains(o.Key, "force-file-write") && !strings.HasSuffix(o.Key, "|package") && !strings.HasSuffix(o.Key, "|file") {
				bad = o.Detail
			}
			if strings.Contains(sub.fails[k].Key, "overwrite-guard") {
				bad = sub.fails[k].Detail
			}
		}
		c.Check(bad == "", "R06.6", "Run|overwrite-level", "internal/cmd/mockery.go", "the overwrite guard reads force-file-write at the level of the file's mocks or their package", "re-running mockery over its own output fails although overwriting is enabled where the mocks are configured: "+bad)
	}
	// R06.7: state shared between output files (the remote-template cache) depends only on its key
	ruleCacheKey(c, r, "R06.7")
}

// ruleFreshGenerator: each output file gets its own generator/registry.
func ruleFreshGenerator(c *Ctx, r *Repo, rule string) {
	cmdp := r.Pkg("internal/cmd")
	info := cmdp.TypesInfo
	run := FuncDecl(cmdp, "RootApp.Run")
	if run == nil {
		return
	}
	rs := rangeOverC(cmdp, run, "map[string]*internal/cmd.InterfaceCollection")
	if rs == nil {
		c.Fail(rule, "Run|file-loop", r.Pos(run.Pos()), "no loop over the output files")
		return
	}
	d := newDT(info)
	d.callInline = pkgUnexported(cmdp) // the generator may be built and run in a private helper of Run
	delete(d.callInline, nil)
	d.paths = nil
	d.stmts(&dtPath{env: map[types.Object]string{}}, rs.Body.List, func(p *dtPath) { d.finish(p, "end") })
	ok, n := true, 0
	for _, p := range d.paths {
		gen := p.CallsTo("TemplateGenerator).Generate")
		if len(gen) == 0 {
			continue
		}
		n++
		ng := p.CallsTo("internal.NewTemplateGenerator")
		if len(ng) != 1 || ng[0].Step > gen[0].Step || !strings.HasPrefix(gen[0].Recv, "internal.NewTemplateGenerator(") || !strings.HasSuffix(gen[0].Recv, "#0") {
			ok = false
			c.Fail(rule, "Run|shared-generator", r.Pos(gen[0].Pos), "Generate is called on "+firstLines(gen[0].Recv, 1)+", not on a generator constructed in the same iteration: a generator (and its import registry, alias numbering and visible names) shared between output files makes each file's imports depend on which files were rendered before it, i.e. on map iteration order")
		}
	}
	if ok && n > 0 {
		c.OK(rule, "Run|fresh-generator", r.Pos(rs.Pos()), "each output file is rendered by a generator constructed in its own iteration")
	}
}
