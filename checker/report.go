package main

import (
	"encoding/json"
	"fmt"
	"os"
	"path/filepath"
	"sort"
	"strings"
	"time"
)

// Ob is one obligation: a (rule, construct) pair the checker decided.
type Ob struct {
	Rule   string `json:"rule"`
	Key    string `json:"key"`
	Pos    string `json:"pos,omitempty"`
	Detail string `json:"detail,omitempty"`
	Status string `json:"status"` // ok | violated | known
	Count  int    `json:"count,omitempty"`
}

type ruleStat struct {
	Instances int    `json:"instances"`
	Floor     int    `json:"floor"`
	Doc       string `json:"doc,omitempty"`
}

// Ctx collects what one property check decided.
type Ctx struct {
	Prop, Tier string
	Seed       int
	Home, Repo string
	start      time.Time

	rules    map[string]*ruleStat
	ruleList []string
	oks      map[string][]Ob // rule -> first few passing samples
	fails    map[string]*Ob  // rule|key -> failing obligation
	failKeys []string
	nOK      int

	Explanation string
	NotDecided  string
	Assumptions []string
	Extra       map[string]any
	funcs       map[string]bool
	known       []knownFinding
	only        *replayFilter
}

type replayFilter struct{ Rule, Key string }

type knownFinding struct {
	Property string `json:"property"`
	Rule     string `json:"rule"`
	Key      string `json:"key"`
	Status   string `json:"status"` // finding | fixed
	What     string `json:"what"`
	Commit   string `json:"commit,omitempty"`
	Line     string `json:"line,omitempty"`
}

func newCtx(prop, tier string) *Ctx {
	home := os.Getenv("MVCHECK_HOME")
	if home == "" {
		home = "/verif"
	}
	repo := os.Getenv("MVCHECK_REPO")
	if repo == "" {
		repo = "/repo"
	}
	seed := 0
	fmt.Sscan(os.Getenv("VERIF_SEED"), &seed)
	c := &Ctx{Prop: prop, Tier: tier, Seed: seed, Home: home, Repo: repo, start: time.Now(),
		rules: map[string]*ruleStat{}, oks: map[string][]Ob{}, fails: map[string]*Ob{},
		Extra: map[string]any{}, funcs: map[string]bool{}}
	b, err := os.ReadFile(filepath.Join(home, "known_findings.json"))
	if err == nil {
		var f struct {
			Findings []knownFinding `json:"findings"`
		}
		if err := json.Unmarshal(b, &f); err != nil {
			fatalf("known_findings.json: %v", err)
		}
		c.known = f.Findings
	}
	return c
}

// Rule declares a rule with the minimum number of sites it must match.
func (c *Ctx) Rule(id string, floor int, doc string) {
	if _, ok := c.rules[id]; !ok {
		c.rules[id] = &ruleStat{Floor: floor, Doc: doc}
		c.ruleList = append(c.ruleList, id)
	}
}

func (c *Ctx) stat(rule string) *ruleStat {
	s, ok := c.rules[rule]
	if !ok {
		c.Rule(rule, 1, "")
		s = c.rules[rule]
	}
	return s
}

// OK records a discharged obligation.
func (c *Ctx) OK(rule, key, pos, detail string) {
	if c.only != nil && (c.only.Rule != rule || c.only.Key != key) {
		return
	}
	c.stat(rule).Instances++
	c.nOK++
	if len(c.oks[rule]) < 4 {
		c.oks[rule] = append(c.oks[rule], Ob{Rule: rule, Key: key, Pos: pos, Detail: detail, Status: "ok"})
	}
}

// Fail records a violated obligation (deduplicated by rule+key).
func (c *Ctx) Fail(rule, key, pos, detail string) {
	if c.only != nil && (c.only.Rule != rule || c.only.Key != key) {
		return
	}
	c.stat(rule).Instances++
	k := rule + "|" + key
	if o, ok := c.fails[k]; ok {
		o.Count++
		return
	}
	c.fails[k] = &Ob{Rule: rule, Key: key, Pos: pos, Detail: detail, Status: "violated", Count: 1}
	c.failKeys = append(c.failKeys, k)
}

// Check is OK/Fail on a condition.
func (c *Ctx) Check(cond bool, rule, key, pos, okDetail, failDetail string) bool {
	if cond {
		c.OK(rule, key, pos, okDetail)
	} else {
		c.Fail(rule, key, pos, failDetail)
	}
	return cond
}

func (c *Ctx) Func(name string) { c.funcs[name] = true }

func fatalf(format string, a ...any) {
	panic(fmt.Sprintf(format, a...))
}

// Finish applies floors and the known-findings file, writes evidence and
// replay files, prints the verdict lines and returns the exit code.
func (c *Ctx) Finish() int {
	// floors: a rule that matched fewer sites than confirmed by hand is undecided.
	if c.only == nil {
		for _, id := range c.ruleList {
			s := c.rules[id]
			if s.Instances < s.Floor {
				c.Fail(id, "anchor-unresolved", "", fmt.Sprintf("rule matched %d site(s), floor is %d: the anchor moved or the matcher no longer recognises it (undecided counts as violated)", s.Instances, s.Floor))
			}
		}
	}
	sort.Strings(c.failKeys)
	var violated, known []Ob
	for _, k := range c.failKeys {
		o := *c.fails[k]
		isKnown := false
		for _, kf := range c.known {
			if kf.Status == "finding" && kf.Property == c.Prop && kf.Rule == o.Rule && kf.Key == o.Key {
				isKnown = true
				fmt.Printf("KNOWN-FINDING: property=%s rule=%s construct=%s %s\n", c.Prop, o.Rule, o.Key, kf.What)
			}
		}
		if isKnown {
			o.Status = "known"
			known = append(known, o)
		} else {
			violated = append(violated, o)
		}
	}
	outDir := filepath.Join(c.Home, "out", c.Prop)
	if c.only == nil {
		os.RemoveAll(outDir)
	}
	for i, o := range violated {
		os.MkdirAll(outDir, 0o755)
		p := filepath.Join(outDir, fmt.Sprintf("violation-%d.json", i+1))
		b, _ := json.MarshalIndent(map[string]any{"property": c.Prop, "rule": o.Rule, "key": o.Key, "pos": o.Pos, "detail": o.Detail, "tier": c.Tier}, "", " ")
		if c.only == nil {
			os.WriteFile(p, b, 0o644)
		}
		fmt.Printf("  %s %s [%s] %s\n    %s\n", c.Prop, o.Rule, o.Key, o.Pos, o.Detail)
		fmt.Printf("VIOLATION property=%s replay=%s\n", c.Prop, p)
	}
	if c.only != nil {
		if len(violated) > 0 {
			return 1
		}
		fmt.Printf("replay: %s %s [%s] holds\n", c.Prop, c.only.Rule, c.only.Key)
		return 0
	}

	ri := map[string]*ruleStat{}
	for id, s := range c.rules {
		ri[id] = s
	}
	var samples []Ob
	for _, id := range c.ruleList {
		samples = append(samples, c.oks[id]...)
	}
	if len(samples) > 60 {
		samples = samples[:60]
	}
	for _, o := range known {
		samples = append(samples, o)
	}
	for _, o := range violated {
		samples = append(samples, o)
	}
	var fns []string
	for f := range c.funcs {
		fns = append(fns, f)
	}
	sort.Strings(fns)
	nObl := c.nOK + len(known) + len(violated)
	cov := map[string]any{
		"explanation":        strings.TrimSpace(c.Explanation + "\nNot decided by this check: " + c.NotDecided),
		"obligations":        nObl,
		"discharged":         c.nOK,
		"known":              len(known),
		"violated":           len(violated),
		"rule_instances":     ri,
		"functions_analysed": fns,
		"samples":            samples,
		"checker_cmd":        fmt.Sprintf("bin/mvcheck %s --tier %s", c.Prop, c.Tier),
		"trusted_base":       []string{"go/parser, go/types, go/cfg, go/ssa (x/tools v0.29.0), text/template/parse", "the rule tables in /verif/checker", "go list (package loading)"},
	}
	for k, v := range c.Extra {
		cov[k] = v
	}
	ev := map[string]any{
		"property_id": c.Prop,
		"tier":        c.Tier,
		"seed":        c.Seed,
		"level":       "other",
		"coverage":    cov,
		"assumptions": c.Assumptions,
		"wall_s":      time.Since(c.start).Seconds(),
		"violations":  len(violated),
	}
	b, _ := json.MarshalIndent(ev, "", " ")
	os.MkdirAll(filepath.Join(c.Home, "evidence"), 0o755)
	if err := os.WriteFile(filepath.Join(c.Home, "evidence", c.Prop+".json"), b, 0o644); err != nil {
		fmt.Println("cannot write evidence:", err)
		return 2
	}
	fmt.Printf("%s tier=%s rules=%d obligations=%d discharged=%d known=%d violated=%d wall=%.1fs\n",
		c.Prop, c.Tier, len(c.ruleList), nObl, c.nOK, len(known), len(violated), time.Since(c.start).Seconds())
	if len(violated) > 0 {
		return 1
	}
	return 0
}
