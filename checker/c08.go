package main

import (
	"fmt"
	"go/ast"
	"go/constant"
	"go/token"
	"go/types"
	"os"
	"sort"
	"strings"

	"golang.org/x/tools/go/packages"
)

func init() { register("C08", checkC08) }

func checkC08(c *Ctx) {
	c.Explanation = `R08.1 every field of config.Config is inheritable: the body of mergeConfigs' field loop is enumerated as a decision table and, for the static type class of each field (map[string]any, other map, pointer, slice, scalar - enumerated from the struct with go/types), every path on which the destination is unset must reach the merging effect (mergeStringMaps for map[string]any, reflect Set otherwise);
R08.2 the most specific level wins: no path of mergeConfigs sets a destination field that is already set; in mergeStringMaps the only store dest[k] = v happens when dest has no k, an existing key is never overwritten, recursion happens only for map/map pairs as mergeStringMaps(srcMap, destMap), and no path leaves the loop early;
R08.3 no sharing between levels: the pointer arm stores a fresh reflect.New value into which the source element was copied; GetInterfaceConfig hands an unlisted interface a deep.Copy of the package config, never the package config itself;
R08.4 merge direction and order: root -> package before PackageConfig.Initialize, package -> interface before InterfaceConfig.Initialize, interface -> each configs entry, recursive package -> discovered sub-package (source and destination not swapped);
R08.5 source layering in NewRootConfig: defaults (structs provider) -> MOCKERY_* environment -> config file -> flags, in that order, before decoding; the environment transformer strips the prefix, lower-cases and maps _ to -;
R08.6 per-output-file parameters (template, template-schema, require-template-schema-exists, formatter, force-file-write) handed to the generator / the overwrite guard in RootApp.Run must come from the configuration of the mocks in that file, not from the package or root level; the sub-package exclusion test is asked of the recursive package's config;
R08.7 per-mock template-data options are read by the built-in templates from the interface's merged template-data (engine T);
R08.8 replace-type is looked up, for parameters and for results, in the config methodData receives for the interface (not in the generator's package-level config).`
	c.NotDecided = "decoding by koanf/mapstructure, YAML anchors; the level x parameter cross product at run time."
	c.Assumptions = []string{"reflect semantics (Kind, IsNil, IsZero, CanSet) per static type class", "koanf.Load merges later sources over earlier ones"}
	c.Rule("R08.1", 20, "")
	c.Rule("R08.2", 6, "")
	c.Rule("R08.3", 2, "")
	c.Rule("R08.4", 3, "")
	c.Rule("R08.5", 4, "")
	c.Rule("R08.6", 1, "")
	c.Rule("R08.7", 100, "")
	c.Rule("R08.8", 3, "")
	r := loadRepo(c, packages.LoadSyntax, "", "./config", "./internal/cmd")
	cp := r.Pkg("config")
	ruleMergeConfigs(c, r, cp)
	ruleMergeStringMaps(c, r, cp)
	ruleNoSharing(c, r, cp)
	ruleMergeOrder(c, r, cp)
	ruleLayering(c, r, cp)
	ruleConsumers(c, r, "R08.6", nil)
	ruleR075(c, r, "R08.6")
	ruleGenerateData(c, loadRepo(c, packages.LoadSyntax, "", "./internal"), "R08.6")
	ruleTwoPasses(c, r, "R08.6")
	rulePkgConfigArg(c, r, "R08.6")
	// R08.8: replace-type is consulted at the interface's own (merged) level
	{
		ri := loadRepo(c, packages.LoadSyntax, "", "./internal")
		ip := ri.Pkg("internal")
		if md := FuncDecl(ip, "TemplateGenerator.methodData"); md == nil {
			c.Fail("R08.8", "methodData|missing", "internal/template_generator.go", "methodData not found")
		} else {
			ruleReplacementMemoKey(c, loadRepo(c, packages.LoadSyntax, "", "./template"), "R08.8")
			sub := newCtx("C08", c.Tier)
			sub.known = nil
			ruleReplacementKey(sub, ri, ip, md)
			for _, which := range []string{"params", "results", "addvar"} {
				key := "methodData|" + which + "|addvar"
				if which == "addvar" {
					key = "methodData|addvar|caller-config"
				}
				if o, bad := sub.fails["R13.1|"+key]; bad {
					c.Fail("R08.8", "methodData|"+which+"|replace-type-level", o.Pos, o.Detail)
				} else {
					c.OK("R08.8", "methodData|"+which+"|replace-type-level", "internal/template_generator.go", "replacements are looked up in the config methodData was given for the interface")
				}
			}
		}
	}
	// R08.7
	for _, name := range []string{"testify", "matryer"} {
		tname := name
		sibling := newSiblingIndependence()
		walkTemplate(c, name, "body", func(p *TPath) {
			if why := sibling.check(p); why != "" {
				c.Fail("R08.7", tname+"|mock-depends-on-sibling", "internal/mock_"+tname+".templ", why)
			}
			for k := range p.E.flagsSeen {
				key := k[strings.LastIndex(k, ":")+1:]
				if !perMockKeys[key] {
					continue
				}
				if strings.HasPrefix(k, "file:") {
					c.Fail("R08.7", tname+"|file-level|"+key, "internal/mock_"+tname+".templ", fmt.Sprintf("per-mock option %q is read from the file-level template-data ($.TemplateData): a value set on the interface or a configs entry is ignored", key))
				} else {
					c.OK("R08.7", tname+"|"+key, "", "read from the interface's merged template-data")
				}
			}
		})
	}
}

// configResolutionGuard: checks whose property depends on the *effective* value
// of an option (template-data flags, force-file-write) re-establish that the
// hierarchy resolves it as documented: key-wise template-data merge, field
// inheritance, nearest recursive ancestor first.
func configResolutionGuard(c *Ctx, rule string) {
	c.Rule(rule, 8, "effective option values: the configuration hierarchy resolves most-specific-first (C08 rules R08.1/R08.2, recursion order R07.5)")
	r := loadRepo(c, packages.LoadSyntax, "", "./config", "./internal", "./internal/cmd")
	cp := r.Pkg("config")
	sub := newCtx(c.Prop, c.Tier)
	sub.known = nil
	ruleMergeConfigs(sub, r, cp)
	ruleMergeStringMaps(sub, r, cp)
	ruleGenerateData(sub, r, "R08.6")
	ruleTwoPasses(sub, r, "R08.6")
	rulePkgConfigArg(sub, r, "R08.6")
	if fd := FuncDecl(cp, "RootConfig.Initialize"); fd != nil {
		checkRecursiveOrder(sub, r, cp, fd, "R07.5", "Initialize|recursive-order")
	}
	for _, id := range sub.ruleList {
		for i := 0; i < sub.rules[id].Instances-countFails(sub, id); i++ {
			c.OK(rule, "config-resolution|"+id, "config/config.go", "holds")
		}
	}
	for _, k := range sub.failKeys {
		o := sub.fails[k]
		c.Fail(rule, "config-resolution|"+o.Key, o.Pos, "the effective value of an option this property depends on is not resolved most-specific-first: "+o.Detail)
	}
}

func countFails(c *Ctx, rule string) int {
	n := 0
	for _, k := range c.failKeys {
		if c.fails[k].Rule == rule {
			n += c.fails[k].Count
		}
	}
	return n
}

// fieldClass classifies a Config field by what reflection will see.
func fieldClass(t types.Type) string {
	switch x := t.Underlying().(type) {
	case *types.Map:
		if b, ok := x.Key().Underlying().(*types.Basic); ok && b.Kind() == types.String {
			if i, ok := x.Elem().Underlying().(*types.Interface); ok && i.NumMethods() == 0 {
				return "mapAny"
			}
		}
		return "typedMap"
	case *types.Pointer:
		return "pointer"
	case *types.Slice:
		return "slice"
	}
	return "scalar"
}

// atomForClass: truth value of a reflection atom for a field class; ok=false when free.
func atomForClass(class, atom string, destSet bool) (val bool, ok bool) {
	kind := func(k string) (bool, bool) {
		switch k {
		case "Map":
			return class == "mapAny" || class == "typedMap", true
		case "Pointer", "Ptr":
			return class == "pointer", true
		case "Slice":
			return class == "slice", true
		}
		return false, false
	}
	switch {
	case strings.HasSuffix(atom, ".Interface<(reflect.Value).Interface>().(map[string]any)#ok"), strings.HasSuffix(atom, ".Interface<(reflect.Value).Interface>().(map[string]interface{})#ok"):
		return class == "mapAny", true
	case strings.Contains(atom, ".Kind<(reflect.Value).Kind>() == reflect."):
		return kind(atom[strings.LastIndex(atom, ".")+1:])
	// tests of the destination field itself (not of what it points to: an explicit false/""/0 behind a
	// non-nil pointer is a value set at the more specific level, so such a test stays free)
	case atom == "DEST.IsNil<(reflect.Value).IsNil>()":
		return !destSet, true
	case atom == "DEST.IsZero<(reflect.Value).IsZero>()":
		return !destSet, true
	case atom == "DEST.CanSet<(reflect.Value).CanSet>()":
		return true, true
	case strings.HasSuffix(atom, "#0 == nil") && strings.HasPrefix(atom, "DEST.Interface<"):
		return false, false // destMap == nil: either way the key-wise merge must follow
	}
	return false, false
}

func ruleMergeConfigs(c *Ctx, r *Repo, cp *packages.Package) {
	info := cp.TypesInfo
	fd := FuncDecl(cp, "mergeConfigs")
	if fd == nil {
		c.Fail("R08.1", "mergeConfigs|missing", "config/config.go", "mergeConfigs not found")
		return
	}
	c.Func(funcKey(cp, fd))
	// the loop must cover all fields: an index running over 0..NumField() of the less specific value
	loop, iv, lbody := findIndexLoop(info, fd, func(bound string) bool {
		return strings.HasSuffix(bound, ".NumField<(reflect.Value).NumField>()") || strings.HasSuffix(bound, ".NumField<(reflect.Type).NumField>()")
	})
	if loop == nil {
		c.Fail("R08.1", "mergeConfigs|field-loop", r.Pos(fd.Pos()), "no loop over 0..NumField() of the struct's fields")
		return
	}
	// a map-typed local that was just seen to be nil must not be handed to the key-wise merge as it is: the
	// merge stores into it (a nil map: panic) instead of into the map installed in the destination field
	// (mechanical-mutation finding: the re-read after installing a fresh map was deleted unnoticed)
	for _, g := range familyOf(cp, fd) {
		ast.Inspect(g.Body, func(n ast.Node) bool {
			blk, ok := n.(*ast.BlockStmt)
			if !ok {
				return true
			}
			for i, st := range blk.List {
				is, ok := st.(*ast.IfStmt)
				if !ok || is.Else != nil {
					continue
				}
				be, ok := ast.Unparen(is.Cond).(*ast.BinaryExpr)
				if !ok || be.Op != token.EQL || !isNilIdent(info, be.Y) {
					continue
				}
				id, ok := ast.Unparen(be.X).(*ast.Ident)
				if !ok || info.Uses[id] == nil {
					continue
				}
				obj := info.Uses[id]
				if _, isMap := obj.Type().Underlying().(*types.Map); !isMap {
					continue
				}
				repaired := false
				ast.Inspect(is.Body, func(m ast.Node) bool {
					switch w := m.(type) {
					case *ast.AssignStmt:
						for _, l := range w.Lhs {
							if lid, ok := ast.Unparen(l).(*ast.Ident); ok && info.Uses[lid] == obj {
								repaired = true
							}
						}
					case *ast.ReturnStmt:
						repaired = true
					case *ast.BranchStmt:
						repaired = true
					}
					return true
				})
				if repaired {
					continue
				}
				// first thing that happens to the variable afterwards
			scan:
				for _, later := range blk.List[i+1:] {
					if as, ok := later.(*ast.AssignStmt); ok {
						for _, l := range as.Lhs {
							if lid, ok := ast.Unparen(l).(*ast.Ident); ok && info.Uses[lid] == obj {
								break scan // re-read or replaced before use
							}
						}
					}
					bad := false
					ast.Inspect(later, func(m ast.Node) bool {
						if call, ok := m.(*ast.CallExpr); ok && strings.HasSuffix(calleeName(info, call), "config.mergeStringMaps") {
							for _, a := range call.Args {
								if aid, ok := ast.Unparen(a).(*ast.Ident); ok && info.Uses[aid] == obj {
									bad = true
								}
							}
						}
						return true
					})
					if bad {
						c.Fail("R08.1", "mergeConfigs|nil-map-merged-into", r.Pos(later.Pos()), "a map that was just seen to be nil is handed to mergeStringMaps unchanged: the inherited keys are stored into a nil map (panic) instead of the map installed in the destination field")
						break scan
					}
				}
			}
			return true
		})
	}
	d := newDT(info)
	// the per-field work and its tests may sit in private helpers (mergeField, isUnset, ..): followed;
	// mergeStringMaps has its own rule
	d.callInline = map[*types.Func]*ast.FuncDecl{}
	for fn, g := range pkgUnexported(cp) {
		if g != fd && fn.Name() != "mergeStringMaps" {
			d.callInline[fn] = g
		}
	}
	d.hoistCalls = true
	start := d.envBefore(seedEnv(d, fd), fd.Body.List, loop)
	start.env[iv] = "I"
	d.paths = nil
	d.stmts(start, lbody.List, func(p *dtPath) { d.finish(p, "end") })
	// name the per-field values: SRC = field I of the less specific config (passed by value),
	// DEST = field I of the struct the more specific pointer refers to
	const fieldI = ".Field<(reflect.Value).Field>(I)"
	srcX := "reflect.ValueOf(ARG1)" + fieldI
	destX := "reflect.ValueOf(ARG2).Elem<(reflect.Value).Elem>()" + fieldI
	destX2 := "reflect.Indirect(reflect.ValueOf(ARG2))" + fieldI
	for _, p := range d.paths {
		p.rewrite(func(s string) string {
			s = strings.ReplaceAll(s, destX, "DEST")
			s = strings.ReplaceAll(s, destX2, "DEST")
			return strings.ReplaceAll(s, srcX, "SRC")
		})
	}
	if d.overflow || len(d.paths) == 0 {
		c.Fail("R08.1", "mergeConfigs|paths", r.Pos(loop.Pos()), "cannot enumerate the paths of the field loop")
		return
	}
	cfg, _ := cp.Types.Scope().Lookup("Config").(*types.TypeName)
	st := cfg.Type().Underlying().(*types.Struct)
	effect := func(p *dtPath, class string) bool {
		if class == "mapAny" {
			for _, call := range p.CallsTo("config.mergeStringMaps") {
				if len(call.Args) == 2 && strings.HasPrefix(call.Args[0], "SRC.") && strings.HasPrefix(call.Args[1], "DEST.") {
					return true
				}
				// or into the fresh map that this path has just installed in the destination field
				if len(call.Args) == 2 && strings.HasPrefix(call.Args[0], "SRC.") {
					for _, c2 := range p.Calls {
						if c2.Name == "(reflect.Value).Set" && c2.Recv == "DEST" && len(c2.Args) == 1 && c2.Args[0] == "reflect.ValueOf("+call.Args[1]+")" && c2.Step < call.Step && strings.HasPrefix(call.Args[1], "builtin.make(map[string]any") {
							return true
						}
					}
				}
			}
			return false
		}
		// the value stored must be the less specific level's: SRC itself, a fresh pointer whose
		// target is set from SRC's target, or a fresh slice of SRC's length filled from SRC
		for _, call := range p.Calls {
			if call.Name != "(reflect.Value).Set" || call.Recv != "DEST" || len(call.Args) != 1 {
				continue
			}
			x := stripRes(call.Args[0])
			switch {
			case x == "SRC":
				return true
			case x == "reflect.New(SRC.Elem().Type())":
				for _, c2 := range p.Calls {
					if c2.Name == "(reflect.Value).Set" && stripRes(c2.Recv) == x+".Elem()" && len(c2.Args) == 1 && stripRes(c2.Args[0]) == "SRC.Elem()" {
						return true
					}
				}
			case strings.HasPrefix(x, "reflect.MakeSlice(SRC.Type(), SRC.Len(), "):
				for _, c2 := range p.Calls {
					if c2.Name == "reflect.Copy" && len(c2.Args) == 2 && stripRes(c2.Args[0]) == x && stripRes(c2.Args[1]) == "SRC" {
						return true
					}
				}
			}
		}
		return false
	}
	consistent := func(p *dtPath, class string, destSet bool) bool {
		for _, a := range p.Atoms {
			if v, ok := atomForClass(class, a.Expr, destSet); ok && v != a.Val {
				return false
			}
		}
		return true
	}
	classes := map[string][]string{}
	for i := 0; i < st.NumFields(); i++ {
		f := st.Field(i)
		classes[fieldClass(f.Type())] = append(classes[fieldClass(f.Type())], f.Name())
	}
	var cl []string
	for k := range classes {
		cl = append(cl, k)
	}
	sort.Strings(cl)
	for _, class := range cl {
		// destination unset: every consistent path must merge
		bad := ""
		n := 0
		for _, p := range d.paths {
			if !consistent(p, class, false) {
				continue
			}
			n++
			if !effect(p, class) {
				bad = p.String()
			}
		}
		for _, f := range classes[class] {
			key := "mergeConfigs|field|" + f
			switch {
			case n == 0:
				c.Fail("R08.1", key, r.Pos(loop.Pos()), fmt.Sprintf("no path of the merge loop is consistent with a field of class %s (checker cannot classify the conditions)", class))
			case bad != "":
				c.Fail("R08.1", key, r.Pos(loop.Pos()), fmt.Sprintf("field %s (%s) is not inherited: when it is unset at the more specific level the merge loop can take the path %s, which copies nothing", f, class, bad))
			default:
				c.OK("R08.1", key, r.Pos(loop.Pos()), class+": inherited when unset")
			}
		}
		// destination set: nothing may overwrite it (maps merge key-wise, R08.2)
		over := ""
		for _, p := range d.paths {
			if consistent(p, class, true) && hasStep(p, "call DEST.Set<(reflect.Value).Set>(") > 0 {
				// re-initialising a nil map[string]any before the key-wise merge is not an overwrite
				if class == "mapAny" {
					continue
				}
				over = p.String()
			}
		}
		c.Check(over == "", "R08.2", "mergeConfigs|no-overwrite|"+class, r.Pos(loop.Pos()), "a field already set at the more specific level is never overwritten", fmt.Sprintf("a %s field that is already set at the more specific level is overwritten by the less specific one on path %s", class, over))
	}
	// map[string]any arm: the destination's map is replaced (by a fresh, empty one) exactly on the paths that
	// have just seen it nil — replacing a non-nil map throws away what the more specific level wrote, and not
	// replacing a nil one makes the key-wise merge store into a nil map (mechanical-mutation finding: the
	// nil test negated)
	{
		nilAtom := func(a string) bool {
			return (strings.HasPrefix(a, "DEST.Interface<") && strings.HasSuffix(a, " == nil")) || a == "DEST.IsNil<(reflect.Value).IsNil>()"
		}
		nMap := 0
		for _, p := range d.paths {
			if !consistent(p, "mapAny", false) && !consistent(p, "mapAny", true) {
				continue
			}
			if os.Getenv("MVCHECK_DEBUG") != "" {
				fmt.Println("R08.2 map arm path:", p.String())
			}
			seen, isNil := false, false
			for _, a := range p.Atoms {
				if nilAtom(a.Expr) {
					seen, isNil = true, a.Val
				}
			}
			sets := hasStep(p, "call DEST.Set<(reflect.Value).Set>(")
			merges := len(p.CallsTo("config.mergeStringMaps"))
			if merges == 0 && sets == 0 {
				continue
			}
			nMap++
			switch {
			case sets > 0 && !(seen && isNil):
				c.Fail("R08.2", "mergeConfigs|map-replaced-only-when-nil", r.Pos(loop.Pos()), "the destination's map[string]any field is replaced on a path that has not just seen it nil ("+p.String()+"): template-data written at the more specific level is thrown away before the merge")
			case seen && isNil && merges > 0 && sets == 0:
				c.Fail("R08.2", "mergeConfigs|nil-map-installed", r.Pos(loop.Pos()), "on a path that has seen the destination's map nil no map is installed before the key-wise merge ("+p.String()+"): the merge stores into a nil map")
			default:
				c.OK("R08.2", "mergeConfigs|map-replaced-only-when-nil", r.Pos(loop.Pos()), "destination map replaced exactly when seen nil")
			}
		}
		c.Check(nMap > 0, "R08.2", "mergeConfigs|map-arm", r.Pos(loop.Pos()), "the map arm of the merge loop was found", "no path of the merge loop handles a map[string]any field")
	}
	// R08.3 pointer arm stores a fresh copy
	fresh := true
	nPtr := 0
	for _, p := range d.paths {
		if !consistent(p, "pointer", false) {
			continue
		}
		for _, s := range p.Steps {
			if strings.HasPrefix(s, "call DEST.Set<(reflect.Value).Set>(") {
				nPtr++
				if !strings.Contains(s, "reflect.New(") {
					fresh = false
				}
			}
		}
		if hasStep(p, ".Elem<(reflect.Value).Elem>().Set<(reflect.Value).Set>(SRC.Elem<(reflect.Value).Elem>())") == 0 {
			fresh = false
		}
	}
	c.Check(fresh && nPtr > 0, "R08.3", "mergeConfigs|pointer-fresh-copy", r.Pos(loop.Pos()), "pointer fields are inherited as fresh copies", "a pointer field is inherited by sharing the less specific level's pointer (or without copying its value): a later in-place change at one level leaks into the other")
}

func ruleMergeStringMaps(c *Ctx, r *Repo, cp *packages.Package) {
	info := cp.TypesInfo
	fd := FuncDecl(cp, "mergeStringMaps")
	if fd == nil {
		c.Fail("R08.2", "mergeStringMaps|missing", "config/config.go", "mergeStringMaps not found")
		return
	}
	c.Func(funcKey(cp, fd))
	var rs *ast.RangeStmt
	for _, s := range fd.Body.List {
		if x, ok := s.(*ast.RangeStmt); ok {
			rs = x
		}
	}
	if rs == nil || len(fd.Body.List) != 1 {
		c.Fail("R08.2", "mergeStringMaps|shape", r.Pos(fd.Pos()), "mergeStringMaps is not a single loop over the source map")
		return
	}
	d := newDT(info)
	start := seedEnv(d, fd) // ARG0 = src, ARG1 = dest
	if id, ok := ast.Unparen(rs.X).(*ast.Ident); !ok || start.env[info.Uses[id]] != "ARG0" {
		c.Fail("R08.2", "mergeStringMaps|ranges-src", r.Pos(rs.Pos()), "the loop does not range over the source map")
		return
	}
	if k, ok := rs.Key.(*ast.Ident); ok {
		start.env[info.Defs[k]] = "K"
	}
	if v, ok := rs.Value.(*ast.Ident); ok {
		start.env[info.Defs[v]] = "V"
	}
	d.paths = nil
	d.stmts(start, rs.Body.List, func(p *dtPath) { d.finish(p, "end") })
	known := map[string]bool{"ARG1[K]#ok": true, "ARG1[K].(map[string]any)#ok": true, "V.(map[string]any)#ok": true}
	okAll := true
	for _, p := range d.paths {
		for _, a := range p.Atoms {
			if !known[a.Expr] {
				okAll = false
				c.Fail("R08.2", "mergeStringMaps|unknown-condition|"+a.Expr, r.Pos(a.Pos), fmt.Sprintf("the key-wise merge branches on %q; precedence must depend only on whether the more specific map has the key (and on both values being maps)", a.Expr))
			}
		}
		if p.Exit == "break" || p.Exit == "return" {
			okAll = false
			c.Fail("R08.2", "mergeStringMaps|early-exit", r.Pos(p.RetPos), "the key-wise merge leaves the loop early ("+p.Exit+") on path "+p.String()+": keys visited later are not inherited")
		}
		exists, _ := p.atom("ARG1[K]#ok")
		stores := hasStep(p, "store ARG1[K] = ")
		storeOK := hasStep(p, "store ARG1[K] = V") == 1
		dm, hasDM := p.atom("ARG1[K].(map[string]any)#ok")
		sm, hasSM := p.atom("V.(map[string]any)#ok")
		recCalls := p.CallsTo("config.mergeStringMaps")
		rec := len(recCalls)
		recOK := rec == 1 && len(recCalls[0].Args) == 2 && recCalls[0].Args[0] == "V.(map[string]any)" && recCalls[0].Args[1] == "ARG1[K].(map[string]any)"
		switch {
		case !exists:
			// a missing key is inherited exactly once; a nested map is inherited as a fresh copy
			// (mergeStringMaps(v, <new map>); dest[k] = <that map>), never by reference: the nested
			// map would otherwise be shared with the less specific level and a later merge into this
			// level would write through to it and to every sibling that inherited it
			switch {
			case !hasSM:
				okAll = false
				c.Fail("R08.2", "mergeStringMaps|nested-map-shared", r.Pos(rs.Pos()), "a key missing at the more specific level is inherited as dest[k] = v without testing whether v is a map: a nested map (template-data: {opts: {...}}) is then shared by reference between the levels, and a merge into one of them (a recursive package pushing its config into a listed sub-package) leaks into the top level and all sibling packages: "+p.String())
			case sm:
				fresh := ""
				for _, st := range p.Steps {
					if strings.HasPrefix(st, "store ARG1[K] = ") {
						fresh = strings.TrimPrefix(st, "store ARG1[K] = ")
					}
				}
				copied := stores == 1 && strings.HasPrefix(fresh, "builtin.make(map[string]any") && rec == 1 && len(recCalls[0].Args) == 2 && recCalls[0].Args[0] == "V.(map[string]any)" && recCalls[0].Args[1] == fresh
				if !copied {
					okAll = false
					c.Fail("R08.2", "mergeStringMaps|nested-map-shared", r.Pos(rs.Pos()), "a nested map missing at the more specific level is not inherited as a fresh copy (make + mergeStringMaps(v, copy) + dest[k] = copy): "+strings.Join(p.Steps, "; "))
				}
			default:
				if !(stores == 1 && storeOK && rec == 0) {
					okAll = false
					c.Fail("R08.2", "mergeStringMaps|inherit-missing-key", r.Pos(rs.Pos()), "a key missing at the more specific level is not inherited as dest[k] = v exactly once: "+p.String()+" steps="+strings.Join(p.Steps, "; "))
				}
			}
		default:
			if stores != 0 {
				okAll = false
				c.Fail("R08.2", "mergeStringMaps|overwrite-existing-key", r.Pos(rs.Pos()), "a key that exists at the more specific level is overwritten: "+p.String())
			}
			both := hasDM && dm && hasSM && sm
			if both && !(rec == 1 && recOK) {
				okAll = false
				c.Fail("R08.2", "mergeStringMaps|nested-merge", r.Pos(rs.Pos()), "nested maps present at both levels are not merged as mergeStringMaps(<less specific>, <more specific>): "+strings.Join(p.Steps, "; "))
			}
			if !both && rec != 0 {
				okAll = false
				c.Fail("R08.2", "mergeStringMaps|spurious-recursion", r.Pos(rs.Pos()), "recursion although not both values are maps: "+p.String())
			}
		}
	}
	if okAll {
		for range d.paths {
			c.OK("R08.2", "mergeStringMaps|paths", r.Pos(rs.Pos()), "store only for missing keys; map/map pairs merged recursively in the right direction")
		}
	}
}

func ruleNoSharing(c *Ctx, r *Repo, cp *packages.Package) {
	fd := FuncDecl(cp, "PackageConfig.GetInterfaceConfig")
	if fd == nil {
		c.Fail("R08.3", "GetInterfaceConfig|missing", "config/config.go", "GetInterfaceConfig not found")
		return
	}
	paths, _ := enumerateFunc(cp.TypesInfo, fd)
	ok := false
	bad := ""
	for _, p := range paths {
		listed, has := p.atom("RECV.Interfaces[ARG1]#ok")
		if !has || listed || p.Exit != "return" {
			continue
		}
		for _, s := range p.Steps {
			if strings.HasPrefix(s, "store ") && strings.Contains(s, ".Config = ") {
				if strings.Contains(s, "deep.Copy") && strings.Contains(s, "(RECV.Config)#0") {
					ok = true
				} else {
					bad = s
				}
			}
		}
	}
	c.Check(ok && bad == "", "R08.3", "GetInterfaceConfig|deep-copy", r.Pos(fd.Pos()), "unlisted interfaces get a deep copy of the package config", "an unlisted interface's config is not a deep copy of the package config ("+bad+"): resolving templated values for one interface would leak into its siblings")
}

func ruleMergeOrder(c *Ctx, r *Repo, cp *packages.Package) {
	info := cp.TypesInfo
	type site struct{ fn, loopMarker, src, dst, before string }
	sites := []site{
		{"RootConfig.Initialize", "Packages", "RECV.Config", ".Config", "Initialize"},
		{"PackageConfig.Initialize", "Interfaces", "*RECV.Config", ".Config", "Initialize"},
		{"InterfaceConfig.Initialize", "Configs", "*RECV.Config", "", ""},
	}
	for _, s := range sites {
		fd := FuncDecl(cp, s.fn)
		if fd == nil {
			c.Fail("R08.4", s.fn+"|missing", "config/config.go", s.fn+" not found")
			continue
		}
		// the loop over the collection that merges (there may be an earlier one that only fills in nil entries)
		var rs *ast.RangeStmt
		var holder *ast.FuncDecl
		for _, g := range familyOf(cp, fd) {
			if rs != nil {
				break
			}
			g := g
			fc := newFuncCanon(info, g)
			ast.Inspect(g.Body, func(n ast.Node) bool {
				x, ok := n.(*ast.RangeStmt)
				if !ok || fc.E(x.X) != "RECV."+s.loopMarker {
					return true
				}
				merges := false
				ast.Inspect(x.Body, func(m ast.Node) bool {
					if call, ok := m.(*ast.CallExpr); ok && strings.HasSuffix(calleeName(info, call), "/config.mergeConfigs") {
						merges = true
					}
					return true
				})
				if rs == nil || merges {
					rs = x
					holder = g
				}
				return true
			})
		}
		if holder != nil {
			fd = holder // the loop lives in a private helper of the anchored function
		}
		if rs == nil {
			c.Fail("R08.4", s.fn+"|loop", r.Pos(fd.Pos()), "no loop over "+s.loopMarker)
			continue
		}
		d := newDT(info)
		// small private helpers (a nil-to-empty normaliser, say) are followed
		d.callInline = map[*types.Func]*ast.FuncDecl{}
		for fn, g := range pkgUnexported(cp) {
			if g != fd && fn.Name() != "mergeConfigs" && fn.Name() != "mergeStringMaps" {
				d.callInline[fn] = g
			}
		}
		d.hoistCalls = true
		start := seedEnv(d, fd)
		if v, ok := rs.Value.(*ast.Ident); ok {
			start.env[info.Defs[v]] = "ELEM"
		}
		if k, ok := rs.Key.(*ast.Ident); ok && k.Name != "_" && info.Defs[k] != nil {
			start.env[info.Defs[k]] = "KEY"
		}
		d.paths = nil
		d.stmts(start, rs.Body.List, func(p *dtPath) { d.finish(p, "end") })
		for _, p := range d.paths {
			// the element addressed through the loop's own key is the element
			p.rewrite(func(x string) string { return strings.ReplaceAll(x, "RECV."+s.loopMarker+"[KEY]", "ELEM") })
		}
		good, n := true, 0
		for _, p := range d.paths {
			mi, ii := -1, -1
			for _, call := range p.Calls {
				if strings.HasSuffix(call.Name, "config.mergeConfigs") && len(call.Args) == 3 {
					src, dst := call.Args[1], call.Args[2]
					okDst := dst == "ELEM"+s.dst || dst == "config.NewPackageConfig()"+s.dst || dst == "config.NewInterfaceConfig()"+s.dst
					// a nil element replaced by a fresh value that is stored back into the collection
					if !okDst && s.dst == "" && dst == "&Config{}" {
						nilElem, has := p.atom("ELEM == nil")
						okDst = has && nilElem && (hasStep(p, "store RECV."+s.loopMarker+"[") == 1 || hasStep(p, "store ELEM = ") == 1)
					}
					if src != s.src || !okDst {
						good = false
						c.Fail("R08.4", s.fn+"|direction", r.Pos(rs.Pos()), fmt.Sprintf("%s merges %s into %s; want the less specific level (%s) merged into the element being initialised", s.fn, src, dst, s.src))
					}
					if mi < 0 {
						mi = call.Step
					}
				}
				if s.before != "" && strings.HasSuffix(call.Name, ")."+s.before) && ii < 0 {
					ii = call.Step
				}
			}
			if p.Exit == "end" {
				n++
				if mi < 0 {
					good = false
					c.Fail("R08.4", s.fn+"|no-merge", r.Pos(rs.Pos()), s.fn+": an element is initialised without inheriting from the less specific level: "+p.String())
				} else if s.before != "" && (ii < 0 || ii < mi) {
					good = false
					c.Fail("R08.4", s.fn+"|order", r.Pos(rs.Pos()), s.fn+": the element's own Initialize runs before the less specific level was merged into it (its children would inherit unmerged values)")
				}
			}
		}
		if good && n > 0 {
			c.OK("R08.4", s.fn+"|merge", r.Pos(rs.Pos()), "merges "+s.src+" into each element before initialising it")
		}
	}
}

func ruleLayering(c *Ctx, r *Repo, cp *packages.Package) {
	info := cp.TypesInfo
	fd := FuncDecl(cp, "NewRootConfig")
	if fd == nil {
		c.Fail("R08.5", "NewRootConfig|missing", "config/config.go", "NewRootConfig not found")
		return
	}
	c.Func(funcKey(cp, fd))
	type ev struct {
		what string
		pos  token.Pos
	}
	_ = ev{}
	provKind := func(t types.Type) string {
		pn := ""
		if t != nil {
			pn = t.String()
		}
		switch {
		case strings.Contains(pn, "providers/env."):
			return "env"
		case strings.Contains(pn, "providers/file."):
			return "file"
		case strings.Contains(pn, "providers/posflag."):
			return "flags"
		}
		return "other:" + pn
	}
	funcs := pkgFuncs(cp)
	// rowsOf: the provider expressions, in order, of a local table `S := []T{{..}, ..}` extended by
	// `S = append(S, T{..})`, for the field the loop hands to Load
	rowsOf := func(g *ast.FuncDecl, obj types.Object, field string) []ast.Expr {
		var out []ast.Expr
		pick := func(cl *ast.CompositeLit) {
			st, _ := info.TypeOf(cl).Underlying().(*types.Struct)
			for i, el := range cl.Elts {
				if kv, ok := el.(*ast.KeyValueExpr); ok {
					if types.ExprString(kv.Key) == field {
						out = append(out, kv.Value)
					}
				} else if st != nil && i < st.NumFields() && st.Field(i).Name() == field {
					out = append(out, el)
				}
			}
		}
		ast.Inspect(g.Body, func(n ast.Node) bool {
			as, ok := n.(*ast.AssignStmt)
			if !ok || len(as.Lhs) != 1 || len(as.Rhs) != 1 {
				return true
			}
			id, ok := as.Lhs[0].(*ast.Ident)
			if !ok || objOf(info, id) != obj {
				return true
			}
			switch x := ast.Unparen(as.Rhs[0]).(type) {
			case *ast.CompositeLit:
				for _, el := range x.Elts {
					if row, ok := ast.Unparen(el).(*ast.CompositeLit); ok {
						pick(row)
					}
				}
			case *ast.CallExpr:
				if calleeName(info, x) == "builtin.append" && len(x.Args) >= 2 {
					for _, a := range x.Args[1:] {
						if row, ok := ast.Unparen(a).(*ast.CompositeLit); ok {
							pick(row)
						}
					}
				}
			}
			return true
		})
		return out
	}
	var events func(g *ast.FuncDecl, depth int) []string
	events = func(g *ast.FuncDecl, depth int) []string {
		type pe struct {
			pos token.Pos
			evs []string
		}
		var seq []pe
		// range loops over a local table of sources
		rangeOf := map[types.Object]*ast.RangeStmt{}
		ast.Inspect(g.Body, func(n ast.Node) bool {
			if rs, ok := n.(*ast.RangeStmt); ok {
				if v, ok := rs.Value.(*ast.Ident); ok && info.Defs[v] != nil {
					rangeOf[info.Defs[v]] = rs
				}
			}
			return true
		})
		ast.Inspect(g.Body, func(n ast.Node) bool {
			call, ok := n.(*ast.CallExpr)
			if !ok {
				return true
			}
			switch name := calleeName(info, call); {
			case name == modPath+"/config.NewDefaultKoanf":
				seq = append(seq, pe{call.Pos(), []string{"defaults"}})
			case strings.HasSuffix(name, "koanf/v2.Koanf).Load") && len(call.Args) >= 1:
				// the provider is identified by its type (it may be built inline or bound to a variable first)
				if se, ok := ast.Unparen(call.Args[0]).(*ast.SelectorExpr); ok {
					if id, ok := se.X.(*ast.Ident); ok {
						if rs := rangeOf[info.Uses[id]]; rs != nil {
							if sid, ok := ast.Unparen(rs.X).(*ast.Ident); ok {
								var evs []string
								for _, e := range rowsOf(g, info.Uses[sid], se.Sel.Name) {
									evs = append(evs, provKind(info.TypeOf(e)))
								}
								if len(evs) > 0 {
									seq = append(seq, pe{call.Pos(), evs})
									return true
								}
							}
						}
					}
				}
				seq = append(seq, pe{call.Pos(), []string{provKind(info.TypeOf(call.Args[0]))}})
			case strings.HasSuffix(name, "koanf/v2.Koanf).UnmarshalWithConf") || strings.HasSuffix(name, "koanf/v2.Koanf).Unmarshal"):
				seq = append(seq, pe{call.Pos(), []string{"decode"}})
			default:
				// a helper of the package that loads sources: its events take the place of the call
				if fn := calleeFunc(info, call); fn != nil && depth < 2 {
					if h := funcs[fn]; h != nil && h != g && h.Body != nil {
						if evs := events(h, depth+1); len(evs) > 0 {
							seq = append(seq, pe{call.Pos(), evs})
						}
					}
				}
			}
			return true
		})
		sort.Slice(seq, func(i, j int) bool { return seq[i].pos < seq[j].pos })
		var out []string
		for _, e := range seq {
			out = append(out, e.evs...)
		}
		return out
	}
	got := events(fd, 0)
	want := []string{"defaults", "env", "file", "flags", "decode"}
	if strings.Join(got, ",") == strings.Join(want, ",") {
		for _, w := range want[:4] {
			c.OK("R08.5", "NewRootConfig|layer|"+w, r.Pos(fd.Pos()), "source order "+strings.Join(want, " -> "))
		}
	} else {
		c.Fail("R08.5", "NewRootConfig|layer-order", r.Pos(fd.Pos()), fmt.Sprintf("configuration sources are loaded in the order %v, want %v (later sources take precedence)", got, want))
	}
	// every source is loaded unconditionally; the only admissible guard is "a flag set was given" around the
	// flags layer (mechanical-mutation finding: the order of the Load calls said nothing about whether they run)
	{
		fc := newFuncCanonG(cp, fd)
		var stack []ast.Node
		ast.Inspect(fd.Body, func(n ast.Node) bool {
			if n == nil {
				stack = stack[:len(stack)-1]
				return true
			}
			stack = append(stack, n)
			call, ok := n.(*ast.CallExpr)
			if !ok {
				return true
			}
			name := calleeName(info, call)
			isLoad := strings.HasSuffix(name, "koanf/v2.Koanf).Load") && len(call.Args) >= 1
			isDecode := strings.HasSuffix(name, "koanf/v2.Koanf).UnmarshalWithConf") || strings.HasSuffix(name, "koanf/v2.Koanf).Unmarshal")
			if !isLoad && !isDecode {
				return true
			}
			kind := "decode"
			if isLoad {
				kind = provKind(info.TypeOf(call.Args[0]))
			}
			for i := len(stack) - 2; i >= 0; i-- {
				switch x := stack[i].(type) {
				case *ast.IfStmt:
					child := stack[i+1]
					if child == x.Init || child == ast.Node(x.Cond) {
						continue
					}
					cond := fc.E(x.Cond)
					inElse := child == x.Else
					okGuard := false
					if kind == "flags" {
						for _, f := range fd.Type.Params.List {
							for _, nm := range f.Names {
								if strings.Contains(shortType(info.TypeOf(f.Type)), "pflag.FlagSet") {
									a := fc.Obj(info.Defs[nm])
									if !inElse && cond == a+" != nil" || inElse && cond == a+" == nil" {
										okGuard = true
									}
								}
							}
						}
					}
					c.Check(okGuard, "R08.5", "NewRootConfig|layer-unconditional|"+kind, r.Pos(x.Pos()), "the "+kind+" layer is applied whenever its source exists", fmt.Sprintf("the %s layer is applied only under the condition %q (else-branch: %v): the source is skipped for some runs", kind, cond, inElse))
				case *ast.ForStmt, *ast.RangeStmt, *ast.SwitchStmt, *ast.TypeSwitchStmt, *ast.FuncLit:
					if _, isRange := x.(*ast.RangeStmt); !isRange {
						c.Fail("R08.5", "NewRootConfig|layer-unconditional|"+kind, r.Pos(x.Pos()), "the "+kind+" layer is applied inside a loop, switch or closure; whether it runs is not decided")
					}
				}
			}
			return true
		})
	}
	// the environment transformer hands every MOCKERY_* variable on, under its normalised key (round 6: a
	// transformer that dropped the variables it did not find among the defaults lost every parameter without a
	// default when a second edit removed those from the defaults)
	{
		nTr := 0
		for _, g := range pkgFuncDecls(cp) {
			ast.Inspect(g.Body, func(n ast.Node) bool {
				call, ok := n.(*ast.CallExpr)
				if !ok || !strings.HasSuffix(calleeName(info, call), "providers/env.ProviderWithValue") || len(call.Args) != 3 {
					return true
				}
				var params *ast.FieldList
				var body *ast.BlockStmt
				switch f := ast.Unparen(call.Args[2]).(type) {
				case *ast.FuncLit:
					params, body = f.Type.Params, f.Body
				case *ast.Ident:
					if fn, ok := info.Uses[f].(*types.Func); ok {
						if h := pkgFuncs(cp)[fn]; h != nil {
							params, body = h.Type.Params, h.Body
						}
					}
				}
				if body == nil {
					c.Fail("R08.5", "env-transformer|shape", r.Pos(call.Pos()), "the environment transformer is neither a function literal nor a function of the package")
					return true
				}
				nTr++
				// a counted strings.Replace among the normalisation steps replaces every occurrence (n < 0);
				// with n >= 0 a variable with more than n underscores lands under a key nobody reads
				ast.Inspect(body, func(m ast.Node) bool {
					rc, ok := m.(*ast.CallExpr)
					if !ok || calleeName(info, rc) != "strings.Replace" || len(rc.Args) != 4 {
						return true
					}
					tv := info.Types[rc.Args[3]]
					neg := tv.Value != nil && constant.Sign(tv.Value) < 0
					c.Check(neg, "R08.5", "env-transformer|replace-count", r.Pos(rc.Pos()), "the counted replacement in the key normalisation replaces every occurrence (negative count)", "strings.Replace in the environment transformer is called with a count that is not a negative constant ("+types.ExprString(rc.Args[3])+"): only some '_' of a MOCKERY_* variable's name become '-', so multi-word parameters are not set from the environment")
					return true
				})
				d := newDT(info)
				d.constStrings = true // the prefix may be a named constant of the package
				st := &dtPath{env: map[types.Object]string{}}
				i := 0
				for _, f := range params.List {
					for _, nm := range f.Names {
						st.env[info.Defs[nm]] = []string{"KEY", "VALUE"}[min(i, 1)]
						i++
					}
				}
				d.paths = nil
				d.stmts(st, body.List, func(p *dtPath) { d.finish(p, "end") })
				for _, p := range d.paths {
					if p.Exit == "panic" {
						continue
					}
					okKey := p.Exit == "return" && len(p.Ret) == 2 && strings.Contains(p.Ret[0], `strings.TrimPrefix(KEY, "MOCKERY_")`) && strings.Contains(p.Ret[0], "strings.ToLower(") && strings.Contains(p.Ret[0], `"_", "-"`)
					c.Check(okKey, "R08.5", "env-transformer|key", r.Pos(call.Pos()), "every variable is handed on under its normalised key", "the environment transformer does not hand a MOCKERY_* variable on under its normalised key (prefix stripped, lower case, _ -> -) on path "+p.String()+": the setting is dropped or lands under another key")
					if okKey {
						c.Check(p.Ret[1] != "nil" && p.Ret[1] != `""`, "R08.5", "env-transformer|value", r.Pos(call.Pos()), "the variable's value is handed on", "the environment transformer drops the variable's value on path "+p.String())
					}
				}
				return true
			})
		}
		c.Check(nTr == 1, "R08.5", "env-transformer|sites", r.Pos(fd.Pos()), "one environment provider", fmt.Sprintf("%d environment providers with a transformer found, expected one", nTr))
	}
	// NewDefaultKoanf loads the defaults through the structs provider
	if nd := FuncDecl(cp, "NewDefaultKoanf"); nd != nil {
		ok := false
		ast.Inspect(nd.Body, func(n ast.Node) bool {
			if call, ok2 := n.(*ast.CallExpr); ok2 && strings.Contains(calleeName(info, call), "providers/structs.Provider") {
				ok = true
			}
			return true
		})
		c.Check(ok, "R08.5", "NewDefaultKoanf|structs", r.Pos(nd.Pos()), "defaults loaded via structs provider", "defaults are not loaded through the structs provider")
	}
}

// ruleConsumers: R08.6, which level each per-file consumer in Run reads.
func ruleConsumers(c *Ctx, r *Repo, rule string, only map[string]bool) {
	cmdp := r.Pkg("internal/cmd")
	info := cmdp.TypesInfo
	run := FuncDecl(cmdp, "RootApp.Run")
	if run == nil {
		c.Fail(rule, "Run|missing", "internal/cmd/mockery.go", "RootApp.Run not found")
		return
	}
	// the generator may be built in a private helper of Run: the call is read in Run's terms
	var call *ast.CallExpr
	fc := newFuncCanon(info, run)
	inspectWithHelpers(cmdp, run, fc, 2, func(gc *fcanon, _ *ast.FuncDecl, n ast.Node) bool {
		if ce, ok := n.(*ast.CallExpr); ok && calleeName(info, ce) == modPath+"/internal.NewTemplateGenerator" {
			call, fc = ce, gc
		}
		return true
	})
	if call == nil {
		c.Fail(rule, "Run|generator-call", r.Pos(run.Pos()), "Run does not call NewTemplateGenerator")
		return
	}
	fn := calleeFunc(info, call)
	sig := fn.Type().(*types.Signature)
	level := func(e ast.Expr) string {
		s := fc.E(e)
		switch {
		case strings.Contains(s, "GetPackageConfig<(config.RootConfig).GetPackageConfig>("):
			return "package"
		case strings.Contains(s, "rangeval(") && strings.Contains(s, "InterfaceCollection"):
			return "file"
		case strings.Contains(s, "RECV.Config."):
			return "root"
		}
		return "other(" + types.ExprString(e) + ")"
	}
	params := map[string]string{"templateName": "template", "templateSchema": "template-schema", "requireSchemaExists": "require-template-schema-exists", "formatter": "formatter"}
	for i := 0; i < sig.Params().Len() && i < len(call.Args); i++ {
		label, ok := params[sig.Params().At(i).Name()]
		if !ok || only != nil && !only[label] {
			continue
		}
		lv := level(call.Args[i])
		c.Check(lv == "file", rule, "Run|consumer-level|"+label+"|"+lv, r.Pos(call.Args[i].Pos()), label+" read from the configuration of the mocks in the file", fmt.Sprintf("%s handed to the generator is read at the %s level (%s): a value set on the interface or configs entry of the mocks in that file is ignored", label, lv, types.ExprString(call.Args[i])))
	}
	// force-file-write in the overwrite guard
	if only != nil && !only["force-file-write"] {
		return
	}
	found := false
	levelOf := func(s string) string {
		switch {
		case strings.Contains(s, "GetPackageConfig<(config.RootConfig).GetPackageConfig>("):
			return "package"
		case strings.Contains(s, "rangeval(") && strings.Contains(s, "InterfaceCollection") || strings.HasPrefix(strings.TrimPrefix(s, "*"), "COLL."):
			return "file"
		case strings.Contains(s, "RECV.Config."):
			return "root"
		}
		return "other(" + s + ")"
	}
	// the guard is a condition on the paths of the per-file loop (possibly inside a private helper)
	if rs := rangeOverC(cmdp, run, "map[string]*internal/cmd.InterfaceCollection"); rs != nil {
		d := newDT(info)
		d.callInline = pkgUnexported(cmdp)
		start := d.envBefore(seedEnv(d, run), run.Body.List, rs)
		if v, ok := rs.Value.(*ast.Ident); ok {
			start.env[info.Defs[v]] = "COLL"
		}
		d.paths = nil
		d.stmts(start, rs.Body.List, func(p *dtPath) { d.finish(p, "end") })
		seenLv := map[string]token.Pos{}
		for _, p := range d.paths {
			for _, a := range p.Atoms {
				if strings.HasSuffix(a.Expr, ".ForceFileWrite") {
					seenLv[levelOf(a.Expr)] = a.Pos
				}
			}
		}
		for lv, pos := range seenLv {
			found = true
			c.Check(lv == "file", rule, "Run|consumer-level|force-file-write|"+lv, r.Pos(pos), "force-file-write read from the configuration of the mocks in the file", fmt.Sprintf("force-file-write in the overwrite guard is read at the %s level", lv))
		}
	}
	if !found {
		c.Fail(rule, "Run|overwrite-guard", r.Pos(run.Pos()), "no overwrite guard consulting force-file-write found")
	}
}

// ruleGenerateData: what TemplateGenerator.Generate hands to the template for each mock is that
// interface's own resolved values (name, struct name, template-data read straight from the
// interface's Config, not a map shared with another level), and the file-level template-data is the
// package config's; nothing in the generator writes into a template-data map.
func ruleGenerateData(c *Ctx, r *Repo, rule string) {
	ip := r.Pkg("internal")
	info := ip.TypesInfo
	fd := FuncDecl(ip, "TemplateGenerator.Generate")
	if fd == nil {
		c.Fail(rule, "Generate|missing", "internal/template_generator.go", "TemplateGenerator.Generate not found")
		return
	}
	c.Func(funcKey(ip, fd))
	fc0 := newFuncCanon(info, fd)
	nLit := 0
	inspectWithHelpers(ip, fd, fc0, 2, func(fc *fcanon, _ *ast.FuncDecl, n ast.Node) bool {
		switch x := n.(type) {
		case *ast.CompositeLit:
			if !typeIs(info.TypeOf(x), "template.Interface") || len(x.Elts) == 0 {
				return true
			}
			nLit++
			want := map[string]string{"Name": ".Name", "StructName": ".Config.StructName", "TemplateData": ".Config.TemplateData"}
			seen := map[string]bool{}
			for _, el := range x.Elts {
				kv, ok := el.(*ast.KeyValueExpr)
				if !ok {
					c.Fail(rule, "Generate|mock-data|positional", r.Pos(x.Pos()), "template.Interface literal without field names")
					continue
				}
				k := kv.Key.(*ast.Ident).Name
				w, checked := want[k]
				if !checked {
					continue
				}
				seen[k] = true
				cx := strings.TrimPrefix(fc.E(kv.Value), "*")
				good := strings.HasPrefix(cx, "rangeval(ARG") && strings.HasSuffix(cx, ")"+w)
				c.Check(good, rule, "Generate|mock-data|"+k, r.Pos(kv.Pos()), k+" <- the interface's own"+w, fmt.Sprintf("the template receives %s = %s for a mock; it must be the rendered interface's own%s (its merged, most specific level): anything else ignores per-interface settings or shares state between the mocks of a file", k, cx, w))
			}
			for k := range want {
				if !seen[k] {
					c.Fail(rule, "Generate|mock-data|"+k, r.Pos(x.Pos()), "the template.Interface handed to the template has no "+k)
				}
			}
		case *ast.CallExpr:
			if strings.HasSuffix(calleeName(info, x), "/template.NewData") && len(x.Args) == 6 {
				cx := fc.E(x.Args[4])
				c.Check(cx == "RECV.pkgConfig.TemplateData", rule, "Generate|file-data", r.Pos(x.Pos()), "file-level template-data = the package config's", "the file-level template-data handed to the template is "+cx+", not the package config's")
			}
		}
		return true
	})
	if nLit == 0 {
		c.Fail(rule, "Generate|mock-data|missing", r.Pos(fd.Pos()), "Generate builds no template.Interface")
	}
	// no writes into template-data maps anywhere in the generator package
	for _, f := range pkgFuncDecls(ip) {
		ffc := newFuncCanon(info, f)
		ast.Inspect(f.Body, func(n ast.Node) bool {
			isTD := func(e ast.Expr) bool {
				t := info.TypeOf(e)
				if t == nil {
					return false
				}
				// a map created in this function is the function's own
				if cx := ffc.E(e); strings.HasPrefix(cx, "builtin.make(") || strings.HasPrefix(cx, "maps.Clone(") || strings.HasSuffix(cx, "{}") {
					return false
				}
				if typeIs(t, "template.TemplateData") {
					return true
				}
				se, ok := ast.Unparen(e).(*ast.SelectorExpr)
				return ok && se.Sel.Name == "TemplateData"
			}
			switch x := n.(type) {
			case *ast.AssignStmt:
				for _, l := range x.Lhs {
					if ie, ok := ast.Unparen(l).(*ast.IndexExpr); ok && isTD(ie.X) {
						c.Fail(rule, "Generate|template-data-write|"+funcKey(ip, f), r.Pos(x.Pos()), funcKey(ip, f)+" stores into a template-data map: the maps belong to the configuration levels and are shared between mocks and files")
					}
				}
			case *ast.CallExpr:
				switch calleeName(info, x) {
				case "maps.Copy", "maps.Insert", "builtin.delete", "builtin.clear":
					if len(x.Args) >= 1 && (isTD(x.Args[0]) || typeIs(info.TypeOf(x.Args[0]), "template.TemplateData")) {
						c.Fail(rule, "Generate|template-data-write|"+funcKey(ip, f), r.Pos(x.Pos()), funcKey(ip, f)+" modifies a template-data map in place: the maps belong to the configuration levels and are shared between mocks and files")
					}
				}
			}
			return true
		})
	}
	c.OK(rule, "Generate|template-data-read-only", r.Pos(fd.Pos()), "the generator package never writes into a template-data map")
}

// ruleTwoPasses: one pass of RootConfig.Initialize merges root -> package -> interface -> configs
// entry first and only then lets recursive packages push their config into (possibly listed)
// sub-packages; the values pushed reach the listed interfaces of those sub-packages in the next pass.
// So the configuration is initialised twice before anything is read from it: once at the end of
// NewRootConfig and once more in RootApp.Run before the packages are listed.
func ruleTwoPasses(c *Ctx, r *Repo, rule string) {
	cp, cmdp := r.Pkg("config"), r.Pkg("internal/cmd")
	isInit := func(p *packages.Package, call *ast.CallExpr) bool {
		return strings.HasSuffix(calleeName(p.TypesInfo, call), "/config.RootConfig).Initialize")
	}
	first := false
	if nr := FuncDecl(cp, "NewRootConfig"); nr != nil {
		for _, p := range func() []*dtPath { ps, _ := enumerateFunc(cp.TypesInfo, nr); return ps }() {
			if p.Exit == "return" && len(p.Ret) == 3 && p.Ret[2] == "nil" {
				first = len(p.CallsTo("config.RootConfig).Initialize")) >= 1
				if !first {
					break
				}
			}
		}
		_ = isInit
	}
	c.Check(first, rule, "NewRootConfig|initialize", "config/config.go", "every successful NewRootConfig has run Initialize", "NewRootConfig can return a configuration that was never initialised (levels not merged)")
	run := FuncDecl(cmdp, "RootApp.Run")
	if run == nil {
		c.Fail(rule, "Run|second-pass", "internal/cmd/mockery.go", "RootApp.Run not found")
		return
	}
	info := cmdp.TypesInfo
	var initPos, readPos token.Pos
	ast.Inspect(run.Body, func(n ast.Node) bool {
		switch x := n.(type) {
		case *ast.CallExpr:
			name := calleeName(info, x)
			switch {
			case isInit(cmdp, x) && !initPos.IsValid():
				initPos = x.Pos()
			case (strings.HasSuffix(name, "/config.RootConfig).GetPackages") || strings.HasSuffix(name, "/config.RootConfig).GetPackageConfig")) && !readPos.IsValid():
				readPos = x.Pos()
			}
		}
		return true
	})
	ok := initPos.IsValid() && readPos.IsValid() && initPos < readPos
	// .. and the second pass does the work again: Initialize has no successful return that bypasses its loops
	// (round 6: an "already initialised" guard turned the second pass into a no-op)
	if init := FuncDecl(cp, "RootConfig.Initialize"); init != nil {
		paths, _ := enumerateFunc(cp.TypesInfo, init)
		okWork := len(paths) > 0
		why := ""
		for _, p := range paths {
			if p.Exit == "return" && len(p.Ret) == 1 && p.Ret[0] == "nil" && hasStep(p, "loop") == 0 && len(p.CallsTo("Initialize")) == 0 {
				// a helper that contains the loops is acceptable; a bare early success is not
				helper := false
				for _, call := range p.Calls {
					if fn := strings.TrimPrefix(call.Name, "(config.RootConfig)."); fn != call.Name && fn != "Initialize" {
						helper = true
					}
				}
				if !helper {
					okWork, why = false, p.String()
				}
			}
		}
		c.Check(okWork, rule, "Initialize|every-call-works", r.Pos(init.Pos()), "every successful Initialize has walked the packages", "RootConfig.Initialize can report success without walking the packages ("+why+"): the second pass in Run, which carries what a recursive package pushed into a listed sub-package down to that sub-package's interfaces, does nothing")
	}
	c.Check(ok, rule, "Run|second-pass", r.Pos(run.Pos()), "Run re-initialises the configuration before listing the packages (its error is covered by R09.1)", "RootApp.Run does not run RootConfig.Initialize before it reads the packages: what a recursive package pushed into a listed sub-package during the first pass never reaches that sub-package's listed interfaces, whose mocks are then rendered with the template-data of a less specific level")
}

// rulePkgConfigArg: the configuration the generator takes its file-level template-data (boilerplate,
// build tags, ...) from is the config of the package the file's mocks come from, not the root's.
func rulePkgConfigArg(c *Ctx, r *Repo, rule string) {
	cmdp := r.Pkg("internal/cmd")
	info := cmdp.TypesInfo
	run := FuncDecl(cmdp, "RootApp.Run")
	if run == nil {
		return
	}
	found := false
	inspectWithHelpers(cmdp, run, newFuncCanon(info, run), 2, func(fc *fcanon, _ *ast.FuncDecl, n ast.Node) bool {
		call, ok := n.(*ast.CallExpr)
		if !ok || calleeName(info, call) != modPath+"/internal.NewTemplateGenerator" {
			return true
		}
		sig := calleeFunc(info, call).Type().(*types.Signature)
		for i := 0; i < sig.Params().Len() && i < len(call.Args); i++ {
			if sig.Params().At(i).Name() != "pkgConfig" {
				continue
			}
			found = true
			cx := fc.E(call.Args[i])
			// GetPackageConfig(<the file's source package path>).Config or something read from the file's own collection
			good := strings.Contains(cx, "GetPackageConfig<(config.RootConfig).GetPackageConfig>(") && strings.HasSuffix(cx, "#0.Config") && strings.Contains(cx, "rangeval(") ||
				strings.HasPrefix(cx, "rangeval(") && strings.Contains(cx, "InterfaceCollection")
			c.Check(good, rule, "Run|generator-package-config", r.Pos(call.Args[i].Pos()), "file-level settings come from the config of the file's source package", "the generator's package config is "+cx+", not the config of the package the file's mocks come from: package-level template-data (boilerplate-file, mock-build-tags, ...) is ignored for the file")
		}
		return true
	})
	if !found {
		c.Fail(rule, "Run|generator-package-config", r.Pos(run.Pos()), "Run does not pass a package config to NewTemplateGenerator")
	}
}

// subRules runs rules of another property in a scratch context and re-reports their obligations
// under the given rule of this check (a violated necessary condition shared by several properties).
func subRules(c *Ctx, rule, label, why string, run func(sub *Ctx)) {
	sub := newCtx(c.Prop, c.Tier)
	sub.known = nil
	run(sub)
	for _, id := range sub.ruleList {
		for i := 0; i < sub.rules[id].Instances-countFails(sub, id); i++ {
			c.OK(rule, label+"|"+id, "", "holds")
		}
	}
	for _, k := range sub.failKeys {
		o := sub.fails[k]
		c.Fail(rule, label+"|"+o.Key, o.Pos, why+o.Detail)
	}
}

// siblingIndependence: what a built-in template renders for one mock depends on that mock's own
// data only. For shapes with several interfaces, the declarations rendered for the last interface
// are compared across all paths that agree on that interface's own decisions (its template-data
// flags, its constraints) and differ in the decisions about the interfaces rendered before it: the
// text must be identical. A template variable that is set for one mock and not reset for the next
// (state carried from one iteration of 'range .Interfaces' to the following) makes them differ.
type siblingIndependence struct {
	seen map[string]string // key -> rendering
	env  map[string]string // key -> environment of the first path
}

func newSiblingIndependence() *siblingIndependence {
	return &siblingIndependence{seen: map[string]string{}, env: map[string]string{}}
}

func (s *siblingIndependence) check(p *TPath) string {
	n := len(p.Shape.Ifaces)
	if n < 2 || p.Err != nil || p.ParseEr != nil || p.File == nil {
		return ""
	}
	last := n - 1
	L := ifaceLetter(last)
	own := func(k string) bool {
		// decision keys name the interface they are about as one of their ':'-separated parts
		// ("flag:iface:a:unroll-variadic", "explicit-constraint:a.q0")
		for _, part := range strings.Split(k, ":") {
			for j := 0; j < n; j++ {
				l := ifaceLetter(j)
				if part == l || strings.HasPrefix(part, l+".") {
					return j == last
				}
			}
		}
		return true // not about an interface (file-level data)
	}
	var ks []string
	for k, v := range p.E.keyed {
		if own(k) {
			ks = append(ks, fmt.Sprintf("%s=%v", k, v))
		}
	}
	sort.Strings(ks)
	key := p.Tmpl + "|" + p.Shape.String() + "|" + strings.Join(ks, ",")
	name := p.E.structName(last)
	var parts []string
	for _, d := range p.File.Decls {
		code := p.code(d)
		if strings.Contains(code, name) {
			parts = append(parts, code)
		}
	}
	rendering := strings.Join(parts, "\n")
	if prev, ok := s.seen[key]; ok {
		if prev != rendering {
			return fmt.Sprintf("the declarations rendered for mock %s (interface %s) differ between two files that give that interface the same data and differ only in the data of the mocks rendered before it: something is carried over from one mock of a file to the next [%s] vs [%s]", name, strings.ToUpper(L), s.env[key], p.Env())
		}
		return ""
	}
	s.seen[key] = rendering
	s.env[key] = p.Env()
	return ""
}
