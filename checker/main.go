// mvcheck decides structural necessary conditions of the mockery properties
// C01..C20 by static analysis of /repo's current working tree (Go packages via
// go/packages + go/types + go/cfg + go/ssa, and the parse trees of the
// built-in text/template programs). It executes no repository code.
package main

import (
	"encoding/json"
	"fmt"
	"os"
	"runtime/debug"
	"sort"
)

type propFn func(c *Ctx)

var props = map[string]propFn{}

func register(id string, fn propFn) { props[id] = fn }

func runProp(id, tier string, only *replayFilter) (code int) {
	fn, ok := props[id]
	if !ok {
		fmt.Printf("unknown property %s\n", id)
		return 2
	}
	c := newCtx(id, tier)
	c.only = only
	defer func() {
		if r := recover(); r != nil {
			// An analysis that cannot complete is never reported as "holds".
			c.only = nil
			c.Fail("internal", "analysis-aborted", "", fmt.Sprintf("%v\n%s", r, debug.Stack()))
			code = c.Finish()
			if code == 0 {
				code = 1
			}
		}
	}()
	fn(c)
	if tier == "thorough" && only == nil {
		selfTestInto(c)
	}
	return c.Finish()
}

func main() {
	args := os.Args[1:]
	if len(args) == 0 {
		usage()
	}
	tier := os.Getenv("VERIF_TIER")
	if tier == "" {
		tier = "quick"
	}
	var rest []string
	for i := 0; i < len(args); i++ {
		switch args[i] {
		case "--tier":
			i++
			tier = args[i]
		default:
			rest = append(rest, args[i])
		}
	}
	if tier != "quick" && tier != "thorough" {
		usage()
	}
	switch rest[0] {
	case "list":
		var ids []string
		for id := range props {
			ids = append(ids, id)
		}
		sort.Strings(ids)
		for _, id := range ids {
			fmt.Println(id)
		}
	case "replay":
		if len(rest) != 2 {
			usage()
		}
		b, err := os.ReadFile(rest[1])
		if err != nil {
			fmt.Println(err)
			os.Exit(2)
		}
		var v struct{ Property, Rule, Key, Tier string }
		if err := json.Unmarshal(b, &v); err != nil {
			fmt.Println(err)
			os.Exit(2)
		}
		if v.Tier != "" {
			tier = v.Tier
		}
		os.Exit(runProp(v.Property, tier, &replayFilter{v.Rule, v.Key}))
	case "selftest":
		os.Exit(selfTest(rest[1:]))
	default:
		code := 0
		for _, id := range rest {
			if rc := runProp(id, tier, nil); rc > code {
				code = rc
			}
		}
		os.Exit(code)
	}
}

func usage() {
	fmt.Println("usage: mvcheck <Cnn>... [--tier quick|thorough] | mvcheck replay <violation.json> | mvcheck selftest [Cnn...] | mvcheck list")
	os.Exit(2)
}
