package main

// Engine T, part 2: a path-sensitive abstract evaluator for text/template
// parse trees. It never calls text/template.Execute and imports nothing from
// the repository: it walks the parse tree, forks on predicates it cannot
// decide from the shape (template-data flags, opaque predicates) and records,
// for every emitted byte, which action node and which model element produced
// it.

import (
	"fmt"
	"strconv"
	"strings"
	"text/template/parse"
)

type Emit struct {
	Start, End int
	H          *Hole      // nil for template text
	Node       parse.Node // the text or action node
}

type Eval struct {
	sh   Shape
	tmpl string // template name
	tree *parse.Tree
	src  string

	vars  []map[string]tval
	out   strings.Builder
	emits []Emit
	holes int

	// oracle
	decis   []bool
	dpos    int
	dlabels []string
	keyed   map[string]bool

	imports    map[string]string // path -> qualifier
	importDecl map[string]string // path -> package name
	scopes     map[string]map[string]bool
	flagsSeen  map[string]bool
	funcsUsed  map[string]bool
	steps      int
	fixed      map[string]bool // decisions pinned by the exploration mode (key -> value)
}

func newEval(tree *parse.Tree, tmplName string, sh Shape, decis []bool) *Eval {
	e := &Eval{sh: sh, tmpl: tmplName, tree: tree, decis: append([]bool{}, decis...), keyed: map[string]bool{},
		imports: map[string]string{}, importDecl: map[string]string{}, scopes: map[string]map[string]bool{},
		flagsSeen: map[string]bool{}, funcsUsed: map[string]bool{}}
	for _, p := range e.baseImports() {
		e.imports[p] = importNames[p]
		e.importDecl[p] = importNames[p]
	}
	return e
}

// decide asks the oracle for the next undetermined boolean.
func (e *Eval) decide(label string) bool {
	if e.dpos < len(e.decis) {
		v := e.decis[e.dpos]
		if e.dpos >= len(e.dlabels) {
			e.dlabels = append(e.dlabels, label)
		}
		e.dpos++
		return v
	}
	e.decis = append(e.decis, false)
	e.dlabels = append(e.dlabels, label)
	e.dpos++
	return false
}

// decideKey: one decision per key and path (an opaque predicate on the same
// abstract object is decided once).
func (e *Eval) decideKey(key, label string) bool {
	if v, ok := e.keyed[key]; ok {
		return v
	}
	if v, ok := e.fixed[key]; ok {
		e.keyed[key] = v
		return v
	}
	v := e.decide(label)
	e.keyed[key] = v
	return v
}

func (e *Eval) flag(o *obj, key string) tval {
	k := "flag:" + o.id + ":" + key
	e.flagsSeen[o.id+":"+key] = true
	if !e.decideKey(k, "template-data["+o.id+"]["+key+"] set") {
		return Nil{}
	}
	switch key {
	case "boilerplate-file":
		return e.hole("tdata."+key, "tdata:"+o.id, "/path/to/boilerplate.txt")
	case "mock-build-tags":
		return e.hole("tdata."+key, "tdata:"+o.id, "tagx && !tagy")
	}
	return true
}

func (e *Eval) Flags() map[string]bool {
	out := map[string]bool{}
	for k, v := range e.keyed {
		if strings.HasPrefix(k, "flag:") {
			out[strings.TrimPrefix(k, "flag:")] = v
		}
	}
	return out
}

func (e *Eval) Flag(scope, key string) bool { return e.keyed["flag:"+scope+":"+key] }

func (e *Eval) hole(expr, elem, text string) *SV {
	e.holes++
	return &SV{[]Seg{{Text: text, H: &Hole{ID: e.holes, Expr: expr, Elem: elem, Text: text}}}}
}

func valString(v tval) string {
	switch x := v.(type) {
	case string:
		return x
	case *SV:
		return x.String()
	case int:
		return strconv.Itoa(x)
	case bool:
		return strconv.FormatBool(x)
	}
	return fmt.Sprint(v)
}

func (e *Eval) push()                   { e.vars = append(e.vars, map[string]tval{}) }
func (e *Eval) pop()                    { e.vars = e.vars[:len(e.vars)-1] }
func (e *Eval) declare(n string, v tval) { e.vars[len(e.vars)-1][n] = v }
func (e *Eval) assign(n string, v tval) error {
	for i := len(e.vars) - 1; i >= 0; i-- {
		if _, ok := e.vars[i][n]; ok {
			e.vars[i][n] = v
			return nil
		}
	}
	return fmt.Errorf("undefined variable: %s", n)
}
func (e *Eval) lookup(n string) (tval, error) {
	for i := len(e.vars) - 1; i >= 0; i-- {
		if v, ok := e.vars[i][n]; ok {
			return v, nil
		}
	}
	return nil, fmt.Errorf("undefined variable: %s", n)
}

type evalErr struct {
	node parse.Node
	err  error
}

func (e *Eval) nodePos(n parse.Node) string {
	if n == nil {
		return e.tmpl
	}
	off := int(n.Position())
	if off > len(e.src) {
		off = len(e.src)
	}
	line := 1 + strings.Count(e.src[:off], "\n")
	return fmt.Sprintf("internal/mock_%s.templ:%d", e.tmpl, line)
}

// Run evaluates the whole template; the error (if any) is a template
// execution error or an unmodelled construct on this path.
func (e *Eval) Run() (err *evalErr) {
	defer func() {
		if r := recover(); r != nil {
			if ee, ok := r.(*evalErr); ok {
				err = ee
				return
			}
			panic(r)
		}
	}()
	e.push()
	data := &obj{kind: "data", id: "data"}
	e.declare("$", data)
	e.walk(e.tree.Root, data)
	return nil
}

func (e *Eval) fail(n parse.Node, format string, a ...any) {
	panic(&evalErr{n, fmt.Errorf(format, a...)})
}

func (e *Eval) emitText(n parse.Node, s string, h *Hole) {
	st := e.out.Len()
	e.out.WriteString(s)
	e.emits = append(e.emits, Emit{Start: st, End: e.out.Len(), H: h, Node: n})
}

func (e *Eval) emitVal(n parse.Node, v tval) {
	switch x := v.(type) {
	case string:
		e.emitText(n, x, nil)
	case int:
		e.emitText(n, strconv.Itoa(x), nil)
	case bool:
		e.emitText(n, strconv.FormatBool(x), nil)
	case *SV:
		for _, g := range x.Segs {
			e.emitText(n, g.Text, g.H)
		}
	case Nil, nil:
		e.emitText(n, "<no value>", nil)
	default:
		e.fail(n, "cannot print value of type %T", v)
	}
}

func (e *Eval) walk(n parse.Node, dot tval) {
	e.steps++
	if e.steps > 200000 {
		e.fail(n, "evaluation step budget exceeded")
	}
	switch x := n.(type) {
	case *parse.ListNode:
		if x == nil {
			return
		}
		for _, c := range x.Nodes {
			e.walk(c, dot)
		}
	case *parse.TextNode:
		e.emitText(x, string(x.Text), nil)
	case *parse.CommentNode:
	case *parse.ActionNode:
		v := e.pipe(x.Pipe, dot)
		if len(x.Pipe.Decl) == 0 {
			e.emitVal(x, v)
		}
	case *parse.IfNode:
		e.push()
		if e.truth(x, e.pipe(x.Pipe, dot)) {
			e.walk(x.List, dot)
		} else if x.ElseList != nil {
			e.walk(x.ElseList, dot)
		}
		e.pop()
	case *parse.WithNode:
		e.push()
		v := e.pipe(x.Pipe, dot)
		if e.truth(x, v) {
			e.walk(x.List, v)
		} else if x.ElseList != nil {
			e.walk(x.ElseList, dot)
		}
		e.pop()
	case *parse.RangeNode:
		e.push()
		v := e.pipeValue(x.Pipe, dot)
		var elems []tval
		switch l := v.(type) {
		case *List:
			elems = l.Elems
		case int:
			for i := 0; i < l; i++ {
				elems = append(elems, i)
			}
		case Nil, nil:
		default:
			e.fail(x, "range can't iterate over %T (%s)", v, x.Pipe)
		}
		for i, el := range elems {
			e.push()
			switch len(x.Pipe.Decl) {
			case 1:
				e.declare(x.Pipe.Decl[0].Ident[0], el)
			case 2:
				e.declare(x.Pipe.Decl[0].Ident[0], i)
				e.declare(x.Pipe.Decl[1].Ident[0], el)
			}
			e.walk(x.List, el)
			e.pop()
		}
		if len(elems) == 0 && x.ElseList != nil {
			e.walk(x.ElseList, dot)
		}
		e.pop()
	case *parse.TemplateNode:
		// {{template "name" pipeline}}: the associated template runs with dot (and $) bound to the
		// pipeline's value, in a variable scope of its own
		sub := templateTrees[e.tmpl][x.Name]
		if sub == nil || sub.Root == nil {
			e.fail(n, "template %q is not defined", x.Name)
			return
		}
		var v tval = Nil{}
		if x.Pipe != nil {
			v = e.pipeValue(x.Pipe, dot)
		}
		saved := e.vars
		e.vars = []map[string]tval{{"$": v}}
		e.walk(sub.Root, v)
		e.vars = saved
	default:
		e.fail(n, "unmodelled template node %T", n)
	}
}

// templateTrees: per built-in template, every tree its file defines ({{define}} blocks included).
var templateTrees = map[string]map[string]*parse.Tree{}

func (e *Eval) truth(n parse.Node, v tval) bool {
	switch x := v.(type) {
	case bool:
		return x
	case int:
		return x != 0
	case string:
		return x != ""
	case *SV:
		return x.String() != ""
	case *List:
		return len(x.Elems) > 0
	case Nil, nil:
		return false
	case *obj:
		return true
	}
	e.fail(n, "truth of %T", v)
	return false
}

// pipeValue evaluates a pipeline without binding its declarations.
func (e *Eval) pipeValue(p *parse.PipeNode, dot tval) tval {
	var v tval
	for i, c := range p.Cmds {
		v = e.cmd(c, dot, v, i > 0)
	}
	return v
}

func (e *Eval) pipe(p *parse.PipeNode, dot tval) tval {
	v := e.pipeValue(p, dot)
	for _, d := range p.Decl {
		if p.IsAssign {
			if err := e.assign(d.Ident[0], v); err != nil {
				e.fail(p, "%v", err)
			}
		} else {
			e.declare(d.Ident[0], v)
		}
	}
	return v
}

func (e *Eval) arg(n parse.Node, dot tval) tval {
	switch x := n.(type) {
	case *parse.DotNode:
		return dot
	case *parse.FieldNode:
		return e.chain(x, dot, x.Ident, nil)
	case *parse.VariableNode:
		v, err := e.lookup(x.Ident[0])
		if err != nil {
			e.fail(x, "%v", err)
		}
		return e.chain(x, v, x.Ident[1:], nil)
	case *parse.ChainNode:
		return e.chain(x, e.arg(x.Node, dot), x.Field, nil)
	case *parse.StringNode:
		return x.Text
	case *parse.NumberNode:
		if !x.IsInt {
			e.fail(x, "unmodelled non-integer number %s", x.Text)
		}
		return int(x.Int64)
	case *parse.BoolNode:
		return x.True
	case *parse.PipeNode:
		return e.pipe(x, dot)
	case *parse.NilNode:
		return Nil{}
	case *parse.IdentifierNode:
		return e.fn(x, x.Ident, nil, nil, dot)
	}
	e.fail(n, "unmodelled argument node %T", n)
	return nil
}

func (e *Eval) cmd(c *parse.CommandNode, dot tval, piped tval, hasPiped bool) tval {
	first := c.Args[0]
	if id, ok := first.(*parse.IdentifierNode); ok {
		// and/or evaluate their arguments lazily
		return e.fn(c, id.Ident, c.Args[1:], pipedArg(piped, hasPiped), dot)
	}
	var args []tval
	for _, a := range c.Args[1:] {
		args = append(args, e.arg(a, dot))
	}
	if hasPiped {
		args = append(args, piped)
	}
	switch x := first.(type) {
	case *parse.FieldNode:
		return e.chain(x, dot, x.Ident, args)
	case *parse.VariableNode:
		v, err := e.lookup(x.Ident[0])
		if err != nil {
			e.fail(x, "%v", err)
		}
		if len(x.Ident) == 1 && len(args) > 0 {
			e.fail(c, "can't give argument to non-function %s", x)
		}
		return e.chain(x, v, x.Ident[1:], args)
	case *parse.ChainNode:
		return e.chain(x, e.arg(x.Node, dot), x.Field, args)
	}
	if len(args) > 0 {
		e.fail(c, "can't give argument to non-function %s", first)
	}
	return e.arg(first, dot)
}

type pipedVal struct{ v tval }

func pipedArg(v tval, has bool) *pipedVal {
	if !has {
		return nil
	}
	return &pipedVal{v}
}

func (e *Eval) chain(n parse.Node, v tval, fields []string, args []tval) tval {
	for i, f := range fields {
		var a []tval
		if i == len(fields)-1 {
			a = args
		}
		r, err := e.field(v, f, a)
		if err != nil {
			e.fail(n, "%v", err)
		}
		v = r
	}
	return v
}

func isTrueVal(v tval) bool {
	switch x := v.(type) {
	case bool:
		return x
	case int:
		return x != 0
	case string:
		return x != ""
	case *SV:
		return x.String() != ""
	case *List:
		return len(x.Elems) > 0
	case Nil, nil:
		return false
	}
	return true
}

// derived builds the result of a string function applied to a value, keeping provenance.
func (e *Eval) derived(fn string, src tval, text string) tval {
	if sv, ok := src.(*SV); ok {
		for _, g := range sv.Segs {
			if g.H != nil {
				return e.hole(fn+"("+g.H.Expr+")", g.H.Elem, text)
			}
		}
	}
	return text
}

func (e *Eval) fn(n parse.Node, name string, argNodes []parse.Node, piped *pipedVal, dot tval) tval {
	e.funcsUsed[name] = true
	if name == "and" || name == "or" {
		var last tval
		cnt := 0
		for _, a := range argNodes {
			last = e.arg(a, dot)
			cnt++
			if isTrueVal(last) == (name == "or") {
				return last
			}
		}
		if piped != nil {
			last = piped.v
			cnt++
		}
		if cnt == 0 {
			e.fail(n, "%s needs arguments", name)
		}
		return last
	}
	var args []tval
	for _, a := range argNodes {
		args = append(args, e.arg(a, dot))
	}
	if piped != nil {
		args = append(args, piped.v)
	}
	need := func(k int) {
		if len(args) != k {
			e.fail(n, "wrong number of args for %s: want %d got %d", name, k, len(args))
		}
	}
	atLeast := func(k int) {
		if len(args) < k {
			e.fail(n, "wrong number of args for %s: want at least %d got %d", name, k, len(args))
		}
	}
	intArg := func(i int) int {
		v, ok := args[i].(int)
		if !ok {
			e.fail(n, "%s: argument %d is %T, want int", name, i, args[i])
		}
		return v
	}
	strArg := func(i int) string {
		switch args[i].(type) {
		case string, *SV:
			return valString(args[i])
		}
		e.fail(n, "%s: argument %d is %T, want string", name, i, args[i])
		return ""
	}
	switch name {
	case "not":
		need(1)
		return !isTrueVal(args[0])
	case "len":
		need(1)
		switch x := args[0].(type) {
		case *List:
			return len(x.Elems)
		case string:
			return len(x)
		case *SV:
			return len(x.String())
		}
		e.fail(n, "len of %T", args[0])
	case "index":
		atLeast(1)
		v := args[0]
		for _, k := range args[1:] {
			switch x := v.(type) {
			case *obj:
				if x.kind != "tdata" {
					e.fail(n, "can't index %s", x.kind)
				}
				v = e.flag(x, valString(k))
			case *List:
				i, ok := k.(int)
				if !ok {
					e.fail(n, "index of list with %T", k)
				}
				if i < 0 || i >= len(x.Elems) {
					e.fail(n, "template error: index out of range: %d (len %d) in %s", i, len(x.Elems), n)
				}
				v = x.Elems[i]
			case Nil, nil:
				e.fail(n, "template error: index of untyped nil")
			default:
				e.fail(n, "can't index item of type %T", v)
			}
		}
		return v
	case "slice":
		atLeast(1)
		l, ok := args[0].(*List)
		if !ok {
			e.fail(n, "slice of %T unmodelled", args[0])
		}
		lo, hi := 0, len(l.Elems)
		if len(args) > 1 {
			lo = intArg(1)
		}
		if len(args) > 2 {
			hi = intArg(2)
		}
		if lo < 0 || hi > len(l.Elems) || lo > hi {
			e.fail(n, "template error: slice bounds out of range [%d:%d] (len %d)", lo, hi, len(l.Elems))
		}
		return &List{Kind: l.Kind, Elems: l.Elems[lo:hi]}
	case "eq", "ne", "lt", "le", "gt", "ge":
		atLeast(2)
		cmp2 := func(a, b tval) (int, bool) {
			ai, aok := a.(int)
			bi, bok := b.(int)
			if aok && bok {
				switch {
				case ai < bi:
					return -1, true
				case ai > bi:
					return 1, true
				}
				return 0, true
			}
			ab, aok := a.(bool)
			bb, bok := b.(bool)
			if aok && bok {
				if ab == bb {
					return 0, true
				}
				return 1, name == "eq" || name == "ne"
			}
			switch a.(type) {
			case string, *SV:
				switch b.(type) {
				case string, *SV:
					return strings.Compare(valString(a), valString(b)), true
				}
			}
			return 0, false
		}
		if name == "eq" {
			for _, b := range args[1:] {
				c, ok := cmp2(args[0], b)
				if !ok {
					e.fail(n, "template error: incompatible types for comparison in %s", n)
				}
				if c == 0 {
					return true
				}
			}
			return false
		}
		need(2)
		c, ok := cmp2(args[0], args[1])
		if !ok {
			e.fail(n, "template error: incompatible types for comparison in %s", n)
		}
		switch name {
		case "ne":
			return c != 0
		case "lt":
			return c < 0
		case "le":
			return c <= 0
		case "gt":
			return c > 0
		}
		return c >= 0
	case "printf":
		atLeast(1)
		f := strArg(0)
		out := &SV{}
		rest := args[1:]
		for {
			i := strings.IndexByte(f, '%')
			if i < 0 || i+1 >= len(f) {
				out.Segs = append(out.Segs, Seg{Text: f})
				break
			}
			out.Segs = append(out.Segs, Seg{Text: f[:i]})
			verb := f[i+1]
			f = f[i+2:]
			if verb == '%' {
				out.Segs = append(out.Segs, Seg{Text: "%"})
				continue
			}
			if verb != 's' && verb != 'v' && verb != 'd' {
				e.fail(n, "unmodelled printf verb %%%c", verb)
			}
			if len(rest) == 0 {
				out.Segs = append(out.Segs, Seg{Text: "%!" + string(verb) + "(MISSING)"})
				continue
			}
			switch x := rest[0].(type) {
			case *SV:
				out.Segs = append(out.Segs, x.Segs...)
			default:
				out.Segs = append(out.Segs, Seg{Text: valString(x)})
			}
			rest = rest[1:]
		}
		if len(rest) > 0 {
			out.Segs = append(out.Segs, Seg{Text: "%!(EXTRA)"})
		}
		return out
	case "print":
		out := &SV{}
		for _, a := range args {
			if sv, ok := a.(*SV); ok {
				out.Segs = append(out.Segs, sv.Segs...)
			} else {
				out.Segs = append(out.Segs, Seg{Text: valString(a)})
			}
		}
		return out
	// ---- the repository's function map (own model of the documented semantics) ----
	case "add", "mul":
		atLeast(1)
		r := intArg(0)
		for i := 1; i < len(args); i++ {
			if name == "add" {
				r += intArg(i)
			} else {
				r *= intArg(i)
			}
		}
		return r
	case "sub":
		atLeast(1)
		r := intArg(0)
		for i := 1; i < len(args); i++ {
			r -= intArg(i)
		}
		return r
	case "incr":
		need(1)
		return intArg(0) + 1
	case "decr":
		need(1)
		return intArg(0) - 1
	case "exported":
		need(1)
		return e.derived(name, args[0], capFirst(strArg(0)))
	case "firstUpper":
		need(1)
		return e.derived(name, args[0], capFirst(strArg(0)))
	case "firstLower":
		need(1)
		return e.derived(name, args[0], lowFirst(strArg(0)))
	case "firstIsLower":
		need(1)
		s := strArg(0)
		return s != "" && s[0] >= 'a' && s[0] <= 'z'
	case "lower":
		need(1)
		return e.derived(name, args[0], strings.ToLower(strArg(0)))
	case "upper":
		need(1)
		return e.derived(name, args[0], strings.ToUpper(strArg(0)))
	case "trimPrefix":
		need(2)
		return e.derived(name, args[1], strings.TrimPrefix(strArg(1), strArg(0)))
	case "trimSuffix":
		need(2)
		return e.derived(name, args[1], strings.TrimSuffix(strArg(1), strArg(0)))
	case "trimSpace":
		need(1)
		return e.derived(name, args[0], strings.TrimSpace(strArg(0)))
	case "contains":
		need(2)
		return strings.Contains(strArg(1), strArg(0))
	case "hasPrefix":
		need(2)
		return strings.HasPrefix(strArg(1), strArg(0))
	case "hasSuffix":
		need(2)
		return strings.HasSuffix(strArg(1), strArg(0))
	case "replaceAll":
		need(3)
		return e.derived(name, args[2], strings.ReplaceAll(strArg(2), strArg(0), strArg(1)))
	case "readFile":
		need(1)
		if strArg(0) == "" {
			return ""
		}
		// a comment-only boilerplate text; whether it ends in a newline is a path decision
		txt := "// BOILERPLATE line 1\n// BOILERPLATE line 2"
		if e.decideKey("boilerplate-trailing-newline", "boilerplate file ends with a newline") {
			txt += "\n"
		}
		return e.derived(name, args[0], txt)
	}
	e.fail(n, "unmodelled template function %q", name)
	return nil
}
