package main

import (
	"fmt"
	"go/ast"
	"go/token"
	"go/types"
	"os"
	"strings"

	"golang.org/x/tools/go/packages"
)

func init() { register("C02", checkC02) }

func checkC02(c *Ctx) {
	c.Explanation = `R02.3 (both templates, every path of engine T): the skeleton is type-checked together with a source interface generated from the shape alone, and for every interface a probe 'var _ Src.I[targs] = (*Mock[targs])(nil)' must type-check (assignability decided by go/types: every method present once, identical parameter types, variadic-ness and result types); the mock struct is declared exactly once per interface; each mock method's name, parameter list and result list come raw from that method's .Name/.ArgList/.ReturnArgTypeList (no function applied);
R02.5 (matryer) the compile-time ensure line exists iff skip-ensure is unset, at file level, for the same interface and mock;
R02.1 (Go) TemplateGenerator.Generate takes the method set from the completed underlying interface of the name looked up in the source package's scope (Registry.LookupInterface) and walks it with NumMethods/Method(i) into methods[i]; the Explicit*/Embedded* API is not used to assemble methods;
R02.2 (Go) methodData transfers parameters from signature.Params() and results from signature.Results(), index for index, sets Variadic exactly for the last parameter of a variadic signature and never for results, and builds Method{Name: method.Name(), Params, Returns} uncrossed;
R02.7 (Go) the import walk over a parameter's type visits every component type of every go/types constructor (shared with C01 R01.1);
R02.4 (Go) interface discovery does not descend into function bodies (FuncDecl and FuncLit) so a function-local type can never alias a package-level interface, and the scope lookup of a discovered name is nil-checked.`
	c.NotDecided = "identity of rendered type strings with the source types (C14/C01 cover the accessor and import side); admissible type-argument tuples beyond the interface's own type parameters; shapes beyond the tier bound."
	c.Assumptions = []string{"go/types assignability", "engine T's accessor table (C14)"}
	c.Rule("R02.0", 500, "")
	c.Rule("R02.3", 1000, "")
	c.Rule("R02.5", 300, "")
	c.Rule("R02.1", 5, "")
	c.Rule("R02.2", 5, "")
	c.Rule("R02.4", 3, "")

	for _, name := range []string{"testify", "matryer"} {
		tname := name
		walkTemplate(c, name, "body", func(p *TPath) {
			env := " [" + p.Env() + "]"
			switch {
			case p.Err != nil:
				c.Fail("R02.0", tname+"|eval|"+p.Err.err.Error(), p.E.nodePos(p.Err.node), "template path cannot be evaluated: "+p.Err.err.Error()+env)
				return
			case p.ParseEr != nil:
				c.Fail("R02.0", tname+"|parse", "", "skeleton does not parse: "+p.ParseEr.Error()+env)
				return
			}
			c.OK("R02.0", tname, "", "")
			// probe and duplicate-declaration errors
			bad := false
			for i, te := range p.rawErrs {
				file := p.Fset.Position(te.Pos).Filename
				msg := p.TypeErr[i]
				if file == "env_local.go" || strings.Contains(msg, "redeclared") || strings.Contains(msg, "already declared") || strings.Contains(msg, "missing method") || strings.Contains(msg, "does not implement") {
					if strings.Contains(msg, "undefined: srcpkg") {
						continue // the source package import is C01's (R01.2) concern
					}
					bad = true
					c.Fail("R02.3", tname+"|"+msg, p.TmplPos(te.Pos), "the mock does not implement its interface exactly: "+te.Msg+env)
				}
			}
			// provenance of the mock methods' signatures
			mts := p.mockTypes()
			for ii, is := range p.Shape.Ifaces {
				if _, ok := mts[ii]; !ok {
					bad = true
					c.Fail("R02.3", tname+"|no-mock-struct", "", "no struct type declared for interface "+ifaceLetter(ii)+env)
				}
				nDecl := 0
				for _, d := range p.File.Decls {
					if gd, ok := d.(*ast.GenDecl); ok && gd.Tok == token.TYPE {
						for _, s := range gd.Specs {
							if s.(*ast.TypeSpec).Name.Name == p.E.structName(ii) {
								nDecl++
							}
						}
					}
				}
				if nDecl != 1 {
					bad = true
					c.Fail("R02.3", tname+"|mock-struct-count", "", fmt.Sprintf("the mock struct of interface %s is declared %d times%s", ifaceLetter(ii), nDecl, env))
				}
				seen := make([]int, len(is.Methods))
				for _, d := range p.File.Decls {
					fd, ok := d.(*ast.FuncDecl)
					if !ok || fd.Recv == nil || recvTypeName(fd.Recv.List[0].Type) != p.E.structName(ii) {
						continue
					}
					el := p.elemOf(fd.Name)
					if !strings.HasPrefix(el, ifaceLetter(ii)+".m") || p.fixedText(fd.Name) != "{}" {
						continue
					}
					mi := 0
					fmt.Sscanf(el[len(ifaceLetter(ii))+2:], "%d", &mi)
					seen[mi]++
					for _, h := range p.holesIn(fd.Name) {
						if h.Expr != "method.Name" {
							bad = true
							c.Fail("R02.3", tname+"|method-name-derived", p.TmplPos(fd.Name.Pos()), fmt.Sprintf("the mock method's name is rendered through %s instead of the raw method name: names that the function changes (e.g. unexported or initialism-like names) no longer match the interface%s", h.Expr, env))
						}
					}
					var sigHoles []*Hole
					sigHoles = append(sigHoles, p.holesIn(fd.Type.Params)...)
					if fd.Type.Results != nil {
						sigHoles = append(sigHoles, p.holesIn(fd.Type.Results)...)
					}
					for _, h := range sigHoles {
						switch h.Expr {
						case "method.ArgList", "method.ReturnArgTypeList", "method.ReturnArgList", "method.Signature":
						default:
							if strings.Contains(h.Expr, "(") && !strings.HasPrefix(h.Expr, "method.") {
								bad = true
								c.Fail("R02.3", tname+"|signature-derived", p.TmplPos(fd.Type.Pos()), fmt.Sprintf("the mock method's signature contains %s%s", h.Expr, env))
							}
						}
					}
				}
				for mi, n := range seen {
					if n != 1 {
						bad = true
						c.Fail("R02.3", tname+"|method-count", "", fmt.Sprintf("interface method %s.m%d is implemented %d times on the mock struct%s", ifaceLetter(ii), mi, n, env))
					}
				}
			}
			if !bad {
				for range p.Shape.Ifaces {
					c.OK("R02.3", tname, "", "probe type-checks"+env)
				}
			}
			if tname == "matryer" {
				matryerEnsureLine(c, p)
			}
		})
	}
	r := loadRepo(c, packages.LoadSyntax, "", "./internal", "./template")
	goC02(c, r)
	ruleTypeParams(c, r, "R02.2") // generic interfaces: the mock declares exactly the interface's type parameters
	accessorTableGuard(c, "R02.6")
	// R02.7: the mock's signature is the interface's only if every package a parameter or result type mentions
	// is registered under its qualifier: the exhaustive import walk (C01 R01.1) is a necessary condition here
	// too (a map key's package left out renders map[pkg.K]V as map[K]V, which is another type or none)
	c.Rule("R02.7", 10, "the import walk visits every component of every type constructor (C01 rule R01.1)")
	rw := loadRepo(c, packages.LoadSyntax, "", "./template", "go/types")
	subRules(c, "R02.7", "type-walk", "a parameter type is rendered as written in the source only if every package it mentions was registered: ", func(sub *Ctx) { goR011(sub, rw) })
	// .. and only if no parameter of the same method is named like a qualifier its types use: every qualifier of
	// the file is a taken name in every method scope (C15 rules R15.3/R15.4; round 6: a parameter `context`
	// next to context.Context made the mock's method signature refer to the parameter)
	subRules(c, "R02.7", "qualifier-names", "a parameter type keeps its meaning only if no parameter name shadows a qualifier: ", func(sub *Ctx) {
		rt := loadRepo(sub, packages.LoadSyntax, "", "./template")
		sub.Rule("R15.1", 0, "")
		sub.Rule("R15.2", 0, "")
		sub.Rule("R15.3", 0, "")
		sub.Rule("R15.4", 0, "")
		ruleNameAllocators(sub, rt, "R15.1", "R15.2", "R15.3")
		ruleAddImport(sub, rt, "R15.4")
	})
}

func matryerEnsureLine(c *Ctx, p *TPath) {
	env := " [" + p.Env() + "]"
	for ii := range p.Shape.Ifaces {
		skip := p.E.Flag("iface:"+ifaceLetter(ii), "skip-ensure")
		n := 0
		for _, d := range p.File.Decls {
			gd, ok := d.(*ast.GenDecl)
			if !ok || gd.Tok != token.VAR {
				continue
			}
			for _, s := range gd.Specs {
				vs := s.(*ast.ValueSpec)
				if len(vs.Names) != 1 || vs.Names[0].Name != "_" || vs.Type == nil || len(vs.Values) != 1 {
					continue
				}
				if !strings.Contains(p.code(vs.Type), p.E.ifaceName(ii)) {
					continue
				}
				ue, ok := vs.Values[0].(*ast.UnaryExpr)
				if !ok || ue.Op != token.AND {
					continue
				}
				cl, ok := ue.X.(*ast.CompositeLit)
				if !ok || recvTypeName(cl.Type) != p.E.structName(ii) {
					continue
				}
				n++
			}
		}
		want := 1
		if skip {
			want = 0
		}
		if n == want {
			c.OK("R02.5", "matryer|ensure", "", fmt.Sprintf("skip-ensure=%v ensure lines=%d", skip, n))
		} else {
			c.Fail("R02.5", "matryer|ensure-presence", "internal/mock_matryer.templ", fmt.Sprintf("interface %s: %d ensure line(s) 'var _ I = &Mock{}' with skip-ensure=%v, want %d%s", ifaceLetter(ii), n, skip, want, env))
		}
	}
}

// ---------------- Go side ----------------

func isTypesInterfacePtr(t types.Type) bool {
	p, ok := t.(*types.Pointer)
	if !ok {
		return false
	}
	n, ok := p.Elem().(*types.Named)
	return ok && n.Obj().Pkg() != nil && n.Obj().Pkg().Path() == "go/types" && n.Obj().Name() == "Interface"
}

func goC02(c *Ctx, r *Repo) {
	ip := r.Pkg("internal")
	tp := r.Pkg("template")
	info := ip.TypesInfo

	// ---- R02.1
	gen := FuncDecl(ip, "TemplateGenerator.Generate")
	if gen == nil {
		c.Fail("R02.1", "Generate|missing", "internal/template_generator.go", "TemplateGenerator.Generate not found")
	} else {
		c.Func(funcKey(ip, gen))
		// the per-interface work may sit in a private helper of Generate: the function of Generate's family
		// that calls LookupInterface is the one examined
		entry := gen
		for _, g := range familyOf(ip, gen) {
			ast.Inspect(g.Body, func(n ast.Node) bool {
				if call, ok := n.(*ast.CallExpr); ok && calleeName(info, call) == "("+modPath+"/template.Registry).LookupInterface" {
					gen = g
				}
				return true
			})
		}
		if gen != entry {
			c.Func(funcKey(ip, gen))
		}
		var ifaceObj types.Object
		ast.Inspect(gen.Body, func(n ast.Node) bool {
			as, ok := n.(*ast.AssignStmt)
			if !ok || len(as.Rhs) != 1 {
				return true
			}
			call, ok := as.Rhs[0].(*ast.CallExpr)
			if ok && calleeName(info, call) == "("+modPath+"/template.Registry).LookupInterface" && len(as.Lhs) >= 1 {
				if id, ok := as.Lhs[0].(*ast.Ident); ok {
					ifaceObj = objOf(info, id)
				}
			}
			return true
		})
		if ifaceObj == nil {
			c.Fail("R02.1", "Generate|lookup", r.Pos(gen.Pos()), "Generate does not obtain the interface from Registry.LookupInterface")
		} else {
			c.OK("R02.1", "Generate|lookup", r.Pos(gen.Pos()), "iface := registry.LookupInterface(name)")
		}
		// every call on a *types.Interface inside Generate: only NumMethods/Method, on ifaceObj
		nCalls := 0
		ast.Inspect(gen.Body, func(n ast.Node) bool {
			call, ok := n.(*ast.CallExpr)
			if !ok {
				return true
			}
			sel, ok := call.Fun.(*ast.SelectorExpr)
			if !ok || !isTypesInterfacePtr(info.TypeOf(sel.X)) {
				return true
			}
			nCalls++
			id, _ := sel.X.(*ast.Ident)
			switch sel.Sel.Name {
			case "NumMethods", "Method":
				if id == nil || info.Uses[id] != ifaceObj {
					c.Fail("R02.1", "Generate|other-interface", r.Pos(call.Pos()), "method set walked on "+types.ExprString(sel.X)+", not on the interface returned by LookupInterface")
				} else {
					c.OK("R02.1", "Generate|"+sel.Sel.Name, r.Pos(call.Pos()), types.ExprString(call))
				}
			default:
				c.Fail("R02.1", "Generate|explicit-api|"+sel.Sel.Name, r.Pos(call.Pos()), fmt.Sprintf("Generate assembles methods with (*types.Interface).%s; only the complete method set (NumMethods/Method) lists each method exactly once across embeddings", sel.Sel.Name))
			}
			return true
		})
		// the loop: for i := 0; i < iface.NumMethods(); i++ { methodData(ctx, iface.Method(i), ..); methods[i] = .. }
		okLoop := false
		ast.Inspect(gen.Body, func(n ast.Node) bool {
			st, ok := n.(ast.Stmt)
			if !ok {
				return true
			}
			iv, bound, body, ok := indexLoopIn(info, gen, st)
			if !ok {
				return true
			}
			fs := struct{ Body *ast.BlockStmt }{body}
			bc, ok := bound.(*ast.CallExpr)
			if !ok {
				return true
			}
			bs, ok := bc.Fun.(*ast.SelectorExpr)
			if !ok || bs.Sel.Name != "NumMethods" {
				return true
			}
			if id, ok := bs.X.(*ast.Ident); !ok || info.Uses[id] != ifaceObj {
				return true
			}
			// body: a call methodData(_, iface.Method(i), _) and a store X[i] = result
			var resObj types.Object
			callOK, storeOK := false, false
			ast.Inspect(fs.Body, func(m ast.Node) bool {
				switch x := m.(type) {
				case *ast.AssignStmt:
					if len(x.Rhs) == 1 {
						if call, ok := x.Rhs[0].(*ast.CallExpr); ok && calleeName(info, call) == "("+modPath+"/internal.TemplateGenerator).methodData" && len(call.Args) >= 2 {
							if mc, ok := call.Args[1].(*ast.CallExpr); ok {
								if ms, ok := mc.Fun.(*ast.SelectorExpr); ok && ms.Sel.Name == "Method" && len(mc.Args) == 1 {
									if rid, ok := ms.X.(*ast.Ident); ok && info.Uses[rid] == ifaceObj {
										if ai, ok := mc.Args[0].(*ast.Ident); ok && info.Uses[ai] == iv {
											callOK = true
											if id, ok := x.Lhs[0].(*ast.Ident); ok {
												resObj = objOf(info, id)
											}
											// or stored directly: X[i], err = methodData(..)
											if ie, ok := x.Lhs[0].(*ast.IndexExpr); ok {
												if ii, ok := ie.Index.(*ast.Ident); ok && info.Uses[ii] == iv {
													storeOK = true
												}
											}
										}
									}
								}
							}
						}
						if ie, ok := x.Lhs[0].(*ast.IndexExpr); ok && len(x.Lhs) == 1 {
							if ii, ok := ie.Index.(*ast.Ident); ok && info.Uses[ii] == iv {
								if rv, ok := x.Rhs[0].(*ast.Ident); ok && resObj != nil && info.Uses[rv] == resObj {
									storeOK = true
								}
							}
						}
					}
				}
				return true
			})
			if callOK && storeOK {
				okLoop = true
			}
			return true
		})
		if okLoop {
			c.OK("R02.1", "Generate|method-loop", r.Pos(gen.Pos()), "for i < iface.NumMethods(): methods[i] = methodData(iface.Method(i))")
		} else {
			c.Fail("R02.1", "Generate|method-loop", r.Pos(gen.Pos()), "Generate has no loop 'for i := 0; i < iface.NumMethods(); i++' that stores methodData(iface.Method(i)) at methods[i]")
		}
		_ = nCalls
	}
	// LookupInterface: Complete() of Underlying().(*types.Interface) of Scope().Lookup(name)
	if li := FuncDecl(tp, "Registry.LookupInterface"); li == nil {
		c.Fail("R02.1", "LookupInterface|missing", "template/registry.go", "Registry.LookupInterface not found")
	} else {
		c.Func(funcKey(tp, li))
		// every successful return yields the completed underlying interface of the object found by
		// name in the source package's scope, after that object was seen non-nil and an interface
		d := newDT(tp.TypesInfo)
		d.getters = pkgGetters(tp)
		d.paths = nil
		d.stmts(seedEnv(d, li), li.Body.List, func(p *dtPath) { d.finish(p, "end") })
		const obj = "RECV.srcPkg.Types.Scope().Lookup(ARG0)"
		good := false
		for _, p := range d.paths {
			if p.Exit != "return" || len(p.Ret) != 3 || p.Ret[2] != "nil" {
				continue
			}
			isNil, hasNil := false, false
			isIface, hasIface := false, false
			for _, a := range p.Atoms {
				switch stripRes(a.Expr) {
				case obj + " == nil":
					isNil, hasNil = a.Val, true
				case "go/types.IsInterface(" + obj + ".Type())":
					isIface, hasIface = a.Val, true
				}
			}
			good = stripRes(p.Ret[0]) == obj+".Type().Underlying().(*types.Interface).Complete()" && hasNil && !isNil && hasIface && isIface
			if !good {
				break
			}
		}
		if good {
			c.OK("R02.1", "LookupInterface|complete-underlying", r.Pos(li.Pos()), "returns Scope().Lookup(name).Type().Underlying().(*types.Interface).Complete()")
		} else {
			c.Fail("R02.1", "LookupInterface|complete-underlying", r.Pos(li.Pos()), "LookupInterface does not return the completed underlying interface of the object looked up by name in the source package scope")
		}
	}

	// ---- R02.2
	md := FuncDecl(ip, "TemplateGenerator.methodData")
	if md == nil {
		c.Fail("R02.2", "methodData|missing", "internal/template_generator.go", "methodData not found")
	} else {
		c.Func(funcKey(ip, md))
		checkMethodData(c, r, ip, md)
	}

	// ---- R02.4
	goR024(c, r, ip, "R02.4")
}

// selChainCalls finds the root identifier of a chain of selectors/calls: a.b().c().d
func selChainCalls(e ast.Expr) (*ast.Ident, int) {
	n := 0
	for {
		switch x := e.(type) {
		case *ast.SelectorExpr:
			e = x.X
			n++
		case *ast.CallExpr:
			e = x.Fun
		case *ast.ParenExpr:
			e = x.X
		case *ast.Ident:
			return x, n
		default:
			return nil, n
		}
	}
}

// countingLoop recognises for i := 0; i < BOUND; i++ and returns i and BOUND.
func countingLoop(info *types.Info, fs *ast.ForStmt) (types.Object, ast.Expr, bool) {
	init, ok := fs.Init.(*ast.AssignStmt)
	if !ok || len(init.Lhs) != 1 || len(init.Rhs) != 1 {
		return nil, nil, false
	}
	id, ok := init.Lhs[0].(*ast.Ident)
	if !ok {
		return nil, nil, false
	}
	if lit, ok := init.Rhs[0].(*ast.BasicLit); !ok || lit.Value != "0" {
		return nil, nil, false
	}
	iv := objOf(info, id)
	cond, ok := fs.Cond.(*ast.BinaryExpr)
	if !ok || cond.Op != token.LSS {
		return nil, nil, false
	}
	if l, ok := cond.X.(*ast.Ident); !ok || info.Uses[l] != iv {
		return nil, nil, false
	}
	post, ok := fs.Post.(*ast.IncDecStmt)
	if !ok || post.Tok != token.INC {
		return nil, nil, false
	}
	if l, ok := post.X.(*ast.Ident); !ok || info.Uses[l] != iv {
		return nil, nil, false
	}
	return iv, cond.Y, true
}

func checkMethodData(c *Ctx, r *Repo, ip *packages.Package, md *ast.FuncDecl) {
	info := ip.TypesInfo
	// signature := method.Type().(*types.Signature)
	methodObj := info.Defs[md.Type.Params.List[1].Names[0]]
	var sigObj types.Object
	ast.Inspect(md.Body, func(n ast.Node) bool {
		as, ok := n.(*ast.AssignStmt)
		if !ok || len(as.Lhs) != 1 || len(as.Rhs) != 1 {
			return true
		}
		if ta, ok := as.Rhs[0].(*ast.TypeAssertExpr); ok {
			root, _ := selChainCalls(ta.X)
			if root != nil && info.Uses[root] == methodObj && strings.HasSuffix(types.ExprString(ta.X), ".Type()") {
				sigObj = objOf(info, as.Lhs[0].(*ast.Ident))
			}
		}
		return true
	})
	if sigObj == nil {
		c.Fail("R02.2", "methodData|signature", r.Pos(md.Pos()), "cannot find signature := method.Type().(*types.Signature)")
		return
	}
	// tupleOf: signature.Params() / signature.Results()
	tupleOf := func(e ast.Expr) string {
		call, ok := ast.Unparen(e).(*ast.CallExpr)
		if !ok {
			return ""
		}
		sel, ok := call.Fun.(*ast.SelectorExpr)
		if !ok {
			return ""
		}
		id, ok := sel.X.(*ast.Ident)
		if !ok || info.Uses[id] != sigObj {
			return ""
		}
		if sel.Sel.Name == "Params" || sel.Sel.Name == "Results" {
			return sel.Sel.Name
		}
		return ""
	}
	lenOf := func(e ast.Expr) string { // signature.X().Len()
		call, ok := ast.Unparen(e).(*ast.CallExpr)
		if !ok {
			return ""
		}
		sel, ok := call.Fun.(*ast.SelectorExpr)
		if !ok || sel.Sel.Name != "Len" {
			return ""
		}
		return tupleOf(sel.X)
	}
	// slices: X := make([]template.Param, signature.T().Len())
	sliceTuple := map[types.Object]string{}
	ast.Inspect(md.Body, func(n ast.Node) bool {
		as, ok := n.(*ast.AssignStmt)
		if !ok || len(as.Lhs) != 1 || len(as.Rhs) != 1 {
			return true
		}
		call, ok := as.Rhs[0].(*ast.CallExpr)
		if !ok || calleeName(info, call) != "builtin.make" || len(call.Args) != 2 {
			return true
		}
		if t := lenOf(call.Args[1]); t != "" {
			sliceTuple[objOf(info, as.Lhs[0].(*ast.Ident))] = t
		}
		return true
	})
	// the counting loops over the two tuples: for j := 0; j < signature.T().Len(); j++, for j := range
	// signature.T().Len(), or for j := range <the slice made with that length>
	type tupleLoop struct {
		Body *ast.BlockStmt
		iv   types.Object
		pos  token.Pos
	}
	loops := map[string]*tupleLoop{}
	for _, s := range md.Body.List {
		iv, bound, body, ok := indexLoopIn(info, md, s)
		if !ok {
			continue
		}
		if t := lenOf(bound); t != "" {
			if loops[t] != nil {
				c.Fail("R02.2", "methodData|duplicate-loop|"+t, r.Pos(s.Pos()), "two loops over signature."+t+"()")
			}
			loops[t] = &tupleLoop{body, iv, s.Pos()}
		}
	}
	// lenOfAny: signature.T().Len(), or len(S) of the slice S made with that length
	lenOfAny := func(e ast.Expr) string {
		if t := lenOf(e); t != "" {
			return t
		}
		if call, ok := ast.Unparen(e).(*ast.CallExpr); ok && calleeName(info, call) == "builtin.len" && len(call.Args) == 1 {
			if id, ok := ast.Unparen(call.Args[0]).(*ast.Ident); ok {
				return sliceTuple[info.Uses[id]]
			}
		}
		return ""
	}
	for _, t := range []string{"Params", "Results"} {
		fs := loops[t]
		if fs == nil {
			c.Fail("R02.2", "methodData|loop|"+t, r.Pos(md.Pos()), "no loop 'for j := 0; j < signature."+t+"().Len(); j++'")
			continue
		}
		iv := fs.iv
		okAt, okStore := false, false
		var variadicExpr ast.Expr
		ast.Inspect(fs.Body, func(n ast.Node) bool {
			switch x := n.(type) {
			case *ast.CallExpr:
				if sel, ok := x.Fun.(*ast.SelectorExpr); ok && sel.Sel.Name == "At" && len(x.Args) == 1 {
					if tt := tupleOf(sel.X); tt != "" {
						if ai, ok := x.Args[0].(*ast.Ident); ok && info.Uses[ai] == iv && tt == t {
							okAt = true
						} else {
							c.Fail("R02.2", "methodData|at|"+t, r.Pos(x.Pos()), fmt.Sprintf("the %s loop reads %s", t, types.ExprString(x)))
						}
					}
				}
			case *ast.AssignStmt:
				// the element may be filled field by field: slice[j].Var = v; slice[j].Variadic = <expr>
				if len(x.Lhs) == 1 && len(x.Rhs) == 1 {
					if se, ok := x.Lhs[0].(*ast.SelectorExpr); ok {
						if ie, ok := ast.Unparen(se.X).(*ast.IndexExpr); ok {
							if sid, ok := ie.X.(*ast.Ident); ok {
								if st, known := sliceTuple[info.Uses[sid]]; known {
									ii, _ := ie.Index.(*ast.Ident)
									switch {
									case !(st == t && ii != nil && info.Uses[ii] == iv):
										c.Fail("R02.2", "methodData|store|"+t, r.Pos(x.Pos()), fmt.Sprintf("the %s loop stores into %s (a slice sized by %s)", t, types.ExprString(x.Lhs[0]), st))
									case se.Sel.Name == "Var":
										okStore = true
									case se.Sel.Name == "Variadic":
										variadicExpr = x.Rhs[0]
									}
								}
							}
						}
					}
				}
				if len(x.Lhs) == 1 && len(x.Rhs) == 1 {
					if ie, ok := x.Lhs[0].(*ast.IndexExpr); ok {
						if sid, ok := ie.X.(*ast.Ident); ok {
							if st, known := sliceTuple[info.Uses[sid]]; known {
								ii, _ := ie.Index.(*ast.Ident)
								if st == t && ii != nil && info.Uses[ii] == iv {
									okStore = true
								} else {
									c.Fail("R02.2", "methodData|store|"+t, r.Pos(x.Pos()), fmt.Sprintf("the %s loop stores into %s (a slice sized by %s)", t, types.ExprString(x.Lhs[0]), st))
								}
								if cl, ok := x.Rhs[0].(*ast.CompositeLit); ok {
									for _, el := range cl.Elts {
										if kv, ok := el.(*ast.KeyValueExpr); ok {
											if k, ok := kv.Key.(*ast.Ident); ok && k.Name == "Variadic" {
												variadicExpr = kv.Value
											}
										}
									}
								}
								// the element may be a local filled field by field: p.Variadic = <expr>
								if id, ok := x.Rhs[0].(*ast.Ident); ok {
									ast.Inspect(fs.Body, func(m ast.Node) bool {
										if as2, ok := m.(*ast.AssignStmt); ok && len(as2.Lhs) == 1 && len(as2.Rhs) == 1 {
											if se, ok := as2.Lhs[0].(*ast.SelectorExpr); ok && se.Sel.Name == "Variadic" && isObj(info, se.X, info.Uses[id]) {
												variadicExpr = as2.Rhs[0]
											}
										}
										return true
									})
								}
							}
						}
					}
				}
			}
			return true
		})
		if okAt && okStore {
			c.OK("R02.2", "methodData|transfer|"+t, r.Pos(fs.pos), fmt.Sprintf("slice[j] <- signature.%s().At(j) for all j < Len()", t))
		} else {
			c.Fail("R02.2", "methodData|transfer|"+t, r.Pos(fs.pos), fmt.Sprintf("the %s loop does not copy signature.%s().At(j) into element j of the slice sized by signature.%s().Len() (At ok=%v, store ok=%v)", t, t, t, okAt, okStore))
		}
		// Variadic flag
		switch t {
		case "Params":
			good := false
			if be, ok := ast.Unparen(variadicExpr).(*ast.BinaryExpr); ok && be.Op == token.LAND {
				isVar := func(e ast.Expr) bool {
					call, ok := ast.Unparen(e).(*ast.CallExpr)
					if !ok {
						return false
					}
					sel, ok := call.Fun.(*ast.SelectorExpr)
					if !ok || sel.Sel.Name != "Variadic" {
						return false
					}
					id, ok := sel.X.(*ast.Ident)
					return ok && info.Uses[id] == sigObj
				}
				isLast := func(e ast.Expr) bool {
					cmp, ok := ast.Unparen(e).(*ast.BinaryExpr)
					if !ok || cmp.Op != token.EQL {
						return false
					}
					l, r2 := cmp.X, cmp.Y
					if _, ok := l.(*ast.Ident); !ok {
						l, r2 = r2, l
					}
					li, ok := l.(*ast.Ident)
					if !ok || info.Uses[li] != iv {
						return false
					}
					sub, ok := ast.Unparen(r2).(*ast.BinaryExpr)
					if !ok || sub.Op != token.SUB || lenOfAny(sub.X) != "Params" {
						return false
					}
					lit, ok := sub.Y.(*ast.BasicLit)
					return ok && lit.Value == "1"
				}
				good = isVar(be.X) && isLast(be.Y) || isVar(be.Y) && isLast(be.X)
			}
			if good {
				c.OK("R02.2", "methodData|variadic-flag", r.Pos(fs.pos), "Variadic: signature.Variadic() && j == Params().Len()-1")
			} else {
				c.Fail("R02.2", "methodData|variadic-flag", r.Pos(fs.pos), "the Variadic flag of a parameter is not 'signature.Variadic() && j == signature.Params().Len()-1' (found "+exprOrNone(variadicExpr)+")")
			}
		case "Results":
			if variadicExpr == nil {
				c.OK("R02.2", "methodData|result-variadic", r.Pos(fs.pos), "results are never variadic (zero value)")
			} else if id, ok := ast.Unparen(variadicExpr).(*ast.Ident); ok && id.Name == "false" {
				c.OK("R02.2", "methodData|result-variadic", r.Pos(fs.pos), "results are never variadic")
			} else {
				c.Fail("R02.2", "methodData|result-variadic", r.Pos(fs.pos), "a result's Variadic flag is "+exprOrNone(variadicExpr)+", want false")
			}
		}
	}
	// the returned template.Method literal
	good := false
	ast.Inspect(md.Body, func(n ast.Node) bool {
		rs, ok := n.(*ast.ReturnStmt)
		if !ok || len(rs.Results) != 2 || !isNilIdent(info, rs.Results[1]) {
			return true
		}
		cl, ok := rs.Results[0].(*ast.CompositeLit)
		if !ok {
			return true
		}
		okName, okP, okR := false, false, false
		for _, el := range cl.Elts {
			kv, ok := el.(*ast.KeyValueExpr)
			if !ok {
				continue
			}
			k, _ := kv.Key.(*ast.Ident)
			if k == nil {
				continue
			}
			switch k.Name {
			case "Name":
				if call, ok := kv.Value.(*ast.CallExpr); ok {
					if sel, ok := call.Fun.(*ast.SelectorExpr); ok && sel.Sel.Name == "Name" {
						if id, ok := sel.X.(*ast.Ident); ok && info.Uses[id] == methodObj {
							okName = true
						}
					}
				}
			case "Params":
				if id, ok := kv.Value.(*ast.Ident); ok && sliceTuple[info.Uses[id]] == "Params" {
					okP = true
				}
			case "Returns":
				if id, ok := kv.Value.(*ast.Ident); ok && sliceTuple[info.Uses[id]] == "Results" {
					okR = true
				}
			}
		}
		if okName && okP && okR {
			good = true
		} else {
			c.Fail("R02.2", "methodData|method-literal", r.Pos(cl.Pos()), fmt.Sprintf("template.Method literal is cross-wired (Name from method.Name(): %v, Params from the Params slice: %v, Returns from the Results slice: %v)", okName, okP, okR))
		}
		return true
	})
	if !good {
		// the value may be built field by field: read what the successful paths return
		paths, pd := enumerateFunc(info, md)
		n, okAll := 0, !pd.overflow
		for _, q := range paths {
			if q.Exit != "return" || len(q.Ret) != 2 || q.Ret[1] != "nil" {
				continue
			}
			_, vals, isLit := splitStructLit(q.Ret[0])
			if !isLit {
				okAll = false
				continue
			}
			n++
			st := stripRes(vals["Params"])
			sr := stripRes(vals["Returns"])
			if !(strings.HasSuffix(stripRes(vals["Name"]), "ARG1.Name()") && strings.HasPrefix(st, "builtin.make(") && strings.HasSuffix(st, ".Params().Len())") && strings.HasPrefix(sr, "builtin.make(") && strings.HasSuffix(sr, ".Results().Len())")) {
				okAll = false
				c.Fail("R02.2", "methodData|method-literal", r.Pos(q.RetPos), fmt.Sprintf("the returned template.Method is cross-wired: Name %s, Params %s, Returns %s", vals["Name"], vals["Params"], vals["Returns"]))
			}
		}
		good = okAll && n > 0
	}
	if good {
		c.OK("R02.2", "methodData|method-literal", r.Pos(md.Pos()), "Method{Name: method.Name(), Params: params, Returns: returns}")
	}
}

func exprOrNone(e ast.Expr) string {
	if e == nil {
		return "<none>"
	}
	return types.ExprString(e)
}

// goR024: discovery is package-level only.
func goR024(c *Ctx, r *Repo, ip *packages.Package, rule string) {
	info := ip.TypesInfo
	visit := FuncDecl(ip, "NodeVisitor.Visit")
	if visit == nil {
		c.Fail(rule, "Visit|missing", "internal/node_visitor.go", "NodeVisitor.Visit not found")
		return
	}
	c.Func(funcKey(ip, visit))
	// decision table of Visit over the node's dynamic type (type switch or comma-ok assertions)
	paths := enumerateFollowUnexported(ip, visit) // predicates such as isCandidate(n.Type) are followed
	returnsNilFor := func(kind string) bool {
		n := 0
		for _, p := range paths {
			if !visitConsistent(p, "ARG0", kind) {
				continue
			}
			n++
			if p.Exit != "return" || len(p.Ret) != 1 || p.Ret[0] != "nil" {
				return false
			}
		}
		return n > 0
	}
	blocks := returnsNilFor("*ast.BlockStmt")
	// function bodies are also out of reach when the walk only ever starts at type declarations
	// (for _, decl := range file.Decls { if g, ok := decl.(*ast.GenDecl); ok && g.Tok == token.TYPE { ast.Walk(v, g) } })
	typeDeclRoots := walksTypeDeclsOnly(ip)
	for _, t := range []string{"*ast.FuncDecl", "*ast.FuncLit"} {
		gt := strings.Replace(t, "*ast.", "*go/ast.", 1)
		if blocks || returnsNilFor(t) {
			c.OK(rule, "Visit|skip|"+gt, r.Pos(visit.Pos()), "Visit returns nil for "+gt)
		} else if typeDeclRoots {
			c.OK(rule, "Visit|skip|"+gt, r.Pos(visit.Pos()), "the walk starts at type declarations only, below which no "+gt+" occurs")
		} else {
			c.Fail(rule, "Visit|descends|"+gt, r.Pos(visit.Pos()), "NodeVisitor.Visit descends into "+gt+" bodies: a function-local type named like a package-level interface is collected and that interface is mocked twice")
		}
	}
	// the lookup of each discovered name is nil-checked before use
	pp := FuncDecl(ip, "Parser.ParsePackages")
	if pp == nil {
		c.Fail(rule, "ParsePackages|missing", "internal/parse.go", "Parser.ParsePackages not found")
		return
	}
	c.Func(funcKey(ip, pp))
	checkLookupNilGuard(c, r, ip, pp, rule)
	// one visitor per file: the visitor whose list is examined for a file is created inside the loop
	// over the package's files and walks exactly that file's syntax tree
	files := rangeOverC(ip, pp, ".GoFiles")
	okVisitor, okWalk := false, false
	if files != nil {
		fc := newFuncCanonG(ip, pp)
		nNew := 0
		ast.Inspect(pp.Body, func(n ast.Node) bool {
			call, ok := n.(*ast.CallExpr)
			if !ok {
				return true
			}
			switch strings.ReplaceAll(calleeName(info, call), modPath+"/", "") {
			case "internal.NewNodeVisitor":
				nNew++
				okVisitor = call.Pos() > files.Body.Pos() && call.End() < files.Body.End()
			case "go/ast.Walk":
				if len(call.Args) == 2 && call.Pos() > files.Body.Pos() && call.End() < files.Body.End() {
					v, f := fc.E(call.Args[0]), fc.E(call.Args[1])
					fileTree := ".Syntax[rangekey(" + fc.E(files.X) + ")]"
					okWalk = strings.HasPrefix(v, "internal.NewNodeVisitor(") && (strings.HasSuffix(f, fileTree) ||
						// or each declaration of that file's tree in turn
						strings.Contains(f, fileTree+".Decls)") && strings.HasPrefix(f, "rangeval("))
				}
			}
			return true
		})
		okVisitor = okVisitor && nNew == 1
		if !(okVisitor && okWalk) && nNew == 0 {
			// the visitor may be created and walked in a helper that the loop calls once per file with that
			// file's tree: read the helper with the call's arguments
			fileTree := ".Syntax[rangekey(" + fc.E(files.X) + ")]"
			ast.Inspect(files.Body, func(n ast.Node) bool {
				call, ok := n.(*ast.CallExpr)
				if !ok {
					return true
				}
				h := pkgFuncs(ip)[calleeFunc(info, call)]
				hc := calleeCanon(info, fc, call, h)
				if h == nil || hc == nil {
					return true
				}
				hNew, hWalk := 0, false
				ast.Inspect(h.Body, func(m ast.Node) bool {
					hcall, ok := m.(*ast.CallExpr)
					if !ok {
						return true
					}
					switch strings.ReplaceAll(calleeName(info, hcall), modPath+"/", "") {
					case "internal.NewNodeVisitor":
						hNew++
					case "go/ast.Walk":
						if len(hcall.Args) == 2 {
							v, f := hc.E(hcall.Args[0]), hc.E(hcall.Args[1])
							hWalk = strings.HasPrefix(v, "internal.NewNodeVisitor(") && (strings.HasSuffix(f, fileTree) || strings.Contains(f, fileTree+".Decls)") && strings.HasPrefix(f, "rangeval("))
						}
					}
					return true
				})
				if hNew == 1 && hWalk {
					okVisitor, okWalk = true, true
				}
				return true
			})
		}
	}
	c.Check(okVisitor && okWalk, rule, "ParsePackages|visitor-per-file", r.Pos(pp.Pos()), "a fresh visitor walks each file's own syntax tree", "the visitor that collects candidate declarations is not created per file (inside the loop over the package's files) and walked over that file's syntax tree: names found in one file are reported again for the following files, so an interface is mocked more than once")
}

// walksTypeDeclsOnly: every ast.Walk call of the package is reached only where its root was established to be
// a *ast.GenDecl whose Tok is token.TYPE (no function declaration or literal occurs below such a node).
func walksTypeDeclsOnly(ip *packages.Package) bool {
	info := ip.TypesInfo
	n, all := 0, true
	for _, fd := range pkgFuncDecls(ip) {
		for _, rg := range regionsOf(fd) {
			has := false
			for _, st := range rg.list {
				ast.Inspect(st, func(x ast.Node) bool {
					switch y := x.(type) {
					case *ast.FuncLit, *ast.ForStmt, *ast.RangeStmt:
						return false
					case *ast.CallExpr:
						if calleeName(info, y) == "go/ast.Walk" {
							has = true
						}
					}
					return true
				})
			}
			if !has {
				continue
			}
			d := newDT(info)
			d.paths = nil
			d.stmts(seedEnv(d, fd), rg.list, func(p *dtPath) { d.finish(p, "end") })
			for _, p := range d.paths {
				for _, call := range p.CallsTo("go/ast.Walk") {
					n++
					if os.Getenv("MVCHECK_DBGW") != "" {
						fmt.Println("WALK", p.String(), call.Args)
					}
					if len(call.Args) != 2 {
						all = false
						continue
					}
					root := call.Args[1]
					isGen, isType := false, false
					for _, a := range p.Atoms {
						if a.Step > call.Step || !a.Val {
							continue
						}
						if strings.HasSuffix(a.Expr, ".(*ast.GenDecl)#ok") && strings.HasPrefix(root, strings.TrimSuffix(a.Expr, "#ok")) {
							isGen = true
						}
						if a.Expr == root+".Tok == go/token.TYPE" {
							isType = true
						}
					}
					if !isGen || !isType {
						all = false
					}
				}
			}
		}
	}
	return n > 0 && all
}

// checkLookupNilGuard: every `x := scope.Lookup(..)` in fd is followed by a nil
// test of x before any method call on x.
func checkLookupNilGuard(c *Ctx, r *Repo, p *packages.Package, fd *ast.FuncDecl, rule string) {
	info := p.TypesInfo
	ast.Inspect(fd.Body, func(n ast.Node) bool {
		blk, ok := n.(*ast.BlockStmt)
		if !ok {
			return true
		}
		for i, s := range blk.List {
			as, ok := s.(*ast.AssignStmt)
			if !ok || len(as.Lhs) != 1 || len(as.Rhs) != 1 {
				continue
			}
			call, ok := as.Rhs[0].(*ast.CallExpr)
			if !ok || calleeName(info, call) != "(go/types.Scope).Lookup" {
				continue
			}
			id, ok := as.Lhs[0].(*ast.Ident)
			if !ok {
				continue
			}
			obj := objOf(info, id)
			guarded := false
			violated := false
			for _, later := range blk.List[i+1:] {
				if ifs, ok := later.(*ast.IfStmt); ok && !guarded {
					if be, ok := ifs.Cond.(*ast.BinaryExpr); ok && be.Op == token.EQL {
						if x, ok := be.X.(*ast.Ident); ok && info.Uses[x] == obj && isNilIdent(info, be.Y) && terminates(ifs.Body) {
							guarded = true
							continue
						}
					}
				}
				if guarded {
					break
				}
				ast.Inspect(later, func(m ast.Node) bool {
					if sel, ok := m.(*ast.SelectorExpr); ok {
						if x, ok := sel.X.(*ast.Ident); ok && info.Uses[x] == obj {
							violated = true
						}
					}
					return true
				})
				if violated {
					break
				}
			}
			key := funcKey(p, fd) + "|lookup-nil-guard"
			if violated {
				c.Fail(rule, key, r.Pos(as.Pos()), "the result of Scope.Lookup is used without a nil test: a name that is not in the package scope (function-local type, blank identifier) crashes the run")
			} else {
				c.OK(rule, key, r.Pos(as.Pos()), "Scope.Lookup result is nil-tested before use")
			}
		}
		return true
	})
}

// terminates: the block ends in return/continue/break/panic/goto.
func terminates(b *ast.BlockStmt) bool {
	if len(b.List) == 0 {
		return false
	}
	switch x := b.List[len(b.List)-1].(type) {
	case *ast.ReturnStmt, *ast.BranchStmt:
		return true
	case *ast.ExprStmt:
		return isPanicCall(x.X)
	}
	return false
}

// visitConsistent: can the path be taken when the value printed as subject has dynamic type kind?
// Atoms "<subject>.(T)#ok" must be true exactly for T == kind; other atoms are free.
func visitConsistent(p *dtPath, subject, kind string) bool {
	for _, a := range p.Atoms {
		if strings.HasPrefix(a.Expr, subject+".(") && strings.HasSuffix(a.Expr, ")#ok") {
			t := a.Expr[len(subject)+2 : len(a.Expr)-4]
			if strings.Contains(t, ")") {
				continue // an assertion on something selected from the subject
			}
			if (t == kind) != a.Val {
				return false
			}
		}
	}
	return true
}
