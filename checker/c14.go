package main

import (
	"fmt"
	"go/ast"
	"go/token"
	"go/types"
	"os"
	"sort"
	"strconv"
	"strings"

	"golang.org/x/tools/go/packages"
)

func init() { register("C14", checkC14) }

// listAccessor: facts about "allocate len(X) strings; for i, p := range X { out[i] = f(p) }; join".
type listFacts struct {
	ranged string // canonical ranged expression
	elem   string // canonical per-element expression with the element named P
	sep    string
	joined string // callee that produces the joined string in this function ("strings.Join(" or the helper)
	ok     bool
	why    string
}

// listAccessorFactsP also recognises an accessor that hands its list and a per-element function to a
// function of the package that has the list shape itself (out[i] = render(list[i]); join).
func listAccessorFactsP(p *packages.Package, fd *ast.FuncDecl) listFacts {
	info := p.TypesInfo
	f := listAccessorFacts(info, fd)
	if f.ok {
		f.joined = "strings.Join("
		return f
	}
	funcs := pkgFuncs(p)
	var call *ast.CallExpr
	var hf listFacts
	var helper *ast.FuncDecl
	ast.Inspect(fd.Body, func(n ast.Node) bool {
		x, ok := n.(*ast.CallExpr)
		if !ok || call != nil || len(x.Args) != 2 {
			return true
		}
		fn := calleeFunc(info, x)
		if fn == nil || funcs[fn] == nil || funcs[fn] == fd || funcs[fn].Recv != nil {
			return true
		}
		if h := listAccessorFacts(info, funcs[fn]); h.ok && h.ranged == "ARG0" && h.elem == "ARG1(P)" {
			call, hf, helper = x, h, funcs[fn]
		}
		return true
	})
	if call == nil {
		return f
	}
	d := newDT(info)
	var at ast.Stmt
	for _, s := range fd.Body.List {
		if s.Pos() <= call.Pos() && call.End() <= s.End() {
			at = s
		}
	}
	env := d.envBefore(seedEnv(d, fd), fd.Body.List, at)
	out := listFacts{ranged: d.canon(env, call.Args[0]), sep: hf.sep, joined: "template." + helper.Name.Name + "("}
	switch r := ast.Unparen(call.Args[1]).(type) {
	case *ast.SelectorExpr:
		sel := info.Selections[r]
		if sel == nil || sel.Kind() != types.MethodExpr {
			out.why = "the per-element function is not a method expression or a function literal"
			return out
		}
		out.elem = "P." + r.Sel.Name + "<(" + shortType(sel.Recv()) + ")." + r.Sel.Name + ">()"
	case *ast.FuncLit:
		if r.Type.Params.NumFields() != 1 || len(r.Type.Params.List[0].Names) != 1 || len(r.Body.List) != 1 {
			out.why = "the per-element function literal is not a single return"
			return out
		}
		rs, ok := r.Body.List[0].(*ast.ReturnStmt)
		if !ok || len(rs.Results) != 1 {
			out.why = "the per-element function literal is not a single return"
			return out
		}
		env.env[info.Defs[r.Type.Params.List[0].Names[0]]] = "P"
		out.elem = d.canon(env, rs.Results[0])
	default:
		out.why = "the per-element function is not a method expression or a function literal"
		return out
	}
	out.ok = true
	return out
}

func listAccessorFacts(info *types.Info, fd *ast.FuncDecl) listFacts {
	d := newDT(info)
	start := seedEnv(d, fd)
	var rs *ast.RangeStmt
	var sliceObj types.Object
	// evaluate the prefix so that locals (paramsSlice := m.Params[start:end]) are known
	for _, s := range fd.Body.List {
		if x, ok := s.(*ast.RangeStmt); ok {
			rs = x
			break
		}
		switch y := s.(type) {
		case *ast.AssignStmt:
			if len(y.Lhs) == 1 && len(y.Rhs) == 1 {
				if id, ok := y.Lhs[0].(*ast.Ident); ok {
					if call, ok := y.Rhs[0].(*ast.CallExpr); ok && calleeName(info, call) == "builtin.make" {
						sliceObj = objOf(info, id)
						if len(call.Args) == 2 {
							start.env[sliceObj] = "make:" + d.canon(start, call.Args[1])
						}
						if len(call.Args) == 3 {
							start.env[sliceObj] = "make:" + d.canon(start, call.Args[1]) + ":cap"
						}
						continue
					}
					if cl, ok := y.Rhs[0].(*ast.CompositeLit); ok && len(cl.Elts) == 0 && y.Tok == token.DEFINE {
						sliceObj = objOf(info, id)
						start.env[sliceObj] = "make:0:cap"
						continue
					}
					d.bind(start, id, d.canon(start, y.Rhs[0]))
				}
			}
		}
	}
	if rs == nil || sliceObj == nil {
		return listFacts{why: "no 'out := make([]string, len(X)); for i, p := range X' shape"}
	}
	f := listFacts{ranged: d.canon(start, rs.X)}
	if start.env[sliceObj] == "make:0:cap" {
		// out starts empty and grows by one append per element, in order
		v, _ := rs.Value.(*ast.Ident)
		if v == nil || len(rs.Body.List) != 1 {
			return listFacts{why: "loop body is not a single append"}
		}
		start.env[info.Defs[v]] = "P"
		as, ok := rs.Body.List[0].(*ast.AssignStmt)
		if !ok || len(as.Lhs) != 1 || len(as.Rhs) != 1 || !isObj(info, as.Lhs[0], sliceObj) {
			return listFacts{why: "loop body is not 'out = append(out, f(p))'"}
		}
		call, ok := as.Rhs[0].(*ast.CallExpr)
		if !ok || calleeName(info, call) != "builtin.append" || len(call.Args) != 2 || !isObj(info, call.Args[0], sliceObj) || call.Ellipsis.IsValid() {
			return listFacts{why: "loop body is not 'out = append(out, f(p))'"}
		}
		f.elem = d.canon(start, call.Args[1])
		ast.Inspect(fd.Body, func(n ast.Node) bool {
			if call, ok := n.(*ast.CallExpr); ok && calleeName(info, call) == "strings.Join" && len(call.Args) == 2 {
				if id, ok := call.Args[0].(*ast.Ident); ok && info.Uses[id] == sliceObj {
					f.sep = types.ExprString(call.Args[1])
				}
			}
			return true
		})
		f.ok = true
		return f
	}
	if start.env[sliceObj] != "make:builtin.len("+f.ranged+")" {
		return listFacts{why: "the result slice is sized " + start.env[sliceObj] + ", not by the ranged list " + f.ranged}
	}
	k, _ := rs.Key.(*ast.Ident)
	v, _ := rs.Value.(*ast.Ident)
	if k == nil || v == nil || len(rs.Body.List) != 1 {
		return listFacts{why: "loop body is not a single store"}
	}
	start.env[info.Defs[v]] = "P"
	as, ok := rs.Body.List[0].(*ast.AssignStmt)
	if !ok || len(as.Lhs) != 1 {
		return listFacts{why: "loop body is not a single store"}
	}
	ie, ok := as.Lhs[0].(*ast.IndexExpr)
	if !ok {
		return listFacts{why: "loop body does not store into the result slice"}
	}
	if id, ok := ie.X.(*ast.Ident); !ok || info.Uses[id] != sliceObj {
		return listFacts{why: "loop body stores elsewhere"}
	}
	if id, ok := ie.Index.(*ast.Ident); !ok || info.Uses[id] != info.Defs[k] {
		return listFacts{why: "element " + types.ExprString(ie.Index) + " is written instead of the loop index"}
	}
	f.elem = d.canon(start, as.Rhs[0])
	// the join
	ast.Inspect(fd.Body, func(n ast.Node) bool {
		if call, ok := n.(*ast.CallExpr); ok && calleeName(info, call) == "strings.Join" && len(call.Args) == 2 {
			if id, ok := call.Args[0].(*ast.Ident); ok && info.Uses[id] == sliceObj {
				f.sep = types.ExprString(call.Args[1])
			}
		}
		return true
	})
	f.ok = true
	return f
}

func checkC14(c *Ctx) {
	c.Explanation = `The strings the data model offers are compared, accessor by accessor, with the table engine T assumes (and the documentation states):
R14.1 list accessors: ArgList, ArgTypeList, ArgTypeListEllipsis, argCallListSlice, ReturnArgTypeList, ReturnArgNameList, ReturnArgList each allocate len(X) strings, write element i from element i of X with the documented per-element accessor (MethodArg / TypeString / TypeStringEllipsis / CallName(ellipsis) / Name / Name + " " + TypeString) and join with ", "; X is Params (or the requested sub-slice) resp. Returns; ReturnArgTypeList parenthesises iff there is more than one result;
R14.2 wrappers and slicing: ArgCallList -> (0, -1, true), ArgCallListNoEllipsis -> (0, -1, false), ArgCallListSlice(s, e) -> (s, e, true), ArgCallListSliceNoEllipsis(s, e) -> (s, e, false); in argCallListSlice a negative end means len(Params), end == 1 with no parameters means 0, and the slice taken is Params[start:end] (decision table); Call/Signature/Declaration compose Name, ArgCallList, ArgList, ReturnArgList as documented;
R14.3 parameter accessors (decision tables): MethodArg = name + " ..." + type without its leading "[]" when variadic, else name + " " + type; CallName(e) = name + "..." iff e && variadic; TypeStringEllipsis replaces only the leading "[]" by "..." and only when variadic; TypeStringVariadicUnderlying strips that "..."; Method.IsVariadic = last parameter's flag; Name/TypeString delegate to the Var;
R14.4 qualified types: the in-package decision is exactly 'pkgname == source package name && same directory' (so a same-directory package of another name, e.g. foo_test, qualifies and imports the source package); Var.TypeString = types.TypeString(v.Type(), v.packageQualifier); packageQualifier returns the qualifier recorded for the package's path in the variable's own import set ("" for the mock's own package); distinct imports never share a qualifier (addImport rule shared with C15);
R14.5 names are resolved before use: Generate calls ResolveVariableNameCollisions on every method's scope before the data is built, and that function renames each variable to SuggestName(its name) and then registers the new name; AddVar registers each variable's type string and picks the initial name with SuggestName;
R14.6 each method once, parameters/results in order, type parameters index for index (the C02 generator rules R02.1/R02.2 and the typeParams loop).`
	c.NotDecided = "that the offered strings denote identical types in every destination package (types.TypeString semantics, alias clashes with local declarations)."
	c.Assumptions = []string{"go/types.TypeString prints a type with the given qualifier function"}
	c.Rule("R14.1", 7, "")
	c.Rule("R14.2", 8, "")
	c.Rule("R14.3", 7, "")
	c.Rule("R14.4", 3, "")
	c.Rule("R14.5", 3, "")
	c.Rule("R14.6", 6, "")
	r := loadRepo(c, packages.LoadSyntax, "", "./template", "./internal")
	ruleAccessors(c, r, "R14.1", "R14.2", "R14.3")
	ruleQualifiedTypes(c, r, "R14.4")
	ruleAddImport(c, r, "R14.4")
	goR015(c, r, "R14.4")
	// every component of a type the offered strings mention is walked for its package (C01 rule R01.1)
	subRules(c, "R14.4", "type-walk", "a type string can only be resolved in the output if every package it mentions was registered: ", func(sub *Ctx) { goR011(sub, r) })
	ruleNameResolution(c, r, "R14.5")
	// R14.6
	sub := newCtx("C14", c.Tier)
	sub.known = nil
	goC02sub(sub, r)
	n := 0
	for _, id := range sub.ruleList {
		if id != "R02.1" && id != "R02.2" {
			continue
		}
		for _, o := range sub.oks[id] {
			c.OK("R14.6", o.Key, o.Pos, o.Detail)
			n++
		}
	}
	for k, o := range sub.fails {
		if strings.HasPrefix(k, "R02.1|") || strings.HasPrefix(k, "R02.2|") {
			c.Fail("R14.6", o.Key, o.Pos, o.Detail)
		}
	}
	ruleTypeParams(c, r, "R14.6")
}

// accessorTableGuard: the checks that reason about template output rely on
// engine T's accessor table; they re-establish it against the Go accessors.
func accessorTableGuard(c *Ctx, rule string) {
	c.Rule(rule, 20, "engine T's accessor table agrees with the Go accessors (C14 rules R14.1-R14.3)")
	r := loadRepo(c, packages.LoadSyntax, "", "./template")
	ruleAccessors(c, r, rule, rule, rule)
}

// goC02sub runs the generator-side C02 rules R02.1/R02.2 only.
func goC02sub(c *Ctx, r *Repo) {
	c.Rule("R02.1", 0, "")
	c.Rule("R02.2", 0, "")
	c.Rule("R02.4", 0, "")
	goC02(c, r)
}

// ruleAccessors is shared by C14 and by the template-based checks' trusted base.
func ruleAccessors(c *Ctx, r *Repo, r1, r2, r3 string) {
	tp := r.Pkg("template")
	info := tp.TypesInfo
	ruleNillable(c, r, r3)
	ruleBracketLists(c, r, r1)
	ruleSmallAccessors(c, r, r3)
	const name = "P.Name<(template.Param).Name>()"
	const ts = "P.TypeString<(template.Param).TypeString>()"
	lists := []struct{ fn, ranged, elem string }{
		{"Method.ArgList", "RECV.Params", "P.MethodArg<(template.Param).MethodArg>()"},
		{"Method.ArgTypeList", "RECV.Params", ts},
		{"Method.ArgTypeListEllipsis", "RECV.Params", "P.TypeStringEllipsis<(template.Param).TypeStringEllipsis>()"},
		{"Method.ReturnArgTypeList", "RECV.Returns", ts},
		{"Method.ReturnArgNameList", "RECV.Returns", name},
		{"Method.ReturnArgList", "RECV.Returns", name + ` + " " + ` + ts},
	}
	for _, l := range lists {
		fd := FuncDecl(tp, l.fn)
		if fd == nil {
			c.Fail(r1, l.fn+"|missing", "template/method.go", l.fn+" not found")
			continue
		}
		c.Func(funcKey(tp, fd))
		f := listAccessorFactsP(tp, fd)
		switch {
		case !f.ok:
			c.Fail(r1, l.fn+"|shape", r.Pos(fd.Pos()), l.fn+": "+f.why)
		case f.ranged != l.ranged || f.elem != l.elem || f.sep != `", "`:
			c.Fail(r1, l.fn+"|table", r.Pos(fd.Pos()), fmt.Sprintf("%s renders element i as %s over %s joined by %s; documented: %s over %s joined by \", \"", l.fn, f.elem, f.ranged, f.sep, l.elem, l.ranged))
		default:
			c.OK(r1, l.fn, r.Pos(fd.Pos()), "element i = "+l.elem+" of "+l.ranged)
		}
	}
	// ReturnArgTypeList parentheses
	if fd := FuncDecl(tp, "Method.ReturnArgTypeList"); fd != nil {
		paths := tailPaths(info, fd)
		joined := listAccessorFactsP(tp, fd).joined
		ok := len(paths) == 2 && joined != ""
		for _, p := range paths {
			multi, has := p.atom("builtin.len(RECV.Returns) > 1")
			if !has || p.Exit != "return" {
				ok = false
				continue
			}
			if multi {
				ok = ok && strings.HasPrefix(p.Ret[0], `"(" + `+joined) && strings.HasSuffix(p.Ret[0], ` + ")"`)
			} else {
				ok = ok && strings.HasPrefix(p.Ret[0], joined)
			}
		}
		c.Check(ok, r1, "Method.ReturnArgTypeList|parentheses", r.Pos(fd.Pos()), "parenthesised iff more than one result", "ReturnArgTypeList is not parenthesised exactly when there is more than one result")
	}
	// argCallListSlice
	if fd := FuncDecl(tp, "Method.argCallListSlice"); fd == nil {
		c.Fail(r2, "argCallListSlice|missing", "template/method.go", "argCallListSlice not found")
	} else {
		c.Func(funcKey(tp, fd))
		f := listAccessorFactsP(tp, fd)
		// The bounds: the decision table of the statements before the sub-slice of the parameters is taken,
		// evaluated for small values of end and len(Params) against the documented meaning (a negative end
		// is len(Params); end == 1 on a parameterless method is 0; otherwise end; an end beyond the last
		// parameter is outside the documented domain). The slice may be taken in a helper that is handed
		// (start, end): its table is read with the caller's arguments.
		d := newDT(info)
		d.paths = nil
		holder, startEnv := fd, seedEnv(d, fd)
		hasSlice := func(g *ast.FuncDecl) bool {
			found := false
			ast.Inspect(g.Body, func(n ast.Node) bool {
				if _, ok := n.(*ast.SliceExpr); ok {
					found = true
				}
				return true
			})
			return found
		}
		helperCall := ""
		if !hasSlice(fd) {
			ast.Inspect(fd.Body, func(n ast.Node) bool {
				if call, ok := n.(*ast.CallExpr); ok && holder == fd {
					if fn := calleeFunc(info, call); fn != nil {
						if g := pkgFuncs(tp)[fn]; g != nil && g.Body != nil && hasSlice(g) {
							if q := d.bindCall(startEnv, g, call); q != nil {
								holder, startEnv = g, q
								helperCall = newFuncCanon(info, fd).E(call)
							}
						}
					}
				}
				return true
			})
		}
		var prefix []ast.Stmt
		var sliceStmt ast.Stmt
		var sliceExpr *ast.SliceExpr
		for _, s := range holder.Body.List {
			ast.Inspect(s, func(n ast.Node) bool {
				if se, ok := n.(*ast.SliceExpr); ok && sliceExpr == nil {
					sliceExpr = se
					sliceStmt = s
				}
				return true
			})
			if sliceStmt != nil {
				break
			}
			prefix = append(prefix, s)
		}
		if holder != fd && sliceStmt != nil {
			// the helper must hand back exactly the slice it takes
			if rs, ok := sliceStmt.(*ast.ReturnStmt); !ok || len(rs.Results) != 1 || ast.Unparen(rs.Results[0]) != ast.Expr(sliceExpr) {
				sliceStmt = nil
			}
		}
		okTable := sliceStmt != nil
		if okTable {
			d.stmts(startEnv, prefix, func(p *dtPath) { d.finish(p, "end") })
			term := func(t string, e, n int) (int, bool) {
				switch t {
				case "ARG1":
					return e, true
				case "builtin.len(RECV.Params)":
					return n, true
				}
				v, err := strconv.Atoi(t)
				return v, err == nil
			}
			atomTrue := func(a string, e, n int) (bool, bool) {
				for _, op := range []string{" <= ", " >= ", " == ", " < ", " > "} {
					if i := strings.Index(a, op); i > 0 {
						x, ok1 := term(a[:i], e, n)
						y, ok2 := term(a[i+len(op):], e, n)
						if !ok1 || !ok2 {
							return false, false
						}
						switch op {
						case " <= ":
							return x <= y, true
						case " >= ":
							return x >= y, true
						case " == ":
							return x == y, true
						case " < ":
							return x < y, true
						default:
							return x > y, true
						}
					}
				}
				return false, false
			}
			for _, a := range atomsOf(d.paths) {
				if _, ok := atomTrue(a, 0, 0); !ok {
					okTable = false
					c.Fail(r2, "argCallListSlice|unknown-condition|"+a, r.Pos(holder.Pos()), "argCallListSlice branches on "+a+"; documented conditions compare end and len(Params)")
				}
			}
			for e := -2; e <= 5 && okTable; e++ {
				for n := 0; n <= 4 && okTable; n++ {
					want := e
					switch {
					case e < 0:
						want = n
					case e == 1 && n == 0:
						want = 0
					case e > n:
						continue // outside the documented domain (the original slices out of range)
					}
					nCons := 0
					for _, p := range d.paths {
						if p.Exit != "end" {
							continue
						}
						cons := true
						for _, a := range p.Atoms {
							if v, _ := atomTrue(a.Expr, e, n); v != a.Val {
								cons = false
							}
						}
						if !cons {
							continue
						}
						nCons++
						got := d.canon(p, sliceExpr)
						hi := strings.TrimSuffix(strings.TrimPrefix(got, "RECV.Params[ARG0:"), "]")
						v, ok := term(hi, e, n)
						if !strings.HasPrefix(got, "RECV.Params[ARG0:") || !ok || v != want {
							okTable = false
							c.Fail(r2, "argCallListSlice|bounds", r.Pos(sliceStmt.Pos()), fmt.Sprintf("for end = %d on a method with %d parameters the parameters taken are %s (path %s); documented: Params[start:%d] (a negative end means len(Params), end == 1 on a parameterless method means 0)", e, n, got, p.String(), want))
						}
					}
					if nCons != 1 {
						okTable = false
						c.Fail(r2, "argCallListSlice|bounds", r.Pos(holder.Pos()), fmt.Sprintf("for end = %d on a method with %d parameters %d paths reach the slice, want 1", e, n, nCons))
					}
				}
			}
		}
		if helperCall != "" && f.ranged == helperCall && strings.HasSuffix(helperCall, "(ARG0, ARG1)") {
			f.ranged = "RECV.Params[ARG0:" // taken by the helper examined above
		}
		okList := f.ok && f.elem == "P.CallName<(template.Param).CallName>(ARG2)" && f.sep == `", "` && strings.HasPrefix(f.ranged, "RECV.Params[ARG0:")
		c.Check(okTable && okList, r2, "argCallListSlice|semantics", r.Pos(fd.Pos()), "Params[start:end'] mapped through CallName(ellipsis)", "argCallListSlice does not render Params[start:end] through CallName(ellipsis) joined by \", \" ("+f.why+" "+f.elem+")")
	}
	wrappers := []struct{ fn, want string }{
		{"Method.ArgCallList", "RECV.argCallListSlice<(template.Method).argCallListSlice>(0, -1, true)"},
		{"Method.ArgCallListNoEllipsis", "RECV.argCallListSlice<(template.Method).argCallListSlice>(0, -1, false)"},
		{"Method.ArgCallListSlice", "RECV.argCallListSlice<(template.Method).argCallListSlice>(ARG0, ARG1, true)"},
		{"Method.ArgCallListSliceNoEllipsis", "RECV.argCallListSlice<(template.Method).argCallListSlice>(ARG0, ARG1, false)"},
		// calls of single-return functions of the package are printed as the expression they return
		{"Method.Call", `RECV.Name + "(" + RECV.ArgCallList<(template.Method).ArgCallList>() + ")"`},
		{"Method.Signature", `"(" + RECV.ArgList<(template.Method).ArgList>() + ") (" + RECV.ReturnArgList<(template.Method).ReturnArgList>() + ")"`},
		{"Method.Declaration", "RECV.Name + RECV.Signature<(template.Method).Signature>()"},
		{"Method.IsVariadic", "builtin.len(RECV.Params) > 0 && RECV.Params[builtin.len(RECV.Params) - 1].Variadic"},
		{"Param.Name", "RECV.Var.Name"},
		{"Param.TypeString", "go/types.TypeString(RECV.Var.typ, RECV.Var.packageQualifier)"},
	}
	for _, w := range wrappers {
		fd := FuncDecl(tp, w.fn)
		rule := r2
		if strings.HasPrefix(w.fn, "Param.") || w.fn == "Method.IsVariadic" {
			rule = r3
		}
		if fd == nil {
			c.Fail(rule, w.fn+"|missing", "template/", w.fn+" not found")
			continue
		}
		got := ""
		if len(fd.Body.List) == 1 {
			if rs, ok := fd.Body.List[0].(*ast.ReturnStmt); ok && len(rs.Results) == 1 {
				d := newDTP(tp, fd)
				got = d.canon(seedEnv(d, fd), rs.Results[0])
			}
		}
		if os.Getenv("MVCHECK_LIST") != "" {
			fmt.Printf("WRAP\t%s\t%s\n", w.fn, got)
		}
		c.Check(got == w.want, rule, w.fn, r.Pos(fd.Pos()), w.fn+" = "+w.want, fmt.Sprintf("%s returns %s; documented: %s", w.fn, got, w.want))
	}
	// decision tables of the parameter accessors
	type row struct {
		conds map[string]bool
		ret   string
	}
	const tsR = "go/types.TypeString(RECV.Var.typ, RECV.Var.packageQualifier)"
	const nmR = "RECV.Var.Name"
	// The tables are written over two normal forms: elem(T) is T without its leading "[]" (for a variadic
	// parameter go/types prints the slice type, so T[2:], strings.TrimPrefix(T, "[]") and the tail of
	// strings.Replace(T, "[]", "...", 1) are all elem(T)), and adjacent string literals are joined.
	const elemR = "elem(" + tsR + ")"
	tables := map[string][]row{
		"Param.MethodArg": {
			{map[string]bool{"RECV.Variadic": true}, nmR + ` + " ..." + ` + elemR},
			{map[string]bool{"RECV.Variadic": false}, nmR + ` + " " + ` + tsR},
		},
		"Param.CallName": {
			{map[string]bool{"ARG0": true, "RECV.Variadic": true}, nmR + ` + "..."`},
			{map[string]bool{"ARG0": true, "RECV.Variadic": false}, nmR},
			{map[string]bool{"ARG0": false}, nmR},
		},
		"Param.TypeStringEllipsis": {
			{map[string]bool{"RECV.Variadic": false}, tsR},
			{map[string]bool{"RECV.Variadic": true}, `"..." + ` + elemR},
		},
		// documented for variadic parameters only (the templates ask it of the variadic parameter)
		"Param.TypeStringVariadicUnderlying": {
			{map[string]bool{"RECV.Variadic": true}, elemR},
		},
	}
	norm := func(x string) string {
		for _, pat := range []struct{ from, to string }{
			{`strings.Replace(` + tsR + `, "[]", "...", 1)`, `"..." + ` + elemR},
			{`strings.TrimPrefix(` + tsR + `, "[]")`, elemR},
			{tsR + `[2:]`, elemR},
			{`strings.Replace("..." + ` + elemR + `, "...", "", 1)`, elemR},
			{`strings.TrimPrefix("..." + ` + elemR + `, "...")`, elemR},
		} {
			x = strings.ReplaceAll(x, pat.from, pat.to)
		}
		// join adjacent literals of a concatenation
		parts := strings.Split(x, " + ")
		var out []string
		for _, pt := range parts {
			if n := len(out); n > 0 && len(pt) >= 2 && pt[0] == '"' && pt[len(pt)-1] == '"' && len(out[n-1]) >= 2 && out[n-1][0] == '"' && out[n-1][len(out[n-1])-1] == '"' {
				a, e1 := strconv.Unquote(out[n-1])
				b, e2 := strconv.Unquote(pt)
				if e1 == nil && e2 == nil {
					out[n-1] = strconv.Quote(a + b)
					continue
				}
			}
			out = append(out, pt)
		}
		return strings.Join(out, " + ")
	}
	var tn []string
	for k := range tables {
		tn = append(tn, k)
	}
	sort.Strings(tn)
	for _, fn := range tn {
		fd := FuncDecl(tp, fn)
		if fd == nil {
			c.Fail(r3, fn+"|missing", "template/param_data.go", fn+" not found")
			continue
		}
		c.Func(funcKey(tp, fd))
		paths, _ := enumerateFuncFollow(tp, fd)
		if os.Getenv("MVCHECK_LIST") != "" {
			for _, p := range paths {
				fmt.Printf("TABLE\t%s\t%s\n", fn, p.String())
			}
		}
		ok := len(paths) > 0
		why := "no paths"
		covered := map[int]bool{}
		for _, p := range paths {
			// the path's conditions, each once
			conds := map[string]bool{}
			consistent := true
			for _, a := range p.Atoms {
				if v, has := conds[a.Expr]; has && v != a.Val {
					consistent = false
				}
				conds[a.Expr] = a.Val
			}
			if !consistent {
				continue
			}
			matched := false
			for ri, row := range tables[fn] {
				// the row applies when the path decides nothing the row does not and agrees where both do;
				// a path that leaves one of the row's conditions open covers the row for both values
				m := true
				for e, v := range conds {
					if rv, has := row.conds[e]; !has {
						if _, known := map[string]bool{"RECV.Variadic": true, "ARG0": true}[e]; !known {
							m = false
						}
					} else if rv != v {
						m = false
					}
				}
				if !m {
					continue
				}
				matched = true
				covered[ri] = true
				if p.Exit != "return" || norm(p.Ret[0]) != row.ret {
					ok = false
					why = fmt.Sprintf("for %v it returns %v, documented %s", row.conds, norm(strings.Join(p.Ret, ",")), row.ret)
				}
			}
			if !matched && fn != "Param.TypeStringVariadicUnderlying" {
				ok = false
				why = "undocumented case " + p.String()
			}
		}
		for ri, row := range tables[fn] {
			if !covered[ri] {
				ok = false
				why = fmt.Sprintf("no path for the documented case %v", row.conds)
			}
		}
		c.Check(ok, r3, fn+"|table", r.Pos(fd.Pos()), fn+" matches its documented cases", fn+": "+why)
	}
}

// tailPaths enumerates the statements after the first loop of fd.
func tailPaths(info *types.Info, fd *ast.FuncDecl) []*dtPath {
	d := newDT(info)
	d.paths = nil
	idx := 0
	for i, s := range fd.Body.List {
		if _, ok := s.(*ast.RangeStmt); ok {
			idx = i + 1
		}
	}
	d.stmts(seedEnv(d, fd), fd.Body.List[idx:], func(p *dtPath) { d.finish(p, "end") })
	return d.paths
}

func ruleQualifiedTypes(c *Ctx, r *Repo, rule string) {
	tp := r.Pkg("template")
	info := tp.TypesInfo
	if fd := FuncDecl(tp, "Var.TypeString"); fd != nil {
		paths, _ := enumerateFuncP(tp, fd)
		ok := len(paths) == 1 && paths[0].Ret[0] == "go/types.TypeString(RECV.typ, RECV.packageQualifier)"
		c.Check(ok, rule, "Var.TypeString", r.Pos(fd.Pos()), "types.TypeString(own (possibly replaced) type, own qualifier function)", "Var.TypeString is not types.TypeString(v.Type(), v.packageQualifier)")
	} else {
		c.Fail(rule, "Var.TypeString|missing", "template/var.go", "Var.TypeString not found")
	}
	if fd := FuncDecl(tp, "Var.Type"); fd != nil {
		paths, _ := enumerateFunc(info, fd)
		c.Check(len(paths) == 1 && paths[0].Ret[0] == "RECV.typ", rule, "Var.Type", r.Pos(fd.Pos()), "Type() = typ", "Var.Type does not return the variable's (possibly replaced) type")
	}
	if fd := FuncDecl(tp, "Var.packageQualifier"); fd != nil {
		paths, _ := enumerateFunc(info, fd)
		ok := len(paths) > 0
		for _, p := range paths {
			if p.Exit != "return" {
				ok = false
				continue
			}
			switch p.Ret[0] {
			case `""`:
				// only for the variable's own package
				own, has := p.atom("RECV.pkgPath == ARG0.Path<(go/types.Package).Path>()")
				if !has || !own {
					ok = false
				}
			case "RECV.imports[ARG0.Path<(go/types.Package).Path>()].Qualifier<(template.Package).Qualifier>()":
			default:
				ok = false
			}
		}
		c.Check(ok, rule, "Var.packageQualifier", r.Pos(fd.Pos()), "qualifier recorded for the package's path in the variable's own imports", "packageQualifier does not return the qualifier recorded under pkg.Path() in the variable's own import set")
	}
}

func ruleNameResolution(c *Ctx, r *Repo, rule string) {
	ip, tp := r.Pkg("internal"), r.Pkg("template")
	if gen := FuncDecl(ip, "TemplateGenerator.Generate"); gen != nil {
		info := ip.TypesInfo
		// inside the per-interface loop: a loop over methods calling Scope.ResolveVariableNameCollisions, before template.Interface literal
		okCall := false
		var resolvePos, dataPos ast.Node
		// the function of Generate's family that builds the template.Interface value
		for _, g := range familyOf(ip, gen) {
			ast.Inspect(g.Body, func(n ast.Node) bool {
				if x, ok := n.(*ast.CompositeLit); ok && len(x.Elts) > 0 && types.ExprString(x.Type) == "template.Interface" {
					gen = g
				}
				return true
			})
		}
		ast.Inspect(gen.Body, func(n ast.Node) bool {
			switch x := n.(type) {
			case *ast.RangeStmt:
				if typeIs(info.TypeOf(x.X), "[]template.Method") {
					if v, ok := x.Value.(*ast.Ident); ok {
						ast.Inspect(x.Body, func(m ast.Node) bool {
							if call, ok := m.(*ast.CallExpr); ok && strings.HasSuffix(calleeName(info, call), "MethodScope).ResolveVariableNameCollisions") {
								if strings.HasPrefix(types.ExprString(call.Fun), v.Name+".Scope.") {
									okCall = true
									resolvePos = x
								}
							}
							return true
						})
					}
				}
			case *ast.CompositeLit:
				if types.ExprString(x.Type) == "template.Interface" && len(x.Elts) > 0 {
					dataPos = x
				}
			}
			return true
		})
		c.Check(okCall && resolvePos != nil && dataPos != nil && resolvePos.Pos() < dataPos.Pos(), rule, "Generate|resolve-before-data", r.Pos(gen.Pos()), "every method's scope is resolved before the interface data is built", "Generate does not call ResolveVariableNameCollisions on every method's scope before handing the methods to the template data")
	}
	if fd := FuncDecl(tp, "MethodScope.ResolveVariableNameCollisions"); fd != nil {
		info := tp.TypesInfo
		rs := rangeOverC(tp, fd, "RECV.vars")
		ok := false
		if rs != nil {
			d := newDT(info)
			// AllocateName is SuggestName followed by AddName: followed, so that either spelling is seen
			d.callInline = map[*types.Func]*ast.FuncDecl{}
			if an := FuncDecl(tp, "MethodScope.AllocateName"); an != nil {
				if fn, isFn := info.Defs[an.Name].(*types.Func); isFn {
					d.callInline[fn] = an
				}
			}
			start := seedEnv(d, fd)
			if v, isId := rs.Value.(*ast.Ident); isId {
				start.env[info.Defs[v]] = "V"
			}
			d.paths = nil
			d.stmts(start, rs.Body.List, func(p *dtPath) { d.finish(p, "end") })
			ok = len(d.paths) > 0
			for _, p := range d.paths {
				sug := "RECV.SuggestName<(template.MethodScope).SuggestName>(V.Name)"
				store := hasStep(p, "store V.Name = "+sug) == 1
				add := p.CallsTo("MethodScope).AddName")
				okAdd := len(add) == 1 && (add[0].Args[0] == "V.Name" || add[0].Args[0] == sug)
				// a variable whose name is free may keep it without asking (SuggestName(x) == x exactly when
				// x does not exist yet: C15's SuggestName rule); it must still be registered
				exists, tested := p.atom("RECV.NameExists<(template.MethodScope).NameExists>(V.Name)")
				keeps := !store && tested && !exists && hasStep(p, "store V.Name = ") == 0 && len(add) == 1 && add[0].Args[0] == "V.Name"
				if !((store && okAdd || keeps) && (p.Exit == "end" || p.Exit == "continue")) {
					ok = false
				}
			}
		}
		c.Check(ok, rule, "ResolveVariableNameCollisions|rename-then-register", r.Pos(fd.Pos()), "v.Name = SuggestName(v.Name); AddName(v.Name) for every variable", "ResolveVariableNameCollisions does not rename every variable to SuggestName(its name) and then register that name")
	}
	if fd := FuncDecl(tp, "MethodScope.AddVar"); fd != nil {
		s := nodeString(fd.Body)
		okType := strings.Contains(s, "m.AddName(v.TypeString())")
		okName := strings.Contains(s, "m.SuggestName(varName(")
		c.Check(okType && okName, rule, "AddVar|names", r.Pos(fd.Pos()), "type string registered, initial name suggested against the scope", "AddVar does not register the variable's type string as a visible name and pick the initial name with SuggestName")
		// every variable AddVar hands out is entered into the scope's list, which is what collision resolution
		// walks (mechanical-mutation finding: without the append no parameter is ever renamed)
		paths, _ := enumerateFunc(tp.TypesInfo, fd)
		okVars := len(paths) > 0
		nOK := 0
		for _, p := range paths {
			if p.Exit != "return" || len(p.Ret) != 2 || p.Ret[1] != "nil" {
				continue
			}
			nOK++
			if hasStep(p, "store RECV.vars = builtin.append(RECV.vars, ") != 1 {
				okVars = false
			}
		}
		c.Check(okVars && nOK > 0, rule, "AddVar|listed", r.Pos(fd.Pos()), "every variable handed out is listed in the scope", "AddVar returns a variable without entering it into the scope's variable list: ResolveVariableNameCollisions never sees it, so a parameter that collides with a qualifier or another name keeps its name")
		// the replacement type is the object found: the search leaves the loop with the package whose scope has it
		for _, g := range familyOf(tp, fd) {
			ast.Inspect(g.Body, func(n ast.Node) bool {
				rs, ok := n.(*ast.RangeStmt)
				if !ok || !typeIs(tp.TypesInfo.TypeOf(rs.X), "[]*golang.org/x/tools/go/packages.Package") {
					return true
				}
				d := newDT(tp.TypesInfo)
				st := &dtPath{env: map[types.Object]string{}}
				if v, ok := rs.Value.(*ast.Ident); ok && tp.TypesInfo.Defs[v] != nil {
					st.env[tp.TypesInfo.Defs[v]] = "PKG"
				}
				d.paths = nil
				d.stmts(st, rs.Body.List, func(p *dtPath) { d.finish(p, "end") })
				okLoop := len(d.paths) > 0
				for _, p := range d.paths {
					found, known := false, false
					for _, a := range p.Atoms {
						if strings.Contains(a.Expr, ".Lookup<(go/types.Scope).Lookup>(") && strings.HasSuffix(a.Expr, " == nil") {
							found, known = !a.Val, true
						}
					}
					switch {
					case !known:
						okLoop = false
					case found && p.Exit != "break" && p.Exit != "return":
						okLoop = false
					case !found && (p.Exit == "break" || p.Exit == "return"):
						okLoop = false
					}
				}
				c.Check(okLoop, rule, "AddVar|replacement-search", r.Pos(rs.Pos()), "the search stops at the package that declares the replacement type", "the search for the replacement type among the loaded packages does not stop exactly at the package whose scope has it (a found object is passed over, or the search stops without one): the nil package or object is dereferenced next")
				return true
			})
		}
	}
}

func ruleTypeParams(c *Ctx, r *Repo, rule string) {
	ip := r.Pkg("internal")
	info := ip.TypesInfo
	fd := FuncDecl(ip, "TemplateGenerator.typeParams")
	if fd == nil {
		c.Fail(rule, "typeParams|missing", "internal/template_generator.go", "typeParams not found")
		return
	}
	c.Func(funcKey(ip, fd))
	var loop *struct{ Body *ast.BlockStmt }
	var liv types.Object
	var lbound ast.Expr
	for _, s := range fd.Body.List {
		if iv, bound, body, ok := indexLoopIn(info, fd, s); ok {
			loop = &struct{ Body *ast.BlockStmt }{body}
			liv, lbound = iv, bound
		}
	}
	ok := false
	if loop != nil {
		fct := newFuncCanon(info, fd)
		if iv, bound, isLoop := liv, lbound, true; isLoop && (strings.HasPrefix(fct.E(bound), "builtin.len(") && typeIs(info.TypeOf(bound.(*ast.CallExpr).Args[0]), "[]template.TypeParam") || fct.E(bound) == "ARG1.Len<(go/types.TypeParamList).Len>()") {
			s := nodeString(loop.Body)
			at := false
			ast.Inspect(loop.Body, func(n ast.Node) bool {
				if call, isCall := n.(*ast.CallExpr); isCall && calleeName(info, call) == "(go/types.TypeParamList).At" {
					if id, isId := call.Args[0].(*ast.Ident); isId && info.Uses[id] == iv {
						at = true
					}
				}
				return true
			})
			store := false
			ast.Inspect(loop.Body, func(n ast.Node) bool {
				if as, isAs := n.(*ast.AssignStmt); isAs && len(as.Lhs) == 1 {
					lhs := ast.Unparen(as.Lhs[0])
					if se, isSel := lhs.(*ast.SelectorExpr); isSel {
						lhs = ast.Unparen(se.X) // element filled field by field: tpd[i].Var = ..
					}
					if ie, isIdx := lhs.(*ast.IndexExpr); isIdx && typeIs(info.TypeOf(ie.X), "[]template.TypeParam") {
						if id, isId := ie.Index.(*ast.Ident); isId && info.Uses[id] == iv {
							store = true
						}
					}
				}
				return true
			})
			nameOK, consOK := false, false
			ast.Inspect(loop.Body, func(n ast.Node) bool {
				if call, isCall := n.(*ast.CallExpr); isCall {
					cx := fct.E(call)
					if strings.Contains(cx, ".Obj<(go/types.TypeParam).Obj>().Name<") && strings.HasSuffix(cx, ".Name>()") && strings.Contains(cx, ".At<(go/types.TypeParamList).At>(") {
						nameOK = true
					}
					if strings.HasSuffix(cx, ".Constraint<(go/types.TypeParam).Constraint>()") && strings.Contains(cx, ".At<(go/types.TypeParamList).At>(") {
						consOK = true
					}
				}
				return true
			})
			_ = s
			if os.Getenv("MVCHECK_DEBUG") != "" {
				fmt.Println("typeParams:", at, store, nameOK, consOK)
			}
			ok = at && store && nameOK && consOK
		}
	}
	sized := false
	{
		fct := newFuncCanon(info, fd)
		ast.Inspect(fd.Body, func(n ast.Node) bool {
			if call, ok := n.(*ast.CallExpr); ok && calleeName(info, call) == "builtin.make" && len(call.Args) == 2 && fct.E(call.Args[1]) == "ARG1.Len<(go/types.TypeParamList).Len>()" {
				sized = true
			}
			return true
		})
	}
	c.Check(ok && sized, rule, "typeParams|index-for-index", r.Pos(fd.Pos()), "type parameter i <- tparams.At(i) with its own name and constraint", "typeParams does not reproduce type parameter i from tparams.At(i) (name and constraint) for every i < tparams.Len()")
	// the explicit constraint: every embedded type of the constraint interface is looked at, a basic type is the
	// constraint itself, a union stands for its first term (mechanical-mutation findings: loop from 1, Term(1))
	if ec := FuncDecl(ip, "explicitConstraintType"); ec != nil {
		okLoop, okTerm, nLoop := true, true, 0
		ast.Inspect(ec.Body, func(n ast.Node) bool {
			switch x := n.(type) {
			case *ast.ForStmt:
				nLoop++
				_, bound, isCounting := countingLoop(info, x)
				if !isCounting || !strings.HasSuffix(types.ExprString(bound), ".NumEmbeddeds()") {
					okLoop = false
				}
			case *ast.CallExpr:
				if calleeName(info, x) == "(go/types.Union).Term" && len(x.Args) == 1 {
					if v, isConst := constInt(info, x.Args[0]); !isConst || v != 0 {
						okTerm = false
					}
				}
			}
			return true
		})
		c.Check(okLoop && nLoop == 1, rule, "explicitConstraintType|all-embeddeds", r.Pos(ec.Pos()), "every embedded type of the constraint is examined", "explicitConstraintType does not walk j = 0 .. NumEmbeddeds()-1: the first embedded type is skipped or an index past the end is read")
		c.Check(okTerm, rule, "explicitConstraintType|first-term", r.Pos(ec.Pos()), "a union stands for its first term", "explicitConstraintType takes a union's term other than the first (a single-term union has no other: index out of range)")
	}
	// the only early success is "no type parameter list"; a non-nil list always reaches the loop
	// (mechanical-mutation finding: the negated nil test drops the type parameters of every generic interface)
	paths, _ := enumerateFunc(info, fd)
	okEarly := len(paths) > 0
	whyEarly := ""
	for _, p := range paths {
		if p.Exit != "return" || len(p.Ret) != 2 || p.Ret[1] != "nil" || hasStep(p, "loop") > 0 {
			continue
		}
		isNil, known := false, false
		for _, a := range p.Atoms {
			if a.Expr == "ARG1 == nil" {
				isNil, known = a.Val, true
			}
		}
		if !known || !isNil {
			okEarly = false
			whyEarly = p.String()
		}
	}
	c.Check(okEarly, rule, "typeParams|early-return", r.Pos(fd.Pos()), "only a nil type-parameter list yields no type parameters", "typeParams returns successfully without walking a non-nil type-parameter list: the type parameters of generic interfaces are dropped: "+whyEarly)
}

func typesExprOfMake(fd *ast.FuncDecl) string {
	out := ""
	ast.Inspect(fd.Body, func(n ast.Node) bool {
		if call, ok := n.(*ast.CallExpr); ok {
			if id, ok := call.Fun.(*ast.Ident); ok && id.Name == "make" && len(call.Args) == 2 {
				out += types.ExprString(call.Args[1]) + ";"
			}
		}
		return true
	})
	return out
}

// ruleNillable: Var.Nillable = nillable(<the variable's type>), and nillable answers true for every
// kind whose zero value is nil (pointer, map, interface, func, chan, slice), looks through named
// types, aliases and type parameters, and answers false for basic and struct types (decision table
// over the type switch / assertions on the argument or on its Underlying()).
func ruleNillable(c *Ctx, r *Repo, rule string) {
	tp := r.Pkg("template")
	info := tp.TypesInfo
	if fd := FuncDecl(tp, "Var.Nillable"); fd == nil {
		c.Fail(rule, "Var.Nillable|missing", "template/var.go", "Var.Nillable not found")
	} else {
		paths, _ := enumerateFuncP(tp, fd)
		ok := len(paths) == 1 && len(paths[0].Ret) == 1 && stripRes(paths[0].Ret[0]) == "template.nillable(RECV.typ)"
		c.Check(ok, rule, "Var.Nillable", r.Pos(fd.Pos()), "Nillable() = nillable(Type())", "Var.Nillable is not nillable(v.Type())")
	}
	fd := FuncDecl(tp, "nillable")
	if fd == nil {
		c.Fail(rule, "nillable|missing", "template/var.go", "nillable not found")
		return
	}
	c.Func(funcKey(tp, fd))
	paths, _ := enumerateFunc(info, fd)
	// which value is classified: the argument itself or its underlying type
	subject := ""
	for _, p := range paths {
		for _, a := range p.Atoms {
			e := stripRes(a.Expr)
			for _, s := range []string{"ARG0.Underlying()", "ARG0"} {
				if strings.HasPrefix(e, s+".(*types.") && subject == "" {
					subject = s
				}
			}
		}
	}
	if subject == "" {
		c.Fail(rule, "nillable|table", r.Pos(fd.Pos()), "nillable does not classify its argument by kind")
		return
	}
	for _, p := range paths {
		for i := range p.Atoms {
			p.Atoms[i].Expr = stripRes(p.Atoms[i].Expr)
		}
	}
	want := func(kind, ret string, alt ...string) {
		n, good := 0, true
		got := ""
		for _, p := range paths {
			if !visitConsistent(p, subject, kind) {
				continue
			}
			n++
			res := ""
			if p.Exit == "return" && len(p.Ret) == 1 {
				res = stripRes(p.Ret[0])
			}
			okRes := res == ret
			for _, a := range alt {
				okRes = okRes || res == a
			}
			if !okRes {
				good, got = false, res
			}
		}
		c.Check(n > 0 && good, rule, "nillable|"+kind, r.Pos(fd.Pos()), "nillable("+kind+") = "+ret, fmt.Sprintf("nillable answers %q for a %s (want %s): the testify template guards the type assertion of a result with a nil test only when Nillable is true, so returning nil for such a result panics (or, the other way round, a non-nillable value is compared with nil and the mock does not compile)", got, kind, ret))
	}
	for _, k := range []string{"*types.Pointer", "*types.Map", "*types.Interface", "*types.Signature", "*types.Chan", "*types.Slice"} {
		want(k, "true")
	}
	for _, k := range []string{"*types.Basic", "*types.Struct"} {
		want(k, "false")
	}
	if subject == "ARG0" {
		for _, k := range []string{"*types.Named", "*types.Alias", "*types.TypeParam"} {
			want(k, "template.nillable(ARG0.("+k+").Underlying())", "template.nillable(ARG0.Underlying())", "template.nillable(ARG0.("+k+"))")
		}
	}
}

// ruleBracketLists (R14.1, added after the mechanical-mutation sweep): Interface.TypeConstraint,
// TypeConstraintTest and TypeInstantiation, which engine T models as "" for a non-generic interface and
// "[" + elem(0) + ", " + elem(1) + .. + "]" otherwise. The Go code accumulates a string in a loop; the loop
// body is enumerated with the accumulator, the index and the element named, and every path must append
// exactly the separator (for every element but the first) followed by the documented element text.
func ruleBracketLists(c *Ctx, r *Repo, rule string) {
	tp := r.Pkg("template")
	info := tp.TypesInfo
	const nm = `template_funcs.Exported(P.Name<(template.Param).Name>())`
	const ts = `P.TypeString<(template.Param).TypeString>()`
	table := []struct{ fn, elem string }{
		{"Interface.TypeConstraint", nm + ` + " " + ` + ts},
		{"Interface.TypeConstraintTest", nm + ` + " " + ` + ts},
		{"Interface.TypeInstantiation", nm},
	}
	for _, row := range table {
		fd := FuncDecl(tp, row.fn)
		if fd == nil {
			c.Fail(rule, row.fn+"|missing", "template/interface.go", row.fn+" not found")
			continue
		}
		c.Func(funcKey(tp, fd))
		var rs *ast.RangeStmt
		for _, s := range fd.Body.List {
			if x, ok := s.(*ast.RangeStmt); ok && rs == nil {
				rs = x
			}
		}
		d := newDT(info)
		if rs == nil {
			// "[" + strings.Join(<list>, ", ") + "]" around a list of the documented elements is not modelled here
			c.Fail(rule, row.fn+"|shape", r.Pos(fd.Pos()), row.fn+" does not accumulate its result in a loop over the type parameters (shape not recognised)")
			continue
		}
		start := d.envBefore(seedEnv(d, fd), fd.Body.List, rs)
		ranged := d.canon(start, rs.X)
		// the accumulator: the string variable the body assigns and the function returns
		var acc types.Object
		ast.Inspect(rs.Body, func(n ast.Node) bool {
			if as, ok := n.(*ast.AssignStmt); ok && len(as.Lhs) == 1 {
				if id, ok := as.Lhs[0].(*ast.Ident); ok && info.Uses[id] != nil && acc == nil {
					acc = info.Uses[id]
				}
			}
			return true
		})
		if acc == nil {
			c.Fail(rule, row.fn+"|shape", r.Pos(fd.Pos()), row.fn+": no accumulator variable in the loop")
			continue
		}
		open := start.env[acc]
		start.env[acc] = "ACC"
		if k, ok := rs.Key.(*ast.Ident); ok && info.Defs[k] != nil {
			start.env[info.Defs[k]] = "IDX"
		}
		if v, ok := rs.Value.(*ast.Ident); ok && info.Defs[v] != nil {
			start.env[info.Defs[v]] = "P"
		}
		d.paths = nil
		d.stmts(start, rs.Body.List, func(p *dtPath) { d.finish(p, "end") })
		okBody := len(d.paths) > 0
		why := ""
		sawFirst, sawLater := false, false
		for _, p := range d.paths {
			first, known := false, false
			for _, a := range p.Atoms {
				switch a.Expr {
				case "IDX == 0":
					first, known = a.Val, true
				case "IDX > 0", "0 < IDX":
					first, known = !a.Val, true
				default:
					okBody = false
					why = "the loop decides on " + a.Expr
				}
			}
			got := p.env[acc]
			wantFirst := "ACC + " + row.elem
			wantLater := `ACC + ", " + ` + row.elem
			switch {
			case p.Exit != "end" && p.Exit != "continue":
				okBody, why = false, "a round leaves the loop ("+p.Exit+")"
			case !known:
				okBody, why = false, "a round does not distinguish the first element from the later ones (the separator would be missing or leading): appends "+got
			case first:
				sawFirst = true
				if got != wantFirst {
					okBody, why = false, "the first element is rendered as "+got+", documented "+wantFirst
				}
			default:
				sawLater = true
				if got != wantLater {
					okBody, why = false, "a later element is rendered as "+got+", documented "+wantLater
				}
			}
		}
		if okBody && !(sawFirst && sawLater) {
			okBody, why = false, "first/later cases incomplete"
		}
		c.Check(okBody && ranged == "RECV.TypeParams" && open == `"["`, rule, row.fn+"|table", r.Pos(fd.Pos()), "\"[\" + elements joined by \", \"", fmt.Sprintf("%s: %s (ranged %s, opened with %s); documented: \"[\" + the type parameters' %s joined by \", \" + \"]\"", row.fn, why, ranged, open, row.elem))
		// around the loop: "" for no type parameters, the accumulator + "]" otherwise
		paths, _ := enumerateFunc(info, fd)
		okFrame := len(paths) > 0
		for _, p := range paths {
			if p.Exit != "return" || len(p.Ret) != 1 {
				okFrame = false
				continue
			}
			empty, known := false, false
			for _, a := range p.Atoms {
				if v, ok := lenAtom(a.Expr, "builtin.len(RECV.TypeParams)", 0); ok {
					empty, known = v == a.Val, true
				}
			}
			if known && empty {
				okFrame = okFrame && p.Ret[0] == `""`
			} else {
				okFrame = okFrame && strings.HasSuffix(p.Ret[0], `+ "]"`) && !strings.Contains(p.Ret[0], `"]" +`)
			}
		}
		c.Check(okFrame, rule, row.fn+"|frame", r.Pos(fd.Pos()), "\"\" without type parameters, closed with \"]\" otherwise", row.fn+" does not return \"\" for an interface without type parameters and the bracketed list otherwise")
	}
}

// ruleSmallAccessors (R14.3, added after the mechanical-mutation sweep): Method.ReturnStatement is "return"
// exactly for methods with results (engine T's table assumes it), evaluated for 0..2 results;
// Method.AcceptsContext holds exactly when there is a first parameter whose type string is context.Context.
func ruleSmallAccessors(c *Ctx, r *Repo, rule string) {
	tp := r.Pkg("template")
	info := tp.TypesInfo
	if fd := FuncDecl(tp, "Method.ReturnStatement"); fd == nil {
		c.Fail(rule, "Method.ReturnStatement|missing", "template/method.go", "Method.ReturnStatement not found")
	} else {
		c.Func(funcKey(tp, fd))
		paths, _ := enumerateFunc(info, fd)
		ok := len(paths) > 0
		why := ""
		for n := 0; n <= 2; n++ {
			hit := 0
			for _, p := range paths {
				cons := true
				for _, a := range p.Atoms {
					v, known := lenAtom(a.Expr, "builtin.len(RECV.Returns)", n)
					if !known {
						ok, why = false, "decides on "+a.Expr
					} else if v != a.Val {
						cons = false
					}
				}
				if !cons {
					continue
				}
				hit++
				want := `""`
				if n > 0 {
					want = `"return"`
				}
				if p.Exit != "return" || len(p.Ret) != 1 || p.Ret[0] != want {
					ok, why = false, fmt.Sprintf("for %d results it yields %v, documented %s", n, p.Ret, want)
				}
			}
			if hit != 1 {
				ok, why = false, fmt.Sprintf("%d paths for %d results", hit, n)
			}
		}
		c.Check(ok, rule, "Method.ReturnStatement|table", r.Pos(fd.Pos()), "\"return\" iff the method has results", "Method.ReturnStatement: "+why)
	}
	// HasParams / HasReturns: true exactly for a non-empty list (evaluated for 0..2 elements)
	for _, row := range []struct{ fn, list string }{{"Method.HasParams", "RECV.Params"}, {"Method.HasReturns", "RECV.Returns"}} {
		fd := FuncDecl(tp, row.fn)
		if fd == nil {
			continue
		}
		d := newDT(info)
		d.boolReturns = true
		d.paths = nil
		d.stmts(seedEnv(d, fd), fd.Body.List, func(p *dtPath) { d.finish(p, "end") })
		ok := len(d.paths) > 0
		for n := 0; n <= 2; n++ {
			hit := 0
			for _, p := range d.paths {
				cons := true
				for _, a := range p.Atoms {
					if v, known := lenAtom(a.Expr, "builtin.len("+row.list+")", n); !known {
						ok = false
					} else if v != a.Val {
						cons = false
					}
				}
				if !cons {
					continue
				}
				hit++
				want := "false"
				if n > 0 {
					want = "true"
				}
				if p.Exit != "return" || len(p.Ret) != 1 || p.Ret[0] != want {
					ok = false
				}
			}
			if hit != 1 {
				ok = false
			}
		}
		c.Check(ok, rule, row.fn+"|table", r.Pos(fd.Pos()), "true iff the list is non-empty", row.fn+" is not 'the list has at least one element'")
	}
	// ReturnsError: some result's type string is "error"
	if fd := FuncDecl(tp, "Method.ReturnsError"); fd != nil {
		ok := false
		var rs *ast.RangeStmt
		for _, st := range fd.Body.List {
			if x, isR := st.(*ast.RangeStmt); isR && rs == nil {
				rs = x
			}
		}
		if rs != nil && newFuncCanon(info, fd).E(rs.X) == "RECV.Returns" {
			d := newDT(info)
			stt := seedEnv(d, fd)
			if v, isID := rs.Value.(*ast.Ident); isID && info.Defs[v] != nil {
				stt.env[info.Defs[v]] = "P"
			}
			d.paths = nil
			d.stmts(stt, rs.Body.List, func(p *dtPath) { d.finish(p, "end") })
			ok = len(d.paths) == 2
			for _, p := range d.paths {
				isErr, known := false, false
				for _, a := range p.Atoms {
					if strings.HasPrefix(a.Expr, "P.") && strings.Contains(a.Expr, "TypeString<") && strings.HasSuffix(a.Expr, `() == "error"`) {
						isErr, known = a.Val, true
					}
				}
				if !known || isErr && !(p.Exit == "return" && len(p.Ret) == 1 && p.Ret[0] == "true") || !isErr && p.Exit == "return" {
					ok = false
				}
			}
			// after the loop: false
			if last, isRet := fd.Body.List[len(fd.Body.List)-1].(*ast.ReturnStmt); !isRet || len(last.Results) != 1 || types.ExprString(last.Results[0]) != "false" {
				ok = false
			}
		}
		c.Check(ok, rule, "Method.ReturnsError|table", r.Pos(fd.Pos()), "true iff some result's type is error", "Method.ReturnsError is not 'some result has the type string \"error\"'")
	}
	if fd := FuncDecl(tp, "Method.AcceptsContext"); fd == nil {
		c.Fail(rule, "Method.AcceptsContext|missing", "template/method.go", "Method.AcceptsContext not found")
	} else {
		c.Func(funcKey(tp, fd))
		d := newDT(info)
		d.boolReturns = true
		d.paths = nil
		d.stmts(seedEnv(d, fd), fd.Body.List, func(p *dtPath) { d.finish(p, "end") })
		ok := len(d.paths) > 0
		why := ""
		for _, p := range d.paths {
			has, isCtx, knownHas, knownCtx := false, false, false, false
			for _, a := range p.Atoms {
				if v, known := lenAtom(a.Expr, "builtin.len(RECV.Params)", 0); known {
					// the atom must separate "no parameter" from "one parameter": false for 0, true for 1 (or the reverse)
					v1, _ := lenAtom(a.Expr, "builtin.len(RECV.Params)", 1)
					if v == v1 {
						ok, why = false, "the length test "+a.Expr+" does not tell a method without parameters from one with a single parameter"
					}
					has, knownHas = v != a.Val, true
					continue
				}
				if strings.HasPrefix(a.Expr, "RECV.Params[0].TypeString<") && strings.HasSuffix(a.Expr, `() == "context.Context"`) {
					isCtx, knownCtx = a.Val, true
					continue
				}
				ok, why = false, "decides on "+a.Expr
			}
			want := "false"
			if knownHas && has && knownCtx && isCtx {
				want = "true"
			}
			if knownCtx && !knownHas {
				ok, why = false, "reads the first parameter without knowing there is one"
			}
			if p.Exit != "return" || len(p.Ret) != 1 || p.Ret[0] != want {
				ok, why = false, fmt.Sprintf("path %s, documented %s", p.String(), want)
			}
		}
		c.Check(ok, rule, "Method.AcceptsContext|table", r.Pos(fd.Pos()), "true iff the first parameter is a context.Context", "Method.AcceptsContext: "+why)
	}
}
