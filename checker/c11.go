package main

import (
	"fmt"
	"go/ast"
	"go/token"
	"go/types"
	"reflect"
	"regexp"
	"strings"

	"golang.org/x/tools/go/packages"
)

func init() { register("C11", checkC11) }

var reKV = regexp.MustCompile(`(\w+): `)

// splitLiteral splits "T{A: x, B: y(z, w)}" into field -> value (top-level commas only).
func splitLiteral(s string) map[string]string {
	out := map[string]string{}
	i := strings.Index(s, "{")
	if i < 0 || !strings.HasSuffix(s, "}") {
		return out
	}
	body := s[i+1 : len(s)-1]
	depth, start := 0, 0
	var parts []string
	inStr := false
	for k := 0; k < len(body); k++ {
		ch := body[k]
		switch {
		case ch == '"' && (k == 0 || body[k-1] != '\\'):
			inStr = !inStr
		case inStr:
		case ch == '(' || ch == '{' || ch == '[':
			depth++
		case ch == ')' || ch == '}' || ch == ']':
			depth--
		case ch == ',' && depth == 0:
			parts = append(parts, strings.TrimSpace(body[start:k]))
			start = k + 1
		}
	}
	if strings.TrimSpace(body[start:]) != "" {
		parts = append(parts, strings.TrimSpace(body[start:]))
	}
	for _, p := range parts {
		if j := strings.Index(p, ": "); j > 0 {
			out[p[:j]] = p[j+2:]
		}
	}
	return out
}

func checkC11(c *Ctx) {
	c.Explanation = `R11.1 variable bindings: the paths of Config.ParseTemplates up to the TemplateData literal are enumerated; on every path each documented variable must originate from its documented source - InterfaceName/InterfaceFile from the interface's Name/FileName, InterfaceDir from the parent directory of FileName, Mock = "Mock"/"mock" selected by go/ast.IsExported(interface name) (empty without an interface), SrcPackageName/SrcPackagePath from the source package's types Name()/Path(), StructName/Template from the config's own values, ConfigDir from filepath.Dir of the config-file parameter, InterfaceDirRelative from InterfaceDir made relative (fallback "."); NewRootConfig records the path of the config file actually loaded in that parameter before the levels are initialised;
R11.2 exactly dir, filename, pkgname, structname and template-schema are rendered, each label paired with the Config field carrying that koanf tag;
R11.3 termination and fixpoint: the rendering loop continues while a value changed, resets the flag at the top of each pass, sets it only under 'new value != value before rendering', and its pass counter is compared with a constant cap whose arm returns ErrInfiniteLoop from inside the loop; parse/execute errors are returned; there is no exit that keeps a half-rendered value silently;
R11.5 every interface renders its own copy of the templated parameters: GetInterfaceConfig hands out a deep copy of the package config and the configs entries are deep copies (the C08 rule R08.3), because ParseTemplates rewrites the strings in place;
R11.4 config templates and mock templates are both created with Funcs(template_funcs.FuncMap), and every FuncMap entry is the documented function (wrapper <-> strings namesake with the subject last; direct entries per the documented table).`
	c.NotDecided = "what text/template renders for a given expression; working-directory effects; path normalisation."
	c.Assumptions = []string{"text/template semantics", "go/ast.IsExported implements Go's exportedness rule"}
	c.Rule("R11.1", 11, "")
	c.Rule("R11.2", 5, "")
	c.Rule("R11.3", 5, "")
	c.Rule("R11.4", 2, "")
	c.Rule("R11.5", 1, "")
	ruleInterfaceFileOrigin(c, "R11.1")
	r := loadRepo(c, packages.LoadSyntax, "", "./config", "./template")
	cp := r.Pkg("config")
	info := cp.TypesInfo
	fd := FuncDecl(cp, "Config.ParseTemplates")
	if fd == nil {
		c.Fail("R11.1", "ParseTemplates|missing", "config/config.go", "Config.ParseTemplates not found")
		return
	}
	c.Func(funcKey(cp, fd))
	// ---- R11.1
	idx := -1
	var dataObj types.Object
	top := fd
	// the variables are bound in ParseTemplates or in a private helper of it that takes the same
	// (interface, source package) parameters
	for _, g := range familyOf(cp, top) {
		for i, s := range g.Body.List {
			switch x := s.(type) {
			case *ast.AssignStmt:
				if x.Tok == token.DEFINE && len(x.Lhs) == 1 && len(x.Rhs) == 1 {
					if cl, ok := x.Rhs[0].(*ast.CompositeLit); ok && types.ExprString(cl.Type) == "TemplateData" {
						idx = i
						dataObj = info.Defs[x.Lhs[0].(*ast.Ident)]
						fd = g
					}
				}
			case *ast.DeclStmt:
				// var data TemplateData, filled field by field afterwards
				if gd, ok := x.Decl.(*ast.GenDecl); ok && gd.Tok == token.VAR {
					for _, sp := range gd.Specs {
						vs := sp.(*ast.ValueSpec)
						if len(vs.Names) == 1 && len(vs.Values) == 0 && typeIs(info.TypeOf(vs.Type), "config.TemplateData") {
							dataObj = info.Defs[vs.Names[0]]
							fd = g
							idx = i
						}
					}
				}
			}
		}
	}
	// the value is complete after the last statement that assigns one of its fields
	if dataObj != nil {
		for i, s := range fd.Body.List {
			ast.Inspect(s, func(n ast.Node) bool {
				if as, ok := n.(*ast.AssignStmt); ok {
					for _, l := range as.Lhs {
						if se, ok := ast.Unparen(l).(*ast.SelectorExpr); ok && isObj(info, se.X, dataObj) && i > idx {
							idx = i
						}
					}
				}
				return true
			})
		}
	}
	if idx < 0 {
		c.Fail("R11.1", "ParseTemplates|data-literal", r.Pos(fd.Pos()), "no TemplateData literal found")
	} else {
		d := newDT(info)
		// the bindings may be computed by private helpers (the two directory forms, the Mock prefix): followed
		d.callInline = map[*types.Func]*ast.FuncDecl{}
		for fn, g := range pkgUnexported(cp) {
			if g != fd && g.Recv == nil && fn.Name() != "mergeConfigs" && fn.Name() != "mergeStringMaps" {
				d.callInline[fn] = g
			}
		}
		d.hoistCalls = true
		d.paths = nil
		d.stmts(seedEnv(d, fd), fd.Body.List[:idx+1], func(p *dtPath) { d.finish(p, "end") })
		const parent = "github.com/chigopher/pathlib.NewPath(ARG1.FileName).Parent<(github.com/chigopher/pathlib.Path).Parent>()"
		n := 0
		for _, p := range d.paths {
			if p.Exit != "end" {
				continue // error returns (os.Getwd)
			}
			n++
			f := splitLiteral(p.env[dataObj])
			ifaceNil, _ := p.atom("ARG1 == nil")
			exported, hasExp := p.atom("go/ast.IsExported(ARG1.Name)")
			relErr := false
			for _, a := range p.Atoms {
				if a.Err && strings.Contains(a.Expr, "RelativeToStr") && !a.Val {
					relErr = true
				}
			}
			want := map[string]string{
				"ConfigDir":      "path/filepath.Dir(*RECV.ConfigFile)",
				"StructName":     "*RECV.StructName",
				"Template":       "*RECV.Template",
				"SrcPackageName": "ARG2.Types.Name<(go/types.Package).Name>()",
				"SrcPackagePath": "ARG2.Types.Path<(go/types.Package).Path>()",
			}
			if ifaceNil {
				want["Mock"] = `""`
				for _, k := range []string{"InterfaceDir", "InterfaceDirRelative", "InterfaceFile", "InterfaceName"} {
					want[k] = "zero"
				}
			} else {
				want["InterfaceName"] = "ARG1.Name"
				want["InterfaceFile"] = "ARG1.FileName"
				want["InterfaceDir"] = parent + ".String<(github.com/chigopher/pathlib.Path).String>()"
				if relErr {
					want["InterfaceDirRelative"] = `"."`
				} else {
					want["InterfaceDirRelative"] = parent + ".RelativeToStr<(github.com/chigopher/pathlib.Path).RelativeToStr>(os.Getwd()#0)#0.String<(github.com/chigopher/pathlib.Path).String>()"
				}
				switch {
				case !hasExp:
					want["Mock"] = "<decided by go/ast.IsExported(interface name)>"
				case exported:
					want["Mock"] = `"Mock"`
				default:
					want["Mock"] = `"mock"`
				}
			}
			for k, w := range want {
				key := "ParseTemplates|binding|" + k
				got := f[k]
				// the zero value of a string variable and the literal "" are the same binding
				if (w == `""` && got == "zero") || (w == "zero" && got == `""`) {
					got = w
				}
				// a field that is never assigned keeps its zero value
				if _, assigned := f[k]; !assigned && (w == "zero" || w == `""`) {
					got = w
				}
				if got == w {
					c.OK("R11.1", key, r.Pos(fd.Body.List[idx].Pos()), k+" <- "+w)
				} else {
					c.Fail("R11.1", key, r.Pos(fd.Body.List[idx].Pos()), fmt.Sprintf("template variable %s is bound to %q on path %s; documented source: %s", k, f[k], p.String(), w))
				}
			}
			for k := range f {
				if _, ok := want[k]; !ok {
					c.Fail("R11.1", "ParseTemplates|binding-unknown|"+k, r.Pos(fd.Body.List[idx].Pos()), "undocumented template variable "+k)
				}
			}
		}
		if n == 0 {
			c.Fail("R11.1", "ParseTemplates|no-path", r.Pos(fd.Pos()), "no path reaches the TemplateData literal")
		}
	}
	// the config file in use is recorded before Initialize
	if nr := FuncDecl(cp, "NewRootConfig"); nr != nil {
		storePos, initPos := token.NoPos, token.NoPos
		// the path handed to the file provider: file.Provider(<P>.String())
		var pathObj types.Object
		ast.Inspect(nr.Body, func(n ast.Node) bool {
			if call, ok := n.(*ast.CallExpr); ok && strings.HasSuffix(calleeName(info, call), "providers/file.Provider") && len(call.Args) == 1 {
				if root, _ := selChainCalls(call.Args[0]); root != nil {
					pathObj = info.Uses[root]
				}
			}
			return true
		})
		ast.Inspect(nr.Body, func(n ast.Node) bool {
			switch x := n.(type) {
			case *ast.AssignStmt:
				if len(x.Lhs) == 1 && len(x.Rhs) == 1 {
					if se, ok := x.Lhs[0].(*ast.SelectorExpr); ok && se.Sel.Name == "ConfigFile" && typeIs(info.TypeOf(se.X), "config.RootConfig") {
						usesPath := false
						ast.Inspect(x.Rhs[0], func(m ast.Node) bool {
							if call, ok := m.(*ast.CallExpr); ok && strings.HasSuffix(calleeName(info, call), "pathlib.Path).String") {
								if root, _ := selChainCalls(call.Fun); root != nil && pathObj != nil && info.Uses[root] == pathObj {
									usesPath = true
								}
							}
							return true
						})
						// on every path: a statement of the function body itself, or under a guard that compares the
						// recorded value with the loaded file's path (then the assignment is idempotent) - a store made
						// only when the parameter is empty keeps what MOCKERY_CONFIG/--config/the file's own `config:`
						// key said, which need not be the file in use (round 7)
						always := false
						for _, st := range nr.Body.List {
							if st == ast.Stmt(x) {
								always = true
							}
							if is, ok := st.(*ast.IfStmt); ok && is.Pos() <= x.Pos() && x.End() <= is.End() && is.Else == nil {
								ast.Inspect(is.Cond, func(m ast.Node) bool {
									if call, ok := m.(*ast.CallExpr); ok && strings.HasSuffix(calleeName(info, call), "pathlib.Path).String") {
										if root, _ := selChainCalls(call.Fun); root != nil && pathObj != nil && info.Uses[root] == pathObj {
											always = true
										}
									}
									return true
								})
							}
						}
						if usesPath && always {
							storePos = x.Pos()
						}
					}
				}
			case *ast.CallExpr:
				if calleeName(info, x) == "("+modPath+"/config.RootConfig).Initialize" {
					initPos = x.Pos()
				}
				// or the loaded path is put under the key "config" in the koanf instance before decoding (it then
				// reaches ConfigFile through the decoder), outside any condition
				if strings.HasSuffix(calleeName(info, x), "koanf/v2.Koanf).Set") && len(x.Args) == 2 {
					if tv, ok := info.Types[x.Args[0]]; ok && tv.Value != nil && tv.Value.ExactString() == `"config"` {
						usesPath := false
						ast.Inspect(x.Args[1], func(m ast.Node) bool {
							if call, ok := m.(*ast.CallExpr); ok && strings.HasSuffix(calleeName(info, call), "pathlib.Path).String") {
								if root, _ := selChainCalls(call.Fun); root != nil && pathObj != nil && info.Uses[root] == pathObj {
									usesPath = true
								}
							}
							return true
						})
						// unconditional: the statement that contains the call is a statement of the function body
						top := false
						for _, st := range nr.Body.List {
							if is, ok := st.(*ast.IfStmt); ok && is.Init != nil && is.Init.Pos() <= x.Pos() && x.End() <= is.Init.End() {
								top = true
							}
							if es, ok := st.(*ast.ExprStmt); ok && es.Pos() <= x.Pos() && x.End() <= es.End() {
								top = true
							}
							if as, ok := st.(*ast.AssignStmt); ok && as.Pos() <= x.Pos() && x.End() <= as.End() {
								top = true
							}
						}
						decodeAfter := false
						ast.Inspect(nr.Body, func(m ast.Node) bool {
							if call, ok := m.(*ast.CallExpr); ok && call.Pos() > x.End() && strings.Contains(calleeName(info, call), "koanf/v2.Koanf).Unmarshal") {
								decodeAfter = true
							}
							return true
						})
						if usesPath && top && decodeAfter {
							storePos = x.Pos()
						}
					}
				}
			}
			return true
		})
		c.Check(storePos.IsValid() && initPos.IsValid() && storePos < initPos, "R11.1", "NewRootConfig|config-file-in-use", r.Pos(nr.Pos()), "ConfigFile = path of the file actually loaded, before the levels inherit it", "the `config` parameter is not set to the config file actually loaded before the levels are initialised: ConfigDir is \".\" whenever the file was found by searching parent directories")
	}
	fd = top
	// ---- R11.2
	cfg := cp.Types.Scope().Lookup("Config").Type().Underlying().(*types.Struct)
	tagOf := map[string]string{}
	for i := 0; i < cfg.NumFields(); i++ {
		tagOf[cfg.Field(i).Name()] = tagName(cfg.Tag(i), "koanf")
	}
	wantLabels := map[string]bool{"dir": true, "filename": true, "pkgname": true, "structname": true, "template-schema": true}
	var tm *ast.CompositeLit
	for _, g := range familyOf(cp, fd) {
		ast.Inspect(g.Body, func(n ast.Node) bool {
			if cl, ok := n.(*ast.CompositeLit); ok && types.ExprString(cl.Type) == "map[string]*string" {
				tm = cl
			}
			return true
		})
	}
	if tm == nil {
		c.Fail("R11.2", "ParseTemplates|template-map", r.Pos(fd.Pos()), "the map of templated parameters was not found")
	} else {
		seen := map[string]bool{}
		for _, el := range tm.Elts {
			kv := el.(*ast.KeyValueExpr)
			label := strings.Trim(types.ExprString(kv.Key), `"`)
			field := ""
			if se, ok := kv.Value.(*ast.SelectorExpr); ok {
				field = se.Sel.Name
			}
			seen[label] = true
			c.Check(wantLabels[label] && tagOf[field] == label, "R11.2", "ParseTemplates|templated|"+label, r.Pos(kv.Pos()), label+" <- Config."+field, fmt.Sprintf("templated parameter %q is paired with Config.%s (koanf tag %q)", label, field, tagOf[field]))
		}
		for l := range wantLabels {
			if !seen[l] {
				c.Fail("R11.2", "ParseTemplates|templated-missing|"+l, r.Pos(tm.Pos()), "the documented templated parameter "+l+" is no longer rendered")
			}
		}
	}
	// ---- R11.3
	ruleFixpoint(c, r, cp, fd)
	ruleRenderMemoKey(c, r, "R11.3")
	// ---- R11.5: ParseTemplates rewrites the templated strings in place, so each interface must own its Config
	subRules(c, "R11.5", "own-config", "templated parameters are rendered in place, so a Config shared between interfaces is rendered once and reused: ", func(sub *Ctx) { ruleNoSharing(sub, r, cp) })
	// ---- R11.4
	for _, site := range []struct{ pkg, fn string }{{"config", "Config.ParseTemplates"}, {"template", "New"}} {
		p := r.Pkg(site.pkg)
		f := FuncDecl(p, site.fn)
		ok := false
		if f != nil {
			// in the function itself or in a function of the package it calls
			for _, g := range withCallees(p, f) {
				ast.Inspect(g.Body, func(n ast.Node) bool {
					if call, isCall := n.(*ast.CallExpr); isCall && calleeName(p.TypesInfo, call) == "(text/template.Template).Funcs" && len(call.Args) == 1 {
						if se, isSel := call.Args[0].(*ast.SelectorExpr); isSel {
							if v, isVar := p.TypesInfo.Uses[se.Sel].(*types.Var); isVar && v.Pkg().Path() == modPath+"/template_funcs" && v.Name() == "FuncMap" {
								ok = true
							}
						}
					}
					return true
				})
			}
		}
		c.Check(ok, "R11.4", site.pkg+"."+site.fn+"|funcmap", site.pkg, "created with Funcs(template_funcs.FuncMap)", site.pkg+"."+site.fn+" does not install template_funcs.FuncMap: the documented function library is unavailable there")
	}
	_ = reflect.TypeOf
	// the documented function library itself (shared with C16)
	rf := loadRepo(c, packages.LoadSyntax, "", "./template_funcs", "./internal/config")
	ruleFuncMap(c, rf, "R11.4")
	// which config file is "the one in use" when it is found by search
	ruleFindConfig(c, rf, "R11.1")
}

func ruleFixpoint(c *Ctx, r *Repo, cp *packages.Package, fd *ast.FuncDecl) {
	info := cp.TypesInfo
	var loop *ast.ForStmt
	top := fd
	// the rendering loop sits in ParseTemplates or in a private helper of it
	for _, g := range familyOf(cp, top) {
		for _, s := range g.Body.List {
			if fs, ok := s.(*ast.ForStmt); ok && loop == nil {
				if _, isFlag := ast.Unparen(fs.Cond).(*ast.Ident); isFlag || g == top {
					loop = fs
					fd = g
				}
			}
		}
	}
	if loop == nil {
		c.Fail("R11.3", "ParseTemplates|loop", r.Pos(fd.Pos()), "no rendering loop")
		return
	}
	flag, _ := ast.Unparen(loop.Cond).(*ast.Ident)
	if flag == nil {
		c.Fail("R11.3", "ParseTemplates|loop-condition", r.Pos(loop.Pos()), "the rendering loop does not continue exactly while a value changed")
		return
	}
	flagObj := info.Uses[flag]
	// the first pass happens: the flag is true when the loop is reached (mechanical-mutation finding: initialised
	// to false, nothing is ever rendered)
	{
		firstTrue, nDef := false, 0
		for _, g := range familyOf(cp, fd) {
			ast.Inspect(g.Body, func(n ast.Node) bool {
				switch x := n.(type) {
				case *ast.AssignStmt:
					for i, l := range x.Lhs {
						if id, ok := l.(*ast.Ident); ok && objOf(info, id) == flagObj && x.Pos() < loop.Pos() && i < len(x.Rhs) {
							nDef++
							if rid, ok := ast.Unparen(x.Rhs[i]).(*ast.Ident); ok && rid.Name == "true" {
								firstTrue = true
							} else {
								firstTrue = false
							}
						}
					}
				case *ast.ValueSpec:
					for i, nm := range x.Names {
						if info.Defs[nm] == flagObj && x.Pos() < loop.Pos() {
							nDef++
							if i < len(x.Values) {
								if rid, ok := ast.Unparen(x.Values[i]).(*ast.Ident); ok && rid.Name == "true" {
									firstTrue = true
								}
							}
						}
					}
				}
				return true
			})
		}
		c.Check(firstTrue && nDef == 1, "R11.3", "ParseTemplates|first-pass", r.Pos(loop.Pos()), "the flag is true when the loop is first reached", "the changed-flag is not initialised to true before the rendering loop: the loop body never runs and no templated value is rendered")
	}
	// counter
	var ctr types.Object
	if as, ok := loop.Init.(*ast.AssignStmt); ok && len(as.Lhs) == 1 {
		ctr = info.Defs[as.Lhs[0].(*ast.Ident)]
	}
	incOK := false
	if inc, ok := loop.Post.(*ast.IncDecStmt); ok && inc.Tok == token.INC {
		if id, ok := inc.X.(*ast.Ident); ok && info.Uses[id] == ctr {
			incOK = true
		}
	}
	// cap: first statements contain `if ctr >= K { ... return ErrInfiniteLoop }`
	capOK := false
	resetIdx, capIdx, innerIdx := -1, -1, -1
	for i, s := range loop.Body.List {
		switch x := s.(type) {
		case *ast.IfStmt:
			if be, ok := x.Cond.(*ast.BinaryExpr); ok && (be.Op == token.GEQ || be.Op == token.GTR || be.Op == token.EQL) {
				if id, ok := be.X.(*ast.Ident); ok && info.Uses[id] == ctr {
					if _, isConst := constInt(info, be.Y); isConst {
						if l := len(x.Body.List); l > 0 {
							if rs, ok := x.Body.List[l-1].(*ast.ReturnStmt); ok && len(rs.Results) == 1 && types.ExprString(rs.Results[0]) == "ErrInfiniteLoop" {
								capOK = true
								capIdx = i
							}
						}
					}
				}
			}
		case *ast.AssignStmt:
			if len(x.Lhs) == 1 && len(x.Rhs) == 1 {
				if id, ok := x.Lhs[0].(*ast.Ident); ok && info.Uses[id] == flagObj && types.ExprString(x.Rhs[0]) == "false" {
					resetIdx = i
				}
			}
		case *ast.RangeStmt:
			innerIdx = i
		}
	}
	c.Check(capOK && incOK, "R11.3", "ParseTemplates|iteration-cap", r.Pos(loop.Pos()), "pass counter compared with a constant; over-run returns ErrInfiniteLoop", "the rendering loop has no constant bound on its passes that returns ErrInfiniteLoop: a value that never stabilises (e.g. one that grows on every pass) makes mockery spin forever")
	c.Check(resetIdx >= 0 && innerIdx > resetIdx && (capIdx < 0 || capIdx < innerIdx), "R11.3", "ParseTemplates|flag-reset", r.Pos(loop.Pos()), "changed-flag reset at the top of every pass, before rendering", "the changed-flag is not reset to false before the values are rendered in each pass")
	if innerIdx < 0 {
		c.Fail("R11.3", "ParseTemplates|render-loop", r.Pos(loop.Pos()), "no inner loop over the templated values")
		return
	}
	inner := loop.Body.List[innerIdx].(*ast.RangeStmt)
	ptr, _ := inner.Value.(*ast.Ident)
	var ptrObj types.Object
	if ptr != nil {
		ptrObj = info.Defs[ptr]
	}
	isDeref := func(e ast.Expr) bool {
		st, ok := ast.Unparen(e).(*ast.StarExpr)
		if !ok {
			return false
		}
		id, ok := st.X.(*ast.Ident)
		return ok && info.Uses[id] == ptrObj
	}
	var oldObj types.Object
	oldIdx, storeIdx, cmpIdx := -1, -1, -1
	nSetTrue := 0
	fc := newFuncCanon(info, fd)
	newVal := "" // canonical form of what was stored through the pointer
	for i, s := range inner.Body.List {
		switch x := s.(type) {
		case *ast.AssignStmt:
			if len(x.Lhs) == 1 && len(x.Rhs) == 1 {
				if x.Tok == token.DEFINE && isDeref(x.Rhs[0]) && storeIdx < 0 {
					oldObj = info.Defs[x.Lhs[0].(*ast.Ident)]
					oldIdx = i
				}
				if x.Tok == token.ASSIGN && isDeref(x.Lhs[0]) {
					storeIdx = i
					newVal = fc.E(x.Rhs[0])
				}
			}
		case *ast.IfStmt:
			if be, ok := x.Cond.(*ast.BinaryExpr); ok && be.Op == token.NEQ && x.Init == nil && x.Else == nil {
				a, b := ast.Unparen(be.X), ast.Unparen(be.Y)
				isOld := func(e ast.Expr) bool {
					id, ok := e.(*ast.Ident)
					return ok && oldObj != nil && info.Uses[id] == oldObj
				}
				if isOld(a) {
					a, b = b, a
				}
				// a: the value now behind the pointer (read back, or the very expression that was stored)
				isNew := isDeref(a) || (storeIdx >= 0 && fc.E(a) == newVal)
				if isNew && isOld(b) && len(x.Body.List) == 1 {
					if as, ok := x.Body.List[0].(*ast.AssignStmt); ok && len(as.Lhs) == 1 && len(as.Rhs) == 1 && types.ExprString(as.Rhs[0]) == "true" {
						if l, ok := as.Lhs[0].(*ast.Ident); ok && info.Uses[l] == flagObj {
							cmpIdx = i
						}
					}
				}
			}
		}
	}
	ast.Inspect(loop.Body, func(n ast.Node) bool {
		if as, ok := n.(*ast.AssignStmt); ok && len(as.Lhs) == 1 && len(as.Rhs) == 1 {
			if l, ok := as.Lhs[0].(*ast.Ident); ok && info.Uses[l] == flagObj && types.ExprString(as.Rhs[0]) == "true" {
				nSetTrue++
			}
		}
		return true
	})
	c.Check(oldIdx >= 0 && storeIdx > oldIdx && cmpIdx > storeIdx && nSetTrue == 1, "R11.3", "ParseTemplates|change-detection", r.Pos(inner.Pos()), "flag set only under 'rendered value != value before rendering'", "the changed-flag is not set exactly when the rendered value differs from the value before rendering (old value saved, value re-rendered, then compared): the fixpoint may stop early or never")
	// errors inside the pass are returned (R09.1 form, local)
	n := errorPaths(c, r, "R11.3", cp, fd, errFallbacks)
	_ = n
}

// ruleInterfaceFileOrigin (R11.1, round 6): InterfaceFile/InterfaceDir are documented as the file the interface
// is declared in. They are derived from the file name the parser records with each interface, which must be the
// name of the Go file itself -- the package's GoFiles entry that belongs to the syntax tree walked, or the name
// of the token.File -- and not a position's Filename, which //line directives rewrite (goyacc, cgo, protoc
// plugins): the mock of such an interface would be written next to the grammar file.
func ruleInterfaceFileOrigin(c *Ctx, rule string) {
	r := loadRepo(c, packages.LoadSyntax, "", "./internal")
	ip := r.Pkg("internal")
	info := ip.TypesInfo
	pp := FuncDecl(ip, "Parser.ParsePackages")
	if pp == nil {
		c.Fail(rule, "ParsePackages|missing", "internal/parse.go", "Parser.ParsePackages not found")
		return
	}
	n := 0
	for _, g := range familyOf(ip, pp) {
		fc := newFuncCanonG(ip, g)
		ast.Inspect(g.Body, func(x ast.Node) bool {
			call, ok := x.(*ast.CallExpr)
			if !ok || !strings.HasSuffix(calleeName(info, call), "/config.NewInterface") || len(call.Args) < 3 {
				return true
			}
			n++
			file, syn := fc.E(call.Args[1]), fc.E(call.Args[2])
			adjusted := strings.Contains(file, ".Position<") || strings.Contains(file, ".PositionFor<") || strings.Contains(file, ".Filename")
			fromGoFiles := strings.Contains(file, ".GoFiles") || strings.Contains(file, ".CompiledGoFiles")
			fromTokenFile := strings.Contains(file, ".File<(go/token.FileSet).File>(") && strings.HasSuffix(file, ".Name<(go/token.File).Name>()")
			c.Check(!adjusted && (fromGoFiles || fromTokenFile), rule, "NewInterface|file-origin", r.Pos(call.Pos()), "the recorded file is the Go file's own name", fmt.Sprintf("the file name recorded with an interface is %s: InterfaceFile/InterfaceDir must name the Go file the interface is declared in (the package's GoFiles entry or the token.File's name), not a position's file name, which //line directives rewrite", file))
			// the name and the syntax tree belong to the same file: same index, or the name is derived from the tree
			same := false
			switch {
			case fromTokenFile && strings.Contains(file, syn):
				same = true
			case fromGoFiles:
				// GoFiles[i] with Syntax[i], or rangeval(GoFiles) with Syntax[rangekey(GoFiles)] and the like
				same = indexPairs(file, syn)
			}
			c.Check(same, rule, "NewInterface|file-and-syntax-agree", r.Pos(call.Pos()), "file name and syntax tree belong to the same file", fmt.Sprintf("the file name (%s) and the syntax tree (%s) recorded with an interface are not tied to the same file index", file, syn))
			return true
		})
	}
	c.Check(n >= 1, rule, "NewInterface|sites", r.Pos(pp.Pos()), "interfaces recorded", "ParsePackages records no interface (anchor unresolved)")
}

// indexPairs: a = X.GoFiles-derived, b = X.Syntax-derived, and one is the range value while the other is
// indexed by the same loop's key, or both are indexed by the same expression.
func indexPairs(a, b string) bool {
	key := func(s string) (string, bool) { // "...[K]" -> K ; "rangeval(E)" -> "rangekey(E)"
		if strings.HasPrefix(s, "rangeval(") && strings.HasSuffix(s, ")") {
			return "rangekey(" + strings.TrimSuffix(strings.TrimPrefix(s, "rangeval("), ")") + ")", true
		}
		if i := strings.LastIndex(s, "["); i >= 0 && strings.HasSuffix(s, "]") {
			return s[i+1 : len(s)-1], true
		}
		return "", false
	}
	ka, oka := key(a)
	kb, okb := key(b)
	return oka && okb && ka == kb && ka != ""
}

// ruleRenderMemoKey (round 7): a memo of rendered config values that lives longer than one call (a package-level
// map written in ParseTemplates' family) must be keyed by everything the rendering reads, i.e. the text and the
// whole TemplateData. A key that formats the data through package fmt is the whole data only as long as
// TemplateData has no String/GoString/Format/Error method: with one, %v/%s/%q print that method's result (two
// cooperating edits: a cache keyed by Sprintf("%q %q", text, data) and a String() that names package and
// interface only - the second configs entry of an interface then gets the first one's file name).
func ruleRenderMemoKey(c *Ctx, r *Repo, rule string) {
	cp := r.Pkg("config")
	info := cp.TypesInfo
	fd := FuncDecl(cp, "Config.ParseTemplates")
	if fd == nil {
		return
	}
	td, _ := cp.Types.Scope().Lookup("TemplateData").(*types.TypeName)
	if td == nil {
		c.Fail(rule, "ParseTemplates|memo-key|TemplateData", "config/config.go", "type TemplateData not found")
		return
	}
	custom := ""
	for _, t := range []types.Type{td.Type(), types.NewPointer(td.Type())} {
		ms := types.NewMethodSet(t)
		for i := 0; i < ms.Len(); i++ {
			switch ms.At(i).Obj().Name() {
			case "String", "GoString", "Format", "Error":
				custom = ms.At(i).Obj().Name()
			}
		}
	}
	isData := func(e ast.Expr) bool {
		t := info.TypeOf(e)
		if t == nil {
			return false
		}
		if p, ok := t.Underlying().(*types.Pointer); ok {
			t = p.Elem()
		}
		return types.Identical(t, td.Type())
	}
	bad := ""
	nMemo := 0
	for _, g := range familyOf(cp, fd) {
		defs := map[types.Object][]ast.Expr{}
		ast.Inspect(g.Body, func(x ast.Node) bool {
			if as, ok := x.(*ast.AssignStmt); ok && len(as.Lhs) == len(as.Rhs) {
				for i, l := range as.Lhs {
					if id, ok := l.(*ast.Ident); ok {
						o := info.Defs[id]
						if o == nil {
							o = info.Uses[id]
						}
						if o != nil {
							defs[o] = append(defs[o], as.Rhs[i])
						}
					}
				}
			}
			return true
		})
		ast.Inspect(g.Body, func(x ast.Node) bool {
			as, ok := x.(*ast.AssignStmt)
			if !ok {
				return true
			}
			for _, l := range as.Lhs {
				ie, ok := ast.Unparen(l).(*ast.IndexExpr)
				if !ok {
					continue
				}
				id, ok := ast.Unparen(ie.X).(*ast.Ident)
				if !ok {
					continue
				}
				v, ok := info.Uses[id].(*types.Var)
				if !ok || v.Parent() != cp.Types.Scope() {
					continue
				}
				nMemo++
				// the expressions the key is made of (through the definitions of a local key variable)
				exprs := []ast.Expr{ie.Index}
				if kid, ok := ast.Unparen(ie.Index).(*ast.Ident); ok {
					exprs = append(exprs, defs[info.Uses[kid]]...)
				}
				whole, viaFmt := false, false
				for _, e := range exprs {
					ast.Inspect(e, func(m ast.Node) bool {
						switch y := m.(type) {
						case *ast.CallExpr:
							if strings.HasPrefix(calleeName(info, y), "fmt.") {
								for _, a := range y.Args {
									if isData(a) {
										viaFmt = true
									}
								}
								return false
							}
						case *ast.CompositeLit:
							for _, el := range y.Elts {
								v := el
								if kv, ok := el.(*ast.KeyValueExpr); ok {
									v = kv.Value
								}
								if isData(v) {
									whole = true
								}
							}
						}
						return true
					})
				}
				switch {
				case whole:
				case viaFmt && custom == "":
				case viaFmt:
					bad = fmt.Sprintf("%s keys %s by a fmt rendering of the template data, and TemplateData has a %s method: the key contains what that method prints, not the data", g.Name.Name, id.Name, custom)
				default:
					bad = fmt.Sprintf("%s stores into the package-level map %s under a key (%s) that does not contain the template data the value was rendered from", g.Name.Name, id.Name, types.ExprString(ie.Index))
				}
			}
			return true
		})
	}
	c.Check(bad == "", rule, "ParseTemplates|memo-key", r.Pos(fd.Pos()), fmt.Sprintf("%d package-level memo stores in ParseTemplates; each keyed by the whole template data", nMemo), bad+": a later call with the same text and different data (another configs entry, another interface) is given the remembered rendering")
}
