package main

import (
	"fmt"
	"go/ast"
	"go/constant"
	"go/token"
	"go/types"
	"strings"

	"golang.org/x/tools/go/packages"
)

func init() { register("C20", checkC20) }

var gitMutators = map[string]bool{"CreateTag": true, "DeleteTag": true, "CreateBranch": true, "DeleteBranch": true, "CreateRemote": true, "CreateRemoteAnonymous": true, "DeleteRemote": true,
	"Push": true, "PushContext": true, "Fetch": true, "FetchContext": true, "Commit": true, "Add": true, "AddGlob": true, "AddWithOptions": true, "Remove": true, "RemoveGlob": true, "Move": true,
	"Checkout": true, "Reset": true, "ResetSparsely": true, "Pull": true, "PullContext": true, "Clean": true, "SetReference": true, "RemoveReference": true, "SetConfig": true, "Merge": true, "Restore": true, "DeleteObject": true, "Prune": true}

func checkC20(c *Ctx) {
	c.Explanation = `The release tagger (tools/cmd, loaded from the tools module of the workspace):
R20.1 the dry-run flag is defined with default true;
R20.2 the flag reaches the decision: it is bound (BindPFlag) on the viper instance from which NewTagger unmarshals the Tagger, under the key of Tagger.DryRun's mapstructure tag;
R20.3 mutation is gated: every call in tools/cmd to a mutating go-git API (CreateTag, DeleteTag, reference/branch/remote/worktree mutators), wherever it sits, is dominated by three facts - DryRun tested false, the requested version strictly greater than the largest existing tag of its major (otherwise ErrNoNewVersion), the work tree's Status().IsClean() true - each established on every enumerated path of the enclosing function (or loop body) through the call, or else at every call site of that function (bounded); no error is swallowed before tagging;
R20.4 largest existing tag: the per-tag callback updates the maximum only under version.GreaterThan(max) && version.Major() == major, skips names with fewer than three dot-separated parts, takes the name of a lightweight tag from the reference (ErrObjectNotFound) and of an annotated tag from the tag object, and returns other errors;
R20.5 what is tagged: exactly the version and its major prefix (text before the first dot), both at repo.Head()'s hash;
R20.6 exit status: ErrNoNewVersion maps to the distinct non-zero code, any other error to 1.`
	c.NotDecided = "go-git and semver behaviour on real repositories; the tool has no tests and is outside the pinned suite."
	c.Assumptions = []string{"go-git's Status.IsClean covers staged and unstaged changes", "semver.GreaterThan is a strict order"}
	c.Rule("R20.1", 1, "")
	c.Rule("R20.2", 1, "")
	c.Rule("R20.3", 6, "")
	c.Rule("R20.4", 4, "")
	c.Rule("R20.5", 3, "")
	c.Rule("R20.6", 2, "")
	r := loadRepo(c, packages.LoadSyntax, "tools", "./cmd")
	var p *packages.Package
	for path, pk := range r.Pkgs {
		if strings.HasSuffix(path, "/tools/cmd") && len(pk.Syntax) > 0 {
			p = pk
		}
	}
	if p == nil {
		fatalf("tools/cmd not loaded")
	}
	info := p.TypesInfo
	// ---- R20.1 / R20.2
	ntc := FuncDecl(p, "NewTagCmd")
	if ntc == nil {
		c.Fail("R20.1", "NewTagCmd|missing", "tools/cmd/tag.go", "NewTagCmd not found")
		return
	}
	c.Func("tools/cmd.NewTagCmd")
	vObj := info.Defs[ntc.Type.Params.List[0].Names[0]]
	okDefault, okBind := false, false
	bindDetail := "no BindPFlag call"
	tagKey := ""
	if tg, ok := p.Types.Scope().Lookup("Tagger").(*types.TypeName); ok {
		st := tg.Type().Underlying().(*types.Struct)
		for i := 0; i < st.NumFields(); i++ {
			if st.Field(i).Name() == "DryRun" {
				tagKey = tagName(st.Tag(i), "mapstructure")
			}
		}
	}
	ast.Inspect(ntc.Body, func(n ast.Node) bool {
		call, ok := n.(*ast.CallExpr)
		if !ok {
			return true
		}
		switch name := calleeName(info, call); {
		case name == "(github.com/spf13/pflag.FlagSet).Bool" && len(call.Args) == 3:
			if tv := info.Types[call.Args[0]]; tv.Value != nil && constant.StringVal(tv.Value) == "dry-run" {
				okDefault = types.ExprString(call.Args[1]) == "true"
			}
		case strings.HasSuffix(name, "viper.Viper).BindPFlag") || name == "github.com/spf13/viper.BindPFlag":
			key := ""
			if tv := info.Types[call.Args[0]]; tv.Value != nil {
				key = constant.StringVal(tv.Value)
			}
			onV := false
			if sel, ok := call.Fun.(*ast.SelectorExpr); ok {
				if id, ok := sel.X.(*ast.Ident); ok && info.Uses[id] == vObj {
					onV = true
				}
			}
			flagOK := strings.HasSuffix(newFuncCanon(info, ntc).E(call.Args[1]), `.Lookup<(github.com/spf13/pflag.FlagSet).Lookup>("dry-run")`)
			if onV && key == tagKey && flagOK {
				okBind = true
			} else {
				bindDetail = fmt.Sprintf("BindPFlag(%q, %s) on %s", key, types.ExprString(call.Args[1]), types.ExprString(call.Fun))
			}
		}
		return true
	})
	c.Check(okDefault, "R20.1", "NewTagCmd|dry-run-default", r.Pos(ntc.Pos()), "dry-run defaults to true", "the dry-run flag is not defined with default true")
	// NewTagger(v) is called with the same instance and unmarshals from it
	okFlow := false
	ast.Inspect(ntc.Body, func(n ast.Node) bool {
		if call, ok := n.(*ast.CallExpr); ok {
			if fn := calleeFunc(info, call); fn != nil && fn.Name() == "NewTagger" && len(call.Args) == 1 {
				if id, ok := call.Args[0].(*ast.Ident); ok && info.Uses[id] == vObj {
					okFlow = true
				}
			}
		}
		return true
	})
	if nt := FuncDecl(p, "NewTagger"); nt != nil {
		pv := nt.Type.Params.List[0].Names[0].Name
		okFlow = okFlow && strings.Contains(nodeString(nt.Body), pv+".Unmarshal(t)")
	}
	c.Check(okBind && okFlow && tagKey != "", "R20.2", "NewTagCmd|dry-run-binding", r.Pos(ntc.Pos()), "flag bound under "+tagKey+" on the instance the Tagger is unmarshalled from", "the dry-run flag does not reach Tagger.DryRun: "+bindDetail+"; it must be bound under the Tagger's mapstructure key on the viper instance passed to NewTagger")
	// the Tagger's key has one writer per viper instance: a second BindPFlag/Set/SetDefault/BindEnv under the
	// same key replaces the tag command's binding (and with it the default true) unless the two commands are
	// given distinct instances, i.e. every *viper.Viper handed out in the package is created by viper.New() in
	// the call that returns it (round 7: a memoised newViper plus a push command binding its own --dry-run)
	{
		var writers []string
		for _, g := range pkgFuncDecls(p) {
			ast.Inspect(g.Body, func(n ast.Node) bool {
				call, ok := n.(*ast.CallExpr)
				if !ok || len(call.Args) == 0 {
					return true
				}
				name := calleeName(info, call)
				isW := false
				for _, m := range []string{"BindPFlag", "Set", "SetDefault", "BindEnv", "RegisterAlias", "BindFlagValue"} {
					if strings.HasSuffix(name, "viper.Viper)."+m) || name == "github.com/spf13/viper."+m {
						isW = true
					}
				}
				if !isW {
					return true
				}
				if tv := info.Types[call.Args[0]]; tv.Value != nil && tv.Value.Kind() == constant.String && constant.StringVal(tv.Value) == tagKey {
					writers = append(writers, r.Pos(call.Pos()))
				}
				return true
			})
		}
		shared := ""
		if len(writers) > 1 {
			isViperPtr := func(t types.Type) bool {
				return strings.HasSuffix(types.TypeString(t, nil), "spf13/viper.Viper")
			}
			for _, nm := range p.Types.Scope().Names() {
				if v, ok := p.Types.Scope().Lookup(nm).(*types.Var); ok && isViperPtr(v.Type()) {
					shared = "package-level variable " + nm + " holds a viper instance"
				}
			}
			for _, g := range pkgFuncDecls(p) {
				if g.Type.Results == nil || len(g.Type.Results.List) == 0 || !isViperPtr(info.TypeOf(g.Type.Results.List[0].Type)) {
					continue
				}
				fresh := map[types.Object]bool{}
				ast.Inspect(g.Body, func(n ast.Node) bool {
					if as, ok := n.(*ast.AssignStmt); ok && as.Tok == token.DEFINE && len(as.Lhs) == 1 && len(as.Rhs) == 1 {
						if call, ok := as.Rhs[0].(*ast.CallExpr); ok && calleeName(info, call) == "github.com/spf13/viper.New" {
							if id, ok := as.Lhs[0].(*ast.Ident); ok {
								fresh[info.Defs[id]] = true
							}
						}
					}
					return true
				})
				ast.Inspect(g.Body, func(n ast.Node) bool {
					if _, ok := n.(*ast.FuncLit); ok {
						return false
					}
					if rs, ok := n.(*ast.ReturnStmt); ok && len(rs.Results) > 0 {
						id, ok := ast.Unparen(rs.Results[0]).(*ast.Ident)
						isNew := false
						if call, ok2 := ast.Unparen(rs.Results[0]).(*ast.CallExpr); ok2 && calleeName(info, call) == "github.com/spf13/viper.New" {
							isNew = true
						}
						if !isNew && !(ok && fresh[info.Uses[id]]) {
							shared = g.Name.Name + " can return a viper instance it did not create in that call (" + r.Pos(rs.Pos()) + ")"
						}
					}
					return true
				})
			}
		}
		c.Check(len(writers) >= 1 && shared == "", "R20.2", "dry-run-key|single-writer-per-instance", r.Pos(ntc.Pos()), "the Tagger's dry-run key is written once per viper instance", fmt.Sprintf("the key %q is written at %d sites (%s) and the instances are not provably distinct: %s; the later binding replaces the tag command's, and with it the default true", tagKey, len(writers), strings.Join(writers, ", "), shared))
	}
	// ---- R20.3
	// Every call of a mutating go-git API must be dominated by three facts: DryRun tested false, the
	// requested version strictly greater than the largest existing one, and a clean work tree. A fact
	// holds at a call site when every enumerated path of the enclosing function (or of the innermost loop
	// body) through the site has established it before, or else when it holds at every call site of the
	// enclosing function (bounded), so the gates may sit in the function itself or in any of its callers.
	ct := FuncDecl(p, "Tagger.createTag")
	decls := pkgFuncDecls(p)
	declOf := pkgFuncs(p)
	pathsOf := map[*ast.FuncDecl][]*dtPath{}
	enum := func(fd *ast.FuncDecl) []*dtPath {
		if ps, ok := pathsOf[fd]; ok {
			return ps
		}
		d := newDTP(p, fd)
		d.paths = nil
		d.stmts(seedEnv(d, fd), fd.Body.List, func(q *dtPath) { d.finish(q, "end") })
		pathsOf[fd] = d.paths
		return d.paths
	}
	type fact struct {
		name, ok, bad string
		holds         func(a dtAtom) bool
	}
	const gtM = "<(github.com/Masterminds/semver/v3.Version)."
	isRequested := func(x string) bool { return x == "github.com/Masterminds/semver/v3.NewVersion(RECV.Version)#0" }
	isPrevious := func(y string) bool {
		return strings.HasPrefix(y, "RECV.largestTagSemver<") && strings.HasSuffix(y, "#0") && strings.Contains(y, "github.com/Masterminds/semver/v3.NewVersion(RECV.Version)#0")
	}
	// strictlyGreater: does the atom (with its truth value) say requested > previous?
	strictlyGreater := func(a dtAtom) bool {
		e := a.Expr
		for _, m := range []struct {
			method string
			swap   bool
		}{{"GreaterThan", false}, {"LessThan", true}} {
			if i := strings.Index(e, "."+m.method+gtM+m.method+">("); i >= 0 && strings.HasSuffix(e, ")") {
				x, y := e[:i], e[i+len("."+m.method+gtM+m.method+">("):len(e)-1]
				if m.swap {
					x, y = y, x
				}
				return a.Val && isRequested(x) && isPrevious(y)
			}
		}
		for _, cmp := range []struct {
			suffix string
			val    bool
		}{{" > 0", true}, {" == 1", true}, {" >= 1", true}, {" <= 0", false}, {" < 1", false}} {
			if strings.HasSuffix(e, cmp.suffix) {
				c0 := strings.TrimSuffix(e, cmp.suffix)
				if i := strings.Index(c0, ".Compare"+gtM+"Compare>("); i >= 0 && strings.HasSuffix(c0, ")") {
					x, y := c0[:i], c0[i+len(".Compare"+gtM+"Compare>("):len(c0)-1]
					return a.Val == cmp.val && isRequested(x) && isPrevious(y)
				}
			}
		}
		return false
	}
	facts := []fact{
		{"dry-run", "only when DryRun was tested false", "can run although DryRun is true (no test of DryRun == false dominates the call): a dry run would change the repository",
			func(a dtAtom) bool {
				return !a.Val && (a.Expr == "RECV.DryRun" || strings.HasPrefix(a.Expr, "ARG") && strings.HasSuffix(a.Expr, ".DryRun") && !strings.ContainsAny(strings.TrimSuffix(a.Expr, ".DryRun"), ".( "))
			}},
		{"strictly-greater", "only when requested.GreaterThan(largest existing tag of its major)", "can run without the requested version being strictly greater than the largest existing tag of its major: an older or equal VERSION would move published tags", strictlyGreater},
		{"clean-tree", "only when worktree.Status().IsClean()", "can run without go-git's Status.IsClean() having returned true (staged-only changes, for instance, must also block tagging)",
			func(a dtAtom) bool {
				return a.Val && strings.HasSuffix(a.Expr, ".IsClean<(github.com/go-git/go-git/v5.Status).IsClean>()") && strings.Contains(a.Expr, ".Worktree<(github.com/go-git/go-git/v5.Repository).Worktree>()#0.Status<")
			}},
	}
	enclosing := func(pos token.Pos) *ast.FuncDecl {
		for _, fd := range decls {
			if fd.Body.Pos() <= pos && pos < fd.Body.End() {
				return fd
			}
		}
		return nil
	}
	throughSite := func(paths []*dtPath, pos token.Pos, f fact) (through int, all bool) {
		all = true
		for _, q := range paths {
			for _, call := range q.Calls {
				if call.Pos != pos {
					continue
				}
				through++
				est := false
				for _, a := range q.Atoms {
					if a.Step <= call.Step && f.holds(a) {
						est = true
					}
				}
				all = all && est
				break
			}
		}
		return
	}
	var dominated func(f fact, pos token.Pos, depth int) bool
	dominated = func(f fact, pos token.Pos, depth int) bool {
		fd := enclosing(pos)
		if fd == nil || depth > 4 {
			return false
		}
		// innermost loop body first, then the function
		var inner *region
		for _, rg := range regionsOf(fd) {
			rg := rg
			if rg.kind == "loop" && len(rg.list) > 0 && rg.list[0].Pos() <= pos && pos < rg.list[len(rg.list)-1].End() {
				if inner == nil || rg.list[0].Pos() >= inner.list[0].Pos() {
					inner = &rg
				}
			}
		}
		if inner != nil {
			d := newDTP(p, fd)
			d.paths = nil
			d.stmts(seedEnv(d, fd), inner.list, func(q *dtPath) { d.finish(q, "end") })
			if n, all := throughSite(d.paths, pos, f); n > 0 && all {
				return true
			}
		}
		if n, all := throughSite(enum(fd), pos, f); n > 0 && all {
			return true
		}
		// the callers
		fn, _ := info.Defs[fd.Name].(*types.Func)
		nCallers, allCallers := 0, true
		for _, g := range decls {
			ast.Inspect(g.Body, func(n ast.Node) bool {
				if call, ok := n.(*ast.CallExpr); ok && fn != nil && calleeFunc(info, call) == fn {
					nCallers++
					if !dominated(f, call.Pos(), depth+1) {
						allCallers = false
					}
				}
				return true
			})
		}
		return nCallers > 0 && allCallers
	}
	nMut := 0
	mutReach := map[*ast.FuncDecl]bool{} // functions that contain a mutator call
	for _, fd := range decls {
		fd := fd
		ast.Inspect(fd.Body, func(n ast.Node) bool {
			call, ok := n.(*ast.CallExpr)
			if !ok {
				return true
			}
			fn := calleeFunc(info, call)
			if fn == nil || fn.Pkg() == nil || !strings.HasPrefix(fn.Pkg().Path(), "github.com/go-git/go-git") || !gitMutators[fn.Name()] {
				return true
			}
			if fn.Type().(*types.Signature).Recv() == nil {
				return true
			}
			nMut++
			mutReach[fd] = true
			c.Func("tools/cmd." + fd.Name.Name)
			for _, f := range facts {
				key := "mutator|" + fn.Name() + "|" + f.name
				c.Check(dominated(f, call.Pos(), 0), "R20.3", key, r.Pos(call.Pos()), fn.Name()+" runs "+f.ok, fmt.Sprintf("%s (in %s) %s", fn.Name(), fd.Name.Name, f.bad))
			}
			return true
		})
	}
	c.Check(nMut >= 2, "R20.3", "mutators|found", "tools/cmd/tag.go", fmt.Sprintf("%d mutating go-git calls examined", nMut), "the tag deletion/creation calls were not found in tools/cmd: the gates are not decided")
	tag := FuncDecl(p, "Tagger.Tag")
	if tag == nil {
		c.Fail("R20.3", "Tag|missing", "tools/cmd/tag.go", "Tag not found")
	} else {
		c.Func("tools/cmd.Tagger.Tag")
		// calls in Tag that lead to a mutator
		leads := func(name string) bool {
			for fn, fd := range declOf {
				if fd == nil || fd.Body == nil || !strings.HasSuffix(name, "."+fn.Name()) && !strings.HasSuffix(name, ")."+fn.Name()) {
					continue
				}
				for _, g := range withCallees(p, fd) {
					if mutReach[g] {
						return true
					}
				}
			}
			return false
		}
		nReach := 0
		okErr := true
		okNoNew, badNoNew := false, false
		for _, q := range enum(tag) {
			reachStep := -1
			for _, call := range q.Calls {
				if leads(call.Name) || strings.Contains(call.Name, "go-git") && gitMutators[call.Name[strings.LastIndex(call.Name, ".")+1:]] {
					reachStep = call.Step
					break
				}
			}
			// the path on which the requested version is not greater ends with ErrNoNewVersion and tags nothing
			for _, a := range q.Atoms {
				neg := a
				neg.Val = !a.Val
				if strictlyGreater(neg) {
					if q.Exit == "return" && len(q.Ret) == 3 && q.Ret[2] == "ErrNoNewVersion" && reachStep < 0 {
						okNoNew = true
					} else {
						badNoNew = true
					}
				}
			}
			if reachStep < 0 {
				continue
			}
			nReach++
			for _, a := range q.Atoms {
				if a.Err && !a.Val && a.Step <= reachStep {
					okErr = false
				}
			}
		}
		c.Check(nReach > 0 && okNoNew && !badNoNew, "R20.3", "Tag|strictly-greater-gate", r.Pos(tag.Pos()), "a version that is not strictly greater ends with ErrNoNewVersion and tags nothing", "Tag does not answer a requested version that is not strictly greater than the largest existing tag with ErrNoNewVersion (and nothing tagged)")
		c.Check(nReach > 0 && okErr, "R20.3", "Tag|errors-block", r.Pos(tag.Pos()), "no error is swallowed before tagging", "Tag reaches the tagging step on a path where an earlier step returned an error")
	}
	// ---- R20.4
	lt := FuncDecl(p, "Tagger.largestTagSemver")
	if lt == nil {
		c.Fail("R20.4", "largestTagSemver|missing", "tools/cmd/tag.go", "largestTagSemver not found")
	} else {
		c.Func("tools/cmd.Tagger.largestTagSemver")
		var fl *ast.FuncLit
		ast.Inspect(lt.Body, func(n ast.Node) bool {
			if x, ok := n.(*ast.FuncLit); ok && fl == nil {
				fl = x
			}
			return true
		})
		if fl == nil {
			c.Fail("R20.4", "largestTagSemver|callback", r.Pos(lt.Pos()), "no per-tag callback")
		} else {
			d := newDT(info)
			start := seedEnv(d, lt)
			if len(fl.Type.Params.List) == 1 {
				start.env[info.Defs[fl.Type.Params.List[0].Names[0]]] = "REF"
			}
			d.paths = nil
			d.stmts(start, fl.Body.List, func(q *dtPath) { d.finish(q, "end") })
			okUpd, okShort, okLight, okAnn := true, false, false, false
			nUpd := 0
			var maxObj types.Object
			ast.Inspect(lt.Body, func(n ast.Node) bool {
				if as, ok := n.(*ast.AssignStmt); ok && len(as.Lhs) == 2 && strings.Contains(types.ExprString(as.Rhs[0]), `NewVersion("v0.0.0")`) {
					maxObj = objOf(info, as.Lhs[0].(*ast.Ident))
				}
				return true
			})
			for _, q := range d.paths {
				_ = okShort
				updated := false
				if maxObj != nil {
					if v, ok := q.env[maxObj]; ok && strings.Contains(v, "NewVersion(") && !strings.Contains(v, `"v0.0.0"`) {
						updated = true
					}
				}
				vs := ""
				for _, a := range q.Atoms {
					if i := strings.Index(a.Expr, "strings.Split("); i >= 0 {
						vs = a.Expr[i:]
					}
				}
				if strings.Contains(vs, "REF.Name<") && strings.Contains(vs, ".Short<") {
					okLight = true
				}
				if strings.Contains(vs, ".TagObject<") && strings.Contains(vs, "#0.Name") {
					okAnn = true
				}
				if updated {
					nUpd++
					g, hasG := atomVal(q, ".GreaterThan<")
					m, hasM := atomVal(q, ".Major<(github.com/Masterminds/semver/v3.Version).Major>() == ARG1")
					if !(hasG && g && hasM && m) {
						okUpd = false
					}
				}
			}
			// names with fewer than three dot-separated parts are skipped, all others are parsed:
			// evaluate the length tests for 1..5 parts
			okShort = true
			for n := 1; n <= 5; n++ {
				parsed, skippedAll, any := false, true, false
				for _, q := range d.paths {
					consistent := true
					for _, a := range q.Atoms {
						if i := strings.Index(a.Expr, "builtin.len(strings.Split("); i == 0 {
							j := strings.Index(a.Expr, `, "."))`)
							if j < 0 {
								continue
							}
							if v, ok := lenAtom(a.Expr, a.Expr[:j+len(`, "."))`)], n); ok && v != a.Val {
								consistent = false
							}
						}
					}
					if !consistent {
						continue
					}
					any = true
					callsParse := len(q.CallsTo("semver/v3.NewVersion")) > 0
					if callsParse {
						parsed = true
						skippedAll = false
					} else if !(q.Exit == "return" && len(q.Ret) == 1) {
						skippedAll = false
					}
				}
				if !any || n < 3 && !skippedAll || n >= 3 && !parsed {
					okShort = false
				}
			}
			c.Check(okUpd && nUpd > 0, "R20.4", "largestTagSemver|update-condition", r.Pos(fl.Pos()), "maximum updated only for greater versions of the same major", "the running maximum is updated on a path that has not established version.GreaterThan(max) && version.Major() == major")
			c.Check(okShort, "R20.4", "largestTagSemver|non-full-versions", r.Pos(fl.Pos()), "names with fewer than three parts are skipped, all others are parsed", "tag names are not 'skipped iff fewer than three dot-separated parts': short names must be ignored, and names with three or more parts (a dotted pre-release or build suffix adds parts) must be parsed and compared, otherwise an existing release is overlooked and tagged again")
			c.Check(okLight, "R20.4", "largestTagSemver|lightweight-tags", r.Pos(fl.Pos()), "lightweight tags are compared by their reference name", "lightweight tags (no tag object) are not taken into account by their reference name: a hand-made lightweight release tag would be ignored when computing the largest version")
			c.Check(okAnn, "R20.4", "largestTagSemver|annotated-tags", r.Pos(fl.Pos()), "annotated tags are compared by the tag object's name", "annotated tags are not taken into account by their tag name")
		}
	}
	// ---- R20.5
	if ct != nil {
		// the tags created: the version string and the text before its first dot, both at repo.Head()'s hash
		fct := newFuncCanon(info, ct)
		okNames, okHash := false, false
		// the list of tag names: a two-element []string literal {version, text before its first dot}; the
		// version is createTag's string parameter, or "v" + the canonical form of its *semver.Version parameter
		const verFromParsed = `"v" + ARG1.String<(github.com/Masterminds/semver/v3.Version).String>()`
		lit, tagExpr := "", ""
		ast.Inspect(ct.Body, func(n ast.Node) bool {
			cl, isL := n.(*ast.CompositeLit)
			if !isL || len(cl.Elts) != 2 || !typeIs(info.TypeOf(cl), "[]string") {
				return true
			}
			a, b := fct.E(cl.Elts[0]), fct.E(cl.Elts[1])
			for _, v := range []string{"ARG1", verFromParsed} {
				if a == v && b == "strings.Split("+v+`, ".")[0]` || b == v && a == "strings.Split("+v+`, ".")[0]` {
					lit = fct.E(cl)
					tagExpr = v
				}
			}
			return true
		})
		// CreateTag is called, inside a loop over exactly that list, with the loop's element
		ast.Inspect(ct.Body, func(n ast.Node) bool {
			st, ok := n.(ast.Stmt)
			if !ok || lit == "" {
				return true
			}
			var body *ast.BlockStmt
			elemOK := func(cx string) bool { return false }
			switch x := st.(type) {
			case *ast.RangeStmt:
				if fct.E(x.X) == lit {
					body = x.Body
					elemOK = func(cx string) bool { return cx == "rangeval("+lit+")" }
				}
			default:
				if _, bound, b, ok := indexLoop(info, st); ok && fct.E(bound) == "builtin.len("+lit+")" {
					body = b
					elemOK = func(cx string) bool { return strings.HasPrefix(cx, lit+"[") && strings.HasSuffix(cx, "]") }
				}
			}
			if body == nil {
				return true
			}
			const headHash = "ARG0.Head<(github.com/go-git/go-git/v5.Repository).Head>()#0.Hash<(github.com/go-git/go-git/v5/plumbing.Reference).Hash>()"
			var look func(fc *fcanon, n ast.Node, depth int)
			look = func(fc *fcanon, n ast.Node, depth int) {
				ast.Inspect(n, func(m ast.Node) bool {
					call, ok := m.(*ast.CallExpr)
					if !ok {
						return true
					}
					if strings.HasSuffix(calleeName(info, call), "go-git/v5.Repository).CreateTag") && len(call.Args) == 3 {
						okNames = elemOK(fc.E(call.Args[0]))
						okHash = fc.E(call.Args[1]) == headHash
						return true
					}
					// the creation may sit in a helper the loop calls: seen with the caller's arguments
					if fn := calleeFunc(info, call); fn != nil && depth < 2 {
						if g := pkgFuncs(p)[fn]; g != nil && g.Body != nil && !call.Ellipsis.IsValid() && g.Type.Params.NumFields() == len(call.Args) {
							seed := make([]string, len(call.Args))
							for i, a := range call.Args {
								seed[i] = fc.E(a)
							}
							look(newFuncCanonSeed(info, g, false, nil, seed), g.Body, depth+1)
						}
					}
					return true
				})
			}
			look(fct, body, 0)
			return true
		})
		// and the version string handed to createTag is the canonical "v" + semver of the requested version
		if tg := FuncDecl(p, "Tagger.Tag"); tg != nil {
			ftg := newFuncCanon(info, tg)
			okArg := false
			got := ""
			ast.Inspect(tg.Body, func(n ast.Node) bool {
				if call, ok := n.(*ast.CallExpr); ok && len(call.Args) == 2 {
					if fn := calleeFunc(info, call); fn != nil && fn.Name() == "createTag" {
						got = ftg.E(call.Args[1])
						okArg = got == `"v" + github.com/Masterminds/semver/v3.NewVersion(RECV.Version)#0.String<(github.com/Masterminds/semver/v3.Version).String>()` ||
							tagExpr == verFromParsed && got == "github.com/Masterminds/semver/v3.NewVersion(RECV.Version)#0"
					}
				}
				return true
			})
			c.Check(okArg, "R20.5", "Tag|canonical-tag-name", r.Pos(tg.Pos()), "createTag(\"v\" + canonical form of the requested version)", "Tag hands createTag "+got+" instead of \"v\" followed by the canonical form of the parsed requested version: a VERSION written without the v prefix or without a patch number creates tags the version comparison never sees, so the same version is tagged again on the next run")
		}
		c.Check(okNames, "R20.5", "createTag|tag-names", r.Pos(ct.Pos()), "tags: the version and its major prefix", "createTag does not tag exactly the version and the text before its first dot")
		c.Check(okHash, "R20.5", "createTag|tag-target", r.Pos(ct.Pos()), "both tags at HEAD", "the tags are not created at repo.Head()'s hash")
	}
	// ---- R20.6
	okNoNewCode, okOther := false, false
	ast.Inspect(ntc.Body, func(n ast.Node) bool {
		ifs, ok := n.(*ast.IfStmt)
		if !ok {
			return true
		}
		cs := types.ExprString(ifs.Cond)
		if strings.Contains(cs, "errors.Is(") && strings.Contains(cs, "ErrNoNewVersion") {
			if len(ifs.Body.List) == 1 && nodeStringStmt(ifs.Body.List[0]) == "os.Exit(EXIT_CODE_NO_NEW_VERSION)" {
				okNoNewCode = true
			}
		}
		if cs == "err != nil" {
			for _, s := range ifs.Body.List {
				if nodeStringStmt(s) == "os.Exit(1)" {
					okOther = true
				}
			}
		}
		return true
	})
	code := int64(0)
	if v, ok := p.Types.Scope().Lookup("EXIT_CODE_NO_NEW_VERSION").(*types.Var); ok && v != nil {
		for _, f := range p.Syntax {
			ast.Inspect(f, func(n ast.Node) bool {
				if vs, ok := n.(*ast.ValueSpec); ok && len(vs.Names) == 1 && vs.Names[0].Name == "EXIT_CODE_NO_NEW_VERSION" && len(vs.Values) == 1 {
					code, _ = constInt(info, vs.Values[0])
				}
				return true
			})
		}
	}
	c.Check(okNoNewCode && code != 0 && code != 1, "R20.6", "NewTagCmd|nothing-to-do-status", r.Pos(ntc.Pos()), fmt.Sprintf("ErrNoNewVersion -> exit %d", code), "ErrNoNewVersion is not mapped to a distinct non-zero exit status")
	c.Check(okOther, "R20.6", "NewTagCmd|error-status", r.Pos(ntc.Pos()), "other errors -> exit 1", "other errors do not exit with status 1")
	// ---- R20.6: "nothing to do" and refusals are signalled: every path of Tag that returns without having
	// reached createTag returns an error (mechanical-mutation finding: the dirty-tree refusal returning nil)
	if tagFd := FuncDecl(p, "Tagger.Tag"); tagFd != nil {
		paths, _ := enumerateFunc(info, tagFd)
		okSig := len(paths) > 0
		whySig := ""
		for _, q := range paths {
			if q.Exit != "return" || len(q.Ret) == 0 {
				continue
			}
			if len(q.CallsTo("Tagger).createTag")) == 0 && q.Ret[len(q.Ret)-1] == "nil" {
				okSig, whySig = false, q.String()
			}
		}
		c.Check(okSig, "R20.6", "Tag|refusal-signalled", r.Pos(tagFd.Pos()), "a run that tags nothing reports an error", "Tag returns a nil error on a path that never reaches createTag: a refusal (dirty tree, not a newer version, a failed lookup) exits with status 0: "+whySig)
	}
	// ---- R20.3/R20.4: no error observed anywhere in the tool is swallowed (an error while reading the
	// existing tags would make the maximum too small and let an older version be tagged)
	for _, fd := range pkgFuncDecls(p) {
		errorPaths(c, r, "R20.3", p, fd, c20Fallbacks)
		// the one conditional fallback: a tag without a tag object is a lightweight tag. A path that saw
		// TagObject fail and goes on must have identified the error as ErrObjectNotFound.
		for _, rg := range regionsOf(fd) {
			if rg.kind != "funclit" {
				continue
			}
			d := newDT(info)
			d.paths = nil
			d.stmts(seedEnv(d, fd), rg.list, func(q *dtPath) { d.finish(q, "end") })
			for _, q := range d.paths {
				failed, notFound := false, false
				for _, a := range q.Atoms {
					if strings.Contains(a.Expr, ".TagObject<") && strings.HasSuffix(a.Expr, "#1 == nil") && !a.Val {
						failed = true
					}
					if strings.Contains(a.Expr, "ErrObjectNotFound") && a.Val {
						notFound = true
					}
				}
				if !failed {
					continue
				}
				errLast := returnsErrorLast(info, rg.pos.(*ast.FuncLit).Type)
				c.Check(notFound || failingExit(info, q, errLast), "R20.4", "largestTagSemver|tag-object-error", r.Pos(rg.pos.Pos()), "a TagObject error other than ErrObjectNotFound is returned", "a path on which TagObject failed with something other than ErrObjectNotFound goes on or reports success: the tag is left out of the maximum and an older version can be tagged: "+q.String())
			}
		}
	}
}

// c20Fallbacks: observed errors after which the tagger legitimately continues.
var c20Fallbacks = map[string]string{
	"github.com/vektra/mockery/tools/cmd.Tagger.createTag|ARG0.DeleteTag<(github.com/go-git/go-git/v5.Repository).DeleteTag>(v) == nil":                                                                          "deleting a tag that does not exist yet fails; the tag is created next and that error is returned",
	"github.com/vektra/mockery/tools/cmd.Tagger.largestTagSemver|ARG0.TagObject<(github.com/go-git/go-git/v5.Repository).TagObject>(ref.Hash<(github.com/go-git/go-git/v5/plumbing.Reference).Hash>())#1 == nil": "lightweight tags have no tag object (ErrObjectNotFound); every other error is held to R20.4 tag-object-error",
	"github.com/vektra/mockery/tools/cmd.printStack|ARG0 == nil": "prints the error it was given; the caller exits non-zero",
	"callee:(github.com/go-git/go-git/v5.Repository).DeleteTag":  "deleting a tag that does not exist yet fails; the tag is created next and that error is returned (one library call, wherever it is made)",
}

// rangeOverLit: fd contains `for ... := range []T{a, b}` with exactly these identifiers.
func rangeOverLit(fd *ast.FuncDecl, names []string) bool {
	ok := false
	ast.Inspect(fd.Body, func(n ast.Node) bool {
		if rs, isR := n.(*ast.RangeStmt); isR {
			if cl, isL := rs.X.(*ast.CompositeLit); isL && len(cl.Elts) == len(names) {
				all := true
				for i, e := range cl.Elts {
					if types.ExprString(e) != names[i] {
						all = false
					}
				}
				if all {
					ok = true
				}
			}
		}
		return true
	})
	return ok
}
