package main

// Decision-table form: enumerate every path through a loop-free region of a
// function (if / else / switch / short-circuit && and ||), canonicalising each
// branch condition to an atom over resolved objects, with a path-sensitive
// environment for locals. Loops are not entered: a loop is recorded as an
// opaque step and what it assigns becomes unknown.

import (
	"fmt"
	"go/ast"
	"go/constant"
	"go/token"
	"go/types"
	"sort"
	"strconv"
	"strings"
)

type dtAtom struct {
	Expr string
	Val  bool
	Pos  token.Pos
	Err  bool // the atom is "<error-typed expression> == nil"
	Step int  // number of steps executed on the path when the atom was decided
}

type dtPath struct {
	Atoms  []dtAtom
	Exit   string // return | panic | exit | end
	Ret    []string
	RetPos token.Pos
	Steps  []string // calls and stores executed on the path, in order
	Calls  []dtCall // the calls among Steps, structured
	env    map[types.Object]string
	// sub: calls already evaluated by following the callee (hoisted out of the expression they are
	// nested in); canon prints them as the value the callee returned on this path
	sub map[*ast.CallExpr]string
}

type dtCall struct {
	Name string   // resolved callee ("pkg.Func", "(pkg.T).Method") with the module path stripped
	Recv string   // canonical receiver expression for method calls
	Args []string // canonical arguments
	Step int      // index into Steps
	Pos  token.Pos
	End  token.Pos
}

// CallsTo returns the calls on the path whose resolved name ends with suffix.
func (p *dtPath) CallsTo(suffix string) []dtCall {
	var out []dtCall
	for _, c := range p.Calls {
		if strings.HasSuffix(c.Name, suffix) {
			out = append(out, c)
		}
	}
	return out
}

func (p *dtPath) atom(expr string) (bool, bool) {
	for _, a := range p.Atoms {
		if a.Expr == expr {
			return a.Val, true
		}
	}
	return false, false
}

func (p *dtPath) String() string {
	var as []string
	for _, a := range p.Atoms {
		n := ""
		if !a.Val {
			n = "!"
		}
		as = append(as, n+"("+a.Expr+")")
	}
	return fmt.Sprintf("[%s] => %s %v", strings.Join(as, " && "), p.Exit, p.Ret)
}

func (p *dtPath) clone() *dtPath {
	n := &dtPath{Atoms: append([]dtAtom{}, p.Atoms...), Steps: append([]string{}, p.Steps...), Calls: append([]dtCall{}, p.Calls...), env: map[types.Object]string{}}
	for k, v := range p.env {
		n.env[k] = v
	}
	if p.sub != nil {
		n.sub = map[*ast.CallExpr]string{}
		for k, v := range p.sub {
			n.sub[k] = v
		}
	}
	return n
}

// dtLoopK: where break and continue of an unrolled table loop go.
type dtLoopK struct{ onBreak, onContinue func(p *dtPath) }

// dtFrame: where a followed call returns to.
type dtFrame struct {
	k      func(p *dtPath, rets []string)
	fd     *ast.FuncDecl
	callee string
}

type dtEnum struct {
	info     *types.Info
	paths    []*dtPath
	max      int
	overflow bool
	// exitCalls: canonical callee names that never return
	exitCalls map[string]bool
	// inline: same-package functions a 'return f(...)' may be followed into
	inline map[*types.Func]*ast.FuncDecl
	depth  int
	// callInline: functions of the package whose calls in statement position (f(..), x := f(..),
	// if err := f(..); ..., return f(..)) are followed: the callee's paths become the caller's
	callInline map[*types.Func]*ast.FuncDecl
	frames     []*dtFrame
	// exprInline: functions whose whole body is 'return <expr>': a call is printed as that expression
	// with the parameters replaced by the arguments
	exprInline map[*types.Func]*ast.FuncDecl
	exprDepth  int
	// getters: methods whose whole body is 'return <receiver>.<field>', printed as the field selection
	getters map[*types.Func]string
	// absVars: print variables that have no recorded definition as var<type> instead of by name
	absVars bool
	// hoistCalls: calls of callInline functions nested inside the expressions of a statement are followed
	// first (in source order) and printed as what the callee returned
	hoistCalls bool
	// unrollTables: `for _, row := range <literal table>` (the literal itself, or a local listed in tables) runs
	// its body once per row, in order, with the row's fields known; break and continue behave as in the loop
	unrollTables bool
	tables       map[types.Object]*ast.CompositeLit
	loopK        []dtLoopK
	// closures: function literals bound to a local variable exactly once (filled on demand by closureDecl
	// from closureFiles, the syntax of the package under analysis; empty = closures are not followed)
	closures     map[types.Object]*ast.FuncDecl
	closureFiles []*ast.File
	// boolReturns: a non-constant boolean result splits the path (the path then returns true or false)
	boolReturns bool
	// constStrings / constInts: named string / integer constants of the analysed module print as their value
	constStrings bool
	constInts    bool
}

func newDT(info *types.Info) *dtEnum {
	return &dtEnum{info: info, max: 4096, exitCalls: map[string]bool{"os.Exit": true, "builtin.panic": true, "(github.com/rs/zerolog.Event).Fatal": false}}
}

// Canon renders an expression over resolved objects with the path's environment.
func (d *dtEnum) canon(p *dtPath, e ast.Expr) string {
	switch x := e.(type) {
	case nil:
		return ""
	case *ast.ParenExpr:
		return d.canon(p, x.X)
	case *ast.Ident:
		obj := d.info.Uses[x]
		if obj == nil {
			obj = d.info.Defs[x]
		}
		if obj != nil {
			if v, ok := p.env[obj]; ok {
				return v
			}
			if _, isPkg := obj.(*types.PkgName); isPkg {
				return obj.(*types.PkgName).Imported().Path()
			}
			if k, isConst := obj.(*types.Const); isConst && d.constStrings && k.Val().Kind() == constant.String && k.Pkg() != nil && strings.HasPrefix(k.Pkg().Path(), modPath) {
				return strconv.Quote(constant.StringVal(k.Val()))
			}
			if k, isConst := obj.(*types.Const); isConst && d.constInts && k.Val().Kind() == constant.Int && k.Pkg() != nil && strings.HasPrefix(k.Pkg().Path(), modPath) {
				return k.Val().ExactString()
			}
			if v, ok := obj.(*types.Var); ok && d.absVars && !v.IsField() && v.Pkg() != nil && v.Parent() != v.Pkg().Scope() {
				return "var<" + shortType(v.Type()) + ">"
			}
		}
		return x.Name
	case *ast.BasicLit:
		return x.Value
	case *ast.StarExpr:
		return "*" + d.canon(p, x.X)
	case *ast.UnaryExpr:
		return x.Op.String() + d.canon(p, x.X)
	case *ast.SelectorExpr:
		if id, ok := x.X.(*ast.Ident); ok {
			if pn, ok := d.info.Uses[id].(*types.PkgName); ok {
				return strings.TrimPrefix(pn.Imported().Path(), modPath+"/") + "." + x.Sel.Name
			}
		}
		base := d.canon(p, x.X)
		if d.unrollTables && strings.HasSuffix(base, "}") {
			if _, vals, ok := splitStructLit(base); ok {
				if v, has := vals[x.Sel.Name]; has {
					return v
				}
			}
		}
		return base + "." + x.Sel.Name
	case *ast.IndexExpr:
		return d.canon(p, x.X) + "[" + d.canon(p, x.Index) + "]"
	case *ast.SliceExpr:
		return d.canon(p, x.X) + "[" + d.canon(p, x.Low) + ":" + d.canon(p, x.High) + "]"
	case *ast.CallExpr:
		if v, ok := p.sub[x]; ok {
			return v
		}
		var args []string
		for _, a := range x.Args {
			args = append(args, d.canon(p, a))
		}
		ell := ""
		if x.Ellipsis.IsValid() {
			ell = "..."
		}
		// fmt.Sprintf with a constant format made of %s (string operands) and %d (integer operands) only is
		// the concatenation of its pieces; both spellings print as the concatenation
		if calleeName(d.info, x) == "fmt.Sprintf" && len(x.Args) >= 1 && !x.Ellipsis.IsValid() {
			if tv := d.info.Types[x.Args[0]]; tv.Value != nil && tv.Value.Kind() == constant.String {
				if parts, ok := sprintfParts(d, p, constant.StringVal(tv.Value), x.Args[1:]); ok {
					return strings.Join(parts, " + ")
				}
			}
		}
		if d.exprInline != nil && d.exprDepth < 6 {
			if fn := calleeFunc(d.info, x); fn != nil {
				if fd := d.exprInline[fn]; fd != nil {
					if q := d.bindCall(p, fd, x); q != nil {
						d.exprDepth++
						var out string
						if len(fd.Body.List) == 2 {
							// comma-ok predicate: _, ok := <lookup>; return ok
							out = d.canon(q, fd.Body.List[0].(*ast.AssignStmt).Rhs[0]) + "#ok"
						} else {
							out = d.canon(q, fd.Body.List[0].(*ast.ReturnStmt).Results[0])
						}
						d.exprDepth--
						return out
					}
				}
			}
		}
		if d.getters != nil {
			if fn := calleeFunc(d.info, x); fn != nil {
				if field, ok := d.getters[fn]; ok {
					if sel, ok := x.Fun.(*ast.SelectorExpr); ok && len(x.Args) == 0 {
						return d.canon(p, sel.X) + "." + field
					}
				}
			}
		}
		name := strings.ReplaceAll(calleeName(d.info, x), modPath+"/", "")
		if name == "" {
			name = d.canon(p, x.Fun)
		} else if sel, ok := x.Fun.(*ast.SelectorExpr); ok {
			if s := d.info.Selections[sel]; s != nil {
				name = d.canon(p, sel.X) + "." + sel.Sel.Name + "<" + name + ">"
			}
		}
		return name + "(" + strings.Join(args, ", ") + ell + ")"
	case *ast.BinaryExpr:
		l, r := d.canon(p, x.X), d.canon(p, x.Y)
		op := x.Op
		isStr := false
		if t := d.info.TypeOf(x); t != nil {
			if b, ok := t.Underlying().(*types.Basic); ok && b.Info()&types.IsString != 0 {
				isStr = true
			}
		}
		// constants to the right (not for string concatenation, whose order matters)
		if isConstish(l) && !isConstish(r) && !(op == token.ADD && isStr) {
			l, r = r, l
			switch op {
			case token.LSS:
				op = token.GTR
			case token.GTR:
				op = token.LSS
			case token.LEQ:
				op = token.GEQ
			case token.GEQ:
				op = token.LEQ
			}
		}
		return l + " " + op.String() + " " + r
	case *ast.TypeAssertExpr:
		return d.canon(p, x.X) + ".(" + types.ExprString(x.Type) + ")"
	case *ast.CompositeLit:
		var el []string
		for _, e := range x.Elts {
			el = append(el, d.canon(p, e))
		}
		t := ""
		if x.Type != nil {
			t = types.ExprString(x.Type)
		}
		// keyed struct literals list their fields in declaration order, so that a literal and the same
		// value built by field-by-field assignment print alike
		if st, ok := structOf(d.info.TypeOf(x)); ok && len(x.Elts) > 0 {
			if _, keyed := x.Elts[0].(*ast.KeyValueExpr); keyed {
				vals := map[string]string{}
				for _, e := range x.Elts {
					if kv, ok := e.(*ast.KeyValueExpr); ok {
						if id, ok := kv.Key.(*ast.Ident); ok {
							vals[id.Name] = d.canon(p, kv.Value)
						}
					}
				}
				return renderStructLit(t, st, vals)
			}
			if d.unrollTables && len(x.Elts) == st.NumFields() {
				// positional: the same fields by position
				vals := map[string]string{}
				for i, e := range x.Elts {
					vals[st.Field(i).Name()] = d.canon(p, e)
				}
				return renderStructLit(t, st, vals)
			}
		}
		return t + "{" + strings.Join(el, ", ") + "}"
	case *ast.FuncLit:
		return "func-literal"
	case *ast.KeyValueExpr:
		return d.canon(p, x.Key) + ": " + d.canon(p, x.Value)
	}
	return types.ExprString(e)
}

func isConstish(s string) bool {
	if s == "nil" || s == "true" || s == "false" || s == `""` {
		return true
	}
	if len(s) > 0 && (s[0] >= '0' && s[0] <= '9' || s[0] == '"' || s[0] == '-' && len(s) > 1 && s[1] >= '0' && s[1] <= '9') {
		return true
	}
	return false
}

// cond evaluates a condition on a path, forking on undecided atoms.
func (d *dtEnum) cond(p *dtPath, e ast.Expr, k func(p *dtPath, v bool)) {
	switch x := ast.Unparen(e).(type) {
	case *ast.UnaryExpr:
		if x.Op == token.NOT {
			d.cond(p, x.X, func(p *dtPath, v bool) { k(p, !v) })
			return
		}
	case *ast.BinaryExpr:
		switch x.Op {
		case token.LAND:
			d.cond(p, x.X, func(p *dtPath, v bool) {
				if !v {
					k(p, false)
				} else {
					d.cond(p, x.Y, k)
				}
			})
			return
		case token.LOR:
			d.cond(p, x.X, func(p *dtPath, v bool) {
				if v {
					k(p, true)
				} else {
					d.cond(p, x.Y, k)
				}
			})
			return
		}
	case *ast.Ident:
		if x.Name == "true" || x.Name == "false" {
			if _, isConst := d.info.Uses[x].(*types.Const); isConst {
				k(p, x.Name == "true")
				return
			}
		}
	}
	// a call of a followable boolean function in condition position (also as the right operand of && / ||,
	// where hoisting out of the statement would be wrong): decided inside the callee
	if call, ok := ast.Unparen(e).(*ast.CallExpr); ok && d.hoistCalls && d.callInline != nil && d.canHoist(p, call, nil) {
		pos := e.Pos()
		if d.follow(p, call, func(q *dtPath, rets []string) {
			v := "unknown"
			if len(rets) > 0 {
				v = rets[0]
			}
			switch v {
			case "true":
				k(q, true)
			case "false":
				k(q, false)
			default:
				if q.sub == nil {
					q.sub = map[*ast.CallExpr]string{}
				}
				q.sub[call] = v
				neg := false
				if strings.HasPrefix(v, "!") && !strings.Contains(v, " ") {
					v, neg = v[1:], true
				}
				if av, known := q.atom(v); known {
					k(q, av != neg)
					return
				}
				t := q.clone()
				t.Atoms = append(t.Atoms, dtAtom{v, true, pos, false, len(q.Steps)})
				k(t, !neg)
				f := q.clone()
				f.Atoms = append(f.Atoms, dtAtom{v, false, pos, false, len(q.Steps)})
				k(f, neg)
			}
		}) {
			return
		}
	}
	s := d.canon(p, e)
	neg := false
	// normalise X != c to !(X == c)
	if be, ok := ast.Unparen(e).(*ast.BinaryExpr); ok && be.Op == token.NEQ {
		cp := *be
		cp.Op = token.EQL
		s = d.canon(p, &cp)
		neg = true
	}
	if s == "true" || s == "false" {
		k(p, (s == "true") != neg)
		return
	}
	// values whose nil-ness is known: the literal nil, and freshly constructed errors
	if strings.HasSuffix(s, " == nil") {
		v := strings.TrimSuffix(s, " == nil")
		switch {
		case v == "nil":
			k(p, !neg)
			return
		case v == "zero" && nillableOperand(d.info, e):
			// the zero value of a pointer, interface, map, slice, channel or function variable
			k(p, !neg)
			return
		case strings.HasPrefix(v, "fmt.Errorf(") || strings.HasPrefix(v, "errors.New(") || strings.HasPrefix(v, "internal/stackerr.NewStackErr(") || strings.HasPrefix(v, "&"):
			k(p, neg)
			return
		}
	}
	if v, ok := p.atom(s); ok {
		k(p, v != neg)
		return
	}
	if len(d.paths) > d.max {
		d.overflow = true
		return
	}
	isErr := false
	if be, ok := ast.Unparen(e).(*ast.BinaryExpr); ok && (be.Op == token.EQL || be.Op == token.NEQ) {
		for _, side := range [][2]ast.Expr{{be.X, be.Y}, {be.Y, be.X}} {
			if isNilIdent(d.info, side[1]) {
				if t := d.info.TypeOf(side[0]); t != nil && types.Identical(t, types.Universe.Lookup("error").Type()) {
					isErr = true
				}
			}
		}
	}
	t := p.clone()
	t.Atoms = append(t.Atoms, dtAtom{s, true, e.Pos(), isErr, len(p.Steps)})
	k(t, !neg)
	f := p.clone()
	f.Atoms = append(f.Atoms, dtAtom{s, false, e.Pos(), isErr, len(p.Steps)})
	k(f, neg)
}

func (d *dtEnum) finish(p *dtPath, exit string) {
	p.Exit = exit
	d.paths = append(d.paths, p)
}

// bind records the value of a local on this path.
func (d *dtEnum) bind(p *dtPath, id *ast.Ident, val string) {
	if id.Name == "_" {
		return
	}
	obj := d.info.Defs[id]
	if obj == nil {
		obj = d.info.Uses[id]
	}
	if obj == nil {
		return
	}
	if v, ok := obj.(*types.Var); !ok || v.IsField() {
		return
	}
	p.env[obj] = val
}

// stmts runs a statement list, then k with each surviving path.
func (d *dtEnum) stmts(p *dtPath, list []ast.Stmt, k func(p *dtPath)) {
	if len(list) == 0 {
		k(p)
		return
	}
	d.stmt(p, list[0], func(p *dtPath) { d.stmts(p, list[1:], k) })
}

func (d *dtEnum) noteCalls(p *dtPath, n ast.Node) (exits bool) {
	ast.Inspect(n, func(x ast.Node) bool {
		switch c := x.(type) {
		case *ast.FuncLit:
			return false
		case *ast.CallExpr:
			if _, hoisted := p.sub[c]; hoisted {
				return true // evaluated (and recorded) when it was followed
			}
			name := calleeName(d.info, c)
			if name == "" {
				name = d.canon(p, c.Fun)
			}
			dc := dtCall{Name: strings.ReplaceAll(name, modPath+"/", ""), Step: len(p.Steps), Pos: c.Pos(), End: c.End()}
			for _, a := range c.Args {
				dc.Args = append(dc.Args, d.canon(p, a))
			}
			if sel, ok := c.Fun.(*ast.SelectorExpr); ok && d.info.Selections[sel] != nil {
				dc.Recv = d.canon(p, sel.X)
			}
			p.Calls = append(p.Calls, dc)
			p.Steps = append(p.Steps, "call "+d.canon(p, c))
			if name == "os.Exit" || name == "builtin.panic" || strings.HasSuffix(name, "zerolog.Event).Fatal") && false {
				exits = true
			}
		}
		return true
	})
	return
}

// hoistable returns the first call nested in the statement's own expressions (not in nested statements,
// function literals or the right operand of && and ||) that can be followed and has not been yet.
func (d *dtEnum) hoistable(p *dtPath, s ast.Stmt) *ast.CallExpr {
	var roots []ast.Expr
	var top *ast.CallExpr // the statement-position call the statement rules follow themselves
	switch x := s.(type) {
	case *ast.ReturnStmt:
		roots = x.Results
		if len(x.Results) == 1 {
			top, _ = ast.Unparen(x.Results[0]).(*ast.CallExpr)
		}
	case *ast.AssignStmt:
		roots = append(roots, x.Rhs...)
		if len(x.Rhs) == 1 {
			top, _ = ast.Unparen(x.Rhs[0]).(*ast.CallExpr)
		}
	case *ast.ExprStmt:
		roots = []ast.Expr{x.X}
		top, _ = ast.Unparen(x.X).(*ast.CallExpr)
	case *ast.IfStmt:
		if x.Init == nil {
			roots = []ast.Expr{x.Cond}
		}
	case *ast.DeclStmt:
		if gd, ok := x.Decl.(*ast.GenDecl); ok {
			for _, sp := range gd.Specs {
				if vs, ok := sp.(*ast.ValueSpec); ok {
					roots = append(roots, vs.Values...)
				}
			}
		}
	}
	var found *ast.CallExpr
	for _, r := range roots {
		ast.Inspect(r, func(n ast.Node) bool {
			if found != nil {
				return false
			}
			switch y := n.(type) {
			case *ast.FuncLit:
				return false
			case *ast.BinaryExpr:
				if y.Op == token.LAND || y.Op == token.LOR {
					// only the left operand is certainly evaluated
					ast.Inspect(y.X, func(m ast.Node) bool {
						if c, ok := m.(*ast.CallExpr); ok && found == nil && d.canHoist(p, c, top) {
							found = c
						}
						_, lit := m.(*ast.FuncLit)
						return !lit && found == nil
					})
					return false
				}
			case *ast.CallExpr:
				// arguments are evaluated before the call: look inside first
				for _, a := range y.Args {
					ast.Inspect(a, func(m ast.Node) bool {
						if c, ok := m.(*ast.CallExpr); ok && found == nil && d.canHoist(p, c, top) {
							found = c
						}
						_, lit := m.(*ast.FuncLit)
						return !lit && found == nil
					})
				}
				if found == nil && d.canHoist(p, y, top) {
					found = y
				}
				return found == nil
			}
			return true
		})
	}
	return found
}

func (d *dtEnum) canHoist(p *dtPath, c *ast.CallExpr, top *ast.CallExpr) bool {
	if c == top {
		return false
	}
	if _, done := p.sub[c]; done {
		return false
	}
	fn := calleeFunc(d.info, c)
	if fn == nil {
		return false
	}
	fd := d.callInline[fn]
	if fd == nil || fd.Type.Results == nil || fd.Type.Results.NumFields() != 1 || len(d.frames) >= 3 {
		return false
	}
	if d.exprInline != nil && d.exprInline[fn] != nil {
		return false // printed as its expression anyway
	}
	for _, f := range d.frames {
		if f.fd == fd {
			return false
		}
	}
	return true
}

func (d *dtEnum) stmt(p *dtPath, s ast.Stmt, k func(p *dtPath)) {
	if d.hoistCalls && d.callInline != nil {
		if c := d.hoistable(p, s); c != nil {
			if d.follow(p, c, func(q *dtPath, rets []string) {
				if q.sub == nil {
					q.sub = map[*ast.CallExpr]string{}
				}
				v := "unknown"
				if len(rets) > 0 {
					v = rets[0]
				}
				q.sub[c] = v
				d.stmt(q, s, k)
			}) {
				return
			}
			// not followable after all: remember, so that the statement is handled as it stands
			if p.sub == nil {
				p.sub = map[*ast.CallExpr]string{}
			}
			p.sub[c] = d.canonNoSub(p, c)
			d.stmt(p, s, k)
			return
		}
	}
	switch x := s.(type) {
	case nil:
		k(p)
	case *ast.BlockStmt:
		d.stmts(p, x.List, k)
	case *ast.ReturnStmt:
		// 'return f(...)' with f a followable function of the package: f's paths decide what is returned
		if len(x.Results) == 1 && d.callInline != nil {
			if call, ok := ast.Unparen(x.Results[0]).(*ast.CallExpr); ok {
				pos := x.Pos()
				if d.follow(p, call, func(q *dtPath, rets []string) { d.returnWith(q, rets, pos) }) {
					return
				}
			}
		}
		if n := len(d.frames); n > 0 {
			// return from a followed call: hand the values to the caller's continuation
			f := d.frames[n-1]
			var rets []string
			if len(x.Results) == 0 && f.fd.Type.Results != nil {
				for _, fl := range f.fd.Type.Results.List {
					for _, nm := range fl.Names {
						rets = append(rets, p.env[d.info.Defs[nm]])
					}
				}
			}
			if len(x.Results) == 1 {
				if call, ok := ast.Unparen(x.Results[0]).(*ast.CallExpr); ok {
					if t, ok := d.info.TypeOf(call).(*types.Tuple); ok && t.Len() > 1 {
						d.noteCalls(p, call)
						base := d.canon(p, call)
						for i := 0; i < t.Len(); i++ {
							rets = append(rets, fmt.Sprintf("%s#%d", base, i))
						}
					}
				}
			}
			if rets == nil {
				for _, r := range x.Results {
					d.noteCalls(p, r)
					rets = append(rets, d.canon(p, r))
				}
			}
			d.frames = d.frames[:n-1]
			f.k(p, rets)
			d.frames = append(d.frames, f)
			return
		}
		if len(x.Results) == 1 && d.inline != nil {
			if call, ok := ast.Unparen(x.Results[0]).(*ast.CallExpr); ok {
				if fn := calleeFunc(d.info, call); fn != nil {
					if fd := d.inline[fn]; fd != nil && d.depth < 3 && fd.Recv == nil {
						// return f(args): continue inside f with its parameters bound to the canonical arguments
						i := 0
						for _, f := range fd.Type.Params.List {
							for _, n := range f.Names {
								if i < len(call.Args) {
									p.env[d.info.Defs[n]] = d.canon(p, call.Args[i])
								}
								i++
							}
						}
						d.depth++
						d.stmts(p, fd.Body.List, func(q *dtPath) { d.finish(q, "end") })
						d.depth--
						return
					}
				}
			}
		}
		if d.boolReturns {
			// a boolean result that is not a constant is a decision: the path splits on it and returns true/false
			for i, r := range x.Results {
				if t := d.info.TypeOf(r); t != nil && len(p.Ret) == i {
					if b, ok := t.Underlying().(*types.Basic); ok && b.Kind() == types.Bool || t == types.Typ[types.UntypedBool] {
						if cs := d.canon(p, r); cs != "true" && cs != "false" {
							rest := x.Results[i+1:]
							pos := x.Pos()
							d.noteCalls(p, r)
							d.cond(p, r, func(q *dtPath, v bool) {
								q.Ret = append(q.Ret, map[bool]string{true: "true", false: "false"}[v])
								for _, r2 := range rest {
									q.Ret = append(q.Ret, d.canon(q, r2))
									d.noteCalls(q, r2)
								}
								q.RetPos = pos
								d.finish(q, "return")
							})
							return
						}
					}
				}
				p.Ret = append(p.Ret, d.canon(p, r))
				d.noteCalls(p, r)
			}
			p.RetPos = x.Pos()
			d.finish(p, "return")
			return
		}
		for _, r := range x.Results {
			p.Ret = append(p.Ret, d.canon(p, r))
		}
		d.noteCalls(p, x)
		p.RetPos = x.Pos()
		d.finish(p, "return")
	case *ast.ExprStmt:
		if call, ok := ast.Unparen(x.X).(*ast.CallExpr); ok && d.follow(p, call, func(q *dtPath, rets []string) { k(q) }) {
			return
		}
		if d.noteCalls(p, x.X) {
			name := "exit"
			if isPanicCall(x.X) {
				name = "panic"
			}
			p.RetPos = x.Pos()
			d.finish(p, name)
			return
		}
		k(p)
	case *ast.AssignStmt:
		if len(x.Rhs) == 1 && (x.Tok == token.ASSIGN || x.Tok == token.DEFINE) {
			if call, ok := ast.Unparen(x.Rhs[0]).(*ast.CallExpr); ok {
				if d.follow(p, call, func(q *dtPath, rets []string) {
					for i, l := range x.Lhs {
						val := "unknown"
						if i < len(rets) {
							val = rets[i]
						}
						if id, ok := l.(*ast.Ident); ok {
							d.bind(q, id, val)
						} else {
							q.Steps = append(q.Steps, "store "+d.canon(q, l)+" = "+val)
						}
					}
					k(q)
				}) {
					return
				}
			}
		}
		d.noteCalls(p, x)
		switch {
		case len(x.Lhs) == len(x.Rhs):
			vals := make([]string, len(x.Rhs))
			for i, r := range x.Rhs {
				vals[i] = d.canon(p, r)
			}
			for i, l := range x.Lhs {
				if id, ok := l.(*ast.Ident); ok {
					if x.Tok == token.ASSIGN || x.Tok == token.DEFINE {
						d.bind(p, id, vals[i])
					} else {
						// x op= y is x = x op y
						d.bind(p, id, d.canon(p, l)+" "+strings.TrimSuffix(x.Tok.String(), "=")+" "+vals[i])
					}
				} else {
					p.Steps = append(p.Steps, "store "+d.canon(p, l)+" = "+vals[i])
					if x.Tok == token.ASSIGN {
						d.fieldStore(p, l, vals[i])
					}
				}
			}
		case len(x.Rhs) == 1:
			base := d.canon(p, x.Rhs[0])
			for i, l := range x.Lhs {
				if id, ok := l.(*ast.Ident); ok {
					suffix := fmt.Sprintf("#%d", i)
					switch ast.Unparen(x.Rhs[0]).(type) {
					case *ast.IndexExpr, *ast.TypeAssertExpr:
						// v, ok := m[k] / x.(T): the value is the expression itself
						suffix = []string{"", "#ok"}[i]
					}
					d.bind(p, id, base+suffix)
				} else {
					p.Steps = append(p.Steps, fmt.Sprintf("store %s = %s#%d", d.canon(p, l), base, i))
				}
			}
		}
		k(p)
	case *ast.DeclStmt:
		if gd, ok := x.Decl.(*ast.GenDecl); ok && gd.Tok == token.VAR {
			for _, sp := range gd.Specs {
				vs := sp.(*ast.ValueSpec)
				for i, n := range vs.Names {
					if i < len(vs.Values) {
						d.bind(p, n, d.canon(p, vs.Values[i]))
					} else {
						d.bind(p, n, "zero")
					}
				}
			}
		}
		k(p)
	case *ast.IncDecStmt:
		if id, ok := x.X.(*ast.Ident); ok {
			d.bind(p, id, d.canon(p, x.X)+x.Tok.String())
		}
		k(p)
	case *ast.IfStmt:
		d.stmt(p, x.Init, func(p *dtPath) {
			d.cond(p, x.Cond, func(p *dtPath, v bool) {
				if v {
					d.stmts(p, x.Body.List, k)
				} else if x.Else != nil {
					d.stmt(p, x.Else, k)
				} else {
					k(p)
				}
			})
		})
	case *ast.SwitchStmt:
		d.stmt(p, x.Init, func(p *dtPath) {
			var clauses []*ast.CaseClause
			var def *ast.CaseClause
			for _, c := range x.Body.List {
				cc := c.(*ast.CaseClause)
				if cc.List == nil {
					def = cc
				} else {
					clauses = append(clauses, cc)
				}
			}
			var try func(p *dtPath, i int)
			try = func(p *dtPath, i int) {
				if i == len(clauses) {
					if def != nil {
						d.stmts(p, def.Body, k)
					} else {
						k(p)
					}
					return
				}
				cc := clauses[i]
				var tryExpr func(p *dtPath, j int)
				tryExpr = func(p *dtPath, j int) {
					if j == len(cc.List) {
						try(p, i+1)
						return
					}
					var ce ast.Expr = cc.List[j]
					if x.Tag != nil {
						ce = &ast.BinaryExpr{X: x.Tag, Op: token.EQL, Y: cc.List[j], OpPos: cc.List[j].Pos()}
					}
					d.cond(p, ce, func(p *dtPath, v bool) {
						if v {
							d.stmts(p, cc.Body, k)
						} else {
							tryExpr(p, j+1)
						}
					})
				}
				tryExpr(p, 0)
			}
			try(p, 0)
		})
	case *ast.TypeSwitchStmt:
		d.stmt(p, x.Init, func(p *dtPath) {
			// switch v := E.(type) / switch E.(type)
			var subject ast.Expr
			switch a := x.Assign.(type) {
			case *ast.AssignStmt:
				if ta, ok := a.Rhs[0].(*ast.TypeAssertExpr); ok {
					subject = ta.X
				}
			case *ast.ExprStmt:
				if ta, ok := a.X.(*ast.TypeAssertExpr); ok {
					subject = ta.X
				}
			}
			base := d.canon(p, subject)
			var clauses []*ast.CaseClause
			var def *ast.CaseClause
			for _, c := range x.Body.List {
				cc := c.(*ast.CaseClause)
				if cc.List == nil {
					def = cc
				} else {
					clauses = append(clauses, cc)
				}
			}
			bindClause := func(p *dtPath, cc *ast.CaseClause, val string) {
				if obj := d.info.Implicits[cc]; obj != nil {
					p.env[obj] = val
				}
			}
			var try func(p *dtPath, i int)
			try = func(p *dtPath, i int) {
				if i == len(clauses) {
					if def != nil {
						bindClause(p, def, base)
						d.stmts(p, def.Body, k)
					} else {
						k(p)
					}
					return
				}
				cc := clauses[i]
				var tryType func(p *dtPath, j int)
				tryType = func(p *dtPath, j int) {
					if j == len(cc.List) {
						try(p, i+1)
						return
					}
					ts := types.ExprString(cc.List[j])
					atom := base + ".(" + ts + ")#ok"
					fork := func(v bool) *dtPath {
						q := p.clone()
						q.Atoms = append(q.Atoms, dtAtom{atom, v, cc.List[j].Pos(), false, len(p.Steps)})
						return q
					}
					if v, ok := p.atom(atom); ok {
						if v {
							bindClause(p, cc, base+".("+ts+")")
							d.stmts(p, cc.Body, k)
						} else {
							tryType(p, j+1)
						}
						return
					}
					t := fork(true)
					val := base + ".(" + ts + ")"
					if len(cc.List) > 1 {
						val = base
					}
					bindClause(t, cc, val)
					d.stmts(t, cc.Body, k)
					tryType(fork(false), j+1)
				}
				tryType(p, 0)
			}
			try(p, 0)
		})
	case *ast.ForStmt, *ast.RangeStmt:
		if rs, isRange := s.(*ast.RangeStmt); isRange && d.unrollTables {
			var table *ast.CompositeLit
			switch t := ast.Unparen(rs.X).(type) {
			case *ast.CompositeLit:
				table = t
			case *ast.Ident:
				table = d.tables[d.info.Uses[t]]
			}
			val, hasVal := rs.Value.(*ast.Ident)
			keyOK := rs.Key == nil
			if kid, ok := rs.Key.(*ast.Ident); ok && kid.Name == "_" {
				keyOK = true
			}
			if table != nil && hasVal && keyOK && len(table.Elts) > 0 && len(table.Elts) <= 16 {
				var run func(p *dtPath, i int)
				run = func(p *dtPath, i int) {
					if i >= len(table.Elts) {
						k(p)
						return
					}
					row := table.Elts[i]
					if kv, ok := row.(*ast.KeyValueExpr); ok {
						row = kv.Value
					}
					d.bind(p, val, d.canon(p, row))
					d.loopK = append(d.loopK, dtLoopK{onBreak: k, onContinue: func(q *dtPath) { run(q, i+1) }})
					depth := len(d.loopK)
					d.stmts(p, rs.Body.List, func(q *dtPath) {
						saved := d.loopK
						d.loopK = d.loopK[:depth-1]
						run(q, i+1)
						d.loopK = saved
					})
					d.loopK = d.loopK[:depth-1]
				}
				run(p, 0)
				return
			}
		}
		p.Steps = append(p.Steps, "loop")
		// anything assigned inside becomes unknown
		ast.Inspect(s, func(n ast.Node) bool {
			if as, ok := n.(*ast.AssignStmt); ok {
				for _, l := range as.Lhs {
					if id, ok := l.(*ast.Ident); ok {
						d.bind(p, id, "unknown("+id.Name+")")
					}
				}
			}
			return true
		})
		d.noteCalls(p, s)
		k(p)
	case *ast.DeferStmt:
		p.Steps = append(p.Steps, "defer "+d.canon(p, x.Call))
		k(p)
	case *ast.BranchStmt:
		if n := len(d.loopK); n > 0 && x.Label == nil && (x.Tok == token.BREAK || x.Tok == token.CONTINUE) {
			lk := d.loopK[n-1]
			saved := d.loopK
			d.loopK = d.loopK[:n-1]
			if x.Tok == token.BREAK {
				lk.onBreak(p)
			} else {
				lk.onContinue(p)
			}
			d.loopK = saved
			return
		}
		p.RetPos = x.Pos()
		d.finish(p, x.Tok.String())
	default:
		d.noteCalls(p, s)
		k(p)
	}
}

// enumeratePaths returns all paths of a function body (or statement list).
func (d *dtEnum) enumerate(list []ast.Stmt) []*dtPath {
	d.paths = nil
	start := &dtPath{env: map[types.Object]string{}}
	d.stmts(start, list, func(p *dtPath) { d.finish(p, "end") })
	return d.paths
}

// atomsOf lists the distinct atoms over all paths (sorted).
func atomsOf(paths []*dtPath) []string {
	set := map[string]bool{}
	for _, p := range paths {
		for _, a := range p.Atoms {
			set[a.Expr] = true
		}
	}
	var out []string
	for a := range set {
		out = append(out, a)
	}
	sort.Strings(out)
	return out
}

// envBefore runs the statements of list that precede the statement containing `at` (descending into the
// block, if, loop or switch clause that contains it) and returns a path that carries only the
// environment established on the way (single-assignment locals bound to their canonical definitions;
// anything assigned inside a loop that is entered becomes unknown).
func (d *dtEnum) envBefore(p *dtPath, list []ast.Stmt, at ast.Node) *dtPath {
	cur := p
	for _, s := range list {
		if s.End() <= at.Pos() {
			var last *dtPath
			saved := d.paths
			d.stmt(cur, s, func(q *dtPath) { last = q })
			d.paths = saved
			if last != nil {
				cur = last
			}
			continue
		}
		if s.Pos() > at.Pos() || s == at {
			break
		}
		// s contains at
		inner := func(init ast.Stmt, lists ...[]ast.Stmt) {
			if init != nil {
				var last *dtPath
				saved := d.paths
				d.stmt(cur, init, func(q *dtPath) { last = q })
				d.paths = saved
				if last != nil {
					cur = last
				}
			}
			for _, l := range lists {
				if len(l) > 0 && l[0].Pos() <= at.Pos() && at.End() <= l[len(l)-1].End() {
					cur = d.envBefore(cur, l, at)
					return
				}
			}
		}
		switch x := s.(type) {
		case *ast.BlockStmt:
			inner(nil, x.List)
		case *ast.IfStmt:
			var els []ast.Stmt
			if x.Else != nil {
				els = []ast.Stmt{x.Else}
			}
			inner(x.Init, x.Body.List, els)
		case *ast.ForStmt:
			d.loopUnknown(cur, x)
			inner(nil, x.Body.List)
		case *ast.RangeStmt:
			d.loopUnknown(cur, x)
			inner(nil, x.Body.List)
		case *ast.SwitchStmt:
			var ls [][]ast.Stmt
			for _, c := range x.Body.List {
				ls = append(ls, c.(*ast.CaseClause).Body)
			}
			inner(x.Init, ls...)
		case *ast.LabeledStmt:
			inner(nil, []ast.Stmt{x.Stmt})
		}
		break
	}
	q := cur.clone()
	q.Atoms, q.Steps, q.Calls, q.Ret, q.Exit = nil, nil, nil, nil, ""
	return q
}

func (d *dtEnum) loopUnknown(p *dtPath, s ast.Stmt) {
	ast.Inspect(s, func(n ast.Node) bool {
		if as, ok := n.(*ast.AssignStmt); ok && as.Tok != token.DEFINE {
			for _, l := range as.Lhs {
				if id, ok := l.(*ast.Ident); ok {
					d.bind(p, id, "unknown("+id.Name+")")
				}
			}
		}
		return true
	})
}

// rewrite applies f to every canonical string of the path (atoms, steps, calls, returns).
func (p *dtPath) rewrite(f func(string) string) {
	for i := range p.Atoms {
		p.Atoms[i].Expr = f(p.Atoms[i].Expr)
	}
	for i := range p.Steps {
		p.Steps[i] = f(p.Steps[i])
	}
	for i := range p.Ret {
		p.Ret[i] = f(p.Ret[i])
	}
	for i := range p.Calls {
		p.Calls[i].Recv = f(p.Calls[i].Recv)
		p.Calls[i].Name = f(p.Calls[i].Name)
		for j := range p.Calls[i].Args {
			p.Calls[i].Args[j] = f(p.Calls[i].Args[j])
		}
	}
}

// findIndexLoop returns the first counting loop in fd (any depth) whose bound's canonical form satisfies pred.
func findIndexLoop(info *types.Info, fd *ast.FuncDecl, pred func(bound string) bool) (stmt ast.Stmt, iv types.Object, body *ast.BlockStmt) {
	fc := newFuncCanon(info, fd)
	ast.Inspect(fd.Body, func(n ast.Node) bool {
		if stmt != nil {
			return false
		}
		if s, ok := n.(ast.Stmt); ok {
			if v, bound, b, ok := indexLoop(info, s); ok && pred(fc.E(bound)) {
				stmt, iv, body = s, v, b
				return false
			}
		}
		return true
	})
	return
}

// bindCall returns a copy of p in which fd's receiver and parameters are bound to the canonical
// arguments of call (nil when the call cannot be matched to the declaration).
func (d *dtEnum) bindCall(p *dtPath, fd *ast.FuncDecl, call *ast.CallExpr) *dtPath {
	q := p.clone()
	if fd.Recv != nil && len(fd.Recv.List) == 1 {
		sel, ok := call.Fun.(*ast.SelectorExpr)
		if !ok {
			return nil
		}
		if len(fd.Recv.List[0].Names) == 1 {
			q.env[d.info.Defs[fd.Recv.List[0].Names[0]]] = d.canon(p, sel.X)
		}
	}
	i := 0
	for _, f := range fd.Type.Params.List {
		if _, variadic := f.Type.(*ast.Ellipsis); variadic {
			return nil
		}
		for _, n := range f.Names {
			if i >= len(call.Args) {
				return nil
			}
			q.env[d.info.Defs[n]] = d.canon(p, call.Args[i])
			i++
		}
		if len(f.Names) == 0 {
			i++
		}
	}
	if i != len(call.Args) {
		return nil
	}
	return q
}

// follow continues inside the callee when call is a call of a followable function of the package.
func (d *dtEnum) follow(p *dtPath, call *ast.CallExpr, k func(q *dtPath, rets []string)) bool {
	if d.callInline == nil || len(d.frames) >= 3 {
		return false
	}
	fn := calleeFunc(d.info, call)
	var fd *ast.FuncDecl
	if fn == nil {
		// a local closure (v := func(..) {..}; v(..)): followed like a private helper; what it captures is
		// read from the caller's environment
		fd = d.closureDecl(call)
	} else {
		fd = d.callInline[fn]
	}
	if fd == nil {
		return false
	}
	for _, f := range d.frames {
		if f.fd == fd {
			return false // recursion
		}
	}
	for _, a := range call.Args {
		d.noteCalls(p, a)
	}
	q := d.bindCall(p, fd, call)
	if q == nil {
		return false
	}
	if fd.Type.Results != nil {
		for _, fl := range fd.Type.Results.List {
			for _, nm := range fl.Names {
				q.env[d.info.Defs[nm]] = "zero"
			}
		}
	}
	q.Atoms, q.Steps, q.Calls = p.Atoms, p.Steps, p.Calls
	q = func() *dtPath { c := q.clone(); return c }()
	fr := &dtFrame{k: k, fd: fd}
	d.frames = append(d.frames, fr)
	d.stmts(q, fd.Body.List, func(r *dtPath) {
		// fell off the end of the callee
		n := len(d.frames)
		d.frames = d.frames[:n-1]
		k(r, nil)
		d.frames = append(d.frames, fr)
	})
	d.frames = d.frames[:len(d.frames)-1]
	return true
}

// sprintfParts splits a %s/%d-only format into literal and operand pieces (nil, false if anything else occurs).
func sprintfParts(d *dtEnum, p *dtPath, format string, args []ast.Expr) ([]string, bool) {
	var parts []string
	lit := ""
	ai := 0
	flush := func() {
		if lit != "" {
			parts = append(parts, strconv.Quote(lit))
			lit = ""
		}
	}
	for i := 0; i < len(format); i++ {
		if format[i] != '%' {
			lit += string(format[i])
			continue
		}
		if i+1 >= len(format) {
			return nil, false
		}
		i++
		switch format[i] {
		case '%':
			lit += "%"
		case 's', 'd':
			if ai >= len(args) {
				return nil, false
			}
			t := d.info.TypeOf(args[ai])
			b, ok := t.Underlying().(*types.Basic)
			if !ok {
				return nil, false
			}
			flush()
			switch {
			case format[i] == 's' && b.Info()&types.IsString != 0:
				parts = append(parts, d.canon(p, args[ai]))
			case format[i] == 'd' && b.Kind() == types.Int:
				parts = append(parts, "strconv.Itoa("+d.canon(p, args[ai])+")")
			default:
				return nil, false
			}
			ai++
		default:
			return nil, false
		}
	}
	flush()
	if ai != len(args) || len(parts) == 0 {
		return nil, false
	}
	return parts, true
}

func structOf(t types.Type) (*types.Struct, bool) {
	if t == nil {
		return nil, false
	}
	if p, ok := t.Underlying().(*types.Pointer); ok {
		t = p.Elem()
	}
	st, ok := t.Underlying().(*types.Struct)
	return st, ok
}

func renderStructLit(typ string, st *types.Struct, vals map[string]string) string {
	var el []string
	for i := 0; i < st.NumFields(); i++ {
		if v, ok := vals[st.Field(i).Name()]; ok {
			el = append(el, st.Field(i).Name()+": "+v)
		}
	}
	return typ + "{" + strings.Join(el, ", ") + "}"
}

// splitStructLit parses "T{A: x, B: y}" (as printed by canon) into its type prefix and fields.
func splitStructLit(s string) (string, map[string]string, bool) {
	i := strings.Index(s, "{")
	if i < 0 || !strings.HasSuffix(s, "}") {
		return "", nil, false
	}
	typ, body := s[:i], s[i+1:len(s)-1]
	if strings.ContainsAny(typ, "( ") {
		return "", nil, false
	}
	vals := map[string]string{}
	depth, start := 0, 0
	inStr := false
	flush := func(end int) bool {
		part := strings.TrimSpace(body[start:end])
		if part == "" {
			return true
		}
		j := strings.Index(part, ": ")
		if j <= 0 {
			return false
		}
		vals[part[:j]] = part[j+2:]
		return true
	}
	for k := 0; k < len(body); k++ {
		ch := body[k]
		switch {
		case ch == '"' && (k == 0 || body[k-1] != '\\'):
			inStr = !inStr
		case inStr:
		case ch == '(' || ch == '{' || ch == '[':
			depth++
		case ch == ')' || ch == '}' || ch == ']':
			depth--
		case ch == ',' && depth == 0:
			if !flush(k) {
				return "", nil, false
			}
			start = k + 1
		}
	}
	if !flush(len(body)) {
		return "", nil, false
	}
	return typ, vals, true
}

// fieldStore: 'x.F = v' where x is a local holding a struct value (or a pointer to a fresh one) that
// is known as a literal: the local's value becomes the literal with F set.
func (d *dtEnum) fieldStore(p *dtPath, lhs ast.Expr, val string) {
	sel, ok := ast.Unparen(lhs).(*ast.SelectorExpr)
	if !ok {
		return
	}
	id, ok := ast.Unparen(sel.X).(*ast.Ident)
	if !ok {
		return
	}
	obj := d.info.Uses[id]
	v, ok := obj.(*types.Var)
	if !ok || v.IsField() {
		return
	}
	if s := d.info.Selections[sel]; s == nil || s.Kind() != types.FieldVal || len(s.Index()) != 1 {
		return
	}
	st, ok := structOf(v.Type())
	if !ok {
		return
	}
	cur, bound := p.env[obj]
	if !bound {
		return
	}
	_, isPtr := v.Type().Underlying().(*types.Pointer)
	name := types.TypeString(v.Type(), func(pk *types.Package) string {
		if pk == v.Pkg() {
			return ""
		}
		return pk.Name()
	})
	name = strings.TrimPrefix(name, "*")
	prefix := ""
	if isPtr {
		prefix = "&"
	}
	if cur == "zero" && !isPtr {
		cur = name + "{}"
	}
	typ, vals, ok := splitStructLit(strings.TrimPrefix(cur, prefix))
	if !ok || isPtr && !strings.HasPrefix(cur, "&") {
		return
	}
	vals[sel.Sel.Name] = val
	p.env[obj] = prefix + renderStructLit(typ, st, vals)
}

// canonNoSub prints a call as it stands (used when hoisting it failed).
func (d *dtEnum) canonNoSub(p *dtPath, c *ast.CallExpr) string {
	delete(p.sub, c)
	return d.canon(p, c)
}

// returnWith ends the current function on path p with the given values: to the caller's
// continuation when a followed call is being evaluated, as a finished path otherwise.
func (d *dtEnum) returnWith(p *dtPath, rets []string, pos token.Pos) {
	if n := len(d.frames); n > 0 {
		f := d.frames[n-1]
		d.frames = d.frames[:n-1]
		f.k(p, rets)
		d.frames = append(d.frames, f)
		return
	}
	p.Ret = append(p.Ret, rets...)
	p.RetPos = pos
	d.finish(p, "return")
}

// nillableOperand: e is a comparison with nil whose other operand has a type whose zero value is nil.
func nillableOperand(info *types.Info, e ast.Expr) bool {
	be, ok := ast.Unparen(e).(*ast.BinaryExpr)
	if !ok {
		return false
	}
	for _, side := range []ast.Expr{be.X, be.Y} {
		if isNilIdent(info, side) {
			continue
		}
		if t := info.TypeOf(side); t != nil {
			switch t.Underlying().(type) {
			case *types.Pointer, *types.Interface, *types.Map, *types.Slice, *types.Chan, *types.Signature:
				return true
			}
		}
	}
	return false
}

// literalTables: the locals of fd defined exactly once, as a slice or array literal, and never assigned again.
func literalTables(info *types.Info, fd *ast.FuncDecl) map[types.Object]*ast.CompositeLit {
	out := map[types.Object]*ast.CompositeLit{}
	n := map[types.Object]int{}
	ast.Inspect(fd.Body, func(x ast.Node) bool {
		as, ok := x.(*ast.AssignStmt)
		if !ok {
			return true
		}
		for i, l := range as.Lhs {
			id, ok := l.(*ast.Ident)
			if !ok {
				continue
			}
			obj := objOf(info, id)
			if obj == nil {
				continue
			}
			n[obj]++
			if len(as.Lhs) == len(as.Rhs) {
				if cl, ok := ast.Unparen(as.Rhs[i]).(*ast.CompositeLit); ok {
					switch info.TypeOf(cl).Underlying().(type) {
					case *types.Slice, *types.Array:
						out[obj] = cl
					}
				}
			}
		}
		return true
	})
	for obj := range out {
		if n[obj] != 1 {
			delete(out, obj)
		}
	}
	return out
}

// closureDecl returns, for a call v(..) of a local variable that is defined exactly once, as a function
// literal, that literal in the form of a declaration (nil otherwise).
func (d *dtEnum) closureDecl(call *ast.CallExpr) *ast.FuncDecl {
	id, ok := ast.Unparen(call.Fun).(*ast.Ident)
	if !ok {
		return nil
	}
	obj, ok := d.info.Uses[id].(*types.Var)
	if !ok || obj.IsField() || obj.Pkg() == nil || obj.Parent() == obj.Pkg().Scope() {
		return nil
	}
	if d.closures == nil {
		d.closures = map[types.Object]*ast.FuncDecl{}
		count := map[types.Object]int{}
		lits := map[types.Object]*ast.FuncLit{}
		d.scanClosures(count, lits)
		for o, lit := range lits {
			if count[o] == 1 {
				d.closures[o] = &ast.FuncDecl{Name: ast.NewIdent(o.Name()), Type: lit.Type, Body: lit.Body}
			}
		}
	}
	return d.closures[obj]
}

// scanClosures counts the assignments of every local in the analysed package's syntax (reached through the
// positions recorded in info.Defs' identifiers is not possible, so the rule's package hands its files over
// in closureFiles) and remembers those whose value is a function literal.
func (d *dtEnum) scanClosures(count map[types.Object]int, lits map[types.Object]*ast.FuncLit) {
	for _, f := range d.closureFiles {
		ast.Inspect(f, func(n ast.Node) bool {
			switch x := n.(type) {
			case *ast.AssignStmt:
				for i, l := range x.Lhs {
					lid, ok := l.(*ast.Ident)
					if !ok {
						continue
					}
					o := objOf(d.info, lid)
					if o == nil {
						continue
					}
					count[o]++
					if len(x.Lhs) == len(x.Rhs) {
						if lit, ok := ast.Unparen(x.Rhs[i]).(*ast.FuncLit); ok {
							lits[o] = lit
						}
					}
				}
			case *ast.ValueSpec:
				for i, nm := range x.Names {
					if o := d.info.Defs[nm]; o != nil {
						count[o]++
						if i < len(x.Values) {
							if lit, ok := ast.Unparen(x.Values[i]).(*ast.FuncLit); ok {
								lits[o] = lit
							}
						}
					}
				}
			}
			return true
		})
	}
}
