package main

import "fmt"

func init() { register("C01", checkC01) }

func checkC01(c *Ctx) {
	c.Explanation = "wip"
	for _, name := range []string{"testify", "matryer"} {
		errs := map[string]int{}
		first := map[string]*TPath{}
		n := walkTemplate(c, name, "body", func(p *TPath) {
			switch {
			case p.Err != nil:
				k := "eval: " + p.Err.err.Error()
				errs[k]++
				if first[k] == nil {
					first[k] = p
				}
			case p.ParseEr != nil:
				k := "parse: " + p.ParseEr.Error()
				errs[k]++
				if first[k] == nil {
					first[k] = p
				}
			default:
				for _, m := range p.TypeErr {
					k := "type: " + m
					errs[k]++
					if first[k] == nil {
						first[k] = p
					}
				}
				c.OK("R01.2", name, "", "")
			}
		})
		fmt.Println(name, "paths", n)
		i := 0
		for k, v := range errs {
			fmt.Println("  ", v, k, "\n      ", first[k].Env())
			dumpPath(first[k], fmt.Sprintf("/tmp/mk/skel-%s-%d.go", name, i))
			i++
		}
	}
}

func init() {
	register("DUMP", func(c *Ctx) {
		for _, name := range []string{"testify", "matryer"} {
			i := 0
			walkTemplate(c, name, "body", func(p *TPath) {
				if len(p.Shape.Ifaces) == 2 && p.Shape.OutPkg && i < 2 {
					dumpPath(p, fmt.Sprintf("/tmp/mk/dump-%s-%d.go", name, i))
					i++
				}
			})
		}
	})
}
