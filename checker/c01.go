package main

import (
	"fmt"
	"go/ast"
	"go/constant"
	"go/parser"
	"go/token"
	"go/types"
	"os"
	"regexp"
	"sort"
	"strings"

	"golang.org/x/tools/go/packages"
)

func init() { register("C01", checkC01) }

var templateBuiltins = map[string]bool{"and": true, "or": true, "not": true, "len": true, "index": true, "slice": true, "eq": true, "ne": true, "lt": true, "le": true, "gt": true, "ge": true,
	"print": true, "printf": true, "println": true, "call": true, "html": true, "js": true, "urlquery": true}

var reUserName = regexp.MustCompile(`^[pr][a-z]\d+x\d+$`)

func checkC01(c *Ctx) {
	c.Explanation = `R01.2 every path of both built-in templates (engine T: all template-data flag combinations x interface shapes up to the tier bound, both placements, generic and non-generic, header flags in a separate sweep) evaluates without a template error, parses (go/parser) and type-checks (go/types) together with a synthetic environment built from the shape alone (source interface, placeholder types in a separate package, stub testify/mock and sync): undefined names, unused imports or variables, wrong arity, mismatched types and missing imports in any branch are reported with the template line;
R01.3 no identifier fixed by the template can capture or be captured by a user-supplied parameter/result name: fixed identifiers declared in the same scope as the parameters (redeclaration), declared in an inner scope around a use of a parameter (capture), or referring to package-level/predeclared names inside the parameters' scope (shadowing) are reported, unless allocated through Scope.AllocateName;
R01.8 every function the built-in templates call is a text/template builtin or a key of template_funcs.FuncMap;
R01.1 the import-collecting type switch (MethodScope.populateImportsHelper) has a case for every go/types type constructor except Tuple and TypeParam, and each case feeds every component type of that constructor into the recursion (Map: Key and Elem, Signature: Params and Results, ...), named types add their package and recurse into type arguments, unsafe.Pointer adds package unsafe;
R01.5 the in-package decision is exactly 'pkgname == source package name && output directory == source directory'; Registry.addImport registers every new import under its path and under exactly the qualifier finally chosen (so two imports never share a qualifier), nil only for the in-package destination;
R01.6 the formatter dispatch has one arm per declared Formatter constant (goimports, gofmt, noop), each calling the formatter of that name on the rendered bytes (noop returns them unchanged), and an error fall-through;
R01.7 the destination import path comes from modfile.ModulePath of the nearest go.mod, with an error for an empty result.`
	c.NotDecided = "type-correctness for all interfaces (type strings are opaque placeholders: types.TypeString semantics, alias/qualifier clashes with local declarations, goimports repair); shapes beyond the tier bound; user templates."
	c.Assumptions = []string{"go/parser and go/types accept exactly valid Go", "engine T's accessor table (C14 checks it against the Go code)", "stub signatures of testify/mock and sync"}
	c.Rule("R01.2", 1000, "")
	c.Rule("R01.3", 50, "")
	c.Rule("R01.8", 10, "")
	c.Rule("R01.1", 25, "")
	c.Rule("R01.5", 2, "")
	c.Rule("R01.6", 6, "")
	c.Rule("R01.7", 2, "")

	used := map[string]bool{}
	hazards := map[string]string{} // key -> detail (deduplicated over paths)
	hazardPos := map[string]string{}
	nFuncs := 0
	for _, name := range []string{"testify", "matryer"} {
		tname := name
		for _, mode := range []string{"body", "header"} {
			walkTemplate(c, name, mode, func(p *TPath) {
				env := " [" + p.Env() + "]"
				for f := range p.E.funcsUsed {
					used[f] = true
				}
				switch {
				case p.Err != nil:
					c.Fail("R01.2", tname+"|eval|"+normMsg(p.Err.err.Error()), p.E.nodePos(p.Err.node), "template execution fails on this path: "+p.Err.err.Error()+env)
					return
				case p.ParseEr != nil:
					msg := p.ParseEr.Error()
					if i := strings.Index(msg, ": "); i >= 0 {
						msg = msg[i+2:]
					}
					c.Fail("R01.2", tname+"|parse|"+normMsg(firstLines(msg, 1)), "internal/mock_"+tname+".templ", "rendered file is not syntactically valid Go: "+firstLines(p.ParseEr.Error(), 2)+env)
					return
				}
				if len(p.TypeErr) == 0 {
					c.OK("R01.2", tname, "", "evaluates, parses, type-checks"+env)
				}
				for i, m := range p.TypeErr {
					c.Fail("R01.2", tname+"|type|"+m, p.TmplPos(p.rawErrs[i].Pos), "rendered file does not type-check: "+p.rawErrs[i].Msg+env)
				}
				if mode == "body" {
					nFuncs += captureHazards(p, hazards, hazardPos)
				}
			})
		}
	}
	var hk []string
	for k := range hazards {
		hk = append(hk, k)
	}
	sort.Strings(hk)
	for _, k := range hk {
		c.Fail("R01.3", k, hazardPos[k], hazards[k])
	}
	for i := 0; i < nFuncs && i < 100000; i++ {
		c.OK("R01.3", "scope-analysis", "", "function with user-named parameters analysed")
	}

	r := loadRepo(c, packages.LoadSyntax, "", "./internal", "./template", "./template_funcs")
	// R01.8
	fm := funcMapEntries(r.Pkg("template_funcs"))
	var un []string
	for f := range used {
		un = append(un, f)
	}
	sort.Strings(un)
	for _, f := range un {
		switch {
		case templateBuiltins[f]:
			c.OK("R01.8", "builtin|"+f, "", "text/template builtin")
		case fm[f] != nil:
			c.OK("R01.8", "funcmap|"+f, r.Pos(fm[f].Pos()), "FuncMap key")
		default:
			c.Fail("R01.8", "undefined-function|"+f, "internal/", fmt.Sprintf("a built-in template calls %q, which is neither a text/template builtin nor a FuncMap key: template parsing fails for every run", f))
		}
	}
	goR011(c, r)
	goR015(c, r, "R01.5")
	ruleAbsolutiseWhenRelative(c, r, "R01.5")
	goR016(c, r)
	goR017(c, r)
	goR017Search(c, r)
	rulePkgPathCleaned(c, r, "R01.7")
	// qualifier bookkeeping: distinct imports never share a qualifier (shared with C15)
	ruleAddImport(c, r, "R01.5")
	accessorTableGuard(c, "R01.9")
	// identifiers produced through template functions: exported/firstUpper/firstIsLower work on runes
	// (a byte-wise version turns a non-ASCII first letter into invalid UTF-8, i.e. an invalid identifier)
	// one import registry per output file (C06 rule R06.6): a registry shared between files carries the imports
	// of the files rendered before into the next one ("imported and not used" under gofmt/noop)
	subRules(c, "R01.5", "registry-per-file", "the import block of a file is the registry's content: ", func(sub *Ctx) {
		sub.Rule("R06.6", 0, "")
		ruleFreshGenerator(sub, loadRepo(sub, packages.LoadSyntax, "", "./internal/cmd", "./internal"), "R06.6")
	})
	// a replaced parameter imports the replacement's package only (C13's R13.3): under gofmt/noop an import of
	// the package it was replaced away from is an unused import (round 7: populateImports hoisted above the
	// replacement branch of AddVar)
	subRules(c, "R01.10", "add-var", "every import a file declares is used (no import repair under gofmt/noop): ", func(sub *Ctx) {
		sub.Rule("R13.3", 0, "")
		ruleAddVar(sub, loadRepo(sub, packages.LoadSyntax, "", "./internal", "./template", "./config"))
	})
	c.Rule("R01.10", 1, "")
	subRules(c, "R01.10", "identifier-functions", "the built-in templates build field and constructor names with these functions: ", func(sub *Ctx) {
		ruleRunes(sub, loadRepo(sub, packages.LoadSyntax, "", "./template_funcs"))
	})
}

// captureHazards implements R01.3 on one skeleton; returns the number of functions analysed.
func captureHazards(p *TPath, out map[string]string, pos map[string]string) int {
	if p.Info == nil {
		return 0
	}
	n := 0
	isUser := func(id *ast.Ident) bool {
		if !reUserName.MatchString(id.Name) {
			return false
		}
		return len(p.holesIn(id)) > 0
	}
	isAllocated := func(id *ast.Ident) bool {
		hs := p.holesIn(id)
		if len(hs) == 0 {
			return false
		}
		for _, h := range hs {
			if !strings.HasPrefix(h.Expr, "scope.AllocateName") {
				return false
			}
		}
		return true
	}
	fromHoleOnly := func(id *ast.Ident) bool { return len(p.holesIn(id)) > 0 && p.fixedText(id) == strings.Repeat("{}", 1) }
	for _, d := range p.File.Decls {
		fd, ok := d.(*ast.FuncDecl)
		if !ok || fd.Body == nil {
			continue
		}
		// does the function declare user-named parameters?
		var userParams []*ast.Ident
		for _, f := range fd.Type.Params.List {
			for _, nm := range f.Names {
				if isUser(nm) {
					userParams = append(userParams, nm)
				}
			}
		}
		if len(userParams) == 0 {
			continue
		}
		n++
		fscope := p.Info.Scopes[fd.Type]
		role := p.fixedText(fd.Name)
		if fd.Recv != nil && len(fd.Recv.List) == 1 {
			role = regexp.MustCompile(`[Mm]ock[A-Z]`).ReplaceAllString(reMeth.ReplaceAllString(recvTypeName(fd.Recv.List[0].Type), "M"), "Mock") + "." + role
		}
		// positions where user parameters are used in the body
		var uses []token.Pos
		ast.Inspect(fd.Body, func(x ast.Node) bool {
			if id, ok := x.(*ast.Ident); ok && isUser(id) {
				if o := p.Info.Uses[id]; o != nil && o.Parent() == fscope {
					uses = append(uses, id.Pos())
				}
			}
			return true
		})
		report := func(kind string, id *ast.Ident, what string) {
			shown := id.Name
			if ft := p.fixedText(id); strings.Contains(ft, "{}") {
				shown = strings.ReplaceAll(ft, "{}", "<k>")
			} else if m := regexp.MustCompile(`^([A-Za-z_]+)\d+$`).FindStringSubmatch(id.Name); m != nil {
				shown = m[1] + "<k>" // names numbered by a range index (r0, r1, ...)
			}
			k := fmt.Sprintf("%s|%s|%s|%s", p.Tmpl, role, kind, shown)
			if _, ok := out[k]; !ok {
				out[k] = fmt.Sprintf("a parameter or result named %q %s (function %s of the %s template)", shown, what, normMsg(fd.Name.Name), p.Tmpl)
				pos[k] = p.TmplPos(id.Pos())
			}
		}
		// selector .Sel and composite-literal keys are not lexical references
		skip := map[*ast.Ident]bool{}
		ast.Inspect(fd, func(x ast.Node) bool {
			switch y := x.(type) {
			case *ast.SelectorExpr:
				skip[y.Sel] = true
			case *ast.KeyValueExpr:
				if k, ok := y.Key.(*ast.Ident); ok {
					skip[k] = true
				}
			case *ast.Field:
				// field names inside struct/interface/func *types* are not in the function scope
			}
			return true
		})
		check := func(id *ast.Ident) {
			if skip[id] || id.Name == "_" || isUser(id) || isAllocated(id) {
				return
			}
			if len(p.holesIn(id)) > 0 && p.fixedText(id) == "{}" {
				return // entirely from a data hole (type strings, method names): not template-fixed
			}
			_ = fromHoleOnly
			if o := p.Info.Defs[id]; o != nil {
				if _, isVar := o.(*types.Var); !isVar {
					return
				}
				if o.(*types.Var).IsField() {
					return
				}
				sc := o.Parent()
				switch {
				case sc == fscope:
					report("redeclare", id, "is declared twice in the function's scope: the file does not compile")
				case sc != nil && fscope != nil && fscope.Contains(id.Pos()):
					for _, u := range uses {
						if sc.Contains(u) && u > id.Pos() {
							report("capture", id, "is captured by the template's own local of that name, declared around a use of the parameter: the mock compiles against the wrong variable or not at all")
							break
						}
					}
				}
				return
			}
			if o := p.Info.Uses[id]; o != nil {
				sc := o.Parent()
				if sc == types.Universe || sc == p.Pkg.Scope() || isFileScope(p, sc) {
					if _, isType := o.(*types.TypeName); isType && len(p.holesIn(id)) > 0 {
						return
					}
					report("shadow", id, fmt.Sprintf("shadows the %s %q that the generated body refers to", objKind(o), id.Name))
				}
			}
		}
		if fd.Recv != nil {
			for _, f := range fd.Recv.List {
				for _, nm := range f.Names {
					check(nm)
				}
			}
		}
		ast.Inspect(fd.Body, func(x ast.Node) bool {
			if id, ok := x.(*ast.Ident); ok {
				check(id)
			}
			return true
		})
	}
	return n
}

func isFileScope(p *TPath, sc *types.Scope) bool {
	return sc != nil && sc.Parent() == p.Pkg.Scope() && p.Info.Scopes[p.File] == sc
}

func objKind(o types.Object) string {
	switch o.(type) {
	case *types.PkgName:
		return "imported package"
	case *types.Builtin:
		return "predeclared function"
	case *types.Nil:
		return "predeclared identifier"
	case *types.TypeName:
		return "type"
	case *types.Const:
		return "constant"
	case *types.Func:
		return "function"
	}
	return "package-level name"
}

// ---------------- R01.1: exhaustive import walk ----------------

func goR011(c *Ctx, r *Repo) {
	tp := r.Pkg("template")
	info := tp.TypesInfo
	fd := FuncDecl(tp, "MethodScope.populateImportsHelper")
	if fd == nil {
		c.Fail("R01.1", "populateImportsHelper|missing", "template/method_scope.go", "MethodScope.populateImportsHelper not found")
		return
	}
	c.Func(funcKey(tp, fd))
	self := info.Defs[fd.Name]
	goR011Total(c, r, tp, fd)
	// the universe of type constructors: named types of go/types whose pointer implements types.Type
	gt := r.Pkgs["go/types"]
	if gt == nil || gt.Types == nil {
		c.Fail("R01.1", "go/types|not-loaded", "", "go/types package not loaded")
		return
	}
	typeIface := gt.Types.Scope().Lookup("Type").Type().Underlying().(*types.Interface)
	var ctors []string
	for _, n := range gt.Types.Scope().Names() {
		tn, ok := gt.Types.Scope().Lookup(n).(*types.TypeName)
		if !ok || !tn.Exported() || tn.IsAlias() {
			continue
		}
		if _, isIface := tn.Type().Underlying().(*types.Interface); isIface {
			continue
		}
		if types.Implements(types.NewPointer(tn.Type()), typeIface) {
			ctors = append(ctors, n)
		}
	}
	// the type switch
	var ts *ast.TypeSwitchStmt
	ast.Inspect(fd.Body, func(n ast.Node) bool {
		if x, ok := n.(*ast.TypeSwitchStmt); ok && ts == nil {
			ts = x
		}
		return true
	})
	if ts == nil {
		c.Fail("R01.1", "populateImportsHelper|no-type-switch", r.Pos(fd.Pos()), "no type switch over the type constructors")
		return
	}
	// the arm that a value of each constructor reaches: the first clause, in source order, that lists the
	// constructor itself or an interface the constructor implements (an arm such as
	// `case interface{ Elem() types.Type }` takes every constructor with that method that no earlier arm took)
	cases := map[string]*ast.CaseClause{}
	for _, ct := range ctors {
		tn, _ := gt.Types.Scope().Lookup(ct).(*types.TypeName)
		if tn == nil {
			continue
		}
		ptr := types.NewPointer(tn.Type())
	arms:
		for _, s := range ts.Body.List {
			cc := s.(*ast.CaseClause)
			for _, e := range cc.List {
				t := info.TypeOf(e)
				if t == nil {
					continue
				}
				if pt, ok := t.(*types.Pointer); ok {
					if n, ok := pt.Elem().(*types.Named); ok && n.Obj().Pkg() != nil && n.Obj().Pkg().Path() == "go/types" && n.Obj().Name() == ct {
						cases[ct] = cc
						break arms
					}
				}
				if it, ok := t.Underlying().(*types.Interface); ok && !it.Empty() && types.Implements(ptr, it) {
					cases[ct] = cc
					break arms
				}
			}
		}
	}
	exempt := map[string]string{
		"Tuple":     "never a variable's type; reached only through Signature, whose case walks Params/Results",
		"TypeParam": "a type parameter names no package; its constraint is walked when the type-parameter list is rendered",
	}
	// recursion targets: the function itself, or helpers of the same receiver that reach it
	helper := FuncDecl(tp, "MethodScope.populateImportNamedType")
	callsIn := func(body ast.Node) []*ast.CallExpr {
		var out []*ast.CallExpr
		ast.Inspect(body, func(n ast.Node) bool {
			if call, ok := n.(*ast.CallExpr); ok {
				out = append(out, call)
			}
			return true
		})
		return out
	}
	recDepth := 0
	var recursiveArgsRef func(body ast.Node) []string
	recursiveArgs := func(body ast.Node) []string { // canonical strings of the type argument of each recursive call
		defs := map[string]string{} // local := expr (single definition)
		ast.Inspect(body, func(n ast.Node) bool {
			if as, ok := n.(*ast.AssignStmt); ok && as.Tok == token.DEFINE && len(as.Lhs) == 1 && len(as.Rhs) == 1 {
				if id, ok := as.Lhs[0].(*ast.Ident); ok {
					if _, dup := defs[id.Name]; dup {
						defs[id.Name] = id.Name
					} else {
						defs[id.Name] = types.ExprString(as.Rhs[0])
					}
				}
			}
			return true
		})
		var out []string
		for _, call := range callsIn(body) {
			fn := calleeFunc(info, call)
			if fn != nil && fn == self && len(call.Args) >= 2 {
				s := types.ExprString(call.Args[1])
				for name, def := range defs {
					if _, isLoopVar := map[string]bool{"i": true, "j": true}[name]; isLoopVar || def == "0" {
						continue
					}
					s = regexp.MustCompile(`\b`+regexp.QuoteMeta(name)+`\b`).ReplaceAllString(s, def)
				}
				out = append(out, s)
				continue
			}
			// a helper of the package that feeds parts of its argument into the recursion (the variables of a
			// tuple, say): what it feeds, with its parameters replaced by the arguments of this call
			if fn == nil || fn == self || recDepth > 0 {
				continue
			}
			h := pkgFuncs(tp)[fn]
			if h == nil || h.Body == nil || helper != nil && h == helper {
				continue
			}
			recDepth++
			inner := recursiveArgsRef(h.Body)
			recDepth--
			i := 0
			for _, f := range h.Type.Params.List {
				for _, nm := range f.Names {
					if i < len(call.Args) {
						arg := types.ExprString(call.Args[i])
						for k := range inner {
							inner[k] = regexp.MustCompile(`\b`+regexp.QuoteMeta(nm.Name)+`\b`).ReplaceAllString(inner[k], arg)
						}
					}
					i++
				}
			}
			out = append(out, inner...)
		}
		return out
	}
	recursiveArgsRef = recursiveArgs
	addImportArgs := func(body ast.Node) []string {
		var out []string
		for _, call := range callsIn(body) {
			if fn := calleeFunc(info, call); fn != nil && fn.Name() == "addImport" && len(call.Args) >= 2 {
				out = append(out, types.ExprString(call.Args[1]))
			}
		}
		return out
	}
	want := map[string][]string{
		"Array":     {"t.Elem()"},
		"Slice":     {"t.Elem()"},
		"Pointer":   {"t.Elem()"},
		"Chan":      {"t.Elem()"},
		"Map":       {"t.Key()", "t.Elem()"},
		"Signature": {"t.Params().At(i).Type()", "t.Results().At(i).Type()"},
		"Struct":    {"t.Field(i).Type()"},
		"Union":     {"t.Term(i).Type()"},
		"Interface": {"t.ExplicitMethod(i).Type()", "t.EmbeddedType(i)"},
	}
	sort.Strings(ctors)
	for _, ct := range ctors {
		cc := cases[ct]
		if cc == nil {
			if why, ok := exempt[ct]; ok {
				c.OK("R01.1", "case|"+ct+"|exempt", r.Pos(ts.Pos()), why)
			} else {
				c.Fail("R01.1", "case|"+ct+"|missing", r.Pos(ts.Pos()), "the import walk has no case for *types."+ct+": packages referenced only through such a type are never imported")
			}
			continue
		}
		c.OK("R01.1", "case|"+ct, r.Pos(cc.Pos()), "handled")
		body := &ast.BlockStmt{List: cc.Body}
		// canonicalise the case variable name to t and loop variables to i
		canon := func(s string) string {
			if ts.Assign != nil {
				if as, ok := ts.Assign.(*ast.AssignStmt); ok {
					if id, ok := as.Lhs[0].(*ast.Ident); ok && id.Name != "t" {
						s = regexp.MustCompile(`\b`+regexp.QuoteMeta(id.Name)+`\b`).ReplaceAllString(s, "t")
					}
				}
			}
			s = regexp.MustCompile(`\((\w+)\)`).ReplaceAllStringFunc(s, func(m string) string {
				if m == "()" {
					return m
				}
				return "(i)"
			})
			return s
		}
		switch ct {
		case "Named", "Alias":
			// delegated: helper(ctx, t, imports) which adds t.Obj().Pkg() and recurses into TypeArgs().At(i)
			okPkg, okArgs := false, false
			bodies := []ast.Node{body}
			for _, call := range callsIn(body) {
				if fn := calleeFunc(info, call); fn != nil && helper != nil && fn == info.Defs[helper.Name] {
					bodies = append(bodies, helper.Body)
				}
			}
			for _, b := range bodies {
				for _, call := range callsIn(b) {
					if fn := calleeFunc(info, call); fn != nil && fn.Name() == "addImport" && len(call.Args) >= 2 {
						// argument must be (derived from) t.Obj().Pkg()
						arg := call.Args[1]
						s := types.ExprString(arg)
						if strings.HasSuffix(s, ".Obj().Pkg()") {
							okPkg = true
						} else if id, ok := arg.(*ast.Ident); ok {
							// pkg := t.Obj().Pkg()
							ast.Inspect(b, func(n ast.Node) bool {
								if as, ok := n.(*ast.AssignStmt); ok && len(as.Lhs) == 1 && len(as.Rhs) == 1 {
									if l, ok := as.Lhs[0].(*ast.Ident); ok && objOf(info, l) == info.Uses[id] && strings.HasSuffix(types.ExprString(as.Rhs[0]), ".Obj().Pkg()") {
										okPkg = true
									}
								}
								return true
							})
						}
					}
				}
				for _, a := range recursiveArgs(b) {
					if strings.HasSuffix(regexp.MustCompile(`\(\w+\)`).ReplaceAllString(a, "(i)"), ".At(i)") {
						// targs.At(i) where targs := t.TypeArgs()
						okArgs = true
					}
				}
				if strings.Contains(nodeString(b), "TypeArgs()") == false {
					// keep okArgs only if TypeArgs is consulted somewhere
				}
			}
			usesTypeArgs := false
			for _, b := range bodies {
				if strings.Contains(nodeString(b), ".TypeArgs()") {
					usesTypeArgs = true
				}
			}
			c.Check(okPkg, "R01.1", "component|"+ct+"|Obj().Pkg()", r.Pos(cc.Pos()), "adds the import of the type's own package", "case *types."+ct+" does not add t.Obj().Pkg() to the imports")
			c.Check(okArgs && usesTypeArgs, "R01.1", "component|"+ct+"|TypeArgs()", r.Pos(cc.Pos()), "recurses into every type argument", "case *types."+ct+" does not recurse into t.TypeArgs().At(i): packages named only in type arguments are not imported")
		case "Basic":
			ok := false
			for _, a := range addImportArgs(body) {
				if a == "types.Unsafe" {
					ok = true
				}
			}
			guard := strings.Contains(nodeString(body), "types.UnsafePointer")
			c.Check(ok && guard, "R01.1", "component|Basic|unsafe", r.Pos(cc.Pos()), "unsafe.Pointer adds package unsafe", "case *types.Basic does not add package unsafe for types.UnsafePointer")
		default:
			got := map[string]bool{}
			for _, a := range recursiveArgs(body) {
				got[canon(a)] = true
			}
			for _, w := range want[ct] {
				if got[w] {
					c.OK("R01.1", "component|"+ct+"|"+w, r.Pos(cc.Pos()), "fed into the recursion")
				} else {
					var have []string
					for g := range got {
						have = append(have, g)
					}
					sort.Strings(have)
					c.Fail("R01.1", "component|"+ct+"|"+w, r.Pos(cc.Pos()), fmt.Sprintf("case *types.%s does not feed %s into the recursion (recursive calls: %v): a package referenced only there is never imported", ct, w, have))
				}
			}
			// loops must be bounded by the length of what they index
			ast.Inspect(body, func(n ast.Node) bool {
				fs, ok := n.(*ast.ForStmt)
				if !ok {
					return true
				}
				_, bound, ok := countingLoop(info, fs)
				if !ok {
					return true
				}
				b := canon(types.ExprString(bound))
				for _, a := range recursiveArgs(fs.Body) {
					a = canon(a)
					pairs := map[string]string{"t.Params().At(i).Type()": "t.Params().Len()", "t.Results().At(i).Type()": "t.Results().Len()", "t.Field(i).Type()": "t.NumFields()",
						"t.Term(i).Type()": "t.Len()", "t.ExplicitMethod(i).Type()": "t.NumExplicitMethods()", "t.EmbeddedType(i)": "t.NumEmbeddeds()"}
					if wb, ok := pairs[a]; ok {
						c.Check(wb == b, "R01.1", "bound|"+ct+"|"+a, r.Pos(fs.Pos()), "loop bound "+b, fmt.Sprintf("the loop feeding %s runs to %s, want %s", a, b, wb))
					}
				}
				return true
			})
		}
	}
	// populateImports must start the walk on the variable's own type
	if pi := FuncDecl(tp, "MethodScope.populateImports"); pi != nil {
		ok := false
		for _, a := range func() []string {
			var out []string
			ast.Inspect(pi.Body, func(n ast.Node) bool {
				if call, ok := n.(*ast.CallExpr); ok {
					if fn := calleeFunc(info, call); fn != nil && fn == self && len(call.Args) >= 2 {
						out = append(out, types.ExprString(call.Args[1]))
					}
				}
				return true
			})
			return out
		}() {
			if id := pi.Type.Params.List[1].Names[0]; a == id.Name {
				ok = true
			}
		}
		c.Check(ok, "R01.1", "populateImports|root", r.Pos(pi.Pos()), "walk starts at the given type", "populateImports does not start the walk at its type argument")
	}
}

func nodeString(n ast.Node) string {
	var b strings.Builder
	ast.Inspect(n, func(x ast.Node) bool {
		if e, ok := x.(ast.Expr); ok {
			switch e.(type) {
			case *ast.CallExpr, *ast.SelectorExpr:
				b.WriteString(types.ExprString(e))
				b.WriteString(";")
			}
		}
		return true
	})
	return b.String()
}

// ---------------- R01.5: in-package decision ----------------

func goR015(c *Ctx, r *Repo, rule string) {
	goSrcPkgQualifier(c, r, rule)
	ip := r.Pkg("internal")
	info := ip.TypesInfo
	fd := FuncDecl(ip, "NewTemplateGenerator")
	if fd == nil {
		c.Fail(rule, "NewTemplateGenerator|missing", "internal/template_generator.go", "NewTemplateGenerator not found")
		return
	}
	c.Func(funcKey(ip, fd))
	fc := newFuncCanon(info, fd)
	// the in-package flag is what NewRegistry receives as its third argument
	var flag types.Object
	var pkgNameObj types.Object
	ast.Inspect(fd.Body, func(x ast.Node) bool {
		switch y := x.(type) {
		case *ast.CallExpr:
			if strings.HasSuffix(calleeName(info, y), "template.NewRegistry") && len(y.Args) == 3 {
				if id, ok := y.Args[2].(*ast.Ident); ok {
					flag = info.Uses[id]
				}
			}
		case *ast.KeyValueExpr:
			if k, ok := y.Key.(*ast.Ident); ok && k.Name == "pkgName" {
				if id, ok := y.Value.(*ast.Ident); ok {
					pkgNameObj = info.Uses[id]
				}
			}
		case *ast.AssignStmt:
			// the generator may be filled field by field: g.pkgName = pkgName
			if len(y.Lhs) == 1 && len(y.Rhs) == 1 {
				if se, ok := y.Lhs[0].(*ast.SelectorExpr); ok && se.Sel.Name == "pkgName" {
					if id, ok := y.Rhs[0].(*ast.Ident); ok {
						pkgNameObj = info.Uses[id]
					}
				}
			}
		}
		return true
	})
	if flag == nil || pkgNameObj == nil {
		c.Fail(rule, "inPackage|flag", r.Pos(fd.Pos()), "cannot identify the in-package flag handed to template.NewRegistry / the output package name stored in the generator")
		return
	}
	// the single site that sets the flag to true, and its guarding condition
	var cond ast.Expr
	n, total := 0, 0
	ast.Inspect(fd.Body, func(x ast.Node) bool {
		switch y := x.(type) {
		case *ast.IfStmt:
			for _, s := range y.Body.List {
				if as, ok := s.(*ast.AssignStmt); ok && len(as.Lhs) == 1 && len(as.Rhs) == 1 && isObj(info, as.Lhs[0], flag) && types.ExprString(as.Rhs[0]) == "true" {
					cond = y.Cond
					n++
				}
			}
		case *ast.AssignStmt:
			for i, l := range y.Lhs {
				if isObj(info, l, flag) && i < len(y.Rhs) && types.ExprString(y.Rhs[i]) != "false" {
					total++
				}
			}
		case *ast.ValueSpec:
			for i, nm := range y.Names {
				if info.Defs[nm] == flag && i < len(y.Values) && types.ExprString(y.Values[i]) != "false" {
					total++
				}
			}
		}
		return true
	})
	if n != 1 || total != 1 || cond == nil {
		c.Fail(rule, "inPackage|assignment", r.Pos(fd.Pos()), fmt.Sprintf("the in-package flag is set true at %d guarded / %d total sites, want exactly one guarded site", n, total))
		return
	}
	const srcDir = "github.com/chigopher/pathlib.NewPath(ARG1.GoFiles[0]).Parent<(github.com/chigopher/pathlib.Path).Parent>()"
	isOutDir := func(s string) bool { return s == "ARG2" || s == "var<*github.com/chigopher/pathlib.Path>" }
	okName, okDir := false, false
	var extra []string
	for _, a := range conjuncts(cond) {
		switch x := ast.Unparen(a).(type) {
		case *ast.BinaryExpr:
			if x.Op == token.EQL {
				l, rr := fc.E(x.X), fc.E(x.Y)
				if l == "ARG1.Name" {
					l, rr = rr, l
				}
				if rr == "ARG1.Name" && (isObj(info, x.X, pkgNameObj) || isObj(info, x.Y, pkgNameObj)) {
					okName = true
					continue
				}
				_ = l
			}
		case *ast.CallExpr:
			if strings.HasSuffix(calleeName(info, x), "pathlib.Path).Equals") && len(x.Args) == 1 {
				a1, a2 := fc.E(x.Fun.(*ast.SelectorExpr).X), fc.E(x.Args[0])
				if a1 == srcDir && isOutDir(a2) || a2 == srcDir && isOutDir(a1) {
					okDir = true
					continue
				}
			}
		}
		extra = append(extra, types.ExprString(a))
	}
	if okName && okDir && len(extra) == 0 {
		c.OK(rule, "inPackage|condition", r.Pos(cond.Pos()), types.ExprString(cond))
	} else {
		c.Fail(rule, "inPackage|condition", r.Pos(cond.Pos()), fmt.Sprintf("the in-package decision is %q; it must be exactly '<output package name> == <source package>.Name && <directory of the source package's files>.Equals(<output directory>)' on the raw values: a same-directory package with a different name (e.g. foo_test) has to import the source package", types.ExprString(cond)))
	}
	c.Check(okDir, rule, "inPackage|source-dir", r.Pos(fd.Pos()), "source directory = parent of srcPkg.GoFiles[0]", "the directory compared with the output directory is not the directory of the source package's files")
}

func conjuncts(e ast.Expr) []ast.Expr {
	e = ast.Unparen(e)
	if b, ok := e.(*ast.BinaryExpr); ok && b.Op == token.LAND {
		return append(conjuncts(b.X), conjuncts(b.Y)...)
	}
	return []ast.Expr{e}
}

// ---------------- R01.6: formatter dispatch ----------------

func goR016(c *Ctx, r *Repo) {
	ip := r.Pkg("internal")
	info := ip.TypesInfo
	ft, _ := ip.Types.Scope().Lookup("Formatter").(*types.TypeName)
	if ft == nil {
		c.Fail("R01.6", "Formatter|missing", "internal/template_generator.go", "type Formatter not found")
		return
	}
	consts := map[string]string{} // const name -> value
	for _, n := range ip.Types.Scope().Names() {
		if k, ok := ip.Types.Scope().Lookup(n).(*types.Const); ok && types.Identical(k.Type(), ft.Type()) {
			consts[n] = constant.StringVal(k.Val())
		}
	}
	wantVals := map[string]bool{"goimports": true, "gofmt": true, "noop": true}
	for n, v := range consts {
		if !wantVals[v] {
			c.Fail("R01.6", "const|"+n, "internal/template_generator.go", fmt.Sprintf("Formatter constant %s = %q is not a documented formatter name", n, v))
		}
		delete(wantVals, v)
	}
	for v := range wantVals {
		c.Fail("R01.6", "const-missing|"+v, "internal/template_generator.go", "no Formatter constant with the documented value "+v)
	}
	fd := FuncDecl(ip, "TemplateGenerator.format")
	if fd == nil {
		c.Fail("R01.6", "format|missing", "internal/template_generator.go", "TemplateGenerator.format not found")
		return
	}
	c.Func(funcKey(ip, fd))
	srcObj := info.Defs[fd.Type.Params.List[0].Names[0]]
	var sw *ast.SwitchStmt
	ast.Inspect(fd.Body, func(n ast.Node) bool {
		if s, ok := n.(*ast.SwitchStmt); ok && sw == nil {
			sw = s
		}
		return true
	})
	if sw == nil || sw.Tag == nil || !strings.HasSuffix(types.ExprString(sw.Tag), ".formatter") {
		c.Fail("R01.6", "format|switch", r.Pos(fd.Pos()), "format does not switch on the generator's formatter")
		return
	}
	seen := map[string]bool{}
	for _, s := range sw.Body.List {
		cc := s.(*ast.CaseClause)
		if cc.List == nil {
			continue
		}
		for _, e := range cc.List {
			id, ok := e.(*ast.Ident)
			if !ok {
				continue
			}
			k, ok := info.Uses[id].(*types.Const)
			if !ok {
				continue
			}
			val := constant.StringVal(k.Val())
			seen[val] = true
			// the arm: return <val>(src) / return src, nil
			good := false
			if len(cc.Body) == 1 {
				if rs, ok := cc.Body[0].(*ast.ReturnStmt); ok {
					switch {
					case val == "noop" && len(rs.Results) == 2:
						rid, ok := rs.Results[0].(*ast.Ident)
						good = ok && info.Uses[rid] == srcObj && isNilIdent(info, rs.Results[1])
					case len(rs.Results) == 1:
						if call, ok := rs.Results[0].(*ast.CallExpr); ok && len(call.Args) == 1 {
							fn := calleeFunc(info, call)
							aid, aok := call.Args[0].(*ast.Ident)
							good = fn != nil && fn.Name() == val && aok && info.Uses[aid] == srcObj
						}
					}
				}
			}
			c.Check(good, "R01.6", "format|arm|"+val, r.Pos(cc.Pos()), "case "+id.Name+" formats with "+val, fmt.Sprintf("the %s arm of format does not return %s applied to the rendered bytes", id.Name, val))
		}
	}
	for _, v := range consts {
		if !seen[v] {
			c.Fail("R01.6", "format|arm-missing|"+v, r.Pos(sw.Pos()), "format has no case for the formatter "+v)
		}
	}
	// fall-through returns an error
	okErr := false
	if l := len(fd.Body.List); l > 0 {
		if rs, ok := fd.Body.List[l-1].(*ast.ReturnStmt); ok && len(rs.Results) == 2 && isNilIdent(info, rs.Results[0]) && !isNilIdent(info, rs.Results[1]) {
			okErr = true
		}
	}
	c.Check(okErr, "R01.6", "format|unknown-error", r.Pos(fd.Pos()), "unknown formatter returns an error", "format does not end in an error return for an unknown formatter")
	// the helpers call the library of their name on their argument
	for name, want := range map[string]string{"goimports": "golang.org/x/tools/imports.Process", "gofmt": "go/format.Source"} {
		h := FuncDecl(ip, name)
		if h == nil {
			c.Fail("R01.6", "helper|"+name+"|missing", "internal/template_generator.go", name+" not found")
			continue
		}
		arg := info.Defs[h.Type.Params.List[0].Names[0]]
		good := false
		ast.Inspect(h.Body, func(n ast.Node) bool {
			if call, ok := n.(*ast.CallExpr); ok && calleeName(info, call) == want {
				for _, a := range call.Args {
					if id, ok := a.(*ast.Ident); ok && info.Uses[id] == arg {
						good = true
					}
				}
			}
			return true
		})
		c.Check(good, "R01.6", "helper|"+name, r.Pos(h.Pos()), name+" -> "+want, name+" does not pass its argument to "+want)
	}
}

// ---------------- R01.7: module path ----------------

func goR017(c *Ctx, r *Repo) {
	ip := r.Pkg("internal")
	info := ip.TypesInfo
	fd := FuncDecl(ip, "findPkgPath")
	if fd == nil {
		c.Fail("R01.7", "findPkgPath|missing", "internal/template_generator.go", "findPkgPath not found")
		return
	}
	c.Func(funcKey(ip, fd))
	var modObj types.Object
	var bytesArg ast.Expr
	ast.Inspect(fd.Body, func(n ast.Node) bool {
		if as, ok := n.(*ast.AssignStmt); ok && len(as.Rhs) == 1 && len(as.Lhs) == 1 {
			if call, ok := as.Rhs[0].(*ast.CallExpr); ok && calleeName(info, call) == "golang.org/x/mod/modfile.ModulePath" && len(call.Args) == 1 {
				modObj = objOf(info, as.Lhs[0].(*ast.Ident))
				bytesArg = call.Args[0]
			}
		}
		return true
	})
	if modObj == nil {
		c.Fail("R01.7", "findPkgPath|module-path", r.Pos(fd.Pos()), "the module path is not obtained with modfile.ModulePath (a parser that is total on valid go.mod spellings)")
		return
	}
	// the bytes come from ReadFile of the go.mod found
	okBytes := false
	if id, ok := bytesArg.(*ast.Ident); ok {
		ast.Inspect(fd.Body, func(n ast.Node) bool {
			if as, ok := n.(*ast.AssignStmt); ok && len(as.Rhs) == 1 && len(as.Lhs) == 2 {
				if l, ok := as.Lhs[0].(*ast.Ident); ok && objOf(info, l) == info.Uses[id] && strings.HasSuffix(calleeNameOfExpr(info, as.Rhs[0]), "pathlib.Path).ReadFile") {
					// the receiver is (a variable only ever assigned) <dir>.Join("go.mod")
					call := ast.Unparen(as.Rhs[0]).(*ast.CallExpr)
					fcm := newFuncCanon(info, fd)
					if strings.Contains(fcm.E(call.Fun.(*ast.SelectorExpr).X), `.Join<(github.com/chigopher/pathlib.Path).Join>("go.mod")`) {
						okBytes = true
					} else if root, _ := selChain(call.Fun.(*ast.SelectorExpr).X); root != nil {
						nAs, nGood := 0, 0
						ast.Inspect(fd.Body, func(m ast.Node) bool {
							if a2, ok := m.(*ast.AssignStmt); ok && len(a2.Lhs) == 1 && len(a2.Rhs) == 1 && isObj(info, a2.Lhs[0], info.Uses[root]) {
								nAs++
								if strings.Contains(fcm.E(a2.Rhs[0]), `.Join<(github.com/chigopher/pathlib.Path).Join>("go.mod")`) {
									nGood++
								}
							}
							return true
						})
						okBytes = nAs > 0 && nAs == nGood
					}
				}
			}
			return true
		})
	}
	c.Check(okBytes, "R01.7", "findPkgPath|gomod-bytes", r.Pos(fd.Pos()), "ModulePath is applied to the bytes of the go.mod found", "modfile.ModulePath is not applied to the content of the go.mod that was found")
	// empty result => error
	okEmpty := false
	ast.Inspect(fd.Body, func(n ast.Node) bool {
		if ifs, ok := n.(*ast.IfStmt); ok {
			if be, ok := ifs.Cond.(*ast.BinaryExpr); ok && be.Op == token.EQL {
				if id, ok := be.X.(*ast.Ident); ok && info.Uses[id] == modObj {
					if lit, ok := be.Y.(*ast.BasicLit); ok && lit.Value == `""` && returnsError(info, ifs.Body) {
						okEmpty = true
					}
				}
			}
		}
		return true
	})
	c.Check(okEmpty, "R01.7", "findPkgPath|no-module-line", r.Pos(fd.Pos()), "empty module path is an error", "a go.mod without module directive is not reported as an error")
}

func calleeNameOfExpr(info *types.Info, e ast.Expr) string {
	if call, ok := ast.Unparen(e).(*ast.CallExpr); ok {
		return calleeName(info, call)
	}
	return ""
}

// returnsError: the block ends in a return whose last result is not the nil identifier.
func returnsError(info *types.Info, b *ast.BlockStmt) bool {
	if len(b.List) == 0 {
		return false
	}
	rs, ok := b.List[len(b.List)-1].(*ast.ReturnStmt)
	if !ok || len(rs.Results) == 0 {
		return false
	}
	return !isNilIdent(info, rs.Results[len(rs.Results)-1])
}

func init() {
	// debugging aid: MVCHECK_DBG="<pkg rel>:<Recv.Func>" mvcheck DBGPATHS prints the decision table of a function
	register("DBGPATHS", func(c *Ctx) {
		spec := strings.SplitN(os.Getenv("MVCHECK_DBG"), ":", 2)
		if len(spec) != 2 {
			return
		}
		var r *Repo
		var p *packages.Package
		if strings.HasPrefix(spec[0], "tools/") {
			r = loadRepo(c, packages.LoadSyntax, "tools", "./"+strings.TrimPrefix(spec[0], "tools/"))
			for path, pk := range r.Pkgs {
				if strings.HasSuffix(path, "/"+spec[0]) && len(pk.Syntax) > 0 {
					p = pk
				}
			}
		} else {
			r = loadRepo(c, packages.LoadSyntax, "", "./"+spec[0])
			p = r.Pkg(spec[0])
		}
		fd := FuncDecl(p, spec[1])
		if fd == nil {
			fmt.Println("not found")
			return
		}
		paths, _ := enumerateFunc(p.TypesInfo, fd)
		if names := os.Getenv("MVCHECK_DBG_FOLLOW"); names != "" {
			// follow the named unexported functions (comma separated; "*" = all)
			d := newDT(p.TypesInfo)
			d.callInline = map[*types.Func]*ast.FuncDecl{}
			for fn, g := range pkgUnexported(p) {
				if names == "*" || strings.Contains(","+names+",", ","+fn.Name()+",") {
					d.callInline[fn] = g
				}
			}
			d.paths = nil
			d.stmts(seedEnv(d, fd), fd.Body.List, func(p *dtPath) { d.finish(p, "end") })
			paths = d.paths
		}
		for _, q := range paths {
			fmt.Println("PATH", q.String())
			for _, st := range q.Steps {
				fmt.Println("     ", st)
			}
		}
	})
}

// ruleFormattersKeepComments: whatever the formatter, the header (generated-code marker, boilerplate,
// build constraint) survives formatting: gofmt is go/format.Source (which keeps comments) applied to
// the rendered bytes, and goimports is imports.Process with no options or with Comments: true;
// format's noop arm returns the bytes unchanged (R01.6).
func ruleFormattersKeepComments(c *Ctx, r *Repo, rule string) {
	ip := r.Pkg("internal")
	info := ip.TypesInfo
	// (a) every imports.Options value written in the package keeps comments, wherever it is written (a call
	// argument, a table of options per formatter, a variable): go/format.Source and a nil *Options always do
	nOpt := 0
	for _, f := range ip.Syntax {
		for _, d := range f.Decls {
			owner := "package"
			switch x := d.(type) {
			case *ast.FuncDecl:
				owner = x.Name.Name
			case *ast.GenDecl:
				for _, sp := range x.Specs {
					if vs, ok := sp.(*ast.ValueSpec); ok && len(vs.Names) > 0 {
						owner = vs.Names[0].Name
					}
				}
			}
			idx := 0
			ast.Inspect(d, func(n ast.Node) bool {
				switch x := n.(type) {
				case *ast.CompositeLit:
					t := info.TypeOf(x)
					if t == nil {
						return true
					}
					if pt, ok := t.(*types.Pointer); ok {
						t = pt.Elem() // elided &T{..} inside a map or slice literal
					}
					if !typeIs(t, "golang.org/x/tools/imports.Options") {
						return true
					}
					nOpt++
					idx++
					keeps := false
					for _, el := range x.Elts {
						if kv, ok := el.(*ast.KeyValueExpr); ok {
							if k, ok := kv.Key.(*ast.Ident); ok && k.Name == "Comments" {
								if tv := info.Types[kv.Value]; tv.Value != nil && tv.Value.String() == "true" {
									keeps = true
								}
							}
						}
					}
					c.Check(keeps, rule, fmt.Sprintf("formatter|options|%s#%d", owner, idx), r.Pos(x.Pos()), "imports.Options with Comments: true", "imports.Options written in "+owner+" do not set Comments: true, so a formatter using them drops every comment from the output: the generated-code marker, the boilerplate and the //go:build line disappear")
				case *ast.AssignStmt:
					for i, l := range x.Lhs {
						if se, ok := ast.Unparen(l).(*ast.SelectorExpr); ok && se.Sel.Name == "Comments" && i < len(x.Rhs) {
							if bt := info.TypeOf(se.X); bt != nil && (typeIs(bt, "golang.org/x/tools/imports.Options") || typeIs(bt, "*golang.org/x/tools/imports.Options")) {
								tv := info.Types[x.Rhs[i]]
								c.Check(tv.Value != nil && tv.Value.String() == "true", rule, "formatter|options-store|"+owner, r.Pos(x.Pos()), "Comments set to true", "the Comments option of an imports.Options value is assigned something other than the constant true in "+owner)
							}
						}
					}
				}
				return true
			})
		}
	}
	// (b) the library formatters reachable from TemplateGenerator.format are handed the rendered bytes
	fm := FuncDecl(ip, "TemplateGenerator.format")
	if fm == nil {
		c.Fail(rule, "formatter|format|missing", "internal/template_generator.go", "TemplateGenerator.format not found")
		return
	}
	nCalls, nSource := 0, 0
	inspectWithHelpers(ip, fm, newFuncCanon(info, fm), 3, func(fc *fcanon, g *ast.FuncDecl, n ast.Node) bool {
		call, ok := n.(*ast.CallExpr)
		if !ok {
			return true
		}
		var src ast.Expr
		switch calleeName(info, call) {
		case "go/parser.ParseFile", "go/parser.ParseDir", "go/parser.ParseExprFrom":
			// a formatter that parses the rendered file itself keeps the comments (marker, boilerplate, build
			// constraint) only if the parser is told to: the mode is a constant with parser.ParseComments set
			if len(call.Args) >= 4 {
				mode := call.Args[len(call.Args)-1]
				tv := info.Types[mode]
				keeps := false
				if tv.Value != nil {
					if v, ok := constant.Uint64Val(constant.ToInt(tv.Value)); ok && v&uint64(parser.ParseComments) != 0 {
						keeps = true
					}
				}
				c.Check(keeps, rule, "formatter|parse-mode|"+g.Name.Name, r.Pos(call.Pos()), g.Name.Name+" parses the rendered file with comments", g.Name.Name+" parses the rendered file with mode "+types.ExprString(mode)+", which does not (provably) include parser.ParseComments: printing that tree drops every comment - the generated-code marker, the boilerplate and the //go:build line")
			}
			return true
		case "go/format.Source":
			nSource++
			if len(call.Args) == 1 {
				src = call.Args[0]
			}
		case "golang.org/x/tools/imports.Process":
			if len(call.Args) == 3 {
				src = call.Args[1]
			}
		default:
			return true
		}
		nCalls++
		c.Check(src != nil && fc.E(src) == "ARG0", rule, "formatter|input|"+g.Name.Name, r.Pos(call.Pos()), g.Name.Name+" formats the rendered bytes", g.Name.Name+" does not hand the rendered bytes to its library formatter")
		return true
	})
	c.Check(nCalls >= 1 && (nOpt >= 1 || nSource == nCalls), rule, "formatter|reached", r.Pos(fm.Pos()), fmt.Sprintf("%d library formatter calls reachable from format, %d imports.Options values examined", nCalls, nOpt), "no library formatter call (go/format.Source, imports.Process) is reachable from TemplateGenerator.format, or imports.Process is used without any imports.Options value being found: comment preservation is not decided")
}

// goR017Search (R01.7, added after the mechanical-mutation sweep): the upward search for go.mod. Every round
// tests <cursor>/go.mod for existence; the loop is left with a go.mod only on a path where that test said
// "exists"; a round that found none moves the cursor to its parent and continues, except at the root, where
// the search fails with an error; the test's own error is returned.
func goR017Search(c *Ctx, r *Repo) {
	ip := r.Pkg("internal")
	info := ip.TypesInfo
	root := FuncDecl(ip, "findPkgPath")
	if root == nil {
		return
	}
	var host *ast.FuncDecl
	var loop *ast.ForStmt
	for _, g := range withCallees(ip, root) {
		ast.Inspect(g.Body, func(n ast.Node) bool {
			fs, ok := n.(*ast.ForStmt)
			if !ok || loop != nil {
				return true
			}
			has := false
			ast.Inspect(fs.Body, func(m ast.Node) bool {
				if call, ok := m.(*ast.CallExpr); ok && strings.HasSuffix(calleeName(info, call), "pathlib.Path).Exists") {
					has = true
				}
				return true
			})
			if has {
				host, loop = g, fs
			}
			return true
		})
	}
	if loop == nil {
		c.Fail("R01.7", "findPkgPath|search-loop", r.Pos(root.Pos()), "no loop that tests candidate go.mod paths for existence was found (shape not recognised)")
		return
	}
	d := newDTP(ip, host)
	start := d.envBefore(seedEnv(d, host), host.Body.List, loop)
	// loop-carried variables (assigned in the body, declared outside it) are unknown at the head of a round
	lv := 0
	carried := map[types.Object]string{}
	ast.Inspect(loop.Body, func(n ast.Node) bool {
		if as, ok := n.(*ast.AssignStmt); ok && as.Tok == token.ASSIGN {
			for _, l := range as.Lhs {
				if id, ok := ast.Unparen(l).(*ast.Ident); ok {
					if o := info.Uses[id]; o != nil && (o.Pos() < loop.Body.Pos() || o.Pos() > loop.Body.End()) {
						if _, seen := start.env[o]; !seen || !strings.HasPrefix(start.env[o], "CARRIED") {
							start.env[o] = fmt.Sprintf("CARRIED%d", lv)
							carried[o] = start.env[o]
							lv++
						}
					}
				}
			}
		}
		return true
	})
	d.paths = nil
	d.stmts(start, loop.Body.List, func(p *dtPath) { d.finish(p, "end") })
	nFound, nUp, nRoot := 0, 0, 0
	for _, p := range d.paths {
		if os.Getenv("MVCHECK_DEBUG") != "" {
			fmt.Fprintf(os.Stderr, "gomod path %s steps=%v\n", p.String(), p.Steps)
		}
		exErrNil, hasErr, exists, hasEx, atRoot, hasRoot := true, false, false, false, false, false
		for _, a := range p.Atoms {
			switch {
			case strings.Contains(a.Expr, ".Exists>()#1 == nil"):
				exErrNil, hasErr = a.Val, true
			case strings.HasSuffix(a.Expr, ".Exists>()#0"):
				exists, hasEx = a.Val, true
			case strings.Contains(a.Expr, ".Parent>()") && strings.Contains(a.Expr, " == "):
				atRoot, hasRoot = a.Val, true
			}
		}
		_ = hasErr
		fails := p.Exit == "return" && len(p.Ret) > 0 && p.Ret[len(p.Ret)-1] != "nil"
		switch {
		case !exErrNil:
			c.Check(fails, "R01.7", "findPkgPath|search|exists-error", r.Pos(loop.Pos()), "the existence test's error is returned", "an error of the existence test does not end the search with an error: "+p.String())
		case hasEx && exists:
			nFound++
			// leaves the loop (break, or return of a non-error) and the go.mod used afterwards is the one tested
			c.Check(p.Exit == "break" || p.Exit == "return" && !fails, "R01.7", "findPkgPath|search|found-leaves", r.Pos(loop.Pos()), "an existing go.mod ends the search", "the search does not stop at a directory whose go.mod exists: "+p.String())
		case hasEx && !exists && hasRoot && atRoot:
			nRoot++
			c.Check(fails, "R01.7", "findPkgPath|search|root", r.Pos(loop.Pos()), "reaching the root without a go.mod is an error", "reaching the file-system root without finding a go.mod is not reported as an error: "+p.String())
		case hasEx && !exists && hasRoot && !atRoot:
			nUp++
			moved := false
			for o, nm := range carried {
				if v := p.env[o]; strings.HasPrefix(v, nm+".Parent<") && strings.HasSuffix(v, ".Parent>()") {
					moved = true
				}
			}
			c.Check(moved && (p.Exit == "continue" || p.Exit == "end"), "R01.7", "findPkgPath|search|ascend", r.Pos(loop.Pos()), "a directory without go.mod hands over to its parent", "a directory without a go.mod neither moves the search to its parent nor continues it: "+p.String())
		case hasEx && !exists:
			c.Fail("R01.7", "findPkgPath|search|no-root-test", r.Pos(loop.Pos()), "a round that found no go.mod does not compare the directory with its parent (the search would never end at the root): "+p.String())
		default:
			if p.Exit == "return" && fails {
				continue // iteration cap and similar bail-outs
			}
			c.Fail("R01.7", "findPkgPath|search|untested-round", r.Pos(loop.Pos()), "a round of the go.mod search ends without an existence test: "+p.String())
		}
	}
	c.Check(nFound > 0 && nUp > 0 && nRoot > 0, "R01.7", "findPkgPath|search|cases", r.Pos(loop.Pos()), "found / ascend / root cases all present", fmt.Sprintf("the go.mod search lacks one of its cases (found %d, ascend %d, root %d)", nFound, nUp, nRoot))
}

// goSrcPkgQualifier (added after the mechanical-mutation sweep): the data handed to the template carries
// SrcPkgQualifier = "<source package name>." exactly when the mock is not generated into the source package
// (engine T's accessor table assumes it: the matryer ensure line and custom templates qualify the source
// interface with it). Every store to the field in Generate's family sits under the single test "not in
// package" and stores the registry's source package name followed by a dot.
func goSrcPkgQualifier(c *Ctx, r *Repo, rule string) {
	ip := r.Pkg("internal")
	gen := FuncDecl(ip, "TemplateGenerator.Generate")
	if gen == nil {
		return // reported by the rules anchored in Generate
	}
	n := 0
	for _, g := range familyOf(ip, gen) {
		fc := newFuncCanonG(ip, g)
		var stack []ast.Node
		ast.Inspect(g.Body, func(x ast.Node) bool {
			if x == nil {
				stack = stack[:len(stack)-1]
				return true
			}
			stack = append(stack, x)
			as, ok := x.(*ast.AssignStmt)
			if !ok || len(as.Lhs) != 1 || len(as.Rhs) != 1 {
				return true
			}
			se, ok := ast.Unparen(as.Lhs[0]).(*ast.SelectorExpr)
			if !ok || se.Sel.Name != "SrcPkgQualifier" {
				return true
			}
			n++
			val := fc.E(as.Rhs[0])
			okVal := strings.HasSuffix(val, `.SrcPkgName<(template.Registry).SrcPkgName>() + "."`) || strings.HasSuffix(val, `.srcPkgName + "."`)
			c.Check(okVal, rule, "Generate|src-pkg-qualifier|value", r.Pos(as.Pos()), "the qualifier is the source package's name and a dot", "SrcPkgQualifier is set to "+val+`, documented: the source package's name followed by "."`)
			var conds []string
			for i := len(stack) - 2; i >= 0; i-- {
				is, ok := stack[i].(*ast.IfStmt)
				if !ok {
					continue
				}
				child := stack[i+1]
				if child == ast.Node(is.Body) {
					conds = append(conds, fc.E(is.Cond))
				} else if child == is.Else {
					conds = append(conds, "!("+fc.E(is.Cond)+")")
				}
			}
			okCond := len(conds) == 1 && (conds[0] == "!RECV.inPackage" || conds[0] == "!(RECV.inPackage)" || conds[0] == "RECV.inPackage == false")
			c.Check(okCond, rule, "Generate|src-pkg-qualifier|condition", r.Pos(as.Pos()), "set exactly when the mock is outside the source package", fmt.Sprintf("SrcPkgQualifier is set under %v; documented: exactly when the mock is not generated into the source package (!inPackage)", conds))
			return true
		})
	}
	c.Check(n == 1, rule, "Generate|src-pkg-qualifier|sites", r.Pos(gen.Pos()), "one store", fmt.Sprintf("%d stores to SrcPkgQualifier in Generate's family, expected exactly one", n))
}

// goR011Total (round 6: an "already recorded for this variable" early return in the named-type helper skipped
// the walk of the type arguments): the walk is total. In populateImportsHelper and the functions of the package
// that recurse into it, nothing leaves early (no return, break, continue or goto outside function literals),
// and a recursive call is conditional only on the nil-ness of the container it is about to index.
func goR011Total(c *Ctx, r *Repo, tp *packages.Package, fd *ast.FuncDecl) {
	info := tp.TypesInfo
	self := info.Defs[fd.Name]
	var fam []*ast.FuncDecl
	for _, g := range withCallees(tp, fd) {
		rec := g == fd
		ast.Inspect(g.Body, func(n ast.Node) bool {
			if call, ok := n.(*ast.CallExpr); ok && calleeFunc(info, call) == self {
				rec = true
			}
			return true
		})
		if rec {
			fam = append(fam, g)
		}
	}
	for _, g := range fam {
		fc := newFuncCanonG(tp, g)
		var stack []ast.Node
		ast.Inspect(g.Body, func(n ast.Node) bool {
			if n == nil {
				stack = stack[:len(stack)-1]
				return true
			}
			stack = append(stack, n)
			inLit := false
			for _, a := range stack {
				if _, ok := a.(*ast.FuncLit); ok {
					inLit = true
				}
			}
			switch x := n.(type) {
			case *ast.ForStmt:
				// component loops visit every index: i := 0; i < <count>; i++ (mechanical-mutation finding: a loop
				// starting at 1 skips the first component, one running to <= count indexes past the end)
				if _, _, ok := countingLoop(info, x); !ok && !inLit {
					c.Fail("R01.1", "walk-total|"+g.Name.Name+"|loop-form", r.Pos(x.Pos()), g.Name.Name+" walks components with a loop that is not 'for i := 0; i < <count>; i++': a component is skipped or an index past the end is read")
				} else if !inLit {
					c.OK("R01.1", "walk-total|"+g.Name.Name+"|loop-form", r.Pos(x.Pos()), "counting loop over all components")
				}
			case *ast.ReturnStmt:
				if !inLit && !(len(stack) == 2 && g.Body.List[len(g.Body.List)-1] == ast.Stmt(x)) {
					c.Fail("R01.1", "walk-total|"+g.Name.Name+"|early-exit", r.Pos(x.Pos()), g.Name.Name+" returns before the walk of the type's components is complete: the packages of the components that follow are never registered")
				}
			case *ast.BranchStmt:
				if !inLit && (x.Tok == token.CONTINUE || x.Tok == token.GOTO || x.Tok == token.BREAK) {
					// a break that only leaves a switch clause is harmless
					leavesLoop := x.Tok != token.BREAK
					if x.Tok == token.BREAK {
						for i := len(stack) - 2; i >= 0; i-- {
							switch stack[i].(type) {
							case *ast.SwitchStmt, *ast.TypeSwitchStmt, *ast.SelectStmt:
								i = -1
							case *ast.ForStmt, *ast.RangeStmt:
								leavesLoop = true
								i = -1
							}
						}
					}
					if leavesLoop {
						c.Fail("R01.1", "walk-total|"+g.Name.Name+"|early-exit", r.Pos(x.Pos()), g.Name.Name+" skips or leaves a loop over a type's components ("+x.Tok.String()+"): the packages of the skipped components are never registered")
					}
				}
			case *ast.CallExpr:
				if calleeFunc(info, x) != self {
					// a named type's own package is registered whenever it has one: the guard, if any, is "!= nil"
					if fn := calleeFunc(info, x); fn != nil && fn.Name() == "addImport" && len(x.Args) >= 2 && fc.E(x.Args[1]) != "go/types.Unsafe" && strings.Contains(fc.E(x.Args[1]), ".Pkg<") {
						for i := len(stack) - 2; i >= 0; i-- {
							is, ok := stack[i].(*ast.IfStmt)
							if !ok || stack[i+1] == is.Init || stack[i+1] == ast.Node(is.Cond) {
								continue
							}
							nilTest, nonNil := nilTestOf(info, is.Cond)
							if !nilTest {
								continue // another kind of guard (e.g. "already recorded"): not this rule's business
							}
							c.Check(nonNil == (stack[i+1] == ast.Node(is.Body)), "R01.1", "walk-total|"+g.Name.Name+"|package-guard", r.Pos(is.Pos()), "a type's package is registered when it has one", g.Name.Name+" registers a named type's package only when the type has none (the nil test is turned round): no package is ever imported")
						}
					}
					// the unsafe package is registered exactly for unsafe.Pointer
					if fn := calleeFunc(info, x); fn != nil && fn.Name() == "addImport" && len(x.Args) >= 2 && fc.E(x.Args[1]) == "go/types.Unsafe" {
						conds := []string{}
						for i := len(stack) - 2; i >= 0; i-- {
							if is, ok := stack[i].(*ast.IfStmt); ok && stack[i+1] == ast.Node(is.Body) {
								if be, isBin := ast.Unparen(is.Cond).(*ast.BinaryExpr); !isBin || be.Op != token.EQL {
									conds = append(conds, "not an equality test: ")
								}
								conds = append(conds, fc.E(is.Cond))
							} else if ok && stack[i+1] == is.Else {
								conds = append(conds, "!("+fc.E(is.Cond)+")")
							}
						}
						okU := len(conds) == 1 && strings.HasSuffix(conds[0], ".Kind<(go/types.Basic).Kind>() == go/types.UnsafePointer")
						c.Check(okU, "R01.1", "walk-total|"+g.Name.Name+"|unsafe-condition", r.Pos(x.Pos()), "unsafe is imported exactly for unsafe.Pointer", fmt.Sprintf("the unsafe package is registered under %v; documented: exactly when the basic type is unsafe.Pointer", conds))
					}
					return true
				}
				for i := len(stack) - 2; i >= 0; i-- {
					is, ok := stack[i].(*ast.IfStmt)
					if !ok || stack[i+1] == is.Init || stack[i+1] == ast.Node(is.Cond) {
						continue
					}
					cond := fc.E(is.Cond)
					if os.Getenv("MVCHECK_DEBUG") != "" {
						fmt.Fprintln(os.Stderr, "walk cond:", g.Name.Name, cond)
					}
					be, isBin := ast.Unparen(is.Cond).(*ast.BinaryExpr)
					okCond := stack[i+1] == ast.Node(is.Body) && isBin && be.Op == token.NEQ && (isNilIdent(info, be.Y) || isNilIdent(info, be.X))
					c.Check(okCond, "R01.1", "walk-total|"+g.Name.Name+"|conditional-recursion", r.Pos(is.Pos()), "recursion guarded only by the nil-ness of a container", fmt.Sprintf("%s recurses into a component only under the condition %q: for the other types the component's packages are never registered", g.Name.Name, cond))
				}
			}
			return true
		})
	}
	c.Check(len(fam) >= 1, "R01.1", "walk-total|family", r.Pos(fd.Pos()), "import walk functions examined", "no import walk function found")
}

// nilTestOf: is e a comparison of something with nil (possibly under negations), and does it hold when
// that something is non-nil?
func nilTestOf(info *types.Info, e ast.Expr) (isTest, holdsForNonNil bool) {
	e = ast.Unparen(e)
	if u, ok := e.(*ast.UnaryExpr); ok && u.Op == token.NOT {
		t, h := nilTestOf(info, u.X)
		return t, !h
	}
	be, ok := e.(*ast.BinaryExpr)
	if !ok || !(isNilIdent(info, be.X) || isNilIdent(info, be.Y)) {
		return false, false
	}
	switch be.Op {
	case token.NEQ:
		return true, true
	case token.EQL:
		return true, false
	}
	return false, false
}

// ruleAbsolutiseWhenRelative (third mutation sample): the output directory is joined onto the working directory
// exactly when it is relative. `if p.IsAbsolute() { p = cwd.JoinPath(p) }` prefixes absolute dirs with the
// working directory and leaves relative ones relative, so findPkgPath walks the wrong tree and the in-package
// decision (R01.5) compares a relative with an absolute path. Every if-statement of the generator package whose
// condition is an IsAbsolute test of a path and whose body joins that path onto something must be the negated form.
func ruleAbsolutiseWhenRelative(c *Ctx, r *Repo, rule string) {
	ip := r.Pkg("internal")
	info := ip.TypesInfo
	n := 0
	for _, fd := range pkgFuncDecls(ip) {
		ast.Inspect(fd.Body, func(x ast.Node) bool {
			is, ok := x.(*ast.IfStmt)
			if !ok {
				return true
			}
			cond := ast.Unparen(is.Cond)
			neg := false
			if u, ok := cond.(*ast.UnaryExpr); ok && u.Op == token.NOT {
				neg = true
				cond = ast.Unparen(u.X)
			}
			call, ok := cond.(*ast.CallExpr)
			if !ok || !strings.HasSuffix(calleeName(info, call), "pathlib.Path).IsAbsolute") {
				return true
			}
			se, ok := call.Fun.(*ast.SelectorExpr)
			if !ok {
				return true
			}
			subj, ok := ast.Unparen(se.X).(*ast.Ident)
			if !ok {
				return true
			}
			joins := false
			ast.Inspect(is.Body, func(m ast.Node) bool {
				if jc, ok := m.(*ast.CallExpr); ok && strings.HasSuffix(calleeName(info, jc), "pathlib.Path).JoinPath") {
					for _, a := range jc.Args {
						if id, ok := ast.Unparen(a).(*ast.Ident); ok && info.Uses[id] == info.Uses[subj] {
							joins = true
						}
					}
				}
				return true
			})
			if !joins {
				return true
			}
			n++
			c.Check(neg, rule, "absolutise-when-relative|"+fd.Name.Name+"|"+subj.Name, r.Pos(is.Pos()), subj.Name+" is joined onto the working directory exactly when it is relative", fd.Name.Name+" joins "+subj.Name+" onto another directory on the branch where it IS absolute and leaves a relative path relative: the destination package path and the in-package decision are computed from the wrong directory")
			return true
		})
	}
	c.Check(n >= 1, rule, "absolutise-when-relative|sites", "internal/template_generator.go", "the relative-to-absolute step of the output directory found", "no 'if !dir.IsAbsolute() { dir = cwd.JoinPath(dir) }' step found in the generator package (anchor: NewTemplateGenerator)")
}

// rulePkgPathCleaned (round 7): the destination import path findPkgPath returns is a cleaned path. For an output
// directory that is the module root the relative part is ".", and "<module>/." is not the path the in-package
// decision and the import registry know the package under: in-package mocks of a root package import their own
// package. Every successful return passes through pathlib's Clean, path.Clean or filepath.Clean (or returns a
// local that was assigned such a value).
func rulePkgPathCleaned(c *Ctx, r *Repo, rule string) {
	ip := r.Pkg("internal")
	info := ip.TypesInfo
	fd := FuncDecl(ip, "findPkgPath")
	if fd == nil {
		c.Fail(rule, "findPkgPath|cleaned|missing", "internal/template_generator.go", "findPkgPath not found")
		return
	}
	hasClean := func(e ast.Expr) bool {
		found := false
		ast.Inspect(e, func(m ast.Node) bool {
			if call, ok := m.(*ast.CallExpr); ok {
				switch n := calleeName(info, call); {
				case strings.HasSuffix(n, "pathlib.Path).Clean"), n == "path.Clean", n == "path/filepath.Clean":
					found = true
				}
			}
			return true
		})
		return found
	}
	n := 0
	for _, g := range familyOf(ip, fd) {
		if g != fd {
			continue
		}
		cleanedLocal := map[types.Object]bool{}
		ast.Inspect(g.Body, func(x ast.Node) bool {
			if as, ok := x.(*ast.AssignStmt); ok && len(as.Lhs) == len(as.Rhs) {
				for i, l := range as.Lhs {
					if id, ok := l.(*ast.Ident); ok && hasClean(as.Rhs[i]) {
						if o := info.Defs[id]; o != nil {
							cleanedLocal[o] = true
						} else if o := info.Uses[id]; o != nil {
							cleanedLocal[o] = true
						}
					}
				}
			}
			return true
		})
		ast.Inspect(g.Body, func(x ast.Node) bool {
			if _, ok := x.(*ast.FuncLit); ok {
				return false
			}
			rs, ok := x.(*ast.ReturnStmt)
			if !ok || len(rs.Results) != 2 || !isNilIdent(info, rs.Results[1]) {
				return true
			}
			n++
			ok2 := hasClean(rs.Results[0])
			ast.Inspect(rs.Results[0], func(m ast.Node) bool {
				if id, ok := m.(*ast.Ident); ok && cleanedLocal[info.Uses[id]] {
					ok2 = true
				}
				return true
			})
			c.Check(ok2, rule, "findPkgPath|cleaned", r.Pos(rs.Pos()), "the package path returned is cleaned", "findPkgPath returns "+types.ExprString(rs.Results[0])+" without cleaning it: for an output directory at the module root the result ends in \"/.\", the in-package decision no longer recognises the package and an in-package mock imports its own package (import cycle)")
			return true
		})
	}
	c.Check(n > 0, rule, "findPkgPath|cleaned|returns", r.Pos(fd.Pos()), "successful returns of findPkgPath found", "no successful return found in findPkgPath")
}
