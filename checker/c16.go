package main

import (
	"fmt"
	"go/ast"
	"go/token"
	"go/types"
	"sort"
	"strings"

	"golang.org/x/tools/go/packages"
)

func init() { register("C16", checkC16) }

// direct references: FuncMap key -> resolved callee (documented table, frozen from the function map after review)
var funcMapDirect = map[string]string{
	"trimSpace": "strings.TrimSpace", "lower": "strings.ToLower", "upper": "strings.ToUpper",
	"camelcase": "github.com/huandu/xstrings.ToCamelCase", "snakecase": "github.com/huandu/xstrings.ToSnakeCase", "kebabcase": "github.com/huandu/xstrings.ToKebabCase",
	"firstIsLower": "template_funcs.FirstIsLower", "firstLower": "github.com/huandu/xstrings.FirstRuneToLower", "firstUpper": "github.com/huandu/xstrings.FirstRuneToUpper",
	"exported": "template_funcs.Exported", "matchString": "regexp.MatchString", "quoteMeta": "regexp.QuoteMeta",
	"base": "path/filepath.Base", "clean": "path/filepath.Clean", "dir": "path/filepath.Dir", "readFile": "template_funcs.ReadFile",
	"expandEnv": "os.ExpandEnv", "getenv": "os.Getenv",
	"add": "template_funcs.Add", "decr": "template_funcs.Decr", "div": "template_funcs.Div", "incr": "template_funcs.Incr", "min": "template_funcs.Min", "mod": "template_funcs.Mod", "mul": "template_funcs.Mul", "sub": "template_funcs.Sub",
	"ceil": "math.Ceil", "floor": "math.Floor", "round": "math.Round", "randInt": "math/rand/v2.Int",
}

// wrappers: FuncMap key -> strings function whose subject becomes the LAST parameter
var funcMapWrappers = []string{"contains", "hasPrefix", "hasSuffix", "join", "replace", "replaceAll", "split", "splitAfter", "splitAfterN", "trim", "trimLeft", "trimPrefix", "trimRight", "trimSuffix"}

func checkC16(c *Ctx) {
	c.Explanation = `R16.1 table agreement of template_funcs.FuncMap: every function-literal entry is a single 'return strings.<Key with upper-case initial>(...)' whose first argument is the literal's LAST parameter (the piped subject) and whose remaining arguments are the other parameters in order; every direct entry refers to the documented callee (lower -> strings.ToLower, dir -> filepath.Dir, firstUpper -> xstrings.FirstRuneToUpper, add -> Add[int], ...); no documented key is missing and no undocumented key exists;
R16.2 arithmetic helpers: Add/Sub/Mul/Div/Mod start from their first argument and fold every further argument into the accumulator with + - * / % respectively (the accumulator, not the first argument, is the left operand) and return it; Incr/Decr add/subtract the constant 1; Min/Max delegate to slices.Min/Max on all arguments;
R16.3 characters, not bytes: in package template_funcs a string is indexed or sliced only as s[n:] with n the size returned by utf8.DecodeRuneInString of that same string; FirstIsLower returns false for the empty string and otherwise unicode.IsLower of the first decoded rune; every path of Exported returns "" for "", the matching initialism, the input itself for invalid UTF-8, or string(unicode.ToUpper(first rune)) + rest;
R16.4 totality: no explicit panic and no unreviewed partial operation in template_funcs; ReadFile returns its error.`
	c.NotDecided = "results of strings/xstrings/regexp/filepath/math themselves; numeric overflow; division by zero (excluded by the property)."
	c.Assumptions = []string{"the documented key -> callee table in checker/c16.go", "standard library semantics"}
	c.Rule("R16.1", 40, "")
	c.Rule("R16.2", 9, "")
	c.Rule("R16.3", 3, "")
	c.Rule("R16.4", 1, "")
	r := loadRepo(c, packages.LoadSyntax, "", "./template_funcs")
	ruleFuncMap(c, r, "R16.1")
	ruleArithmetic(c, r)
	ruleRunes(c, r)
}

// ruleFuncMap is shared with C11 (documented function library).
func ruleFuncMap(c *Ctx, r *Repo, rule string) {
	p := r.Pkg("template_funcs")
	info := p.TypesInfo
	fm := funcMapEntries(p)
	if len(fm) == 0 {
		c.Fail(rule, "FuncMap|missing", "template_funcs/funcmap.go", "FuncMap composite literal not found")
		return
	}
	wrappers := map[string]bool{}
	for _, k := range funcMapWrappers {
		wrappers[k] = true
	}
	var keys []string
	for k := range fm {
		keys = append(keys, k)
	}
	sort.Strings(keys)
	funcs := pkgFuncs(p)
	for _, k := range keys {
		e := fm[k]
		pos := r.Pos(e.Pos())
		// a function of this package named as the entry is read like the equivalent literal
		if id, ok := ast.Unparen(e).(*ast.Ident); ok && wrappers[k] {
			if fn, ok := info.Uses[id].(*types.Func); ok && funcs[fn] != nil && funcs[fn].Recv == nil {
				e = &ast.FuncLit{Type: funcs[fn].Type, Body: funcs[fn].Body}
			}
		}
		switch x := e.(type) {
		case *ast.FuncLit:
			if !wrappers[k] {
				c.Fail(rule, "FuncMap|undocumented-wrapper|"+k, pos, "FuncMap["+k+"] is a function literal that is not in the documented table")
				continue
			}
			want := "strings." + strings.ToUpper(k[:1]) + k[1:]
			var params []types.Object
			for _, f := range x.Type.Params.List {
				for _, n := range f.Names {
					params = append(params, info.Defs[n])
				}
			}
			good := false
			detail := ""
			if len(x.Body.List) == 1 {
				if rs, ok := x.Body.List[0].(*ast.ReturnStmt); ok && len(rs.Results) == 1 {
					if call, ok := rs.Results[0].(*ast.CallExpr); ok {
						name := calleeName(info, call)
						detail = name
						if name == want && len(call.Args) == len(params) && len(params) >= 1 {
							good = true
							// first argument = last parameter; the rest in order
							for i, a := range call.Args {
								id, ok := a.(*ast.Ident)
								wantObj := params[len(params)-1]
								if i > 0 {
									wantObj = params[i-1]
								}
								if !ok || info.Uses[id] != wantObj {
									good = false
									detail = name + " with arguments " + types.ExprString(call)
								}
							}
						}
					}
				}
			}
			c.Check(good, rule, "FuncMap|wrapper|"+k, pos, k+" = "+want+" with the subject string as last argument", fmt.Sprintf("template function %q must be exactly %s with the subject as its last argument and the other arguments in order; found %s", k, want, detail))
		default:
			if call, isCall := e.(*ast.CallExpr); isCall && wrappers[k] && len(call.Args) == 1 {
				// <swap>(strings.X) where swap turns f(subject, arg) into g(arg, subject)
				want := "strings." + strings.ToUpper(k[:1]) + k[1:]
				got := ""
				switch y := ast.Unparen(call.Args[0]).(type) {
				case *ast.SelectorExpr:
					if f, ok := info.Uses[y.Sel].(*types.Func); ok {
						got = f.FullName()
					}
				}
				fn := calleeFunc(info, call)
				good := fn != nil && isArgSwapper(p, pkgFuncs(p)[fn]) && got == want
				if sig, ok := info.TypeOf(call.Args[0]).(*types.Signature); !ok || sig.Params().Len() != 2 {
					good = false
				}
				c.Check(good, rule, "FuncMap|wrapper|"+k, pos, k+" = "+want+" with the subject string as last argument", fmt.Sprintf("template function %q must be exactly %s with the subject as its last argument and the other arguments in order; found %s", k, want, types.ExprString(e)))
				continue
			}
			want, ok := funcMapDirect[k]
			if !ok {
				c.Fail(rule, "FuncMap|undocumented-key|"+k, pos, "FuncMap["+k+"] is not in the documented table")
				continue
			}
			var fn types.Object
			switch y := e.(type) {
			case *ast.Ident:
				fn = info.Uses[y]
			case *ast.SelectorExpr:
				fn = info.Uses[y.Sel]
			case *ast.IndexExpr: // Add[int]
				switch z := y.X.(type) {
				case *ast.Ident:
					fn = info.Uses[z]
				case *ast.SelectorExpr:
					fn = info.Uses[z.Sel]
				}
				if types.ExprString(y.Index) != "int" {
					fn = nil
				}
			}
			got := ""
			if f, ok := fn.(*types.Func); ok {
				got = strings.ReplaceAll(f.FullName(), modPath+"/", "")
			}
			c.Check(got == want, rule, "FuncMap|direct|"+k, pos, k+" = "+want, fmt.Sprintf("template function %q refers to %s, the documented function is %s", k, got, want))
		}
	}
	for k := range funcMapDirect {
		if fm[k] == nil {
			c.Fail(rule, "FuncMap|missing-key|"+k, "template_funcs/funcmap.go", "the documented template function "+k+" is missing from FuncMap")
		}
	}
	for _, k := range funcMapWrappers {
		if fm[k] == nil {
			c.Fail(rule, "FuncMap|missing-key|"+k, "template_funcs/funcmap.go", "the documented template function "+k+" is missing from FuncMap")
		}
	}
}

func ruleArithmetic(c *Ctx, r *Repo) {
	p := r.Pkg("template_funcs")
	info := p.TypesInfo
	ops := map[string]token.Token{"Add": token.ADD, "Sub": token.SUB, "Mul": token.MUL, "Div": token.QUO, "Mod": token.REM}
	assignOps := map[token.Token]token.Token{token.ADD_ASSIGN: token.ADD, token.SUB_ASSIGN: token.SUB, token.MUL_ASSIGN: token.MUL, token.QUO_ASSIGN: token.QUO, token.REM_ASSIGN: token.REM}
	var names []string
	for n := range ops {
		names = append(names, n)
	}
	sort.Strings(names)
	for _, name := range names {
		fd := FuncDecl(p, name)
		if fd == nil {
			c.Fail("R16.2", name+"|missing", "template_funcs/functions.go", name+" not found")
			continue
		}
		c.Func(funcKey(p, fd))
		var first, rest types.Object
		i := 0
		for _, f := range fd.Type.Params.List {
			for _, n := range f.Names {
				if i == 0 {
					first = info.Defs[n]
				} else {
					rest = info.Defs[n]
				}
				i++
			}
		}
		good := false
		detail := "unrecognised shape"
		var acc types.Object
		var loop *ast.RangeStmt
		for _, s := range fd.Body.List {
			switch x := s.(type) {
			case *ast.DeclStmt:
				gd := x.Decl.(*ast.GenDecl)
				for _, sp := range gd.Specs {
					vs := sp.(*ast.ValueSpec)
					if len(vs.Names) == 1 && len(vs.Values) == 1 {
						if id, ok := vs.Values[0].(*ast.Ident); ok && info.Uses[id] == first {
							acc = info.Defs[vs.Names[0]]
						}
					}
				}
			case *ast.AssignStmt:
				if x.Tok == token.DEFINE && len(x.Lhs) == 1 && len(x.Rhs) == 1 {
					if id, ok := x.Rhs[0].(*ast.Ident); ok && info.Uses[id] == first {
						acc = info.Defs[x.Lhs[0].(*ast.Ident)]
					}
				}
			case *ast.RangeStmt:
				loop = x
			}
		}
		if acc != nil && loop != nil && len(loop.Body.List) == 1 {
			if id, ok := loop.X.(*ast.Ident); ok && info.Uses[id] == rest {
				var elem types.Object
				if v, ok := loop.Value.(*ast.Ident); ok {
					elem = info.Defs[v]
				}
				if as, ok := loop.Body.List[0].(*ast.AssignStmt); ok && len(as.Lhs) == 1 && len(as.Rhs) == 1 {
					l, _ := as.Lhs[0].(*ast.Ident)
					isAcc := func(e ast.Expr) bool { id, ok := e.(*ast.Ident); return ok && info.Uses[id] == acc }
					isElem := func(e ast.Expr) bool { id, ok := e.(*ast.Ident); return ok && info.Uses[id] == elem }
					switch {
					case l == nil || info.Uses[l] != acc:
						detail = "the loop does not update the accumulator"
					case assignOps[as.Tok] == ops[name] && isElem(as.Rhs[0]):
						good = true
					case as.Tok == token.ASSIGN:
						if be, ok := as.Rhs[0].(*ast.BinaryExpr); ok && be.Op == ops[name] && isAcc(be.X) && isElem(be.Y) {
							good = true
						} else {
							detail = "the loop computes " + types.ExprString(as.Rhs[0]) + ", want <accumulator> " + ops[name].String() + " <next argument>"
						}
					default:
						detail = "the loop uses " + as.Tok.String()
					}
				}
			}
		}
		// the same fold through a shared helper: return H(first, rest, func(a, b T) T { return a OP b })
		// where H starts from its first argument and feeds the accumulator and each further element to
		// the function, in order
		if !good && len(fd.Body.List) == 1 {
			if rs, ok := fd.Body.List[0].(*ast.ReturnStmt); ok && len(rs.Results) == 1 {
				if call, ok := ast.Unparen(rs.Results[0]).(*ast.CallExpr); ok && len(call.Args) == 3 && isObj(info, call.Args[0], first) && isObj(info, call.Args[1], rest) {
					h := pkgFuncs(p)[calleeFunc(info, call)]
					fl, isLit := ast.Unparen(call.Args[2]).(*ast.FuncLit)
					switch {
					case h == nil || !isLeftFold(info, h):
						detail = "the helper it delegates to is not a left fold over all arguments starting from the first"
					case !isLit || len(fl.Body.List) != 1:
						detail = "the operator function is not a single expression"
					default:
						var ps []types.Object
						for _, f := range fl.Type.Params.List {
							for _, n := range f.Names {
								ps = append(ps, info.Defs[n])
							}
						}
						if r2, ok := fl.Body.List[0].(*ast.ReturnStmt); ok && len(r2.Results) == 1 && len(ps) == 2 {
							if be, ok := ast.Unparen(r2.Results[0]).(*ast.BinaryExpr); ok && be.Op == ops[name] && isObj(info, be.X, ps[0]) && isObj(info, be.Y, ps[1]) {
								good = true
							} else {
								detail = "the operator function computes " + types.ExprString(r2.Results[0]) + ", want <accumulator> " + ops[name].String() + " <next argument>"
							}
						}
					}
					if good {
						c.Check(true, "R16.2", name+"|fold", r.Pos(fd.Pos()), name+" folds all arguments with "+ops[name].String()+" (shared left fold)", "")
						continue
					}
				}
			}
		}
		// returns the accumulator
		if good {
			rs, ok := fd.Body.List[len(fd.Body.List)-1].(*ast.ReturnStmt)
			if !ok || len(rs.Results) != 1 {
				good = false
			} else if id, ok := rs.Results[0].(*ast.Ident); !ok || info.Uses[id] != acc {
				good, detail = false, "does not return the accumulator"
			}
		}
		c.Check(good, "R16.2", name+"|fold", r.Pos(fd.Pos()), name+" folds all arguments with "+ops[name].String(), fmt.Sprintf("%s must start from its first argument and fold every further argument with %s into the accumulator: %s", name, ops[name], detail))
	}
	for name, op := range map[string]token.Token{"Incr": token.ADD, "Decr": token.SUB} {
		fd := FuncDecl(p, name)
		good := false
		if fd != nil && len(fd.Body.List) == 1 {
			if rs, ok := fd.Body.List[0].(*ast.ReturnStmt); ok && len(rs.Results) == 1 {
				if be, ok := rs.Results[0].(*ast.BinaryExpr); ok && be.Op == op {
					if id, ok := be.X.(*ast.Ident); ok && info.Uses[id] == info.Defs[fd.Type.Params.List[0].Names[0]] {
						if v, ok := constInt(info, be.Y); ok && v == 1 {
							good = true
						}
					}
				}
			}
		}
		c.Check(good, "R16.2", name+"|step", "template_funcs/functions.go", name+" = argument "+op.String()+" 1", name+" is not 'return i "+op.String()+" 1'")
	}
	for _, name := range []string{"Min", "Max"} {
		fd := FuncDecl(p, name)
		good := false
		if fd != nil && len(fd.Body.List) == 1 {
			if rs, ok := fd.Body.List[0].(*ast.ReturnStmt); ok && len(rs.Results) == 1 {
				if call, ok := rs.Results[0].(*ast.CallExpr); ok && calleeName(info, call) == "slices."+name && len(call.Args) == 1 {
					if id, ok := call.Args[0].(*ast.Ident); ok && info.Uses[id] == info.Defs[fd.Type.Params.List[0].Names[0]] {
						good = true
					}
				}
			}
		}
		c.Check(good, "R16.2", name+"|delegate", "template_funcs/functions.go", name+" = slices."+name+" of all arguments", name+" does not delegate to slices."+name+" on all its arguments")
	}
}

func ruleRunes(c *Ctx, r *Repo) {
	p := r.Pkg("template_funcs")
	info := p.TypesInfo
	isString := func(e ast.Expr) bool {
		t := info.TypeOf(e)
		if t == nil {
			return false
		}
		b, ok := t.Underlying().(*types.Basic)
		return ok && b.Info()&types.IsString != 0
	}
	nSites := 0
	for _, f := range p.Syntax {
		for _, d := range f.Decls {
			fd, ok := d.(*ast.FuncDecl)
			if !ok || fd.Body == nil {
				continue
			}
			fk := funcKey(p, fd)
			// sizes: size object -> the string it was decoded from
			sizeOf := map[types.Object]string{}
			ast.Inspect(fd.Body, func(n ast.Node) bool {
				if as, ok := n.(*ast.AssignStmt); ok && len(as.Lhs) == 2 && len(as.Rhs) == 1 {
					if call, ok := as.Rhs[0].(*ast.CallExpr); ok && calleeName(info, call) == "unicode/utf8.DecodeRuneInString" && len(call.Args) == 1 {
						if id, ok := as.Lhs[1].(*ast.Ident); ok && id.Name != "_" {
							sizeOf[objOf(info, id)] = types.ExprString(call.Args[0])
						}
					}
				}
				// or through a helper of the package that hands back, as its i-th result on every path, the
				// size decoded from its (only) string parameter
				if as, ok := n.(*ast.AssignStmt); ok && len(as.Lhs) >= 2 && len(as.Rhs) == 1 {
					if call, ok := as.Rhs[0].(*ast.CallExpr); ok && len(call.Args) == 1 {
						if h := pkgFuncs(p)[calleeFunc(info, call)]; h != nil && h != fd && h.Recv == nil && h.Type.Params.NumFields() == 1 {
							hp, hd := enumerateFunc(info, h)
							for i, l := range as.Lhs {
								id, isID := l.(*ast.Ident)
								if !isID || id.Name == "_" {
									continue
								}
								all := len(hp) > 0 && !hd.overflow
								for _, q := range hp {
									if q.Exit != "return" || i >= len(q.Ret) || q.Ret[i] != "unicode/utf8.DecodeRuneInString(ARG0)#1" {
										all = false
									}
								}
								if all {
									sizeOf[objOf(info, id)] = types.ExprString(call.Args[0])
								}
							}
						}
					}
				}
				return true
			})
			ast.Inspect(fd.Body, func(n ast.Node) bool {
				switch x := n.(type) {
				case *ast.IndexExpr:
					if isString(x.X) {
						nSites++
						c.Fail("R16.3", fk+"|string-index", r.Pos(x.Pos()), fmt.Sprintf("%s indexes the string %s by byte (%s): the first character of a string is a rune, and an empty string panics", fk, types.ExprString(x.X), types.ExprString(x)))
					}
				case *ast.SliceExpr:
					if !isString(x.X) {
						return true
					}
					nSites++
					ok := false
					if x.High == nil && x.Low != nil {
						if id, isId := x.Low.(*ast.Ident); isId {
							if src, known := sizeOf[info.Uses[id]]; known && src == types.ExprString(x.X) {
								ok = true
							}
						}
					}
					c.Check(ok, "R16.3", fk+"|string-slice|"+types.ExprString(x), r.Pos(x.Pos()), "sliced at the size of its own first rune", fmt.Sprintf("%s slices the string as %s; only s[size:] with size from utf8.DecodeRuneInString(s) of the same string respects character boundaries", fk, types.ExprString(x)))
				case *ast.CallExpr:
					if isPanicCall(x) {
						c.Fail("R16.4", fk+"|panic", r.Pos(x.Pos()), fk+" panics: template functions must return a value or an error")
					}
				}
				return true
			})
		}
	}
	c.OK("R16.4", "template_funcs|no-panic-scan", "template_funcs", fmt.Sprintf("%d string index/slice sites scanned", nSites))
	// FirstIsLower
	if fd := FuncDecl(p, "FirstIsLower"); fd == nil {
		c.Fail("R16.3", "FirstIsLower|missing", "template_funcs/functions.go", "FirstIsLower not found")
	} else {
		// every path answers true or false (a boolean result is a decision; private helpers are followed):
		// true only where unicode.IsLower of the first decoded rune of the argument held, false only where it
		// did not hold or the string was found empty / not to start with a valid rune (IsLower is false there too)
		fdt := newDT(info)
		fdt.callInline = map[*types.Func]*ast.FuncDecl{}
		for fn, g := range pkgUnexported(p) {
			if g != fd {
				fdt.callInline[fn] = g
			}
		}
		fdt.hoistCalls = true
		fdt.boolReturns = true
		fdt.paths = nil
		fdt.stmts(seedEnv(fdt, fd), fd.Body.List, func(q *dtPath) { fdt.finish(q, "end") })
		paths := fdt.paths
		ok := len(paths) > 0 && !fdt.overflow
		const isLower = "unicode.IsLower(unicode/utf8.DecodeRuneInString(ARG0)#0)"
		for _, q := range paths {
			if q.Exit != "return" || len(q.Ret) != 1 || (q.Ret[0] != "true" && q.Ret[0] != "false") {
				ok = false
				continue
			}
			lower, tested := q.atom(isLower)
			degenerate := false
			for _, a := range q.Atoms {
				switch {
				case (a.Expr == "builtin.len(ARG0) == 0" || a.Expr == `ARG0 == ""`) && a.Val:
					degenerate = true
				case strings.Contains(a.Expr, "unicode/utf8.RuneError") && strings.Contains(a.Expr, "DecodeRuneInString(ARG0)"):
					degenerate = true
				case a.Expr == "unicode.IsLetter(unicode/utf8.DecodeRuneInString(ARG0)#0)" && !a.Val:
					degenerate = true // not a letter, hence not a lower-case letter
				}
			}
			if q.Ret[0] == "true" {
				ok = ok && tested && lower
			} else {
				ok = ok && (tested && !lower || degenerate)
			}
		}
		c.Check(ok, "R16.3", "FirstIsLower|semantics", r.Pos(fd.Pos()), "false for \"\", else unicode.IsLower(first rune)", "FirstIsLower is not 'false for the empty string, otherwise unicode.IsLower of the first decoded rune' on every path")
	}
	// Exported
	if fd := FuncDecl(p, "Exported"); fd == nil {
		c.Fail("R16.3", "Exported|missing", "template_funcs/functions.go", "Exported not found")
	} else {
		ok := true
		for _, rg := range regionsOf(fd) {
			d := newDT(info)
			// the initialism lookup may sit in a private helper: followed
			d.callInline = map[*types.Func]*ast.FuncDecl{}
			for fn, g := range pkgUnexported(p) {
				if g != fd {
					d.callInline[fn] = g
				}
			}
			d.hoistCalls = true
			d.paths = nil
			start := seedEnv(d, fd)
			if rs, isRange := rg.pos.(*ast.RangeStmt); isRange {
				if v, isId := rs.Value.(*ast.Ident); isId {
					start.env[info.Defs[v]] = "INIT"
				}
				if types.ExprString(rs.X) != "golintInitialisms" {
					ok = false
				}
			}
			d.stmts(start, rg.list, func(q *dtPath) { d.finish(q, "end") })
			for _, q := range d.paths {
				if q.Exit != "return" {
					continue
				}
				allowed := map[string]bool{`""`: true, "INIT": true, "ARG0": true,
					"string(unicode.ToUpper(unicode/utf8.DecodeRuneInString(ARG0)#0)) + ARG0[unicode/utf8.DecodeRuneInString(ARG0)#1:]": true}
				if q.Ret[0] == "strings.ToUpper(ARG0)" {
					// the upper-cased input itself, when it was found in the initialism list
					if v, has := q.atom("slices.Contains(golintInitialisms, strings.ToUpper(ARG0))"); has && v {
						continue
					}
				}
				if q.Ret[0] == "strings.ToUpper(ARG0)" {
					// looked up in a set built from the initialism list
					okSet := false
					for _, a := range q.Atoms {
						if a.Val && strings.HasSuffix(a.Expr, "[strings.ToUpper(ARG0)]#ok") {
							if isSetOfInitialisms(p, strings.TrimSuffix(a.Expr, "[strings.ToUpper(ARG0)]#ok")) {
								okSet = true
							}
						}
					}
					if okSet {
						continue
					}
				}
				const idx = "slices.Index(golintInitialisms, strings.ToUpper(ARG0))"
				if q.Ret[0] == "golintInitialisms["+idx+"]" {
					// the list element found equal to the upper-cased input
					found := false
					for _, a := range q.Atoms {
						switch {
						case a.Expr == idx+" >= 0" && a.Val, a.Expr == idx+" < 0" && !a.Val, a.Expr == idx+" == -1" && !a.Val:
							found = true
						}
					}
					if found {
						continue
					}
				}
				if !allowed[q.Ret[0]] {
					ok = false
					c.Fail("R16.3", "Exported|return|"+q.Ret[0], r.Pos(q.RetPos), "Exported returns "+q.Ret[0]+" on path "+q.String()+"; allowed results: \"\", the matching initialism, the input (invalid UTF-8), upper-cased first rune + rest")
				}
				if q.Ret[0] == "INIT" {
					if v, has := q.atom("strings.ToUpper(ARG0) == INIT"); !has || !v {
						ok = false
						c.Fail("R16.3", "Exported|initialism-test", r.Pos(q.RetPos), "an initialism is returned without the input (upper-cased) being equal to it")
					}
				}
				if q.Ret[0] == `""` {
					if v, has := q.atom(`ARG0 == ""`); !has || !v {
						ok = false
					}
				}
			}
		}
		c.Check(ok, "R16.3", "Exported|semantics", r.Pos(fd.Pos()), "every path returns one of the documented results", "Exported has a path outside the documented results")
	}
}

// isLeftFold: func(first T, rest []T, op func(T, T) T) T { acc := first; for _, x := range rest { acc = op(acc, x) }; return acc }
func isLeftFold(info *types.Info, fd *ast.FuncDecl) bool {
	var ps []types.Object
	for _, f := range fd.Type.Params.List {
		for _, n := range f.Names {
			ps = append(ps, info.Defs[n])
		}
	}
	if fd.Recv != nil || len(ps) != 3 || len(fd.Body.List) != 3 {
		return false
	}
	var acc types.Object
	switch x := fd.Body.List[0].(type) {
	case *ast.AssignStmt:
		if x.Tok == token.DEFINE && len(x.Lhs) == 1 && len(x.Rhs) == 1 && isObj(info, x.Rhs[0], ps[0]) {
			acc = info.Defs[x.Lhs[0].(*ast.Ident)]
		}
	case *ast.DeclStmt:
		if gd, ok := x.Decl.(*ast.GenDecl); ok && len(gd.Specs) == 1 {
			vs := gd.Specs[0].(*ast.ValueSpec)
			if len(vs.Names) == 1 && len(vs.Values) == 1 && isObj(info, vs.Values[0], ps[0]) {
				acc = info.Defs[vs.Names[0]]
			}
		}
	}
	rs, ok := fd.Body.List[1].(*ast.RangeStmt)
	if acc == nil || !ok || !isObj(info, rs.X, ps[1]) || len(rs.Body.List) != 1 || rs.Value == nil {
		return false
	}
	elem := info.Defs[rs.Value.(*ast.Ident)]
	as, ok := rs.Body.List[0].(*ast.AssignStmt)
	if !ok || as.Tok != token.ASSIGN || len(as.Lhs) != 1 || len(as.Rhs) != 1 || !isObj(info, as.Lhs[0], acc) {
		return false
	}
	call, ok := ast.Unparen(as.Rhs[0]).(*ast.CallExpr)
	if !ok || len(call.Args) != 2 || !isObj(info, call.Fun, ps[2]) || !isObj(info, call.Args[0], acc) || !isObj(info, call.Args[1], elem) {
		return false
	}
	ret, ok := fd.Body.List[2].(*ast.ReturnStmt)
	return ok && len(ret.Results) == 1 && isObj(info, ret.Results[0], acc)
}

// isSetOfInitialisms: the package-level variable name is initialised by a function of the package
// applied to golintInitialisms that returns a map holding every element of its argument as a key.
func isSetOfInitialisms(p *packages.Package, name string) bool {
	info := p.TypesInfo
	for _, f := range p.Syntax {
		for _, d := range f.Decls {
			gd, ok := d.(*ast.GenDecl)
			if !ok || gd.Tok != token.VAR {
				continue
			}
			for _, sp := range gd.Specs {
				vs := sp.(*ast.ValueSpec)
				for i, n := range vs.Names {
					if n.Name != name || i >= len(vs.Values) {
						continue
					}
					call, ok := ast.Unparen(vs.Values[i]).(*ast.CallExpr)
					if !ok || len(call.Args) != 1 {
						return false
					}
					if id, ok := ast.Unparen(call.Args[0]).(*ast.Ident); !ok || id.Name != "golintInitialisms" {
						return false
					}
					h := pkgFuncs(p)[calleeFunc(info, call)]
					if h == nil || h.Recv != nil || h.Type.Params.NumFields() != 1 || len(h.Type.Params.List[0].Names) != 1 || len(h.Body.List) != 3 {
						return false
					}
					param := info.Defs[h.Type.Params.List[0].Names[0]]
					as, ok := h.Body.List[0].(*ast.AssignStmt)
					if !ok || as.Tok != token.DEFINE || len(as.Lhs) != 1 {
						return false
					}
					set := info.Defs[as.Lhs[0].(*ast.Ident)]
					rs, ok := h.Body.List[1].(*ast.RangeStmt)
					if !ok || !isObj(info, rs.X, param) || rs.Value == nil || len(rs.Body.List) != 1 {
						return false
					}
					st, ok := rs.Body.List[0].(*ast.AssignStmt)
					if !ok || len(st.Lhs) != 1 {
						return false
					}
					ie, ok := ast.Unparen(st.Lhs[0]).(*ast.IndexExpr)
					if !ok || !isObj(info, ie.X, set) || !isObj(info, ie.Index, info.Defs[rs.Value.(*ast.Ident)]) {
						return false
					}
					ret, ok := h.Body.List[2].(*ast.ReturnStmt)
					return ok && len(ret.Results) == 1 && isObj(info, ret.Results[0], set)
				}
			}
		}
	}
	return false
}
