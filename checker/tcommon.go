package main

import (
	"fmt"
	"os"
	"sort"
	"strings"
)

// walkTemplate enumerates all paths of a built-in template for the tier's
// shapes, parses and type-checks each skeleton and hands it to visit.
// It returns the number of paths.
// mode "body": all shapes, header flags pinned off. mode "header": a few
// shapes, every combination of the header flags.
func walkTemplate(c *Ctx, name, mode string, visit func(p *TPath)) int {
	t := loadTemplate(c, name)
	shapes := shapesFor(c.Tier)
	fixed := map[string]bool{}
	if mode == "body" {
		fixed["flag:file:boilerplate-file"] = false
		fixed["flag:file:mock-build-tags"] = false
	} else {
		shapes = headerShapes()
	}
	flags := map[string]bool{}
	funcs := map[string]bool{}
	n := enumerate(t, shapes, fixed, func(p *TPath) {
		if p.Err == nil {
			p.Parse()
			if p.ParseEr == nil {
				p.TypeCheck()
			}
		}
	}, func(p *TPath) {
		for k := range p.E.flagsSeen {
			flags[k] = true
		}
		for k := range p.E.funcsUsed {
			funcs[k] = true
		}
		visit(p)
	})
	var fl, fn []string
	for k := range flags {
		fl = append(fl, k)
	}
	for k := range funcs {
		fn = append(fn, k)
	}
	sort.Strings(fl)
	sort.Strings(fn)
	tp, _ := c.Extra["template_paths"].(map[string]any)
	if tp == nil {
		tp = map[string]any{}
		c.Extra["template_paths"] = tp
	}
	tp[name+"/"+mode] = map[string]any{"shapes": len(shapes), "paths": n, "flags_forked": fl, "functions_used": fn}
	c.Func("internal/mock_" + name + ".templ")
	return n
}

func dumpPath(p *TPath, file string) {
	os.WriteFile(file, []byte("// "+p.Env()+"\n"+p.Src), 0o644)
}

func firstLines(s string, n int) string {
	l := strings.Split(s, "\n")
	if len(l) > n {
		l = l[:n]
	}
	return strings.Join(l, "\n")
}

var _ = fmt.Sprint
