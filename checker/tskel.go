package main

// Engine T, part 3: path enumeration, skeletons (the Go text a path emits),
// and their static checking with go/parser and go/types against a synthetic
// environment derived from the shape (source interface, placeholder types,
// stub testify/mock and sync packages).

import (
	"fmt"
	"go/ast"
	"go/importer"
	"go/parser"
	"go/token"
	"go/types"
	"os"
	"path/filepath"
	"regexp"
	"runtime"
	"runtime/debug"
	"sort"
	"strings"
	"sync"
	"text/template/parse"
)

type TPath struct {
	Tmpl    string
	Shape   Shape
	E       *Eval
	Src     string
	Err     *evalErr
	Fset    *token.FileSet
	File    *ast.File
	ParseEr error
	Pkg     *types.Package
	Info    *types.Info
	TypeErr []string // normalised messages with position text
	rawErrs []types.Error
}

func (p *TPath) Env() string {
	var fl []string
	for k, v := range p.E.Flags() {
		if v {
			fl = append(fl, k)
		}
	}
	sort.Strings(fl)
	var other []string
	for k, v := range p.E.keyed {
		if !strings.HasPrefix(k, "flag:") && v {
			other = append(other, k)
		}
	}
	sort.Strings(other)
	return fmt.Sprintf("template=%s shape=[%s] flags=%v decisions=%v", p.Tmpl, p.Shape, fl, other)
}

// HoleAt returns the hole that produced the byte at a skeleton position, if any.
func (p *TPath) EmitAt(pos token.Pos) *Emit {
	off := p.Fset.Position(pos).Offset
	i := sort.Search(len(p.E.emits), func(i int) bool { return p.E.emits[i].End > off })
	if i < len(p.E.emits) && p.E.emits[i].Start <= off {
		return &p.E.emits[i]
	}
	return nil
}

func (p *TPath) HoleAt(pos token.Pos) *Hole {
	if em := p.EmitAt(pos); em != nil {
		return em.H
	}
	return nil
}

// TmplPos maps a skeleton position back to template file:line.
func (p *TPath) TmplPos(pos token.Pos) string {
	if em := p.EmitAt(pos); em != nil && em.Node != nil {
		off := int(em.Node.Position())
		if em.H == nil {
			// text node: offset within the node is meaningful
			off += p.Fset.Position(pos).Offset - em.Start
		}
		if off > len(p.E.src) {
			off = len(p.E.src)
		}
		return fmt.Sprintf("internal/mock_%s.templ:%d", p.Tmpl, 1+strings.Count(p.E.src[:off], "\n"))
	}
	return fmt.Sprintf("internal/mock_%s.templ", p.Tmpl)
}

type TemplateSrc struct {
	Name string // testify | matryer
	File string
	Src  string
	Tree *parse.Tree
}

var treesMu sync.Mutex

func loadTemplate(c *Ctx, name string) *TemplateSrc {
	file := filepath.Join(c.Repo, "internal", "mock_"+name+".templ")
	b, err := os.ReadFile(file)
	if err != nil {
		fatalf("reading built-in template: %v", err)
	}
	tr := parse.New(name)
	tr.Mode = parse.SkipFuncCheck | parse.ParseComments
	trees := map[string]*parse.Tree{}
	if _, err := tr.Parse(string(b), "{{", "}}", trees); err != nil {
		fatalf("parsing %s: %v", file, err)
	}
	treesMu.Lock()
	templateTrees[name] = trees
	treesMu.Unlock()
	t := trees[name]
	if t == nil || t.Root == nil {
		fatalf("template %s has no root", file)
	}
	return &TemplateSrc{Name: name, File: file, Src: string(b), Tree: t}
}

// enumerate runs every consistent path of the template for every shape.
// Each shape is explored by its own goroutine; prep runs there (parse,
// type-check), cb is serialised.
func enumerate(t *TemplateSrc, shapes []Shape, fixed map[string]bool, prep func(*TPath), cb func(*TPath)) int {
	var mu sync.Mutex
	var wg sync.WaitGroup
	n := 0
	sem := make(chan struct{}, runtime.NumCPU())
	var panicked any
	for _, sh := range shapes {
		wg.Add(1)
		sem <- struct{}{}
		go func(sh Shape) {
			defer wg.Done()
			defer func() { <-sem }()
			defer func() {
				if r := recover(); r != nil {
					mu.Lock()
					if panicked == nil {
						panicked = fmt.Sprintf("%v\n%s", r, debug.Stack())
					}
					mu.Unlock()
				}
			}()
			stack := [][]bool{{}}
			for len(stack) > 0 {
				d := stack[len(stack)-1]
				stack = stack[:len(stack)-1]
				e := newEval(t.Tree, t.Name, sh, d)
				e.src = t.Src
				e.fixed = fixed
				err := e.Run()
				for i := len(d); i < len(e.decis); i++ {
					alt := append(append([]bool{}, e.decis[:i]...), true)
					stack = append(stack, alt)
				}
				p := &TPath{Tmpl: t.Name, Shape: sh, E: e, Src: e.out.String(), Err: err}
				prep(p)
				mu.Lock()
				n++
				cb(p)
				mu.Unlock()
			}
		}(sh)
	}
	wg.Wait()
	if panicked != nil {
		panic(panicked)
	}
	return n
}

func (p *TPath) Parse() {
	p.Fset = token.NewFileSet()
	p.File, p.ParseEr = parser.ParseFile(p.Fset, "skeleton.go", p.Src, parser.ParseComments|parser.SkipObjectResolution)
}

// ---------- synthetic environment ----------

const mockStub = `package mock
type TestingT interface {
	Logf(format string, args ...interface{})
	Errorf(format string, args ...interface{})
	FailNow()
}
type Arguments []interface{}
func (a Arguments) Get(index int) interface{} { return a[index] }
func (a Arguments) Error(index int) error { return nil }
func (a Arguments) String(indexOrNil ...int) string { return "" }
func (a Arguments) Int(index int) int { return 0 }
func (a Arguments) Bool(index int) bool { return false }
type Call struct{ Parent *Mock; Method string; Arguments Arguments; ReturnArguments Arguments }
func (c *Call) Return(returnArguments ...interface{}) *Call { return c }
func (c *Call) Run(fn func(args Arguments)) *Call { return c }
func (c *Call) Once() *Call { return c }
func (c *Call) Twice() *Call { return c }
func (c *Call) Times(i int) *Call { return c }
func (c *Call) Maybe() *Call { return c }
func (c *Call) Panic(msg string) *Call { return c }
func (c *Call) On(methodName string, arguments ...interface{}) *Call { return c }
type Mock struct{ ExpectedCalls []*Call; Calls []Call }
func (m *Mock) Test(t TestingT) {}
func (m *Mock) On(methodName string, arguments ...interface{}) *Call { return nil }
func (m *Mock) Called(arguments ...interface{}) Arguments { return nil }
func (m *Mock) MethodCalled(methodName string, arguments ...interface{}) Arguments { return nil }
func (m *Mock) AssertExpectations(t TestingT) bool { return true }
func (m *Mock) AssertCalled(t TestingT, methodName string, arguments ...interface{}) bool { return true }
func (m *Mock) AssertNumberOfCalls(t TestingT, methodName string, expectedCalls int) bool { return true }
const Anything = "mock.Anything"
func AnythingOfType(t string) interface{} { return nil }
`

const syncStub = `package sync
type Mutex struct{ state int }
func (m *Mutex) Lock() {}
func (m *Mutex) Unlock() {}
type RWMutex struct{ state int }
func (m *RWMutex) Lock() {}
func (m *RWMutex) Unlock() {}
func (m *RWMutex) RLock() {}
func (m *RWMutex) RUnlock() {}
`

type stubImporter struct {
	fset  *token.FileSet
	pkgs  map[string]*types.Package
	srcs  map[string]string
	std   types.Importer
	errs  []string
	inUse map[string]bool
}

func (si *stubImporter) Import(path string) (*types.Package, error) {
	if p, ok := si.pkgs[path]; ok {
		return p, nil
	}
	if si.inUse[path] {
		return nil, fmt.Errorf("import cycle through %s", path)
	}
	src, ok := si.srcs[path]
	if !ok {
		if si.std == nil {
			si.std = importer.ForCompiler(si.fset, "source", nil)
		}
		return si.std.Import(path)
	}
	si.inUse[path] = true
	defer delete(si.inUse, path)
	f, err := parser.ParseFile(si.fset, path+"/env.go", src, 0)
	if err != nil {
		return nil, fmt.Errorf("environment package %s does not parse: %v", path, err)
	}
	conf := types.Config{Importer: si, Error: func(err error) { si.errs = append(si.errs, "env "+path+": "+err.Error()) }}
	p, _ := conf.Check(path, si.fset, []*ast.File{f}, nil)
	si.pkgs[path] = p
	return p, nil
}

// envSources builds the dep / srcpkg packages and the in-package environment
// file for a path, from the shape alone (never from the template output).
func (p *TPath) envSources() (dep, src, local string) {
	e := p.E
	var depB, srcB strings.Builder
	depB.WriteString("package dep\n")
	strip := func(t string) string { return strings.TrimPrefix(strings.TrimPrefix(strings.TrimPrefix(t, "[]"), depQual), srcQual) }
	srcTypes := ""
	var ifaces []string
	usesDep := false
	for ii, is := range e.sh.Ifaces {
		L := ifaceLetter(ii)
		var tparams, targs []string
		for pi := 0; pi < is.NTP; pi++ {
			cq := strip(tpConstraintType(ii, pi))
			if e.keyed["explicit-constraint:"+fmt.Sprintf("%s.q%d", L, pi)] {
				fmt.Fprintf(&depB, "type %s interface{ ~int | ~string }\n", cq)
			} else if e.keyed["comparable-constraint:"+fmt.Sprintf("%s.q%d", L, pi)] {
				fmt.Fprintf(&depB, "type %s interface{ comparable }\n", cq)
			} else {
				fmt.Fprintf(&depB, "type %s interface{ M%s() }\n", cq, cq)
			}
			tparams = append(tparams, e.tpSrcName(ii, pi)+" dep."+cq)
			targs = append(targs, e.tpSrcName(ii, pi))
			usesDep = true
		}
		var meths []string
		for mi, m := range is.Methods {
			var ps, rs []string
			for pi := 0; pi < m.NP; pi++ {
				t := e.paramType(ii, mi, pi)
				name := strip(t)
				switch {
				case m.TPType && pi == 0 && is.NTP > 0:
				case strings.HasPrefix(name, "SP"):
					srcTypes += fmt.Sprintf("type %s struct{ f%s int }\n", name, name)
					t = name
				case strings.HasPrefix(name, "NP"):
					fmt.Fprintf(&depB, "type %s interface{ is%s() }\n", name, name)
					usesDep = true
				case strings.HasPrefix(name, "TP") || strings.HasPrefix(name, "EP"):
					fmt.Fprintf(&depB, "type %s struct{ f%s int }\n", name, name)
					usesDep = true
				}
				t = strings.ReplaceAll(t, srcQual, "")
				if m.Variadic && pi == m.NP-1 {
					t = "..." + strings.TrimPrefix(t, "[]")
				}
				ps = append(ps, paramName(ii, mi, pi)+" "+t)
			}
			for pi, k := range m.Rets {
				t := e.retType(ii, mi, pi)
				name := strip(t)
				switch {
				case k == RError:
				case strings.HasPrefix(name, "SR"):
					srcTypes += fmt.Sprintf("type %s struct{ f%s int }\n", name, name)
				case k == RNillable:
					fmt.Fprintf(&depB, "type %s interface{ is%s() }\n", name, name)
					usesDep = true
				default:
					fmt.Fprintf(&depB, "type %s struct{ f%s int }\n", name, name)
					usesDep = true
				}
				rs = append(rs, strings.ReplaceAll(t, srcQual, ""))
			}
			meths = append(meths, fmt.Sprintf("\t%s(%s) (%s)", methName(ii, mi), strings.Join(ps, ", "), strings.Join(rs, ", ")))
		}
		tp := ""
		if len(tparams) > 0 {
			tp = "[" + strings.Join(tparams, ", ") + "]"
		}
		ifaces = append(ifaces, fmt.Sprintf("type %s%s interface {\n%s\n}\n", e.ifaceName(ii), tp, strings.Join(meths, "\n")))
		_ = targs
	}
	imp := ""
	if usesDep {
		imp = "import dep \"example.com/dep\"\n"
	}
	decls := srcTypes + strings.Join(ifaces, "")
	if e.sh.OutPkg {
		srcB.WriteString("package srcpkg\n" + imp + decls)
	}
	// local environment file: the assignability probes (and, in-package, the source declarations)
	var loc strings.Builder
	loc.WriteString("package pkgout\n")
	needDep, needSrc := false, e.sh.OutPkg
	var probes strings.Builder
	for ii, is := range e.sh.Ifaces {
		var tparams, targs []string
		for pi := 0; pi < is.NTP; pi++ {
			tparams = append(tparams, tpName(ii, pi)+" dep."+strings.TrimPrefix(tpConstraintType(ii, pi), depQual))
			targs = append(targs, tpName(ii, pi))
			needDep = true
		}
		tp, ta := "", ""
		if len(tparams) > 0 {
			tp, ta = "["+strings.Join(tparams, ", ")+"]", "["+strings.Join(targs, ", ")+"]"
		}
		fmt.Fprintf(&probes, "func probe%s%s() { var _ %s%s%s = (*%s%s)(nil) }\n", e.ifaceName(ii), tp, e.srcQ(), e.ifaceName(ii), ta, e.structName(ii), ta)
	}
	if !e.sh.OutPkg && usesDep {
		needDep = true
	}
	if needDep {
		loc.WriteString("import dep \"example.com/dep\"\n")
	}
	if needSrc {
		loc.WriteString("import srcpkg \"example.com/srcpkg\"\n")
	}
	if !e.sh.OutPkg {
		loc.WriteString(decls)
	}
	loc.WriteString(probes.String())
	return depB.String(), srcB.String(), loc.String()
}

var (
	stubCache = map[string]*types.Package{}
	rePlace   = regexp.MustCompile(`\b(p|r|TP|EP|TR|NR|NP|SP|SR|Q|q|CQ|fTP|fEP|fTR)[a-z]\d+(x\d+)?\b`)
	reMeth    = regexp.MustCompile(`Meth[A-Z]\d+`)
	reIface   = regexp.MustCompile(`\bIface[A-Z]\b`)
	reMock    = regexp.MustCompile(`\b[Mm]ock[A-Z]\b`)
	rePos     = regexp.MustCompile(`skeleton\.go:\d+:\d+`)
)

func normMsg(s string) string {
	s = rePlace.ReplaceAllStringFunc(s, func(m string) string {
		i := strings.IndexFunc(m, func(r rune) bool { return r >= 'a' && r <= 'z' })
		pre := rePlace.FindStringSubmatch(m)[1]
		_ = i
		return "<" + pre + ">"
	})
	s = reMeth.ReplaceAllString(s, "<Meth>")
	s = reIface.ReplaceAllString(s, "<Iface>")
	s = reMock.ReplaceAllString(s, "<Mock>")
	s = rePos.ReplaceAllString(s, "skeleton.go")
	return s
}

// TypeCheck type-checks the skeleton together with its synthetic environment.
func (p *TPath) TypeCheck() {
	if p.File == nil {
		return
	}
	dep, src, local := p.envSources()
	si := &stubImporter{fset: p.Fset, pkgs: map[string]*types.Package{}, inUse: map[string]bool{},
		srcs: map[string]string{"example.com/dep": dep, "github.com/stretchr/testify/mock": mockStub, "sync": syncStub}}
	if src != "" {
		si.srcs["example.com/srcpkg"] = src
	}
	envFile, err := parser.ParseFile(p.Fset, "env_local.go", local, 0)
	if err != nil {
		fatalf("local environment does not parse: %v\n%s", err, local)
	}
	p.Info = &types.Info{Defs: map[*ast.Ident]types.Object{}, Uses: map[*ast.Ident]types.Object{}, Types: map[ast.Expr]types.TypeAndValue{}, Selections: map[*ast.SelectorExpr]*types.Selection{}, Scopes: map[ast.Node]*types.Scope{}}
	conf := types.Config{Importer: si, Error: func(err error) {
		if te, ok := err.(types.Error); ok {
			p.rawErrs = append(p.rawErrs, te)
		}
	}}
	p.Pkg, _ = conf.Check("example.com/pkgout", p.Fset, []*ast.File{p.File, envFile}, p.Info)
	for _, e := range si.errs {
		fatalf("synthetic environment has type errors (checker bug): %s\n--dep--\n%s\n--src--\n%s", e, dep, src)
	}
	for _, te := range p.rawErrs {
		p.TypeErr = append(p.TypeErr, normMsg(te.Msg))
	}
}
