package main

import (
	"fmt"
	"go/ast"
	"go/token"
	"go/types"
	"os"
	"os/exec"
	"path/filepath"
	"strings"

	"golang.org/x/tools/go/packages"
	"golang.org/x/tools/go/ssa"
	"golang.org/x/tools/go/ssa/ssautil"
)

const modPath = "github.com/vektra/mockery/v3"

// Repo is the type-checked program loaded from the working tree.
type Repo struct {
	Dir  string
	Fset *token.FileSet
	Pkgs map[string]*packages.Package
	Init []*packages.Package
	prog *ssa.Program
	ssaP map[string]*ssa.Package
}

func goEnv() []string {
	var env []string
	for _, e := range os.Environ() {
		k := strings.SplitN(e, "=", 2)[0]
		switch k {
		case "GOFLAGS", "GOPROXY", "GOWORK", "GOTOOLCHAIN", "GOSUMDB", "GONOSUMDB", "GONOSUMCHECK", "GOINSECURE", "GOOS", "GOARCH":
			continue
		}
		env = append(env, e)
	}
	return append(env, "GOFLAGS=", "GOPROXY=off", "GOTOOLCHAIN=auto", "GOSUMDB=sum.golang.org")
}

func gitStatus(dir string) string {
	cmd := exec.Command("git", "-C", dir, "status", "--porcelain")
	b, err := cmd.Output()
	if err != nil {
		return "?"
	}
	return string(b)
}

var mainPatterns = []string{".", "./config", "./internal", "./internal/cmd", "./internal/config", "./template", "./template_funcs", "./internal/logging", "./internal/stackerr"}

// loadRepo loads the given patterns relative to sub (""= module root) of the
// repository. Any loader or type error is fatal: an unanalysable tree is
// never reported as holding.
func loadRepo(c *Ctx, mode packages.LoadMode, sub string, patterns ...string) *Repo {
	dir := filepath.Join(c.Repo, sub)
	before := gitStatus(c.Repo)
	fset := token.NewFileSet()
	cfg := &packages.Config{Mode: mode, Dir: dir, Env: goEnv(), Fset: fset, Tests: false}
	pkgs, err := packages.Load(cfg, patterns...)
	if err != nil {
		fatalf("loading %v in %s: %v", patterns, dir, err)
	}
	if len(pkgs) == 0 {
		fatalf("loading %v in %s: zero packages", patterns, dir)
	}
	r := &Repo{Dir: c.Repo, Fset: fset, Pkgs: map[string]*packages.Package{}, Init: pkgs}
	nerr := 0
	packages.Visit(pkgs, nil, func(p *packages.Package) {
		r.Pkgs[p.PkgPath] = p
		if strings.HasPrefix(p.PkgPath, modPath) {
			for _, e := range p.Errors {
				fmt.Println("load error:", e)
				nerr++
			}
		}
	})
	if nerr > 0 {
		fatalf("%d load/type error(s) in repository packages", nerr)
	}
	if after := gitStatus(c.Repo); after != before {
		fatalf("loading changed the working tree:\nbefore:\n%s\nafter:\n%s", before, after)
	}
	c.Extra["packages_loaded"] = len(r.Pkgs)
	return r
}

// Pkg returns the repository package with the given path relative to the module.
func (r *Repo) Pkg(rel string) *packages.Package {
	path := modPath
	if rel != "" {
		path += "/" + rel
	}
	p := r.Pkgs[path]
	if p == nil || p.Types == nil || len(p.Syntax) == 0 {
		fatalf("package %s not loaded with syntax", path)
	}
	return p
}

func (r *Repo) Pos(p token.Pos) string {
	if !p.IsValid() {
		return ""
	}
	pos := r.Fset.Position(p)
	rel, err := filepath.Rel(r.Dir, pos.Filename)
	if err != nil {
		rel = pos.Filename
	}
	return fmt.Sprintf("%s:%d", rel, pos.Line)
}

// FuncDecl finds "Name" or "Recv.Name" in pkg; nil when absent.
func FuncDecl(p *packages.Package, name string) *ast.FuncDecl {
	recv := ""
	if i := strings.Index(name, "."); i >= 0 {
		recv, name = name[:i], name[i+1:]
	}
	for _, f := range p.Syntax {
		for _, d := range f.Decls {
			fd, ok := d.(*ast.FuncDecl)
			if !ok || fd.Name.Name != name {
				continue
			}
			if recv == "" && fd.Recv == nil {
				return fd
			}
			if recv != "" && fd.Recv != nil && len(fd.Recv.List) == 1 && recvTypeName(fd.Recv.List[0].Type) == recv {
				return fd
			}
		}
	}
	return nil
}

func recvTypeName(e ast.Expr) string {
	for {
		switch x := e.(type) {
		case *ast.StarExpr:
			e = x.X
		case *ast.ParenExpr:
			e = x.X
		case *ast.IndexExpr:
			e = x.X
		case *ast.IndexListExpr:
			e = x.X
		case *ast.Ident:
			return x.Name
		default:
			return ""
		}
	}
}

// funcKey is a stable name for a function declaration.
func funcKey(p *packages.Package, fd *ast.FuncDecl) string {
	rel := strings.TrimPrefix(strings.TrimPrefix(p.PkgPath, modPath), "/")
	if rel == "" {
		rel = "main"
	}
	if fd.Recv != nil && len(fd.Recv.List) == 1 {
		return rel + "." + recvTypeName(fd.Recv.List[0].Type) + "." + fd.Name.Name
	}
	return rel + "." + fd.Name.Name
}

// SSA builds (once) SSA form for the initial packages (bodies) and their deps.
func (r *Repo) SSA() *ssa.Program {
	if r.prog != nil {
		return r.prog
	}
	prog, pkgs := ssautil.AllPackages(r.Init, ssa.InstantiateGenerics)
	prog.Build()
	r.prog = prog
	r.ssaP = map[string]*ssa.Package{}
	for _, p := range pkgs {
		if p != nil {
			r.ssaP[p.Pkg.Path()] = p
		}
	}
	for _, p := range prog.AllPackages() {
		r.ssaP[p.Pkg.Path()] = p
	}
	return prog
}

// SSAFunc returns the SSA function for "Name" / "Recv.Name" of a repo package.
func (r *Repo) SSAFunc(rel, name string) *ssa.Function {
	r.SSA()
	p := r.Pkg(rel)
	sp := r.ssaP[p.PkgPath]
	if sp == nil {
		fatalf("no SSA package for %s", p.PkgPath)
	}
	if i := strings.Index(name, "."); i >= 0 {
		tn, _ := p.Types.Scope().Lookup(name[:i]).(*types.TypeName)
		if tn == nil {
			return nil
		}
		for _, t := range []types.Type{tn.Type(), types.NewPointer(tn.Type())} {
			ms := r.prog.MethodSets.MethodSet(t)
			for j := 0; j < ms.Len(); j++ {
				if ms.At(j).Obj().Name() == name[i+1:] {
					if fn := r.prog.MethodValue(ms.At(j)); fn != nil && fn.Synthetic == "" {
						return fn
					}
				}
			}
		}
		return nil
	}
	return sp.Func(name)
}
