package main

// Identification of the objects and loops of RootApp.Run by type and
// definition rather than by the names the source happens to use.

import (
	"go/ast"
	"go/types"
	"sort"
	"strings"

	"golang.org/x/tools/go/packages"
)

type runModel struct {
	p    *packages.Package
	fd   *ast.FuncDecl
	fc   *fcanon
	info *types.Info

	missingMap types.Object // map[string]map[string]struct{}
	fileMap    types.Object // map[string]*InterfaceCollection
	regLoop    *ast.RangeStmt
	ifaceLoop  *ast.RangeStmt // over ParsePackages' result
	cfgLoop    *ast.RangeStmt // over <interface config>.Configs, inside ifaceLoop
	fileLoop   *ast.RangeStmt // over fileMap
	ifaceVar   types.Object   // range value of ifaceLoop
	ifaceVars  map[types.Object]bool // range values of every loop over ParsePackages' result
	cfgBody    *ast.BlockStmt // body of the loop over <interface config>.Configs (range or index form)

	// the missing-map bookkeeping may live in functions of the package that Run calls once:
	// their parameters (and receiver) are read as the expressions Run passes
	bind     map[types.Object]ast.Expr
	scope    []*ast.FuncDecl // Run and those callees
	ctorMap  types.Object    // in the function whose result initialises missingMap: the local it returns
	regFunc  *ast.FuncDecl   // function containing regLoop
	regPkgOK bool            // regLoop ranges over the configured packages
}

func isMissingMapType(t types.Type) bool {
	return t != nil && shortType(t.Underlying()) == "map[string]map[string]struct{}"
}

// resolve replaces an identifier that is a parameter/receiver of a once-called helper by the expression Run passes.
func (m *runModel) resolve(e ast.Expr) ast.Expr {
	for i := 0; i < 4; i++ {
		id, ok := ast.Unparen(e).(*ast.Ident)
		if !ok {
			return e
		}
		b, ok := m.bind[m.info.Uses[id]]
		if !ok {
			return e
		}
		e = b
	}
	return e
}

func (m *runModel) isMissing(e ast.Expr) bool {
	e = m.resolve(e)
	return isObj(m.info, e, m.missingMap) || m.ctorMap != nil && isObj(m.info, e, m.ctorMap)
}

func (m *runModel) buildScope() {
	m.bind = map[types.Object]ast.Expr{}
	m.scope = []*ast.FuncDecl{m.fd}
	funcs := pkgFuncs(m.p)
	sites := map[*ast.FuncDecl][]*ast.CallExpr{}
	ast.Inspect(m.fd.Body, func(n ast.Node) bool {
		if call, ok := n.(*ast.CallExpr); ok {
			if fn := calleeFunc(m.info, call); fn != nil && funcs[fn] != nil && funcs[fn] != m.fd {
				sites[funcs[fn]] = append(sites[funcs[fn]], call)
			}
		}
		return true
	})
	for fd, calls := range sites {
		if len(calls) != 1 {
			continue
		}
		// only helpers that touch the missing map: a parameter, receiver or result of that type
		touches := false
		fields := []*ast.FieldList{fd.Recv, fd.Type.Params, fd.Type.Results}
		for _, fl := range fields {
			if fl == nil {
				continue
			}
			for _, f := range fl.List {
				if isMissingMapType(m.info.TypeOf(f.Type)) {
					touches = true
				}
			}
		}
		if !touches {
			continue
		}
		call := calls[0]
		m.scope = append(m.scope, fd)
		if fd.Recv != nil && len(fd.Recv.List) == 1 && len(fd.Recv.List[0].Names) == 1 {
			if sel, ok := call.Fun.(*ast.SelectorExpr); ok {
				m.bind[m.info.Defs[fd.Recv.List[0].Names[0]]] = sel.X
			}
		}
		i := 0
		for _, f := range fd.Type.Params.List {
			for _, n := range f.Names {
				if i < len(call.Args) {
					m.bind[m.info.Defs[n]] = call.Args[i]
				}
				i++
			}
		}
		// constructor: missingMap is defined from this call
		ast.Inspect(m.fd.Body, func(n ast.Node) bool {
			as, ok := n.(*ast.AssignStmt)
			if !ok || len(as.Rhs) != 1 || ast.Unparen(as.Rhs[0]) != ast.Expr(call) || len(as.Lhs) == 0 {
				return true
			}
			if isObj(m.info, as.Lhs[0], m.missingMap) {
				// the local of the map type that the helper returns
				ast.Inspect(fd.Body, func(x ast.Node) bool {
					if rs, ok := x.(*ast.ReturnStmt); ok && len(rs.Results) >= 1 {
						if id, ok := ast.Unparen(rs.Results[0]).(*ast.Ident); ok && isMissingMapType(m.info.TypeOf(id)) {
							m.ctorMap = m.info.Uses[id]
						}
					}
					return true
				})
			}
			return true
		})
	}
	sort.Slice(m.scope[1:], func(i, j int) bool { return m.scope[1+i].Pos() < m.scope[1+j].Pos() })
	// the registration loop: over the configured packages, in Run or in the constructor
	if m.regLoop != nil {
		m.regFunc, m.regPkgOK = m.fd, true
		return
	}
	for _, fd := range m.scope[1:] {
		ast.Inspect(fd.Body, func(n ast.Node) bool {
			rs, ok := n.(*ast.RangeStmt)
			if !ok || m.regLoop != nil {
				return true
			}
			x := m.resolve(rs.X)
			if x == rs.X {
				return true
			}
			cx := m.fc.E(x)
			if strings.Contains(cx, ".GetPackages<(config.RootConfig).GetPackages>(") && strings.HasSuffix(cx, "#0") && !strings.Contains(cx, "ParsePackages") {
				m.regLoop, m.regFunc, m.regPkgOK = rs, fd, true
			}
			return true
		})
	}
}

func typeIs(t types.Type, s string) bool { return t != nil && shortType(t) == s }

func newRunModel(r *Repo) *runModel {
	p := r.Pkg("internal/cmd")
	fd := FuncDecl(p, "RootApp.Run")
	if fd == nil {
		return nil
	}
	m := &runModel{p: p, fd: fd, info: p.TypesInfo, fc: newFuncCanon(p.TypesInfo, fd)}
	ast.Inspect(fd.Body, func(n ast.Node) bool {
		switch x := n.(type) {
		case *ast.Ident:
			if obj := m.info.Defs[x]; obj != nil {
				switch {
				case isMissingMapType(obj.Type()):
					m.missingMap = obj
				case typeIs(obj.Type(), "map[string]*internal/cmd.InterfaceCollection"):
					m.fileMap = obj
				}
			}
		case *ast.RangeStmt:
			cx := m.fc.E(x.X)
			t := m.info.TypeOf(x.X)
			switch {
			case typeIs(t, "[]string") && strings.Contains(cx, ".GetPackages<(config.RootConfig).GetPackages>(") && strings.HasSuffix(cx, "#0") && !strings.Contains(cx, "ParsePackages"):
				if m.regLoop == nil {
					m.regLoop = x
				}
			case strings.Contains(cx, ".ParsePackages<(internal.Parser).ParsePackages>(") && strings.HasSuffix(cx, "#0"):
				// (there may be more than one loop over the parsed interfaces; the main one holds the Configs loop)
				if v, ok := x.Value.(*ast.Ident); ok {
					if m.ifaceVars == nil {
						m.ifaceVars = map[types.Object]bool{}
					}
					m.ifaceVars[m.info.Defs[v]] = true
				}
				if _, body := cfgLoopIn(m.info, x.Body); body != nil || m.ifaceLoop == nil {
					m.ifaceLoop = x
					if v, ok := x.Value.(*ast.Ident); ok {
						m.ifaceVar = m.info.Defs[v]
					}
					if body != nil {
						m.cfgBody = body
					}
				}
			case typeIs(t, "[]*config.Config") && m.ifaceLoop != nil && m.cfgLoop == nil && x.Pos() > m.ifaceLoop.Pos() && x.End() <= m.ifaceLoop.End():
				m.cfgLoop = x
			case typeIs(t, "map[string]*internal/cmd.InterfaceCollection"):
				m.fileLoop = x
			}
		}
		return true
	})
	m.buildScope()
	return m
}

// isObj: e is an identifier denoting obj.
func isObj(info *types.Info, e ast.Expr, obj types.Object) bool {
	id, ok := ast.Unparen(e).(*ast.Ident)
	return ok && obj != nil && (info.Uses[id] == obj || info.Defs[id] == obj)
}

// findRange returns the first range statement in fd accepted by pred.
func findRange(info *types.Info, fc *fcanon, fd *ast.FuncDecl, pred func(rs *ast.RangeStmt, canonX string, t types.Type) bool) *ast.RangeStmt {
	var out *ast.RangeStmt
	ast.Inspect(fd.Body, func(n ast.Node) bool {
		if rs, ok := n.(*ast.RangeStmt); ok && out == nil && pred(rs, fc.E(rs.X), info.TypeOf(rs.X)) {
			out = rs
		}
		return true
	})
	return out
}

// cfgLoopIn finds, inside n, the loop over a []*config.Config (range form or index form) and returns it with its body.
func cfgLoopIn(info *types.Info, n ast.Node) (ast.Stmt, *ast.BlockStmt) {
	var st ast.Stmt
	var body *ast.BlockStmt
	ast.Inspect(n, func(x ast.Node) bool {
		if st != nil {
			return false
		}
		switch y := x.(type) {
		case *ast.RangeStmt:
			if typeIs(info.TypeOf(y.X), "[]*config.Config") {
				st, body = y, y.Body
			}
		case *ast.ForStmt:
			if _, bound, b, ok := indexLoop(info, y); ok {
				if call, ok := ast.Unparen(bound).(*ast.CallExpr); ok && len(call.Args) == 1 && calleeName(info, call) == "builtin.len" && typeIs(info.TypeOf(call.Args[0]), "[]*config.Config") {
					st, body = y, b
				}
			}
		}
		return true
	})
	return st, body
}
