package main

// Identification of the objects and loops of RootApp.Run by type and
// definition rather than by the names the source happens to use.

import (
	"go/ast"
	"go/types"
	"strings"

	"golang.org/x/tools/go/packages"
)

type runModel struct {
	p    *packages.Package
	fd   *ast.FuncDecl
	fc   *fcanon
	info *types.Info

	missingMap types.Object // map[string]map[string]struct{}
	fileMap    types.Object // map[string]*InterfaceCollection
	regLoop    *ast.RangeStmt
	ifaceLoop  *ast.RangeStmt // over ParsePackages' result
	cfgLoop    *ast.RangeStmt // over <interface config>.Configs, inside ifaceLoop
	fileLoop   *ast.RangeStmt // over fileMap
	ifaceVar   types.Object   // range value of ifaceLoop
}

func typeIs(t types.Type, s string) bool { return t != nil && shortType(t) == s }

func newRunModel(r *Repo) *runModel {
	p := r.Pkg("internal/cmd")
	fd := FuncDecl(p, "RootApp.Run")
	if fd == nil {
		return nil
	}
	m := &runModel{p: p, fd: fd, info: p.TypesInfo, fc: newFuncCanon(p.TypesInfo, fd)}
	ast.Inspect(fd.Body, func(n ast.Node) bool {
		switch x := n.(type) {
		case *ast.Ident:
			if obj := m.info.Defs[x]; obj != nil {
				switch {
				case typeIs(obj.Type(), "map[string]map[string]struct{}"):
					m.missingMap = obj
				case typeIs(obj.Type(), "map[string]*internal/cmd.InterfaceCollection"):
					m.fileMap = obj
				}
			}
		case *ast.RangeStmt:
			cx := m.fc.E(x.X)
			t := m.info.TypeOf(x.X)
			switch {
			case strings.Contains(cx, ".GetPackages<(config.RootConfig).GetPackages>(") && strings.HasSuffix(cx, "#0") && !strings.Contains(cx, "ParsePackages"):
				if m.regLoop == nil {
					m.regLoop = x
				}
			case strings.Contains(cx, ".ParsePackages<(internal.Parser).ParsePackages>(") && strings.HasSuffix(cx, "#0"):
				m.ifaceLoop = x
				if v, ok := x.Value.(*ast.Ident); ok {
					m.ifaceVar = m.info.Defs[v]
				}
			case typeIs(t, "[]*config.Config") && m.ifaceLoop != nil && m.cfgLoop == nil && x.Pos() > m.ifaceLoop.Pos() && x.End() <= m.ifaceLoop.End():
				m.cfgLoop = x
			case typeIs(t, "map[string]*internal/cmd.InterfaceCollection"):
				m.fileLoop = x
			}
		}
		return true
	})
	return m
}

// isObj: e is an identifier denoting obj.
func isObj(info *types.Info, e ast.Expr, obj types.Object) bool {
	id, ok := ast.Unparen(e).(*ast.Ident)
	return ok && obj != nil && (info.Uses[id] == obj || info.Defs[id] == obj)
}

// findRange returns the first range statement in fd accepted by pred.
func findRange(info *types.Info, fc *fcanon, fd *ast.FuncDecl, pred func(rs *ast.RangeStmt, canonX string, t types.Type) bool) *ast.RangeStmt {
	var out *ast.RangeStmt
	ast.Inspect(fd.Body, func(n ast.Node) bool {
		if rs, ok := n.(*ast.RangeStmt); ok && out == nil && pred(rs, fc.E(rs.X), info.TypeOf(rs.X)) {
			out = rs
		}
		return true
	})
	return out
}
