package main

import (
	"fmt"
	"go/ast"
	"go/token"
	"go/types"
	"strings"

	"golang.org/x/tools/go/packages"
)

func init() { register("C13", checkC13) }

func checkC13(c *Ctx) {
	c.Explanation = `R13.1 lookup key: in both loops of TemplateGenerator.methodData (parameters and results) the two key variables are declared inside the loop body (fresh for every parameter, empty for types that are not named), are assigned only in the *types.Named and *types.Alias arms of the switch on the parameter's own type, from t.Obj().Pkg().Path() (when Pkg() is non-nil) and t.Obj().Name(), and are handed to GetReplacement in the order (package path, type name); the result goes to AddVar for that same parameter;
R13.2 Config.GetReplacement indexes ReplaceType first with its first parameter and the inner map with its second;
R13.3 substitution in MethodScope.AddVar: with a replacement the variable's type is the type of the object found by Scope().Lookup(replacement.TypeName) in a package loaded for replacement.PkgPath (no other source, no cache keyed differently), its imports receive that package only, and a miss is an error; without one the type is the variable's own and imports come from populateImports;
R13.4 the setting is effective at every level: ReplaceType is inheritable in mergeConfigs (the C08 R08.1 field rule applied to this field).`
	c.NotDecided = "that the substituted signature compiles; aliases of aliases; which packages go list resolves."
	c.Assumptions = []string{"go/types Named/Alias API"}
	c.Rule("R13.1", 8, "")
	c.Rule("R13.2", 1, "")
	c.Rule("R13.3", 5, "")
	c.Rule("R13.4", 1, "")
	r := loadRepo(c, packages.LoadSyntax, "", "./internal", "./template", "./config")
	ip := r.Pkg("internal")
	info := ip.TypesInfo
	md := FuncDecl(ip, "TemplateGenerator.methodData")
	if md == nil {
		c.Fail("R13.1", "methodData|missing", "internal/template_generator.go", "methodData not found")
	} else {
		c.Func(funcKey(ip, md))
		nLoops := 0
		for _, s := range md.Body.List {
			fs, ok := s.(*ast.ForStmt)
			if !ok {
				continue
			}
			if _, _, ok := countingLoop(info, fs); !ok {
				continue
			}
			nLoops++
			which := fmt.Sprintf("loop%d", nLoops)
			if b := types.ExprString(fs.Cond); strings.Contains(b, "Params()") {
				which = "params"
			} else if strings.Contains(b, "Results()") {
				which = "results"
			}
			bodyScope := info.Scopes[fs.Body]
			// GetReplacement call
			var gr *ast.CallExpr
			var grResult types.Object
			ast.Inspect(fs.Body, func(n ast.Node) bool {
				if as, ok := n.(*ast.AssignStmt); ok && len(as.Rhs) == 1 {
					if call, ok := as.Rhs[0].(*ast.CallExpr); ok && strings.HasSuffix(calleeName(info, call), "config.Config).GetReplacement") {
						gr = call
						grResult = objOf(info, as.Lhs[0].(*ast.Ident))
					}
				}
				return true
			})
			if gr == nil || len(gr.Args) != 2 {
				c.Fail("R13.1", "methodData|"+which+"|no-lookup", r.Pos(fs.Pos()), "the "+which+" loop does not look up a replacement")
				continue
			}
			k0, ok0 := gr.Args[0].(*ast.Ident)
			k1, ok1 := gr.Args[1].(*ast.Ident)
			if !ok0 || !ok1 {
				c.Fail("R13.1", "methodData|"+which+"|key-args", r.Pos(gr.Pos()), "GetReplacement is not called with the two key variables")
				continue
			}
			pkgVar, nameVar := info.Uses[k0], info.Uses[k1]
			// declared inside the loop body
			fresh := pkgVar != nil && nameVar != nil && pkgVar.Parent() == bodyScope && nameVar.Parent() == bodyScope
			c.Check(fresh, "R13.1", "methodData|"+which+"|key-fresh", r.Pos(gr.Pos()), "key variables are declared per parameter", "the replacement lookup key of the "+which+" loop is not declared inside the loop body: a parameter of an unnamed type (string, *T, []T, ...) would reuse the key of the previous named parameter and be replaced too")
			// assignments to the key variables: only in Named/Alias arms, from t.Obj()...
			okAssign, nArms := true, 0
			var paramObj types.Object
			ast.Inspect(fs.Body, func(n ast.Node) bool {
				ts, ok := n.(*ast.TypeSwitchStmt)
				if !ok {
					return true
				}
				// switch t := param.Type().(type)
				if as, ok := ts.Assign.(*ast.AssignStmt); ok {
					if ta, ok := as.Rhs[0].(*ast.TypeAssertExpr); ok {
						if root, _ := selChainCalls(ta.X); root != nil && strings.HasSuffix(types.ExprString(ta.X), ".Type()") {
							paramObj = info.Uses[root]
						}
					}
				}
				for _, cs := range ts.Body.List {
					cc := cs.(*ast.CaseClause)
					armTypes := []string{}
					for _, e := range cc.List {
						armTypes = append(armTypes, types.ExprString(e))
					}
					assigns := false
					for _, st := range cc.Body {
						ast.Inspect(st, func(m ast.Node) bool {
							as, ok := m.(*ast.AssignStmt)
							if !ok || len(as.Lhs) != 1 {
								return true
							}
							l, ok := as.Lhs[0].(*ast.Ident)
							if !ok {
								return true
							}
							switch info.Uses[l] {
							case pkgVar:
								assigns = true
								rhs := types.ExprString(as.Rhs[0])
								if !(rhs == "pkg.Path()" || strings.HasSuffix(rhs, ".Obj().Pkg().Path()")) {
									okAssign = false
								}
							case nameVar:
								assigns = true
								if !strings.HasSuffix(types.ExprString(as.Rhs[0]), ".Obj().Name()") {
									okAssign = false
								}
							}
							return true
						})
					}
					if assigns {
						nArms++
						if len(armTypes) != 1 || (armTypes[0] != "*types.Named" && armTypes[0] != "*types.Alias") {
							okAssign = false
						}
					}
				}
				return true
			})
			// no assignment to the keys outside the type switch
			ast.Inspect(fs.Body, func(n ast.Node) bool {
				if _, ok := n.(*ast.TypeSwitchStmt); ok {
					return false
				}
				if as, ok := n.(*ast.AssignStmt); ok {
					for _, l := range as.Lhs {
						if id, ok := l.(*ast.Ident); ok && (info.Uses[id] == pkgVar || info.Uses[id] == nameVar) && as.Tok == token.ASSIGN {
							okAssign = false
						}
					}
				}
				return true
			})
			c.Check(okAssign && nArms == 2, "R13.1", "methodData|"+which+"|key-origin", r.Pos(fs.Pos()), "key = (t.Obj().Pkg().Path(), t.Obj().Name()) for exactly Named and Alias types", fmt.Sprintf("in the %s loop the lookup key is not assigned exactly in the *types.Named and *types.Alias arms from t.Obj().Pkg().Path() and t.Obj().Name() (%d arms assign it)", which, nArms))
			// the replacement goes to AddVar together with that parameter
			okAdd := false
			ast.Inspect(fs.Body, func(n ast.Node) bool {
				if call, ok := n.(*ast.CallExpr); ok && strings.HasSuffix(calleeName(info, call), "template.MethodScope).AddVar") && len(call.Args) == 4 {
					a1, ok1 := call.Args[1].(*ast.Ident)
					a3, ok3 := call.Args[3].(*ast.Ident)
					if ok1 && ok3 && info.Uses[a1] == paramObj && info.Uses[a3] == grResult {
						okAdd = true
					}
				}
				return true
			})
			c.Check(okAdd, "R13.1", "methodData|"+which+"|addvar", r.Pos(fs.Pos()), "AddVar(param, replacement-of-that-param)", "the replacement found for a parameter is not handed to AddVar together with that same parameter")
			// key order: first arg feeds the package-path parameter
			c.Check(strings.Contains(strings.ToLower(k0.Name), "pkg") && !strings.Contains(strings.ToLower(k1.Name), "pkg"), "R13.1", "methodData|"+which+"|key-order", r.Pos(gr.Pos()), "GetReplacement(package path, type name)", "GetReplacement's arguments are not (package path, type name)")
		}
		if nLoops != 2 {
			c.Fail("R13.1", "methodData|loops", r.Pos(md.Pos()), fmt.Sprintf("%d signature loops found, want 2", nLoops))
		}
	}
	// ---- R13.2
	cp := r.Pkg("config")
	if fd := FuncDecl(cp, "Config.GetReplacement"); fd == nil {
		c.Fail("R13.2", "GetReplacement|missing", "config/config.go", "GetReplacement not found")
	} else {
		paths, _ := enumerateFunc(cp.TypesInfo, fd)
		ok := len(paths) == 2
		for _, p := range paths {
			miss, has := p.atom("RECV.ReplaceType[ARG0] == nil")
			if !has || p.Exit != "return" {
				ok = false
				continue
			}
			if miss {
				ok = ok && p.Ret[0] == "nil"
			} else {
				ok = ok && p.Ret[0] == "RECV.ReplaceType[ARG0][ARG1]"
			}
		}
		c.Check(ok, "R13.2", "GetReplacement|two-level", r.Pos(fd.Pos()), "ReplaceType[pkgPath][typeName]", "GetReplacement is not ReplaceType[<first parameter>][<second parameter>] (nil when the package is absent)")
	}
	// ---- R13.3
	ruleAddVar(c, r)
	// ---- R13.4 via the C08 machinery
	sub := newCtx("C13", c.Tier)
	sub.known = nil
	ruleMergeConfigs(sub, r, cp)
	inherited := true
	for k, o := range sub.fails {
		if strings.HasSuffix(k, "|mergeConfigs|field|ReplaceType") {
			inherited = false
			c.Fail("R13.4", "mergeConfigs|field|ReplaceType", o.Pos, "replace-type written at the top level or on a package is not inherited by more specific levels: "+o.Detail)
		}
	}
	if inherited {
		c.OK("R13.4", "mergeConfigs|field|ReplaceType", "config/config.go", "replace-type is inherited like every other Config field")
	}
}

func ruleAddVar(c *Ctx, r *Repo) {
	tp := r.Pkg("template")
	info := tp.TypesInfo
	fd := FuncDecl(tp, "MethodScope.AddVar")
	if fd == nil {
		c.Fail("R13.3", "AddVar|missing", "template/method_scope.go", "AddVar not found")
		return
	}
	c.Func(funcKey(tp, fd))
	var repl types.Object
	for _, f := range fd.Type.Params.List {
		for _, n := range f.Names {
			if strings.HasSuffix(types.ExprString(f.Type), "ReplaceType") {
				repl = info.Defs[n]
			}
		}
	}
	var ifs *ast.IfStmt
	for _, s := range fd.Body.List {
		if x, ok := s.(*ast.IfStmt); ok {
			if be, ok := x.Cond.(*ast.BinaryExpr); ok && be.Op == token.NEQ {
				if id, ok := be.X.(*ast.Ident); ok && info.Uses[id] == repl && isNilIdent(info, be.Y) {
					ifs = x
				}
			}
		}
	}
	if ifs == nil || ifs.Else == nil {
		c.Fail("R13.3", "AddVar|arms", r.Pos(fd.Pos()), "AddVar does not branch on 'replacement != nil' with both arms")
		return
	}
	// replacement arm
	var loadPkgs, object, objectPkg types.Object
	okLoad := false
	ast.Inspect(ifs.Body, func(n ast.Node) bool {
		if as, ok := n.(*ast.AssignStmt); ok && len(as.Rhs) == 1 {
			if call, ok := as.Rhs[0].(*ast.CallExpr); ok && calleeName(info, call) == "golang.org/x/tools/go/packages.Load" && len(call.Args) == 2 {
				if newFuncCanon(info, fd).E(call.Args[1]) == "ARG3.PkgPath" {
					okLoad = true
					loadPkgs = objOf(info, as.Lhs[0].(*ast.Ident))
				}
			}
		}
		return true
	})
	c.Check(okLoad, "R13.3", "AddVar|load-replacement-package", r.Pos(ifs.Pos()), "loads replacement.PkgPath", "the replacement arm does not load the package named by replacement.PkgPath")
	// every assignment to the looked-up object
	okObj, nObj := true, 0
	ast.Inspect(ifs.Body, func(n ast.Node) bool {
		rs, ok := n.(*ast.RangeStmt)
		if !ok {
			return true
		}
		if id, ok := rs.X.(*ast.Ident); !ok || info.Uses[id] != loadPkgs {
			return true
		}
		pv, _ := rs.Value.(*ast.Ident)
		for _, s := range rs.Body.List {
			if as, ok := s.(*ast.AssignStmt); ok && len(as.Lhs) == 1 && len(as.Rhs) == 1 {
				if call, ok := as.Rhs[0].(*ast.CallExpr); ok && calleeName(info, call) == "(go/types.Scope).Lookup" {
					nObj++
					object = info.Uses[as.Lhs[0].(*ast.Ident)]
					arg := types.ExprString(call.Args[0])
					recv := types.ExprString(call.Fun)
					if !strings.HasSuffix(arg, ".TypeName") || pv == nil || !strings.HasPrefix(recv, pv.Name+".Types.Scope()") {
						okObj = false
					}
				}
			}
			if x, ok := s.(*ast.IfStmt); ok {
				for _, b := range x.Body.List {
					if as, ok := b.(*ast.AssignStmt); ok && len(as.Lhs) == 1 {
						if rv, ok := as.Rhs[0].(*ast.Ident); ok && pv != nil && info.Uses[rv] == info.Defs[pv] {
							objectPkg = info.Uses[as.Lhs[0].(*ast.Ident)]
						}
					}
				}
			}
		}
		return true
	})
	// no other assignment to object anywhere in the function
	other := 0
	ast.Inspect(fd.Body, func(n ast.Node) bool {
		if as, ok := n.(*ast.AssignStmt); ok {
			for i, l := range as.Lhs {
				if id, ok := l.(*ast.Ident); ok && object != nil && info.Uses[id] == object {
					if len(as.Rhs) == len(as.Lhs) {
						if call, ok := as.Rhs[i].(*ast.CallExpr); ok && calleeName(info, call) == "(go/types.Scope).Lookup" {
							continue
						}
					}
					other++
				}
			}
		}
		return true
	})
	c.Check(okObj && nObj == 1 && other == 0, "R13.3", "AddVar|object-origin", r.Pos(ifs.Pos()), "the replacement object is Scope().Lookup(replacement.TypeName) of a loaded package, nothing else", "the object whose type replaces the parameter's type does not come exclusively from Scope().Lookup(replacement.TypeName) in the package loaded for replacement.PkgPath (e.g. a cache keyed by package path alone hands out the first type resolved in that package)")
	// miss is an error
	okMiss := false
	for _, s := range ifs.Body.List {
		if x, ok := s.(*ast.IfStmt); ok {
			if be, ok := x.Cond.(*ast.BinaryExpr); ok && be.Op == token.EQL {
				if id, ok := be.X.(*ast.Ident); ok && info.Uses[id] == object && isNilIdent(info, be.Y) && returnsError(info, x.Body) {
					okMiss = true
				}
			}
		}
	}
	c.Check(okMiss, "R13.3", "AddVar|miss-is-error", r.Pos(ifs.Pos()), "unknown replacement type is an error", "a replacement type that does not exist is not reported as an error")
	// v = Var{typ: object.Type(), imports: imports}; addImport(ctx, objectPkg.Types, imports)
	okTyp, okImp := false, false
	ast.Inspect(ifs.Body, func(n ast.Node) bool {
		switch x := n.(type) {
		case *ast.KeyValueExpr:
			if types.ExprString(x.Key) == "typ" {
				if call, ok := x.Value.(*ast.CallExpr); ok {
					if sel, ok := call.Fun.(*ast.SelectorExpr); ok && sel.Sel.Name == "Type" {
						if id, ok := sel.X.(*ast.Ident); ok && info.Uses[id] == object {
							okTyp = true
						}
					}
				}
			}
		case *ast.CallExpr:
			if fn := calleeFunc(info, x); fn != nil && fn.Name() == "addImport" && len(x.Args) == 3 {
				if se, ok := x.Args[1].(*ast.SelectorExpr); ok && se.Sel.Name == "Types" {
					if id, ok := se.X.(*ast.Ident); ok && info.Uses[id] == objectPkg {
						okImp = true
					}
				}
			}
		}
		return true
	})
	nPop := 0
	ast.Inspect(ifs.Body, func(n ast.Node) bool {
		if call, ok := n.(*ast.CallExpr); ok {
			if fn := calleeFunc(info, call); fn != nil && fn.Name() == "populateImports" {
				nPop++
			}
		}
		return true
	})
	c.Check(okTyp && okImp && nPop == 0, "R13.3", "AddVar|replacement-var", r.Pos(ifs.Pos()), "typ = replacement type; imports = its package only", "with a replacement the variable does not carry exactly the replacement's type and only the replacement package's import")
	// else arm
	okElse := false
	if eb, ok := ifs.Else.(*ast.BlockStmt); ok {
		fca := newFuncCanon(info, fd)
		isOwn := func(s string) bool { return strings.HasPrefix(s, "ARG1.Type<") && strings.HasSuffix(s, ".Type>()") && strings.Count(s, "<") == 1 }
		popOK, typOK := false, false
		ast.Inspect(eb, func(n ast.Node) bool {
			switch x := n.(type) {
			case *ast.CallExpr:
				if fn := calleeFunc(info, x); fn != nil && fn.Name() == "populateImports" && len(x.Args) == 2 && isOwn(fca.E(x.Args[1])) {
					popOK = true
				}
			case *ast.KeyValueExpr:
				if types.ExprString(x.Key) == "typ" && isOwn(fca.E(x.Value)) {
					typOK = true
				}
			}
			return true
		})
		okElse = popOK && typOK
	}
	c.Check(okElse, "R13.3", "AddVar|plain-var", r.Pos(ifs.Pos()), "without a replacement: own type, imports from populateImports", "without a replacement the variable is not rendered with its own type and the imports collected from it")
}
