package main

import (
	"fmt"
	"go/ast"
	"go/token"
	"go/types"
	"regexp"
	"strings"

	"golang.org/x/tools/go/packages"
)

func init() { register("C13", checkC13) }

func checkC13(c *Ctx) {
	c.Explanation = `R13.1 lookup key: in both loops of TemplateGenerator.methodData (parameters and results) the two key variables are declared inside the loop body (fresh for every parameter, empty for types that are not named), are assigned only in the *types.Named and *types.Alias arms of the switch on the parameter's own type, from t.Obj().Pkg().Path() (when Pkg() is non-nil) and t.Obj().Name(), and are handed to GetReplacement in the order (package path, type name); the result goes to AddVar for that same parameter;
R13.2 Config.GetReplacement indexes ReplaceType first with its first parameter and the inner map with its second;
R13.3 substitution in MethodScope.AddVar: with a replacement the variable's type is the type of the object found by Scope().Lookup(replacement.TypeName) in a package loaded for replacement.PkgPath (no other source, no cache keyed differently), its imports receive that package only, and a miss is an error; without one the type is the variable's own and imports come from populateImports;
R13.3b Var.Nillable classifies v.Type(), the effective (replaced) type, so the nil handling the testify template emits matches the substituted type;
R13.5 the configuration hierarchy resolves most-specific-first and is initialised twice before use (C08 rules), so replace-type written on a recursive package reaches the listed interfaces of its sub-packages;
R13.4 the setting is effective at every level: ReplaceType is inheritable in mergeConfigs (the C08 R08.1 field rule applied to this field).`
	c.NotDecided = "that the substituted signature compiles; aliases of aliases; which packages go list resolves."
	c.Assumptions = []string{"go/types Named/Alias API"}
	c.Rule("R13.1", 7, "")
	c.Rule("R13.2", 1, "")
	c.Rule("R13.3", 5, "")
	c.Rule("R13.4", 1, "")
	r := loadRepo(c, packages.LoadSyntax, "", "./internal", "./template", "./config")
	ip := r.Pkg("internal")
	_ = ip.TypesInfo
	md := FuncDecl(ip, "TemplateGenerator.methodData")
	if md == nil {
		c.Fail("R13.1", "methodData|missing", "internal/template_generator.go", "methodData not found")
	} else {
		c.Func(funcKey(ip, md))
		ruleReplacementKey(c, r, ip, md)
	}
	// the replacement object is the one found, and the variable built from it is listed in its scope (C14 R14.5)
	subRules(c, "R13.3", "add-var", "a replaced parameter is rendered from the object AddVar found: ", func(sub *Ctx) {
		sub.Rule("R14.5", 0, "")
		ruleNameResolution(sub, r, "R14.5")
	})
	// ---- R13.2
	cp := r.Pkg("config")
	if fd := FuncDecl(cp, "Config.GetReplacement"); fd == nil {
		c.Fail("R13.2", "GetReplacement|missing", "config/config.go", "GetReplacement not found")
	} else {
		paths, _ := enumerateFunc(cp.TypesInfo, fd)
		// every path returns ReplaceType[pkgPath][typeName]; nil only where the package entry was seen to be absent
		ok := len(paths) > 0
		for _, p := range paths {
			if p.Exit != "return" || len(p.Ret) != 1 {
				ok = false
				continue
			}
			absent := false
			for _, a := range p.Atoms {
				switch a.Expr {
				case "RECV.ReplaceType[ARG0] == nil":
					absent = absent || a.Val
				case "RECV.ReplaceType[ARG0]#ok":
					absent = absent || !a.Val
				default:
					ok = false // some other condition decides the result
				}
			}
			switch p.Ret[0] {
			case "RECV.ReplaceType[ARG0][ARG1]":
			case "nil":
				ok = ok && absent
			default:
				ok = false
			}
		}
		c.Check(ok, "R13.2", "GetReplacement|two-level", r.Pos(fd.Pos()), "ReplaceType[pkgPath][typeName]", "GetReplacement is not ReplaceType[<first parameter>][<second parameter>] (nil when the package is absent)")
	}
	// ---- R13.3
	ruleAddVar(c, r)
	// what the templates ask of a (possibly replaced) variable is answered from its effective type
	ruleNillable(c, r, "R13.3")
	// the levels at which replace-type can be written all reach the interface's config
	configResolutionGuard(c, "R13.5")
	// ---- R13.4 via the C08 machinery
	sub := newCtx("C13", c.Tier)
	sub.known = nil
	ruleMergeConfigs(sub, r, cp)
	inherited := true
	for k, o := range sub.fails {
		if strings.HasSuffix(k, "|mergeConfigs|field|ReplaceType") {
			inherited = false
			c.Fail("R13.4", "mergeConfigs|field|ReplaceType", o.Pos, "replace-type written at the top level or on a package is not inherited by more specific levels: "+o.Detail)
		}
	}
	if inherited {
		c.OK("R13.4", "mergeConfigs|field|ReplaceType", "config/config.go", "replace-type is inherited like every other Config field")
	}
}

func ruleAddVar(c *Ctx, r *Repo) {
	tp := r.Pkg("template")
	info := tp.TypesInfo
	fd := FuncDecl(tp, "MethodScope.AddVar")
	if fd == nil {
		c.Fail("R13.3", "AddVar|missing", "template/method_scope.go", "AddVar not found")
		return
	}
	c.Func(funcKey(tp, fd))
	ruleReplacementMemoKey(c, r, "R13.3")
	var repl types.Object
	for _, f := range fd.Type.Params.List {
		for _, n := range f.Names {
			if strings.HasSuffix(types.ExprString(f.Type), "ReplaceType") {
				repl = info.Defs[n]
			}
		}
	}
	var ifs *ast.IfStmt
	for _, s := range fd.Body.List {
		if x, ok := s.(*ast.IfStmt); ok {
			if be, ok := x.Cond.(*ast.BinaryExpr); ok && be.Op == token.NEQ {
				if id, ok := be.X.(*ast.Ident); ok && info.Uses[id] == repl && isNilIdent(info, be.Y) {
					ifs = x
				}
			}
		}
	}
	if ifs == nil || ifs.Else == nil {
		c.Fail("R13.3", "AddVar|arms", r.Pos(fd.Pos()), "AddVar does not branch on 'replacement != nil' with both arms")
		return
	}
	// replacement arm. The loading and lookup may live in a function of the package that the arm calls
	// with the replacement; then that function is the search region and its first two results are the
	// object and its package as AddVar sees them.
	var loadPkgs, object, objectPkg types.Object
	okLoad := false
	region := ast.Node(ifs.Body) // where the package is loaded and the object looked up
	regionFn := fd
	wantPath := "ARG3.PkgPath"
	var useObject, useObjectPkg types.Object // the same two values in AddVar's own scope
	ast.Inspect(ifs.Body, func(n ast.Node) bool {
		as, ok := n.(*ast.AssignStmt)
		if !ok || len(as.Rhs) != 1 || len(as.Lhs) < 2 {
			return true
		}
		call, ok := as.Rhs[0].(*ast.CallExpr)
		if !ok {
			return true
		}
		fn := calleeFunc(info, call)
		h := pkgFuncs(tp)[fn]
		if fn == nil || h == nil || h == fd {
			return true
		}
		loads := false
		ast.Inspect(h.Body, func(m ast.Node) bool {
			if c2, ok := m.(*ast.CallExpr); ok && calleeName(info, c2) == "golang.org/x/tools/go/packages.Load" {
				loads = true
			}
			return true
		})
		if !loads {
			return true
		}
		// which parameter receives the replacement
		i := 0
		for _, f := range h.Type.Params.List {
			for range f.Names {
				if i < len(call.Args) && isObj(info, call.Args[i], repl) {
					wantPath = fmt.Sprintf("ARG%d.PkgPath", i)
				}
				i++
			}
		}
		region, regionFn = h.Body, h
		if a, ok := as.Lhs[0].(*ast.Ident); ok {
			useObject = objOf(info, a)
		}
		if b, ok := as.Lhs[1].(*ast.Ident); ok {
			useObjectPkg = objOf(info, b)
		}
		return true
	})
	ast.Inspect(region, func(n ast.Node) bool {
		if as, ok := n.(*ast.AssignStmt); ok && len(as.Rhs) == 1 {
			if call, ok := as.Rhs[0].(*ast.CallExpr); ok && calleeName(info, call) == "golang.org/x/tools/go/packages.Load" && len(call.Args) == 2 {
				if newFuncCanon(info, regionFn).E(call.Args[1]) == wantPath {
					okLoad = true
					loadPkgs = objOf(info, as.Lhs[0].(*ast.Ident))
				}
			}
		}
		return true
	})
	c.Check(okLoad, "R13.3", "AddVar|load-replacement-package", r.Pos(ifs.Pos()), "loads replacement.PkgPath", "the replacement arm does not load the package named by replacement.PkgPath")
	// every assignment to the looked-up object
	okObj, nObj := true, 0
	ast.Inspect(region, func(n ast.Node) bool {
		rs, ok := n.(*ast.RangeStmt)
		if !ok {
			return true
		}
		if id, ok := rs.X.(*ast.Ident); !ok || info.Uses[id] != loadPkgs {
			return true
		}
		pv, _ := rs.Value.(*ast.Ident)
		for _, s := range rs.Body.List {
			if as, ok := s.(*ast.AssignStmt); ok && len(as.Lhs) == 1 && len(as.Rhs) == 1 {
				if call, ok := as.Rhs[0].(*ast.CallExpr); ok && calleeName(info, call) == "(go/types.Scope).Lookup" {
					nObj++
					object = info.Uses[as.Lhs[0].(*ast.Ident)]
					arg := types.ExprString(call.Args[0])
					recv := types.ExprString(call.Fun)
					if !strings.HasSuffix(arg, ".TypeName") || pv == nil || !strings.HasPrefix(recv, pv.Name+".Types.Scope()") {
						okObj = false
					}
				}
			}
			if x, ok := s.(*ast.IfStmt); ok {
				for _, b := range x.Body.List {
					if as, ok := b.(*ast.AssignStmt); ok && len(as.Lhs) == 1 {
						if rv, ok := as.Rhs[0].(*ast.Ident); ok && pv != nil && info.Uses[rv] == info.Defs[pv] {
							objectPkg = info.Uses[as.Lhs[0].(*ast.Ident)]
						}
					}
				}
			}
		}
		return true
	})
	// no other assignment to object anywhere in the function
	other := 0
	ast.Inspect(regionFn.Body, func(n ast.Node) bool {
		if as, ok := n.(*ast.AssignStmt); ok {
			for i, l := range as.Lhs {
				if id, ok := l.(*ast.Ident); ok && object != nil && info.Uses[id] == object {
					if len(as.Rhs) == len(as.Lhs) {
						if call, ok := as.Rhs[i].(*ast.CallExpr); ok && calleeName(info, call) == "(go/types.Scope).Lookup" {
							continue
						}
					}
					other++
				}
			}
		}
		return true
	})
	c.Check(okObj && nObj == 1 && other == 0, "R13.3", "AddVar|object-origin", r.Pos(ifs.Pos()), "the replacement object is Scope().Lookup(replacement.TypeName) of a loaded package, nothing else", "the object whose type replaces the parameter's type does not come exclusively from Scope().Lookup(replacement.TypeName) in the package loaded for replacement.PkgPath (e.g. a cache keyed by package path alone hands out the first type resolved in that package)")
	// miss is an error
	okMiss := false
	missList := ifs.Body.List
	if regionFn != fd {
		missList = regionFn.Body.List
		// the helper hands back exactly the object and package it found
		ast.Inspect(regionFn.Body, func(n ast.Node) bool {
			if rs, ok := n.(*ast.ReturnStmt); ok && len(rs.Results) == 3 && isNilIdent(info, rs.Results[2]) {
				if !isObj(info, rs.Results[0], object) || !isObj(info, rs.Results[1], objectPkg) {
					okObj = false
				}
			}
			return true
		})
	}
	for _, s := range missList {
		if x, ok := s.(*ast.IfStmt); ok {
			if be, ok := x.Cond.(*ast.BinaryExpr); ok && be.Op == token.EQL {
				if id, ok := be.X.(*ast.Ident); ok && info.Uses[id] == object && isNilIdent(info, be.Y) && returnsError(info, x.Body) {
					okMiss = true
				}
			}
		}
	}
	c.Check(okMiss, "R13.3", "AddVar|miss-is-error", r.Pos(ifs.Pos()), "unknown replacement type is an error", "a replacement type that does not exist is not reported as an error")
	// v = Var{typ: object.Type(), imports: imports}; addImport(ctx, objectPkg.Types, imports)
	okTyp, okImp := false, false
	if regionFn != fd {
		object, objectPkg = useObject, useObjectPkg
	}
	ast.Inspect(ifs.Body, func(n ast.Node) bool {
		switch x := n.(type) {
		case *ast.KeyValueExpr:
			if types.ExprString(x.Key) == "typ" {
				if call, ok := x.Value.(*ast.CallExpr); ok {
					if sel, ok := call.Fun.(*ast.SelectorExpr); ok && sel.Sel.Name == "Type" {
						if id, ok := sel.X.(*ast.Ident); ok && info.Uses[id] == object {
							okTyp = true
						}
					}
				}
			}
		case *ast.CallExpr:
			if fn := calleeFunc(info, x); fn != nil && fn.Name() == "addImport" && (len(x.Args) == 3 || len(x.Args) == 2) && fn.Type().(*types.Signature).Recv() != nil && strings.HasSuffix(fn.Type().(*types.Signature).Recv().Type().String(), "MethodScope") {
				if se, ok := x.Args[1].(*ast.SelectorExpr); ok && se.Sel.Name == "Types" {
					if id, ok := se.X.(*ast.Ident); ok && info.Uses[id] == objectPkg {
						okImp = true
					}
				}
			}
		}
		return true
	})
	nPop := 0
	ast.Inspect(ifs.Body, func(n ast.Node) bool {
		if call, ok := n.(*ast.CallExpr); ok {
			if fn := calleeFunc(info, call); fn != nil && fn.Name() == "populateImports" {
				nPop++
			}
		}
		return true
	})
	// the same two facts read off AddVar's paths: what the returned Var holds and which import calls ran. The
	// value is the same whether it is written as one literal per branch or built up field by field.
	pathRepl, pathPlain := false, false
	{
		paths, pd := enumerateFunc(info, fd)
		nRepl, nPlain := 0, 0
		okRepl, okPlain := !pd.overflow, !pd.overflow
		for _, q := range paths {
			if q.Exit != "return" || len(q.Ret) != 2 || q.Ret[1] != "nil" {
				continue
			}
			_, vals, isLit := splitStructLit(strings.TrimPrefix(q.Ret[0], "&"))
			noRepl, tested := q.atom("ARG3 == nil")
			if !isLit || !tested {
				okRepl, okPlain = false, false
				continue
			}
			adds := q.CallsTo("MethodScope).addImport")
			pops := q.CallsTo("MethodScope).populateImports")
			ownType := "ARG1.Type<(go/types.object).Type>()"
			if noRepl {
				nPlain++
				if !(vals["typ"] == ownType && len(pops) == 1 && len(pops[0].Args) == 2 && pops[0].Args[1] == ownType && vals["imports"] == "RECV.populateImports<(template.MethodScope).populateImports>(ARG0, "+ownType+")" && len(adds) == 0) {
					okPlain = false
				}
			} else {
				nRepl++
				if !(strings.HasSuffix(vals["typ"], ".Type<(go/types.Object).Type>()") && !strings.HasPrefix(vals["typ"], "ARG1.") && len(pops) == 0 && len(adds) == 1 && len(adds[0].Args) >= 2 && strings.HasSuffix(adds[0].Args[1], ".Types") &&
					(strings.HasPrefix(vals["imports"], "map[string]*Package{") || strings.HasPrefix(vals["imports"], "builtin.make(map[string]*Package"))) {
					okRepl = false
				}
			}
		}
		pathRepl, pathPlain = okRepl && nRepl > 0, okPlain && nPlain > 0
	}
	c.Check(okTyp && okImp && nPop == 0 || pathRepl, "R13.3", "AddVar|replacement-var", r.Pos(ifs.Pos()), "typ = replacement type; imports = its package only", "with a replacement the variable does not carry exactly the replacement's type and only the replacement package's import")
	// else arm
	okElse := false
	if eb, ok := ifs.Else.(*ast.BlockStmt); ok {
		fca := newFuncCanon(info, fd)
		isOwn := func(s string) bool {
			return strings.HasPrefix(s, "ARG1.Type<") && strings.HasSuffix(s, ".Type>()") && strings.Count(s, "<") == 1
		}
		popOK, typOK := false, false
		ast.Inspect(eb, func(n ast.Node) bool {
			switch x := n.(type) {
			case *ast.CallExpr:
				if fn := calleeFunc(info, x); fn != nil && fn.Name() == "populateImports" && len(x.Args) == 2 && isOwn(fca.E(x.Args[1])) {
					popOK = true
				}
			case *ast.KeyValueExpr:
				if types.ExprString(x.Key) == "typ" && isOwn(fca.E(x.Value)) {
					typOK = true
				}
			}
			return true
		})
		okElse = popOK && typOK
	}
	c.Check(okElse || pathPlain, "R13.3", "AddVar|plain-var", r.Pos(ifs.Pos()), "without a replacement: own type, imports from populateImports", "without a replacement the variable is not rendered with its own type and the imports collected from it")
}

var resAnnot = regexp.MustCompile(`<\([^<>]*\)[^<>]*>`)

// stripRes removes the "<(recv).Method>" resolution annotations of canonical strings.
func stripRes(s string) string { return resAnnot.ReplaceAllString(s, "") }

// ruleReplacementKey (R13.1): in each signature loop of methodData, on every path that reaches the
// GetReplacement call the key is (package path, name) of the parameter's own type when that type is
// *types.Named or *types.Alias (package path "" when the object has no package) and ("", "")
// otherwise, and the result is handed to AddVar together with that parameter. The key may be computed
// inline or by a function of the package, which is then held to the same contract.
func ruleReplacementKey(c *Ctx, r *Repo, ip *packages.Package, md *ast.FuncDecl) {
	info := ip.TypesInfo
	funcs := pkgFuncs(ip)
	isZero := func(s string) bool { return s == "zero" || s == `""` }
	// contract for one (T, atoms, pkgArg, nameArg)
	// anyAssert prints every assertion of T, whatever type it asserts, as T.(_): which view of the value
	// Obj() is called through does not matter once the path has established that T is named or an alias
	anyAssert := func(x, T string) string {
		var b strings.Builder
		for {
			i := strings.Index(x, T+".(")
			if i < 0 {
				b.WriteString(x)
				return b.String()
			}
			j, depth := i+len(T)+2, 1
			for j < len(x) && depth > 0 {
				switch x[j] {
				case '(':
					depth++
				case ')':
					depth--
				}
				j++
			}
			b.WriteString(x[:i] + T + ".(_)")
			x = x[j:]
		}
	}
	keyOK := func(p *dtPath, T, pkgArg, nameArg string) (bool, string) {
		named, hasN := false, false
		alias, hasA := false, false
		pkgNil := map[string]bool{}
		for _, a := range p.Atoms {
			e := stripRes(a.Expr)
			switch {
			case e == T+".(*types.Named)#ok":
				named, hasN = a.Val, true
			case e == T+".(*types.Alias)#ok":
				alias, hasA = a.Val, true
			case strings.HasSuffix(e, ".Obj().Pkg() == nil"):
				pkgNil[anyAssert(strings.TrimSuffix(e, ".Obj().Pkg() == nil"), T)] = a.Val
			case strings.HasSuffix(e, ".Obj() == nil") && a.Val:
				// go/types: a named or alias type always has its type name
				return true, ""
			}
		}
		pkgArg, nameArg = anyAssert(stripRes(pkgArg), T), anyAssert(stripRes(nameArg), T)
		for _, arm := range []struct {
			on bool
			x  string
		}{{hasN && named, T + ".(_)"}, {hasA && alias, T + ".(_)"}} {
			if !arm.on {
				continue
			}
			if nameArg != arm.x+".Obj().Name()" {
				return false, fmt.Sprintf("for a %s type the name key is %q, want %s.Obj().Name()", arm.x, nameArg, arm.x)
			}
			isNil, tested := pkgNil[arm.x]
			switch {
			case tested && isNil:
				if !isZero(pkgArg) {
					return false, fmt.Sprintf("for a %s type without a package the package-path key is %q, want \"\"", arm.x, pkgArg)
				}
			default:
				if pkgArg != arm.x+".Obj().Pkg().Path()" {
					return false, fmt.Sprintf("for a %s type the package-path key is %q, want %s.Obj().Pkg().Path()", arm.x, pkgArg, arm.x)
				}
			}
			return true, ""
		}
		if !(hasN && hasA) {
			return false, "the path does not test the parameter's own type for both *types.Named and *types.Alias: " + p.String()
		}
		if !isZero(pkgArg) || !isZero(nameArg) {
			return false, fmt.Sprintf("for a type that is neither named nor an alias the key is (%q, %q), want empty: the parameter would be looked up under a stale or foreign key", pkgArg, nameArg)
		}
		return true, ""
	}
	nLoops := 0
	ast.Inspect(md.Body, func(n ast.Node) bool {
		st, ok := n.(ast.Stmt)
		if !ok {
			return true
		}
		iv, bound, body, ok := indexLoopIn(info, md, st)
		if !ok {
			return true
		}
		fc := newFuncCanon(info, md)
		which := ""
		switch b := stripRes(fc.E(bound)); {
		case strings.HasSuffix(b, ".Params().Len()"):
			which = "params"
		case strings.HasSuffix(b, ".Results().Len()"):
			which = "results"
		default:
			return true
		}
		nLoops++
		d := newDT(info)
		// the lookup and the registration may sit in private helpers of methodData: their calls are followed
		d.callInline = map[*types.Func]*ast.FuncDecl{}
		for fn, g := range pkgUnexported(ip) {
			if g != md && !keyHelper(info, g) {
				d.callInline[fn] = g
			}
		}
		d.hoistCalls = true
		start := d.envBefore(seedEnv(d, md), md.Body.List, st)
		d.loopUnknown(start, st)
		start.env[iv] = "I"
		d.paths = nil
		d.stmts(start, body.List, func(p *dtPath) { d.finish(p, "end") })
		if d.overflow || len(d.paths) == 0 {
			c.Fail("R13.1", "methodData|"+which+"|paths", r.Pos(st.Pos()), "cannot enumerate the paths of the "+which+" loop")
			return false
		}
		nLookup := 0
		okOrigin, whyOrigin := true, ""
		okAdd, okOrder := true, true
		whyAdd := "the replacement found for a parameter is not handed to AddVar together with that same parameter"
		for _, p := range d.paths {
			adds := p.CallsTo("template.MethodScope).AddVar")
			grs := p.CallsTo("config.Config).GetReplacement")
			if len(adds) == 0 && len(grs) == 0 {
				continue
			}
			if len(adds) > 1 || len(grs) != 1 || len(grs[0].Args) != 2 || (len(adds) == 1 && len(adds[0].Args) != 4) {
				okAdd = false
				continue
			}
			nLookup++
			gr := grs[0]
			if gr.Recv != "ARG2" {
				// the lookup must be asked of the config methodData was given for this interface
				okAdd = false
				whyAdd = "the replacement is looked up in " + stripRes(gr.Recv) + ", not in the interface's own config (methodData's config parameter): replace-type set for one interface or config entry is ignored or leaks"
			}
			// the parameter: element I of the signature's tuple
			elem := "ARG1.Type().(*types.Signature)." + map[string]string{"params": "Params", "results": "Results"}[which] + "().At(I)"
			T := elem + ".Type()"
			pkgArg, nameArg := gr.Args[0], gr.Args[1]
			if i := strings.Index(pkgArg, "("); i > 0 && strings.HasSuffix(pkgArg, "#0") && strings.HasSuffix(nameArg, "#1") && pkgArg[:len(pkgArg)-2] == nameArg[:len(nameArg)-2] {
				// both keys come from one call: hold the callee to the contract
				var helper *ast.FuncDecl
				for fn, fd := range funcs {
					if strings.HasPrefix(pkgArg, "internal."+fn.Name()+"(") && fd.Recv == nil {
						helper = fd
					}
				}
				if helper == nil || stripRes(pkgArg) != "internal."+helper.Name.Name+"("+T+")#0" {
					okOrigin, whyOrigin = false, "the key comes from "+stripRes(pkgArg)+", which is not a function of this package applied to the parameter's own type"
					continue
				}
				c.Func(funcKey(ip, helper))
				hd := newDT(info)
				hstart := seedEnv(hd, helper)
				if helper.Type.Results != nil {
					for _, f := range helper.Type.Results.List {
						for _, n := range f.Names {
							hstart.env[info.Defs[n]] = "zero"
						}
					}
				}
				hd.paths = nil
				hd.stmts(hstart, helper.Body.List, func(p *dtPath) { hd.finish(p, "end") })
				for _, hp := range hd.paths {
					if hp.Exit != "return" || (len(hp.Ret) != 2 && len(hp.Ret) != 0) {
						okOrigin, whyOrigin = false, "a path of "+helper.Name.Name+" does not return the key pair"
						continue
					}
					ret := hp.Ret
					if len(ret) == 0 { // bare return with named results
						ret = nil
						for _, f := range helper.Type.Results.List {
							for _, n := range f.Names {
								ret = append(ret, hp.env[info.Defs[n]])
							}
						}
					}
					if ok, why := keyOK(hp, "ARG0", ret[0], ret[1]); !ok {
						okOrigin, whyOrigin = false, helper.Name.Name+": "+why
					}
				}
			} else if ok, why := keyOK(p, T, pkgArg, nameArg); !ok {
				okOrigin, whyOrigin = false, why
			}
			if len(adds) == 1 {
				a := adds[0]
				if stripRes(a.Args[1]) != elem || !strings.Contains(a.Args[3], ".GetReplacement<") || !strings.HasSuffix(stripRes(a.Args[3]), ".GetReplacement("+stripRes(gr.Args[0])+", "+stripRes(gr.Args[1])+")") {
					okAdd = false
				}
			}
			_ = okOrder
		}
		c.Check(nLookup > 0, "R13.1", "methodData|"+which+"|no-lookup", r.Pos(st.Pos()), "a replacement is looked up for every element", "the "+which+" loop does not look up a replacement")
		c.Check(okOrigin, "R13.1", "methodData|"+which+"|key-origin", r.Pos(st.Pos()), "key = (Obj().Pkg().Path(), Obj().Name()) of the element's own type for exactly Named and Alias types, empty otherwise", "in the "+which+" loop the lookup key is wrong: "+whyOrigin)
		c.Check(okAdd, "R13.1", "methodData|"+which+"|addvar", r.Pos(st.Pos()), "AddVar(element, replacement-of-that-element looked up in the interface's config)", whyAdd)
		return false
	})
	if nLoops != 2 {
		c.Fail("R13.1", "methodData|loops", r.Pos(md.Pos()), fmt.Sprintf("%d signature loops found, want 2", nLoops))
	}
	// every caller hands methodData the config of the interface it is rendering
	nCalls := 0
	judged := map[*ast.CallExpr]bool{}
	judge := func(fc *fcanon, n ast.Node) {
		call, ok := n.(*ast.CallExpr)
		if !ok || len(call.Args) != 3 || funcs[calleeFunc(info, call)] != md || judged[call] {
			return
		}
		judged[call] = true
		nCalls++
		cx := fc.E(call.Args[2])
		good := false
		if se, ok := ast.Unparen(call.Args[2]).(*ast.SelectorExpr); ok && se.Sel.Name == "Config" && typeIs(info.TypeOf(se.X), "*config.Interface") {
			good = strings.HasPrefix(cx, "rangeval(ARG") && strings.HasSuffix(cx, ").Config")
		}
		c.Check(good, "R13.1", "methodData|addvar|caller-config", r.Pos(call.Pos()), "methodData receives <the interface being rendered>.Config", "methodData is called with "+cx+" instead of the Config of the interface being rendered: replace-type (and every other per-interface setting it consults) set on the interface or a configs entry is ignored")
	}
	// seen from Generate first (the call may sit in a helper that is handed the interface being rendered),
	// then any call site not reached that way, in its own terms
	if gen := FuncDecl(ip, "TemplateGenerator.Generate"); gen != nil {
		inspectWithHelpers(ip, gen, newFuncCanon(info, gen), 3, func(fc *fcanon, _ *ast.FuncDecl, n ast.Node) bool {
			judge(fc, n)
			return true
		})
	}
	for _, fd := range pkgFuncDecls(ip) {
		fc := newFuncCanon(info, fd)
		ast.Inspect(fd.Body, func(n ast.Node) bool {
			judge(fc, n)
			return true
		})
	}
	if nCalls == 0 {
		c.Fail("R13.1", "methodData|addvar|caller-config", r.Pos(md.Pos()), "methodData is never called")
	}
}

// keyHelper: a plain function from one types.Type to the (package path, name) pair: held to the key contract
// as a whole (ruleReplacementKey), not followed.
func keyHelper(info *types.Info, g *ast.FuncDecl) bool {
	if g.Recv != nil || g.Type.Params.NumFields() != 1 || g.Type.Results == nil || g.Type.Results.NumFields() != 2 {
		return false
	}
	return typeIs(info.TypeOf(g.Type.Params.List[0].Type), "go/types.Type")
}

// ruleReplacementMemoKey: whatever AddVar (or a helper it calls) remembers about a resolved replacement is a
// function of the replacement, so a map it stores into on the replacement arm is keyed by both
// replacement.PkgPath and replacement.TypeName (or by the ReplaceType value itself). A memo keyed by the type
// being replaced hands the first mock's replacement to every later mock of the output file that replaces the
// same type with something else (round 7: a configs-entry override lost to the package-level setting).
func ruleReplacementMemoKey(c *Ctx, r *Repo, rule string) {
	tp := r.Pkg("template")
	if tp == nil {
		return
	}
	info := tp.TypesInfo
	fd := FuncDecl(tp, "MethodScope.AddVar")
	if fd == nil {
		return
	}
	n := 0
	for _, g := range familyOf(tp, fd) {
		var repl types.Object
		for _, f := range g.Type.Params.List {
			for _, nm := range f.Names {
				if strings.HasSuffix(types.ExprString(f.Type), "ReplaceType") {
					repl = info.Defs[nm]
				}
			}
		}
		if repl == nil {
			continue
		}
		// single-definition locals, to read a key through `cacheKey := ...`
		defs := map[types.Object]ast.Expr{}
		ndef := map[types.Object]int{}
		ast.Inspect(g.Body, func(x ast.Node) bool {
			if as, ok := x.(*ast.AssignStmt); ok && len(as.Lhs) == len(as.Rhs) {
				for i, l := range as.Lhs {
					if id, ok := l.(*ast.Ident); ok {
						o := info.Defs[id]
						if o == nil {
							o = info.Uses[id]
						}
						if o != nil {
							defs[o] = as.Rhs[i]
							ndef[o]++
						}
					}
				}
			}
			return true
		})
		mentions := func(e ast.Expr) (pkg, name, whole bool) {
			var walk func(e ast.Node, depth int)
			walk = func(e ast.Node, depth int) {
				ast.Inspect(e, func(m ast.Node) bool {
					switch y := m.(type) {
					case *ast.SelectorExpr:
						if id, ok := ast.Unparen(y.X).(*ast.Ident); ok && info.Uses[id] == repl {
							switch y.Sel.Name {
							case "PkgPath":
								pkg = true
							case "TypeName":
								name = true
							}
						}
					case *ast.StarExpr:
						if id, ok := ast.Unparen(y.X).(*ast.Ident); ok && info.Uses[id] == repl {
							whole = true
						}
					case *ast.Ident:
						if o := info.Uses[y]; o != nil && o != repl && ndef[o] == 1 && depth < 3 {
							walk(defs[o], depth+1)
						}
					}
					return true
				})
			}
			walk(e, 0)
			return
		}
		ast.Inspect(g.Body, func(x ast.Node) bool {
			as, ok := x.(*ast.AssignStmt)
			if !ok {
				return true
			}
			for _, l := range as.Lhs {
				ie, ok := ast.Unparen(l).(*ast.IndexExpr)
				if !ok {
					continue
				}
				if _, isMap := info.TypeOf(ie.X).Underlying().(*types.Map); !isMap {
					continue
				}
				if _, isSel := ast.Unparen(ie.X).(*ast.SelectorExpr); !isSel {
					continue // a local map lives for one call only
				}
				n++
				pkg, name, whole := mentions(ie.Index)
				c.Check(whole || pkg && name, rule, "AddVar|memo-key|"+types.ExprString(ie.X), r.Pos(as.Pos()), "what is remembered about a replacement is keyed by the replacement", fmt.Sprintf("%s stores into %s under the key %s, which does not contain both replacement.PkgPath and replacement.TypeName: a later variable with the same key and a different replacement (another mock of the same output file, configured differently) is given the remembered one", g.Name.Name, types.ExprString(ie.X), types.ExprString(ie.Index)))
			}
			return true
		})
	}
	if n == 0 {
		c.OK(rule, "AddVar|memo-key|none", r.Pos(fd.Pos()), "AddVar keeps no memo of resolved replacements")
	}
}
