package main

// Error discipline on paths: in every loop-free region (function body, loop
// body, function literal body) a path that observes a non-nil error must end
// in a failing exit.

import (
	"fmt"
	"go/ast"
	"go/constant"
	"go/token"
	"go/types"
	"regexp"
	"strings"

	"golang.org/x/tools/go/packages"
)

type region struct {
	kind string // func | loop | funclit
	list []ast.Stmt
	pos  ast.Node
}

// regionsOf splits a function into loop-free regions.
func regionsOf(fd *ast.FuncDecl) []region {
	out := []region{{"func", fd.Body.List, fd}}
	ast.Inspect(fd.Body, func(n ast.Node) bool {
		switch x := n.(type) {
		case *ast.ForStmt:
			out = append(out, region{"loop", x.Body.List, x})
		case *ast.RangeStmt:
			out = append(out, region{"loop", x.Body.List, x})
		case *ast.FuncLit:
			out = append(out, region{"funclit", x.Body.List, x})
		}
		return true
	})
	return out
}

func returnsErrorLast(info *types.Info, ft *ast.FuncType) bool {
	if ft.Results == nil || len(ft.Results.List) == 0 {
		return false
	}
	last := ft.Results.List[len(ft.Results.List)-1]
	t := info.TypeOf(last.Type)
	return t != nil && types.Identical(t, types.Universe.Lookup("error").Type())
}

// failingExit: does the path end in a way that reports failure?
func failingExit(info *types.Info, p *dtPath, errLast bool) bool {
	switch p.Exit {
	case "panic":
		return true
	case "return":
		if errLast && len(p.Ret) > 0 && p.Ret[len(p.Ret)-1] != "nil" {
			return true
		}
	}
	for _, c := range p.Calls {
		if c.Name == "os.Exit" && len(c.Args) == 1 && c.Args[0] != "0" {
			return true
		}
		if strings.HasSuffix(c.Name, "zerolog.Logger).Fatal") || strings.HasSuffix(c.Name, "internal/cmd.logFatalErr") || strings.HasSuffix(c.Name, "cmd.maybeExit") {
			return true
		}
	}
	return false
}

// errorPaths checks one function; allowed maps "<funcKey>|<atom>" to a reason.
func errorPaths(c *Ctx, r *Repo, rule string, p *packages.Package, fd *ast.FuncDecl, allowed map[string]string) (nPaths int) {
	info := p.TypesInfo
	fk := funcKey(p, fd)
	// functions that never compare an error with nil have no error paths
	hasErrCmp := false
	ast.Inspect(fd.Body, func(n ast.Node) bool {
		if be, ok := n.(*ast.BinaryExpr); ok {
			for _, side := range [][2]ast.Expr{{be.X, be.Y}, {be.Y, be.X}} {
				if isNilIdent(info, side[1]) {
					if t := info.TypeOf(side[0]); t != nil && types.Identical(t, types.Universe.Lookup("error").Type()) {
						hasErrCmp = true
					}
				}
			}
		}
		return true
	})
	if !hasErrCmp {
		return 0
	}
	for _, rg := range regionsOf(fd) {
		d := newDT(info)
		d.paths = nil
		start := seedEnv(d, fd)
		d.stmts(start, rg.list, func(q *dtPath) { d.finish(q, "end") })
		if d.overflow {
			c.Fail(rule, fk+"|path-explosion", r.Pos(rg.pos.Pos()), "too many paths to enumerate in "+fk+" (undecided)")
			continue
		}
		ft := fd.Type
		if fl, ok := rg.pos.(*ast.FuncLit); ok {
			ft = fl.Type
		}
		errLast := returnsErrorLast(info, ft)
		for _, q := range d.paths {
			nPaths++
			var seen *dtAtom
			for i := range q.Atoms {
				if q.Atoms[i].Err && !q.Atoms[i].Val {
					seen = &q.Atoms[i]
				}
			}
			if seen == nil {
				continue
			}
			key := fk + "|" + seen.Expr
			for _, owner := range ownerChain(p, fd) {
				if _, ok := allowed[owner+"|"+seen.Expr]; ok {
					key = owner + "|" + seen.Expr
					break
				}
			}
			if _, ok := allowed[key]; !ok {
				// the same operation seen from inside a private helper of the owner: what was a field of the
				// owner's parameter (ARG1.FileName) is the helper's own parameter (ARG1)
				for _, owner := range ownerChain(p, fd)[1:] {
					for k := range allowed {
						if strings.HasPrefix(k, owner+"|") && argAbstract(strings.TrimPrefix(k, owner+"|")) == argAbstract(seen.Expr) {
							key = k
						}
					}
				}
			}
			if _, ok := allowed[key]; !ok {
				// an entry "callee:<resolved callee>" admits the error of that one library call wherever it is made
				// and whatever it is applied to (a loop variable, an element of a table, a helper's parameter)
				for k := range allowed {
					if cal, isC := strings.CutPrefix(k, "callee:"); isC && strings.Contains(seen.Expr, "<"+cal+">(") && strings.HasSuffix(seen.Expr, " == nil") && !strings.Contains(seen.Expr, "#") {
						key = k
					}
				}
			}
			if why, ok := allowed[key]; ok {
				c.OK(rule, key, r.Pos(seen.Pos), "allowed fallback: "+why)
				continue
			}
			if failingExit(info, q, errLast) {
				c.OK(rule, key, r.Pos(seen.Pos), "error leads to a failing exit")
			} else {
				c.Fail(rule, key, r.Pos(seen.Pos), fmt.Sprintf("in %s a path observes a non-nil error (%s) and then continues or reports success (exit=%s %v): the failure is swallowed", fk, seen.Expr, q.Exit, q.Ret))
			}
		}
	}
	return
}

// discardedErrors: call statements whose error result is dropped.
func discardedErrors(c *Ctx, r *Repo, rule string, p *packages.Package, allowed map[string]string) {
	info := p.TypesInfo
	errT := types.Universe.Lookup("error").Type()
	retErr := func(call *ast.CallExpr) bool {
		t := info.TypeOf(call)
		switch x := t.(type) {
		case nil:
			return false
		case *types.Tuple:
			return x.Len() > 0 && types.Identical(x.At(x.Len()-1).Type(), errT)
		default:
			return types.Identical(t, errT)
		}
	}
	for _, f := range p.Syntax {
		for _, d := range f.Decls {
			fd, ok := d.(*ast.FuncDecl)
			if !ok || fd.Body == nil {
				continue
			}
			fk := funcKey(p, fd)
			chain := ownerChain(p, fd)
			report := func(call *ast.CallExpr, how string) {
				name := strings.ReplaceAll(calleeName(info, call), modPath+"/", "")
				switch name {
				case "fmt.Print", "fmt.Printf", "fmt.Println", "fmt.Fprint", "fmt.Fprintf", "fmt.Fprintln":
					return // console output
				}
				if strings.HasPrefix(name, "(strings.Builder).Write") || strings.HasPrefix(name, "(bytes.Buffer).Write") {
					return // documented to always return a nil error
				}
				if name == "" {
					name = types.ExprString(call.Fun)
				}
				key := fk + "|" + how + "|" + name
				for _, owner := range chain {
					if _, ok := allowed[owner+"|"+how+"|"+name]; ok {
						key = owner + "|" + how + "|" + name
						break
					}
				}
				if why, ok := allowed[key]; ok {
					c.OK(rule, key, r.Pos(call.Pos()), "accepted idiom: "+why)
					return
				}
				// a helper shared by several functions: accepted when it is accepted for every one of them
				if callers := callersOf(p, fd); len(callers) > 1 {
					all := true
					for _, g := range callers {
						hit := false
						for _, owner := range ownerChain(p, g) {
							if _, ok := allowed[owner+"|"+how+"|"+name]; ok {
								hit = true
							}
						}
						all = all && hit
					}
					if all {
						c.OK(rule, key, r.Pos(call.Pos()), "accepted idiom for every caller of the shared helper")
						return
					}
				}
				c.Fail(rule, key, r.Pos(call.Pos()), fmt.Sprintf("%s %s the error returned by %s", fk, how, name))
			}
			ast.Inspect(fd.Body, func(n ast.Node) bool {
				switch x := n.(type) {
				case *ast.ExprStmt:
					if call, ok := x.X.(*ast.CallExpr); ok && retErr(call) {
						report(call, "discards")
					}
				case *ast.DeferStmt:
					if retErr(x.Call) {
						report(x.Call, "defers-and-discards")
					}
				case *ast.GoStmt:
					if retErr(x.Call) {
						report(x.Call, "discards")
					}
				case *ast.AssignStmt:
					if len(x.Rhs) == 1 {
						if call, ok := x.Rhs[0].(*ast.CallExpr); ok && retErr(call) {
							if id, ok := x.Lhs[len(x.Lhs)-1].(*ast.Ident); ok && id.Name == "_" {
								report(call, "blanks")
							}
						}
					}
				}
				return true
			})
		}
	}
}

func constInt(info *types.Info, e ast.Expr) (int64, bool) {
	tv := info.Types[e]
	if tv.Value == nil || tv.Value.Kind() != constant.Int {
		return 0, false
	}
	v, ok := constant.Int64Val(tv.Value)
	return v, ok
}

// unexaminedErrors: an error result that is bound to a variable must be looked at (compared,
// returned, passed on) on every path that follows the call inside its loop-free region. A path on
// which the variable is simply not consulted treats a failed call as a successful one.
// allowed maps "<funcKey>|unexamined-error|<callee>" to a reason.
func unexaminedErrors(c *Ctx, r *Repo, rule string, p *packages.Package, fd *ast.FuncDecl, allowed map[string]string) {
	info := p.TypesInfo
	fk := funcKey(p, fd)
	errT := types.Universe.Lookup("error").Type()
	type bound struct {
		idx, total int
		obj        types.Object
	}
	bind := map[token.Pos]bound{}
	note := func(lhs []ast.Expr, rhs ast.Expr) {
		call, ok := ast.Unparen(rhs).(*ast.CallExpr)
		if !ok {
			return
		}
		total := 1
		last := info.TypeOf(call)
		if tup, ok := last.(*types.Tuple); ok {
			total = tup.Len()
			if total == 0 {
				return
			}
			last = tup.At(total - 1).Type()
		}
		if last == nil || !types.Identical(last, errT) || len(lhs) != total {
			return
		}
		id, ok := lhs[total-1].(*ast.Ident)
		if !ok || id.Name == "_" {
			return
		}
		bind[call.End()] = bound{total - 1, total, objOf(info, id)}
	}
	ast.Inspect(fd.Body, func(n ast.Node) bool {
		switch x := n.(type) {
		case *ast.AssignStmt:
			if len(x.Rhs) == 1 {
				note(x.Lhs, x.Rhs[0])
			}
		case *ast.ValueSpec:
			if len(x.Values) == 1 {
				var l []ast.Expr
				for _, n := range x.Names {
					l = append(l, n)
				}
				note(l, x.Values[0])
			}
		}
		return true
	})
	if len(bind) == 0 {
		return
	}
	named := map[types.Object]bool{}
	if fd.Type.Results != nil {
		for _, f := range fd.Type.Results.List {
			for _, n := range f.Names {
				named[info.Defs[n]] = true
			}
		}
	}
	reported := map[string]bool{}
	regions := regionsOf(fd)
	// is pos inside a loop or function literal nested in the region (analysed as a region of its own)?
	nested := func(rg region, pos token.Pos) bool {
		for _, other := range regions {
			if other.pos == rg.pos || other.kind == "func" {
				continue
			}
			if other.pos.Pos() > rg.pos.Pos() && other.pos.End() <= rg.pos.End() || rg.kind == "func" {
				if pos >= other.pos.Pos() && pos < other.pos.End() {
					return true
				}
			}
		}
		return false
	}
	for _, rg := range regions {
		d := newDT(info)
		d.paths = nil
		d.stmts(seedEnv(d, fd), rg.list, func(q *dtPath) { d.finish(q, "end") })
		if d.overflow {
			c.Fail(rule, fk+"|path-explosion", r.Pos(rg.pos.Pos()), "too many paths to enumerate in "+fk+" (undecided)")
			continue
		}
		for _, q := range d.paths {
			for _, dc := range q.Calls {
				b, ok := bind[dc.End]
				if !ok || dc.Step >= len(q.Steps) || nested(rg, dc.Pos) {
					continue
				}
				e := strings.TrimPrefix(q.Steps[dc.Step], "call ")
				if b.total > 1 {
					e += fmt.Sprintf("#%d", b.idx)
				}
				examined := named[b.obj] && q.Exit == "return" && len(q.Ret) == 0
				for _, a := range q.Atoms {
					if a.Step > dc.Step && strings.Contains(a.Expr, e) {
						examined = true
					}
				}
				for _, st := range q.Steps[dc.Step+1:] {
					if strings.Contains(st, e) {
						examined = true
					}
				}
				for _, rt := range q.Ret {
					if strings.Contains(rt, e) {
						examined = true
					}
				}
				key := fk + "|unexamined-error|" + dc.Name
				switch {
				case examined:
					if !reported[key+"ok"] {
						reported[key+"ok"] = true
						c.OK(rule, key, r.Pos(dc.Pos), "examined on every path")
					}
				case allowed[key] != "":
					if !reported[key] {
						reported[key] = true
						c.OK(rule, key, r.Pos(dc.Pos), "reviewed: "+allowed[key])
					}
				default:
					if !reported[key] {
						reported[key] = true
						c.Fail(rule, key, r.Pos(dc.Pos), fmt.Sprintf("in %s the error returned by %s is bound to a variable but not consulted on the path %s: a failed call is treated like a successful one there", fk, dc.Name, q.String()))
					}
				}
			}
		}
	}
}

var argPathRe = regexp.MustCompile(`\bARG\d+(\.[A-Za-z_]\w*)*`)

// argAbstract prints every parameter (and field path of a parameter) as ARG.
func argAbstract(s string) string { return argPathRe.ReplaceAllString(s, "ARG") }

// callersOf: the functions of the package that refer to the unexported function fd (nil for exported ones).
func callersOf(p *packages.Package, fd *ast.FuncDecl) []*ast.FuncDecl {
	fn, _ := p.TypesInfo.Defs[fd.Name].(*types.Func)
	if fn == nil || fn.Exported() {
		return nil
	}
	var out []*ast.FuncDecl
	for _, g := range pkgFuncDecls(p) {
		if g == fd {
			continue
		}
		found := false
		ast.Inspect(g.Body, func(n ast.Node) bool {
			if id, ok := n.(*ast.Ident); ok && p.TypesInfo.Uses[id] == fn {
				found = true
			}
			return !found
		})
		if found {
			out = append(out, g)
		}
	}
	return out
}
