package main

import (
	"fmt"
	"go/ast"
	"go/build"
	"go/types"
	"io"
	"regexp"
	"strings"

	"golang.org/x/tools/go/packages"
)

func init() { register("C17", checkC17) }

var reGenerated = regexp.MustCompile(`^// Code generated .* DO NOT EDIT\.$`)

// matchFile asks go/build whether a file with this content is included under the tags.
func matchFile(src string, tags []string) (bool, error) {
	ctx := build.Default
	ctx.BuildTags = tags
	ctx.CgoEnabled = false
	ctx.OpenFile = func(path string) (io.ReadCloser, error) { return io.NopCloser(strings.NewReader(src)), nil }
	return ctx.MatchFile("/skeleton", "mock_skeleton.go")
}

func checkC17(c *Ctx) {
	c.Explanation = `Header rules on every path of both built-in templates through the header region (engine T, header mode: every combination of boilerplate-file set/unset, boilerplate text with/without trailing newline, mock-build-tags set/unset, both placements):
R17.1 the first line of the output is template text matching '// Code generated .* DO NOT EDIT.' and nothing (no hole) precedes it;
R17.2 the skeleton parses and everything before the package clause is comment or blank;
R17.3 with mock-build-tags set, go/build's own header rule (build.Context.MatchFile on the skeleton text) includes the file iff the expression is satisfied (checked for a satisfying and two falsifying tag sets) and the expression is emitted raw (no function applied); without it the file is always included;
R17.4 the boilerplate is emitted verbatim: the hole is 'index .TemplateData "boilerplate-file" | readFile' with no further function, starts at the beginning of a line and ends at the end of a line, and it precedes the package clause; template_funcs.ReadFile returns string(os.ReadFile(path)) unchanged and propagates the error; FuncMap["readFile"] is ReadFile;
R17.5 the header regions of the two templates are identical up to the template's own name;
R17.7 the header survives every formatter: every imports.Options value written in the generator package sets Comments: true (go/format.Source and a nil *Options always keep comments), and every library formatter call reachable from TemplateGenerator.format is applied to the rendered bytes.`
	c.NotDecided = "that gofmt/goimports keep the header where the template put it (library behaviour); arbitrary boilerplate texts (only comment-only text is modelled, with and without a trailing newline)."
	c.Assumptions = []string{"go/build.Context.MatchFile implements the toolchain's build-constraint header rule", "boilerplate text is comment-only"}
	c.Rule("R17.0", 10, "")
	c.Rule("R17.1", 10, "")
	c.Rule("R17.2", 10, "")
	c.Rule("R17.3", 10, "")
	c.Rule("R17.4", 8, "")
	c.Rule("R17.5", 6, "")
	c.Rule("R17.7", 2, "")

	headers := map[string]map[string]string{} // env -> template -> header
	for _, name := range []string{"testify", "matryer"} {
		tname := name
		walkTemplate(c, name, "header", func(p *TPath) {
			env := " [" + p.Env() + "]"
			switch {
			case p.Err != nil:
				c.Fail("R17.0", tname+"|eval|"+p.Err.err.Error(), p.E.nodePos(p.Err.node), "template path cannot be evaluated: "+p.Err.err.Error()+env)
				return
			case p.ParseEr != nil:
				c.Fail("R17.2", tname+"|parse", "internal/mock_"+tname+".templ", "output does not parse (something before the package clause is neither comment nor blank, or a later syntax error): "+p.ParseEr.Error()+env)
				return
			}
			c.OK("R17.0", tname, "", "")
			c.OK("R17.2", tname, "", "parses; package clause at offset "+fmt.Sprint(p.Fset.Position(p.File.Package).Offset))
			pkgOff := p.Fset.Position(p.File.Package).Offset
			header := p.Src[:pkgOff]
			// R17.1
			first := strings.SplitN(p.Src, "\n", 2)[0]
			fromText := len(p.E.emits) > 0 && p.E.emits[0].H == nil && p.E.emits[0].End >= len(first)
			if reGenerated.MatchString(first) && fromText {
				c.OK("R17.1", tname, "", first)
			} else {
				c.Fail("R17.1", tname+"|marker", "internal/mock_"+tname+".templ:1", fmt.Sprintf("first output line %q is not a fixed '// Code generated ... DO NOT EDIT.' line%s", first, env))
			}
			// R17.3
			tags := p.E.Flag("file", "mock-build-tags")
			type tc struct {
				tags []string
				want bool
			}
			cases := []tc{{nil, true}, {[]string{"tagx"}, true}, {[]string{"tagx", "tagy"}, true}}
			if tags {
				cases = []tc{{nil, false}, {[]string{"tagx"}, true}, {[]string{"tagx", "tagy"}, false}}
			}
			okBuild := true
			for _, k := range cases {
				got, err := matchFile(p.Src, k.tags)
				if err != nil || got != k.want {
					okBuild = false
					c.Fail("R17.3", tname+"|constraint-ineffective", "internal/mock_"+tname+".templ", fmt.Sprintf("with mock-build-tags set=%v go/build includes the file=%v under tags %v (want %v, err=%v): the constraint is not effective%s", tags, got, k.tags, k.want, err, env))
					break
				}
			}
			if tags {
				raw := false
				for _, em := range p.E.emits {
					if em.H != nil && em.H.Elem == "tdata:file" && strings.Contains(em.H.Expr, "mock-build-tags") {
						raw = em.H.Expr == "tdata.mock-build-tags" && em.End <= pkgOff
					}
				}
				if !raw {
					okBuild = false
					c.Fail("R17.3", tname+"|constraint-not-raw", "internal/mock_"+tname+".templ", "the mock-build-tags expression is not emitted raw before the package clause"+env)
				}
			}
			if okBuild {
				c.OK("R17.3", tname, "", fmt.Sprintf("tags set=%v", tags))
			}
			// R17.4
			if p.E.Flag("file", "boilerplate-file") {
				var em *Emit
				for i := range p.E.emits {
					if h := p.E.emits[i].H; h != nil && strings.Contains(h.Expr, "boilerplate-file") {
						em = &p.E.emits[i]
					}
				}
				switch {
				case em == nil:
					c.Fail("R17.4", tname+"|boilerplate-missing", "internal/mock_"+tname+".templ", "boilerplate-file is set but its content is not emitted"+env)
				case em.H.Expr != "readFile(tdata.boilerplate-file)":
					c.Fail("R17.4", tname+"|boilerplate-pipeline", p.E.nodePos(em.Node), "boilerplate is emitted through "+em.H.Expr+", want exactly index .TemplateData \"boilerplate-file\" | readFile"+env)
				case em.End > pkgOff:
					c.Fail("R17.4", tname+"|boilerplate-after-package", p.E.nodePos(em.Node), "boilerplate is emitted after the package clause"+env)
				case em.Start > 0 && p.Src[em.Start-1] != '\n':
					c.Fail("R17.4", tname+"|boilerplate-line-start", p.E.nodePos(em.Node), fmt.Sprintf("boilerplate does not start on its own line (it follows %q)%s", lastLine(p.Src[:em.Start]), env))
				case !strings.HasSuffix(em.H.Text, "\n") && em.End < len(p.Src) && p.Src[em.End] != '\n':
					c.Fail("R17.4", tname+"|boilerplate-line-end", p.E.nodePos(em.Node), "text follows the boilerplate on its last line"+env)
				default:
					c.OK("R17.4", tname, "", "verbatim, own lines")
				}
			}
			// for R17.5
			k := fmt.Sprintf("out=%v|%v", p.Shape.OutPkg, flagKey(p))
			if headers[k] == nil {
				headers[k] = map[string]string{}
			}
			headers[k][tname] = strings.ReplaceAll(header, tname, "<template>")
		})
	}
	for k, m := range headers {
		if len(m) == 2 {
			if m["testify"] == m["matryer"] {
				c.OK("R17.5", "header-siblings", "", k)
			} else {
				c.Fail("R17.5", "header-siblings-differ", "internal/mock_testify.templ:1", fmt.Sprintf("the header regions of the two built-in templates differ for %s:\n--- testify\n%s\n--- matryer\n%s", k, m["testify"], m["matryer"]))
			}
		}
	}
	checkReadFile(c)
	configResolutionGuard(c, "R17.6")
}

func flagKey(p *TPath) string {
	return fmt.Sprintf("bp=%v,nl=%v,tags=%v", p.E.Flag("file", "boilerplate-file"), p.E.keyed["boilerplate-trailing-newline"], p.E.Flag("file", "mock-build-tags"))
}

func lastLine(s string) string {
	if i := strings.LastIndex(s, "\n"); i >= 0 {
		return s[i+1:]
	}
	return s
}

// checkReadFile: the Go side of R17.4.
func checkReadFile(c *Ctx) {
	r := loadRepo(c, packages.LoadSyntax, "", "./template_funcs", "./internal")
	ruleFormattersKeepComments(c, r, "R17.7")
	ruleRenderedBytesOwnership(c, loadRepo(c, packages.LoadSyntax, "", "./internal", "./internal/cmd"), "R17.7")
	p := r.Pkg("template_funcs")
	fd := FuncDecl(p, "ReadFile")
	if fd == nil {
		c.Fail("R17.4", "ReadFile|missing", "template_funcs", "template_funcs.ReadFile not found")
		return
	}
	c.Func("template_funcs.ReadFile")
	info := p.TypesInfo
	// FuncMap["readFile"] == ReadFile
	if e := funcMapEntry(p, "readFile"); e == nil {
		c.Fail("R17.4", "FuncMap|readFile-missing", "template_funcs/funcmap.go", "FuncMap has no readFile entry")
	} else if id, ok := e.(*ast.Ident); !ok || info.Uses[id] != info.Defs[fd.Name] {
		c.Fail("R17.4", "FuncMap|readFile-target", r.Pos(e.Pos()), "FuncMap[\"readFile\"] is not template_funcs.ReadFile")
	} else {
		c.OK("R17.4", "FuncMap|readFile", r.Pos(e.Pos()), "readFile -> ReadFile")
	}
	if fd.Type.Params.NumFields() != 1 || fd.Type.Results.NumFields() != 2 {
		c.Fail("R17.4", "ReadFile|signature", r.Pos(fd.Pos()), "ReadFile is not func(path string) (string, error)")
		return
	}
	pathObj := info.Defs[fd.Type.Params.List[0].Names[0]]
	// locate bytes, err := os.ReadFile(path)
	var bytesObj, errObj types.Object
	ast.Inspect(fd.Body, func(n ast.Node) bool {
		as, ok := n.(*ast.AssignStmt)
		if !ok || len(as.Lhs) != 2 || len(as.Rhs) != 1 {
			return true
		}
		call, ok := as.Rhs[0].(*ast.CallExpr)
		if !ok || len(call.Args) != 1 {
			return true
		}
		fn := calleeFunc(info, call)
		if fn == nil || fn.FullName() != "os.ReadFile" {
			return true
		}
		if id, ok := call.Args[0].(*ast.Ident); !ok || info.Uses[id] != pathObj {
			return true
		}
		if b, ok := as.Lhs[0].(*ast.Ident); ok {
			bytesObj = objOf(info, b)
		}
		if e, ok := as.Lhs[1].(*ast.Ident); ok {
			errObj = objOf(info, e)
		}
		return true
	})
	if bytesObj == nil || errObj == nil {
		c.Fail("R17.4", "ReadFile|source", r.Pos(fd.Pos()), "ReadFile does not obtain its content from os.ReadFile(path) (whole file, unmodified)")
		return
	}
	okAll := true
	nContent := 0
	ast.Inspect(fd.Body, func(n ast.Node) bool {
		rs, ok := n.(*ast.ReturnStmt)
		if !ok || len(rs.Results) != 2 {
			return true
		}
		// classify: error return (second non-nil) or content return
		if id, ok := rs.Results[1].(*ast.Ident); ok && id.Name == "nil" {
			switch x := rs.Results[0].(type) {
			case *ast.BasicLit:
				// the empty-path shortcut returns ""
				if x.Value != `""` {
					okAll = false
					c.Fail("R17.4", "ReadFile|literal-content", r.Pos(rs.Pos()), "ReadFile returns a literal other than the empty string")
				}
			case *ast.CallExpr:
				// string(bytes)
				nContent++
				tv := info.Types[x.Fun]
				arg, _ := x.Args[0].(*ast.Ident)
				if !tv.IsType() || !types.Identical(tv.Type, types.Typ[types.String]) || len(x.Args) != 1 || arg == nil || info.Uses[arg] != bytesObj {
					okAll = false
					c.Fail("R17.4", "ReadFile|content-transformed", r.Pos(rs.Pos()), "ReadFile does not return string(<bytes read>) unchanged: "+types.ExprString(rs.Results[0]))
				}
			default:
				okAll = false
				c.Fail("R17.4", "ReadFile|content-transformed", r.Pos(rs.Pos()), "ReadFile returns "+types.ExprString(rs.Results[0])+" instead of string(<bytes read>)")
			}
		} else if id, ok := rs.Results[1].(*ast.Ident); !ok || info.Uses[id] != errObj {
			okAll = false
			c.Fail("R17.4", "ReadFile|error-lost", r.Pos(rs.Pos()), "ReadFile's error return does not propagate the read error")
		}
		return true
	})
	if nContent != 1 {
		okAll = false
		c.Fail("R17.4", "ReadFile|content-returns", r.Pos(fd.Pos()), fmt.Sprintf("ReadFile has %d content returns, want 1", nContent))
	}
	if okAll {
		c.OK("R17.4", "ReadFile", r.Pos(fd.Pos()), "returns string(os.ReadFile(path)) and propagates the error")
	}
}
