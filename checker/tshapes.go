package main

// Shape enumeration for engine T.

func retCombos(maxN int) [][]RetKind {
	out := [][]RetKind{{}}
	prev := [][]RetKind{{}}
	for n := 1; n <= maxN; n++ {
		var next [][]RetKind
		for _, p := range prev {
			for _, k := range []RetKind{RPlain, RError, RNillable} {
				next = append(next, append(append([]RetKind{}, p...), k))
			}
		}
		out = append(out, next...)
		prev = next
	}
	return out
}

func methodShapes(maxP, maxR int) []MShape {
	var out []MShape
	for np := 0; np <= maxP; np++ {
		type pv struct {
			v    bool
			elem string
		}
		pvs := []pv{{false, ""}}
		if np > 0 {
			pvs = append(pvs, pv{true, "named"}, pv{true, "interface{}"}, pv{true, "any"})
		}
		for _, v := range pvs {
			for _, rs := range retCombos(maxR) {
				out = append(out, MShape{NP: np, Variadic: v.v, VarElem: v.elem, Rets: rs})
			}
		}
	}
	return out
}

// shapesFor builds the shape set of a tier. Every method shape appears as the
// first method of a two-method interface (the second method has a fixed,
// different shape so that cross-method wiring errors are visible), under both
// placements, with 0 and 2 type parameters, plus a method-less interface, a
// lower-case struct name and a two-interface file.
func shapesFor(tier string) []Shape {
	maxP, maxR := 2, 2
	if tier == "thorough" {
		maxP, maxR = 3, 3
	}
	other := MShape{NP: 1, Rets: []RetKind{RPlain, RError}}
	var out []Shape
	for _, m := range methodShapes(maxP, maxR) {
		for _, outPkg := range []bool{false, true} {
			for _, ntp := range []int{0, 2} {
				if tier != "thorough" && ntp == 2 && (len(m.Rets) > 1 && m.NP > 1) {
					continue
				}
				ms := m
				ms.SrcType = ntp == 0 && (m.NP > 0 && !(m.Variadic && m.NP == 1) || m.NP == 0 && len(m.Rets) > 0 && m.Rets[0] == RPlain) && outPkg
				out = append(out, Shape{OutPkg: outPkg, Ifaces: []IShape{{Methods: []MShape{ms, other}, NTP: ntp}}})
			}
		}
	}
	for _, outPkg := range []bool{false, true} {
		out = append(out,
			Shape{OutPkg: outPkg, Ifaces: []IShape{{Methods: []MShape{{NP: 2, NilP: true, Rets: []RetKind{RPlain}}, {NP: 2, NilP: true, Variadic: true, VarElem: "named"}}}}},
			Shape{OutPkg: outPkg, Ifaces: []IShape{{NTP: 1, Methods: []MShape{{NP: 1, TPType: true, Rets: []RetKind{RPlain}}}}}},
			Shape{OutPkg: outPkg, Ifaces: []IShape{{NTP: 1, TPLower: true, Methods: []MShape{{NP: 1, TPType: true, Rets: []RetKind{RPlain}}}}}},
			Shape{OutPkg: outPkg, Ifaces: []IShape{{Methods: nil}}},
			Shape{OutPkg: outPkg, Ifaces: []IShape{{Methods: nil, NTP: 1}}},
			Shape{OutPkg: outPkg, Ifaces: []IShape{{Methods: []MShape{{NP: 0}}}}},
			Shape{OutPkg: outPkg, Ifaces: []IShape{{Methods: []MShape{{NP: 1, Variadic: true, VarElem: "named"}}, Lower: true, NTP: 1}}},
			Shape{OutPkg: outPkg, Ifaces: []IShape{
				{Methods: []MShape{{NP: 2, Variadic: true, VarElem: "named", Rets: []RetKind{RNillable, RError}, SrcType: true}}},
				{Methods: []MShape{{NP: 1, Rets: []RetKind{RPlain}}, {NP: 0, Rets: nil}}, Lower: true, NTP: 1},
			}},
			// two mocks in one file that are sensitive to the same per-mock options (sibling independence)
			Shape{OutPkg: outPkg, Ifaces: []IShape{
				{Methods: []MShape{{NP: 2, Variadic: true, VarElem: "named", Rets: []RetKind{RPlain}}}},
				{Methods: []MShape{{NP: 2, Variadic: true, VarElem: "named", Rets: []RetKind{RPlain, RError}}, {NP: 1, Rets: nil}}},
			}},
		)
	}
	return out
}

// headerShapes: the header region does not depend on the methods; a few
// shapes suffice to combine it with every header flag.
func headerShapes() []Shape {
	var out []Shape
	for _, outPkg := range []bool{false, true} {
		out = append(out,
			Shape{OutPkg: outPkg, Ifaces: []IShape{{Methods: nil}}},
			Shape{OutPkg: outPkg, Ifaces: []IShape{{Methods: []MShape{{NP: 1, Rets: []RetKind{RPlain, RError}, SrcType: outPkg}}}}},
		)
	}
	return out
}

// usesTypeParamTypes: shapes that exist to type-check generic signatures; the
// wiring rules (C03/C04/C05) compare types across differently-parameterised
// generic declarations and skip them.
func usesTypeParamTypes(sh Shape) bool {
	for _, is := range sh.Ifaces {
		for _, m := range is.Methods {
			if m.TPType {
				return true
			}
		}
	}
	return false
}
