#!/bin/bash
# Runs every check against every behaviour-preserving refactoring in /verif/refactors (on scratch copies of /repo,
# never /repo itself) and prints the false alarms; all of them must be silent.
bin=${1:-/verif/bin/mvcheck}
ls -d /verif/refactors/*/ /verif/refactors2/*/ /verif/refactors3/*/ /verif/refactors4/*/ /verif/refactors5/*/ /verif/refactors6/*/ $(ls -d /verif/refactors7/*/ 2>/dev/null) | sort | xargs -P 6 -I{} bash -c 'o=$(/verif/tools/try_copy.sh {}patch.diff '"$bin"' 2>&1); echo "=== {} :: $(echo "$o" | tr "\n" ";" | cut -c1-1500)"' | grep -v "all silent"
echo "done"
