#!/bin/bash
# usage: confirm_r6.sh <dir with patch.diff, twin.diff, demo/run.sh> <label>
# Round-6 confirmation in a scratch worktree of /repo HEAD (removed afterwards):
#   demo passes on the clean tree; patch applies, builds, pinned suite passes, demo FAILS;
#   twin applies (on HEAD), builds, suite passes, demo PASSES.
set -u
src=$1; label=$2
mkdir -p /tmp/cm/results
wt=/tmp/cm/wt-$label
res=/tmp/cm/results/$label.txt
export GOPROXY=off
unset GOFLAGS GOSUMDB GOTOOLCHAIN
rm -rf "$wt"; git -C /repo worktree prune
git -C /repo worktree add -q --detach "$wt" HEAD || { echo "$label worktree-failed" > $res; exit 1; }
cleanup() { git -C /repo worktree remove --force "$wt" 2>/dev/null; rm -rf "$wt"; }
trap cleanup EXIT
L=/tmp/cm/results/$label
demo_clean=NA; apply=NA; build=NA; tests=NA; demo_mut=NA; tapply=NA; tbuild=NA; ttests=NA; demo_twin=NA
timeout 900 bash "$src/demo/run.sh" "$wt" >$L.demo_clean.log 2>&1; demo_clean=$?
(cd "$wt" && git checkout -q -- . && git clean -fdq)
if (cd "$wt" && git apply "$src/patch.diff" >$L.apply.log 2>&1); then apply=0; else apply=1; fi
if [ $apply = 0 ]; then
  (cd "$wt" && go build ./... >$L.build.log 2>&1); build=$?
  (cd "$wt/tools" && go vet ./cmd/ >>$L.build.log 2>&1) || build=1
  (cd "$wt" && git checkout -q go.work.sum 2>/dev/null; go test -vet=off -count=1 ./... >$L.tests.log 2>&1); tests=$?
  timeout 900 bash "$src/demo/run.sh" "$wt" >$L.demo_mut.log 2>&1; demo_mut=$?
fi
(cd "$wt" && git checkout -q -- . && git clean -fdq)
if [ -f "$src/twin.diff" ]; then
  if (cd "$wt" && git apply "$src/twin.diff" >$L.tapply.log 2>&1); then tapply=0; else tapply=1; fi
  if [ $tapply = 0 ]; then
    (cd "$wt" && go build ./... >$L.tbuild.log 2>&1); tbuild=$?
    (cd "$wt/tools" && go vet ./cmd/ >>$L.tbuild.log 2>&1) || tbuild=1
    (cd "$wt" && git checkout -q go.work.sum 2>/dev/null; go test -vet=off -count=1 ./... >$L.ttests.log 2>&1); ttests=$?
    timeout 900 bash "$src/demo/run.sh" "$wt" >$L.demo_twin.log 2>&1; demo_twin=$?
  fi
fi
echo "$label demo_clean=$demo_clean apply=$apply build=$build tests=$tests demo_mut=$demo_mut | twin apply=$tapply build=$tbuild tests=$ttests demo_twin=$demo_twin" | tee $res
