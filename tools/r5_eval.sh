#!/bin/bash
# usage: r5_eval.sh <out dir with Mnn/k/{patch.diff,twin.diff}> <binary> [Mnn ...]
# For each delivered change: is the unrepaired change reported by its own property's check, and is its
# behaviour-preserving twin silent under every check?
out=$1; bin=$2; shift; shift
ms=${@:-$(ls $out)}
for m in $ms; do
  p=C${m#M}
  for k in 1 2 3; do
    d=$out/$m/$k
    [ -f $d/patch.diff ] || continue
    mut=$(/verif/tools/try_copy.sh $d/patch.diff $bin $p 2>&1 | grep -v conda | head -3 | tr '\n' ';' | cut -c1-260)
    if [ -f $d/twin.diff ]; then
      twin=$(/verif/tools/try_copy.sh $d/twin.diff $bin 2>&1 | grep -v conda | head -6 | tr '\n' ';' | cut -c1-420)
    else twin="NO TWIN"; fi
    echo "== $m/$k"
    echo "   mutant[$p]: $mut"
    echo "   twin[all]:  $twin"
  done
done
