#!/bin/bash
# usage: try_sed.sh <binary> <file-relative-to-repo> <sed-script> <Cnn>...   -- applies a sed edit to a scratch COPY of /repo,
# checks that it still builds, runs the given checks against the copy and prints the violations.
bin=$1; file=$2; script=$3; shift; shift; shift
work=$(mktemp -d /tmp/mvsed-XXXXXX)
trap 'rm -rf "$work"' EXIT
rsync -a --exclude .git /repo/ "$work/repo/"; mkdir -p "$work/home"; cp /verif/known_findings.json "$work/home/"
sed -i "$script" "$work/repo/$file"
if diff -q /repo/$file "$work/repo/$file" >/dev/null; then echo "NO CHANGE"; exit 3; fi
(cd "$work/repo" && GOPROXY=off go build ./... 2>&1 | head -5)
for p in "$@"; do
  out=$(MVCHECK_REPO="$work/repo" MVCHECK_HOME="$work/home" "$bin" "$p" --tier quick 2>&1); r=$?
  if [ $r -ne 0 ]; then echo "$out" | grep -E "^  $p " | cut -c1-260 | head -6; else echo "$p silent"; fi
done
