#!/bin/bash
# usage: r6_eval.sh <out dir with Cnn/k/{patch.diff,twin.diff}> <binary> [Cnn ...]
# For each delivered change: is the change reported by its own property's check (and by which others), and is its
# benign twin silent under every check? All on scratch copies of /repo.
out=$1; bin=$2; shift; shift
ms=${@:-$(ls $out)}
for p in $ms; do
  for k in 1 2 3; do
    d=$out/$p/$k
    [ -f $d/patch.diff ] || continue
    mut=$(/verif/tools/try_copy.sh $d/patch.diff $bin $p 2>&1 | grep -v conda | head -3 | tr '\n' ';' | cut -c1-300)
    if [ -f $d/twin.diff ]; then
      twin=$(/verif/tools/try_copy.sh $d/twin.diff $bin 2>&1 | grep -v conda | head -6 | tr '\n' ';' | cut -c1-500)
    else twin="NO TWIN"; fi
    echo "== $p/$k"
    echo "   change[$p]: $mut"
    echo "   twin[all]:  $twin"
  done
done
