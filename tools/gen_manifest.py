#!/usr/bin/env python3
"""Regenerates /verif/MANIFEST.json from tools/manifest_table.json (claimed checks)
and properties.jsonl (every property not claimed goes to not_applicable)."""
import json, os
here = os.path.dirname(os.path.abspath(__file__))
root = os.path.dirname(here)
table = json.load(open(os.path.join(here, "manifest_table.json")))
props = [json.loads(l) for l in open(os.path.join(root, "properties.jsonl"))]
checks, na = [], []
for p in props:
    t = table["checks"].get(p["id"])
    if t is None:
        na.append({"property_id": p["id"], "reason": table["not_applicable"].get(p["id"], "check not built yet; see DESIGN.md section 3 for the planned rules")})
        continue
    checks.append({
        "property_id": p["id"],
        "quick_cmd": "bin/mvcheck %s --tier quick" % p["id"],
        "thorough_cmd": "bin/mvcheck %s --tier thorough" % p["id"],
        "evidence_file": "/verif/evidence/%s.json" % p["id"],
        "replay_cmd_template": "bin/mvcheck replay {path}",
        "engine": "mvcheck",
        "level_claimed": {"category": "other", "text": t["text"], "design_ref": "DESIGN.md section 3, " + p["id"]},
        "level_note": t["note"],
        "technique": t["technique"],
    })
m = {
    "version": 1,
    "setup_cmd": "cd /verif/checker && GOPROXY=off GOFLAGS=-mod=mod GOTOOLCHAIN=auto GOSUMDB=sum.golang.org go build -o ../bin/mvcheck .",
    "hooks": {"guard": "verif", "enable": "none needed: static analysis reads the sources; no instrumentation is compiled into mockery", "baseline_off_cmd": table["baseline_off_cmd"], "source_commits": [], "add_only": True},
    "engines": [{"name": "mvcheck", "path": "/verif/checker", "serves_properties": [c["property_id"] for c in checks],
                 "kind_free_text": "repository-specific static analyser: go/packages+go/types+go/cfg+go/ssa rules over mockery's Go code, and a path-sensitive abstract evaluator of the built-in text/template programs whose output skeletons are parsed and type-checked (go/parser, go/types)"}],
    "checks": checks,
    "notes": table["notes"],
    "not_applicable": na,
}
json.dump(m, open(os.path.join(root, "MANIFEST.json"), "w"), indent=1)
print("checks:", len(checks), "not_applicable:", len(na))
