#!/usr/bin/env python3
"""usage: mut_try.py <muts.jsonl> <binary> <id> [Cnn ...]  -- applies one mechanical mutant to a scratch copy and runs checks"""
import json, os, subprocess, sys, shutil, tempfile
muts = {json.loads(l)["id"]: json.loads(l) for l in open(sys.argv[1])}
binp = sys.argv[2]; m = muts[int(sys.argv[3])]; checks = sys.argv[4:] or ["C%02d" % i for i in range(1, 21)]
work = tempfile.mkdtemp(prefix="/tmp/mt-")
try:
    subprocess.run("rsync -a --exclude .git /repo/ %s/repo/" % work, shell=True, check=True)
    os.makedirs(work + "/home"); shutil.copy("/verif/known_findings.json", work + "/home/")
    p = os.path.join(work, "repo", m["file"]); b = open(p, "rb").read()
    open(p, "wb").write(b[:m["start"]] + m["repl"].encode() + b[m["end"]:])
    print("mutant", m["id"], m["file"], m["line"], m["func"], m["kind"], repr(m["orig"][:60]), "->", repr(m["repl"][:40]))
    sil = True
    for c in checks:
        r = subprocess.run([binp, c, "--tier", "quick"], env=dict(os.environ, MVCHECK_REPO=work + "/repo", MVCHECK_HOME=work + "/home"), capture_output=True, text=True)
        if r.returncode != 0:
            sil = False
            for l in (r.stdout + r.stderr).splitlines():
                if l.startswith("  " + c + " "):
                    print(l[:230])
    if sil: print("  all silent")
finally:
    shutil.rmtree(work, ignore_errors=True)
