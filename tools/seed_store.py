#!/usr/bin/env python3
"""Copies confirmed seeded changes into /verif/seeded/<id>/ and computes, for each, which checks
raise a VIOLATION when the change is applied to a scratch copy of /repo (never to /repo itself).
usage: seed_store.py store | matrix [id...] | index"""
import json, os, shutil, subprocess, sys, tempfile, concurrent.futures as cf
ROOT = "/verif"; SEED = ROOT + "/seeded"
PROPS = ["C%02d" % i for i in range(1, 21)]

def sh(cmd, **kw):
    return subprocess.run(cmd, shell=True, capture_output=True, text=True, **kw)

def store():
    head = sh("git -C /repo rev-parse --short HEAD").stdout.strip()
    for p in PROPS:
        for k in (1, 2, 3):
            mid = "%s-%d" % (p, k)
            src = "/tmp/cm/rebased/" + mid
            rebased = os.path.isdir(src)
            if not rebased:
                src = "/tmp/wt/out/%s/%d" % (p, k)
            res = "/tmp/cm/results/%s.txt" % mid
            if not os.path.isdir(src) or not os.path.exists(res):
                continue
            line = open(res).read().strip()
            if "demo_clean=0 apply=0 build=0 tests=0" not in line or "demo_mut=0" in line or "demo_mut=NA" in line:
                print("skip (not confirmed):", line); continue
            dst = os.path.join(SEED, mid)
            shutil.rmtree(dst, ignore_errors=True)
            os.makedirs(dst)
            shutil.copy(src + "/patch.diff", dst + "/patch.diff")
            shutil.copytree(src + "/demo", dst + "/demo")
            if os.path.exists(src + "/README.md"):
                shutil.copy(src + "/README.md", dst + "/AGENT_README.md")
            readme = open(src + "/README.md").read() if os.path.exists(src + "/README.md") else ""
            meta = {
                "id": mid, "property": p,
                "origin": "sub-agent given only the property record and a scratch worktree of /repo" + ("; patch rebased onto later fix commits by hand (same change)" if rebased else ""),
                "summary": first_para(readme),
                "confirmed": {"repo_head": head, "result": line,
                              "ran": "tools/confirm_mutant.sh: fresh worktree of /repo HEAD; demo/run.sh on the clean tree (exit 0); git apply patch.diff; go build ./...; (cd tools && go vet ./cmd/); go test -vet=off -count=1 ./... (pass); demo/run.sh on the changed tree (exit != 0)"},
                "needs_to_manifest": "see AGENT_README.md",
                "caught_by": [],
            }
            json.dump(meta, open(dst + "/meta.json", "w"), indent=1)
    print("stored", len(os.listdir(SEED)))

def store2(rnd=2):
    """round 2: /tmp/wt2/out/Mnn/k (results r2-Mnn-k.txt) -> seeded/Cnn-(k+3); round 3: /tmp/wt5/out, r3-, k+6"""
    head = sh("git -C /repo rev-parse --short HEAD").stdout.strip()
    base = {2: "/tmp/wt2/out", 3: "/tmp/wt5/out", 4: "/tmp/wt6/out", 5: "/tmp/wt7/out"}[rnd]
    for p in PROPS:
        for k in (1, 2, 3):
            mid = "%s-%d" % (p, k + {2: 3, 3: 6, 4: 6, 5: 9}[rnd])  # round 4 covers the properties round 3 did not
            m = "M" + p[1:]
            src = "/tmp/cm/rebased/" + mid
            rebased = os.path.isdir(src)
            res = "/tmp/cm/results/r%d-%s-%d.txt" % (rnd, m, k)
            if rebased:
                res = "/tmp/cm/results/r%db-%s-%d.txt" % (rnd, m, k)
            else:
                src = "%s/%s/%d" % (base, m, k)
            if not os.path.isdir(src) or not os.path.exists(res):
                continue
            line = open(res).read().strip()
            if "demo_clean=0 apply=0 build=0 tests=0" not in line or "demo_mut=0" in line or "demo_mut=NA" in line:
                print("skip (not confirmed):", line); continue
            dst = os.path.join(SEED, mid)
            shutil.rmtree(dst, ignore_errors=True)
            os.makedirs(dst)
            shutil.copy(src + "/patch.diff", dst + "/patch.diff")
            shutil.copytree(src + "/demo", dst + "/demo")
            readme = ""
            if os.path.exists(src + "/README.md"):
                shutil.copy(src + "/README.md", dst + "/AGENT_README.md")
                readme = open(src + "/README.md").read()
            meta = {
                "id": mid, "property": p, "round": rnd,
                "origin": {2: "second-round sub-agent given only the property record, the summaries of the first-round changes (to avoid repeating them) and a scratch worktree of /repo", 3: "third-round sub-agent given only the property record and a scratch worktree of /repo, asked for a behaviour-preserving-looking refactoring with one subtle semantic slip hidden in it", 4: "fourth-round sub-agent given only the property record and a scratch worktree of /repo, asked for a behaviour-preserving-looking refactoring with one subtle semantic slip hidden in it; the same refactoring with the slip repaired by hand is kept in refactors4/ (or refactors-limits/) and must stay silent", 5: "fifth-round sub-agent given only the property record and a scratch worktree of /repo, asked for a refactoring gone wrong together with its behaviour-preserving twin (the same refactoring without the slip); the twin is kept in refactors6/ (or refactors-limits/S5-*) and must stay silent"}[rnd] + ("; patch rebased onto a later fix commit by hand (same change)" if rebased else ""),
                "summary": first_para(readme),
                "confirmed": {"repo_head": head, "result": line,
                              "ran": "tools/confirm_mutant.sh: fresh worktree of /repo HEAD; demo/run.sh on the clean tree (exit 0); git apply patch.diff; go build ./...; (cd tools && go vet ./cmd/); go test -vet=off -count=1 ./... (pass); demo/run.sh on the changed tree (exit != 0)"},
                "needs_to_manifest": "see AGENT_README.md",
                "caught_by": [],
            }
            json.dump(meta, open(dst + "/meta.json", "w"), indent=1)
    print("stored", len(os.listdir(SEED)))

def first_para(t):
    for para in t.split("\n\n"):
        s = " ".join(l.strip() for l in para.splitlines() if not l.startswith("#")).strip()
        if len(s) > 40:
            return s[:600]
    return ""

def matrix_one(mid):
    d = os.path.join(SEED, mid)
    work = tempfile.mkdtemp(prefix="mvseed-")
    try:
        repo = work + "/repo"; home = work + "/home"
        os.makedirs(home)
        sh("rsync -a --exclude .git /repo/ %s/" % repo)
        shutil.copy(ROOT + "/known_findings.json", home + "/known_findings.json")
        r = sh("patch -p1 -s < %s/patch.diff" % d, cwd=repo)
        if r.returncode != 0:
            return mid, None, "patch does not apply: " + r.stdout[:200]
        caught, detail = [], {}
        for p in PROPS:
            env = dict(os.environ, MVCHECK_REPO=repo, MVCHECK_HOME=home)
            r = subprocess.run([ROOT + "/bin/mvcheck", p, "--tier", "quick"], capture_output=True, text=True, env=env)
            if r.returncode == 1 and "VIOLATION property=" + p in r.stdout:
                caught.append(p)
                detail[p] = [l.strip()[:160] for l in r.stdout.splitlines() if l.startswith("  " + p + " ")][:3]
            elif r.returncode not in (0, 1):
                detail[p] = ["checker error rc=%d" % r.returncode]
        return mid, caught, detail
    finally:
        shutil.rmtree(work, ignore_errors=True)

def matrix(ids):
    ids = ids or sorted(os.listdir(SEED))
    ids = [i for i in ids if os.path.isdir(os.path.join(SEED, i))]
    with cf.ThreadPoolExecutor(max_workers=5) as ex:
        for mid, caught, detail in ex.map(matrix_one, ids):
            mp = os.path.join(SEED, mid, "meta.json")
            meta = json.load(open(mp))
            if caught is None:
                print(mid, "ERROR", detail); continue
            meta["caught_by"] = caught
            meta["caught_detail"] = detail
            json.dump(meta, open(mp, "w"), indent=1)
            print(mid, "own=%s" % (meta["property"] in caught), caught)

def verify_one(args):
    mid, binary = args
    d = os.path.join(SEED, mid)
    meta = json.load(open(d + "/meta.json"))
    work = tempfile.mkdtemp(prefix="mvseed-")
    try:
        repo = work + "/repo"; home = work + "/home"
        os.makedirs(home)
        sh("rsync -a --exclude .git /repo/ %s/" % repo)
        shutil.copy(ROOT + "/known_findings.json", home + "/known_findings.json")
        r = sh("patch -p1 -s < %s/patch.diff" % d, cwd=repo)
        if r.returncode != 0:
            return mid, None, "patch does not apply"
        lost = []
        for p in meta["caught_by"]:
            env = dict(os.environ, MVCHECK_REPO=repo, MVCHECK_HOME=home)
            r = subprocess.run([binary, p, "--tier", "quick"], capture_output=True, text=True, env=env)
            if not (r.returncode == 1 and "VIOLATION property=" + p in r.stdout):
                lost.append(p)
        return mid, lost, ""
    finally:
        shutil.rmtree(work, ignore_errors=True)

def verify(binary, ids):
    """re-runs, for every seeded change, the checks recorded as catching it (regression test of the checker)"""
    ids = ids or sorted(i for i in os.listdir(SEED) if os.path.isdir(os.path.join(SEED, i)))
    bad = 0
    with cf.ThreadPoolExecutor(max_workers=6) as ex:
        for mid, lost, note in ex.map(verify_one, [(i, binary) for i in ids]):
            if lost is None:
                print(mid, "ERROR", note); bad += 1
            elif lost:
                own = json.load(open(os.path.join(SEED, mid, "meta.json")))["property"]
                print(mid, "NO LONGER CAUGHT BY", lost, "(own property!)" if own in lost else "")
                bad += 1
    print("verified", len(ids), "regressions", bad)

def index():
    rows = []
    for mid in sorted(os.listdir(SEED)):
        mp = os.path.join(SEED, mid, "meta.json")
        if not os.path.exists(mp): continue
        m = json.load(open(mp))
        rule = ""
        own = m["property"]
        det = m.get("caught_detail", {})
        first = det.get(own) or next((v for k, v in det.items()), [""])
        rows.append("| %s | %s | %s | %s | %s |" % (mid, own, "yes" if own in m["caught_by"] else "**no**", ", ".join(m["caught_by"]) or "—", (first[0] if first else "").replace("|", "\\|")[:110]))
    out = ["# Seeded changes and the checks that catch them", "",
           "Generated by `tools/seed_store.py index` from the `meta.json` files; `caught by` is measured by applying each patch to a scratch copy of `/repo` and running every check's quick command (`tools/seed_store.py matrix`).", "",
           "| change | written for | caught by its own property's check | caught by | first report |", "|---|---|---|---|---|"] + rows
    open(SEED + "/INDEX.md", "w").write("\n".join(out) + "\n")
    n = len(rows); own = sum(1 for r in rows if "| yes |" in r); any_ = sum(1 for r in rows if "| — |" not in r)
    print("changes:", n, "caught by own check:", own, "caught by some check:", any_)

if __name__ == "__main__":
    cmd = sys.argv[1]
    if cmd == "store2":
        store2()
    elif cmd == "store3":
        store2(3)
    elif cmd == "store4":
        store2(4)
    elif cmd == "store5":
        store2(5)
    elif cmd == "store": store()
    elif cmd == "matrix": matrix(sys.argv[2:])
    elif cmd == "index": index()
    elif cmd == "verify": verify(sys.argv[2], sys.argv[3:])
