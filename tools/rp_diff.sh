#!/bin/bash
# usage: rp_diff.sh <label> <out.diff>  -- diff of /tmp/rp/<label>/repo against /repo (git-apply-able), then removes the scratch copy
d=/tmp/rp/$1
(cd /tmp/rp/$1 && rm -rf a b && rsync -a --exclude .git /repo/ a/ && mv repo b && diff -ruN a b > "$2"; true)
rm -rf "$d"
grep -c '^+++' "$2"
