#!/usr/bin/env python3
"""Development aid (never part of a registered check): runs mechanical mutants from tools/mutgen against
the checks on scratch copies of /repo, to find blind spots.
usage: mutrun.py <muts.jsonl> <out.jsonl> <workers> [stride [offset]]
Per mutant: splice into a scratch copy; go build (discard if it does not compile); run the checks cheapest
first and stop at the first that reports; for mutants silent under all 20, run the pinned suite to see
whether the tests kill it. Result per mutant: nocompile | caught:<Cnn> | silent-killed | silent-survived."""
import json, os, subprocess, sys, shutil, multiprocessing as mp

ORDER = ["C09", "C07", "C10", "C11", "C13", "C14", "C15", "C16", "C17", "C18", "C19", "C20", "C06", "C12", "C08", "C03", "C02", "C04", "C05", "C01"]
BIN = os.environ.get("MUTBIN", "/verif/bin/mvcheck")
ENV = dict(os.environ, GOPROXY="off")
for k in ("GOFLAGS", "GOSUMDB", "GOTOOLCHAIN"):
    ENV.pop(k, None)

def sh(cmd, cwd=None, env=None, timeout=900):
    try:
        p = subprocess.run(cmd, shell=True, cwd=cwd, env=env or ENV, capture_output=True, text=True, timeout=timeout)
        return p.returncode, p.stdout + p.stderr
    except subprocess.TimeoutExpired:
        return 124, "timeout"

def worker(args):
    wid, muts, outpath = args
    work = "/tmp/mw%s/%d" % (os.environ.get("MUTTAG", ""), wid)
    shutil.rmtree(work, ignore_errors=True)
    os.makedirs(work + "/home")
    sh("rsync -a --exclude .git /repo/ %s/repo/" % work)
    shutil.copy("/verif/known_findings.json", work + "/home/")
    repo = work + "/repo"
    for m in muts:
        path = os.path.join(repo, m["file"])
        orig = open(path, "rb").read()
        new = orig[:m["start"]] + m["repl"].encode() + orig[m["end"]:]
        open(path, "wb").write(new)
        res = None; detail = ""
        try:
            if m["file"].startswith("tools/"):
                rc, out = sh("go vet ./cmd/", cwd=repo + "/tools")
                sh("git checkout go.work.sum", cwd=repo)
            else:
                rc, out = sh("go build ./...", cwd=repo)
            if rc != 0:
                res = "nocompile"
            else:
                for c in ORDER:
                    rc, out = sh("%s %s --tier quick" % (BIN, c), env=dict(ENV, MVCHECK_REPO=repo, MVCHECK_HOME=work + "/home"))
                    if rc != 0:
                        res = "caught:" + c
                        lines = [l for l in out.splitlines() if l.startswith("  " + c + " ")]
                        detail = lines[0][:200] if lines else out[-200:]
                        break
                if res is None:
                    if m["file"].startswith("tools/"):
                        rc, out = sh("go test -vet=off ./...", cwd=repo + "/tools")
                    else:
                        rc, out = sh("go test -vet=off ./...", cwd=repo)
                    res = "silent-killed" if rc != 0 else "silent-survived"
        finally:
            open(path, "wb").write(orig)
        m2 = dict(m, result=res, detail=detail)
        with open(outpath, "a") as f:
            f.write(json.dumps(m2) + "\n")
    shutil.rmtree(work, ignore_errors=True)

def main():
    muts = [json.loads(l) for l in open(sys.argv[1])]
    outpath = sys.argv[2]; n = int(sys.argv[3])
    stride = int(sys.argv[4]) if len(sys.argv) > 4 else 1
    offset = int(sys.argv[5]) if len(sys.argv) > 5 else 0
    muts = muts[offset::stride]
    done = set()
    if os.path.exists(outpath):
        done = {json.loads(l)["id"] for l in open(outpath)}
    muts = [m for m in muts if m["id"] not in done]
    chunks = [(i, muts[i::n], outpath) for i in range(n)]
    with mp.Pool(n) as p:
        p.map(worker, chunks)

if __name__ == "__main__":
    main()
