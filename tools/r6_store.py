#!/usr/bin/env python3
"""Round 6: copies the confirmed changes from /tmp/r6/out/Cnn/k into /verif/seeded/Cnn-(12+k) (patch.diff, demo/,
AGENT_README.md, meta.json) and their benign twins into /verif/refactors7/<id>/ (silent under every check) or
/verif/refactors-limits/S6-<id>/ (a check still fires), according to a twin-evaluation log produced by tools/r6_eval.sh.
usage: r6_store.py <eval log files...>"""
import json, os, re, shutil, subprocess, sys
OUT = "/tmp/r6/out"; SEED = "/verif/seeded"
head = subprocess.run("git -C /repo rev-parse --short HEAD", shell=True, capture_output=True, text=True).stdout.strip()
twin = {}
cur = None
for f in sys.argv[1:]:
    for line in open(f):
        m = re.match(r"== (C\d\d)/(\d)", line)
        if m: cur = (m.group(1), int(m.group(2)))
        if "twin[all]:" in line and cur:
            twin[cur] = "silent" if "all silent" in line else line.split("twin[all]:")[1].strip()
n = 0
for p in sorted(os.listdir(OUT)):
    for k in (1, 2, 3):
        src = "%s/%s/%d" % (OUT, p, k)
        res = "/tmp/cm/results/r6-%s-%d.txt" % (p, k)
        if not os.path.exists(src + "/patch.diff") or not os.path.exists(res):
            continue
        line = open(res).read().strip()
        ok_change = "demo_clean=0 apply=0 build=0 tests=0 demo_mut=" in line and "demo_mut=0" not in line and "demo_mut=NA" not in line
        ok_twin = "twin apply=0 build=0 tests=0 demo_twin=0" in line
        mid = "%s-%d" % (p, 12 + k)
        if ok_change:
            dst = os.path.join(SEED, mid)
            shutil.rmtree(dst, ignore_errors=True); os.makedirs(dst)
            shutil.copy(src + "/patch.diff", dst + "/patch.diff")
            shutil.copytree(src + "/demo", dst + "/demo")
            readme = open(src + "/AGENT_README.md").read() if os.path.exists(src + "/AGENT_README.md") else ""
            if readme: open(dst + "/AGENT_README.md", "w").write(readme)
            summary = next((l.strip() for l in readme.splitlines() if l.strip() and not l.startswith("#")), "")[:400]
            json.dump({
                "id": mid, "property": p, "round": 6,
                "origin": "sixth-round sub-agent given only the property record and a scratch worktree of /repo, asked for a change that needs something specific to manifest (unusual input, multi-step history, a fault at a particular point, an interleaving, or two cooperating sites; change 2 of each triple is of the two-sites kind) together with a benign twin (a change of similar size at the same sites under which the property still holds)",
                "summary": summary,
                "confirmed": {"repo_head": head, "result": line,
                              "ran": "tools/confirm_r6.sh: fresh worktree of /repo HEAD; demo/run.sh on the clean tree (exit 0); git apply patch.diff; go build ./...; (cd tools && go vet ./cmd/); go test -vet=off -count=1 ./... (pass); demo/run.sh on the changed tree (exit != 0); then the same for twin.diff (demo exit 0)"},
                "needs_to_manifest": "see AGENT_README.md",
                "caught_by": [],
            }, open(dst + "/meta.json", "w"), indent=1)
            n += 1
        else:
            print("change not confirmed:", line)
        if ok_twin and os.path.exists(src + "/twin.diff"):
            t = twin.get((p, k))
            if t is None:
                print("no twin evaluation for", p, k); continue
            base = "/verif/refactors7/%s" % mid if t == "silent" else "/verif/refactors-limits/S6-%s" % mid
            for other in ("/verif/refactors7/%s" % mid, "/verif/refactors-limits/S6-%s" % mid):
                shutil.rmtree(other, ignore_errors=True)
            os.makedirs(base)
            shutil.copy(src + "/twin.diff", base + "/patch.diff")
            with open(base + "/README.md", "w") as f:
                f.write("Benign twin of seeded change %s (round 6): same sites, property still holds; demo of the change passes with it.\n" % mid)
                if t != "silent":
                    f.write("\nStill reported at the time of storing:\n\n    " + t[:1500] + "\n")
        elif not ok_twin:
            print("twin not confirmed:", line)
print("stored", n)
