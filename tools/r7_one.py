#!/usr/bin/env python3
"""Round 7, one delivered change at a time (so that nothing confirmed stays only under /tmp):
  r7_one.py <Cnn> <k> [--reeval]
1. tools/confirm_r6.sh on /tmp/r7/out/Cnn/k (scratch worktree: demo passes on the clean tree, patch applies, builds,
   pinned suite passes, demo fails; twin applies, builds, suite passes, demo passes);
2. every check's quick command on a scratch copy with the change (which report it) and with the twin (all silent?);
3. stores the change as /verif/seeded/Cnn-(12+k)/ (patch.diff, demo/, AGENT_README.md, meta.json) and the twin as
   /verif/refactors7/<id>/ (silent) or /verif/refactors-limits/S7-<id>/ (some check still fires).
With --reeval only step 2 and the meta/twin placement are redone from the stored copies."""
import json, os, re, shutil, subprocess, sys
p, k = sys.argv[1], int(sys.argv[2]); reeval = "--reeval" in sys.argv
mid = "%s-%d" % (p, 12 + k)
src = "/tmp/r7/out/%s/%d" % (p, k)
dst = "/verif/seeded/" + mid
PROPS = ["C%02d" % i for i in range(1, 21)]
def sh(c): return subprocess.run(c, shell=True, capture_output=True, text=True)
def evaluate(patch):
    out = sh("/verif/tools/try_copy.sh %s /verif/bin/mvcheck 2>&1 | grep -v conda" % patch).stdout
    hits = {}
    for l in out.splitlines():
        m = re.match(r"\s+(C\d\d) (.*)", l)
        if m and m.group(1) not in hits: hits[m.group(1)] = m.group(2)[:200]
    return hits, out
head = sh("git -C /repo rev-parse --short HEAD").stdout.strip()
if not reeval:
    if not os.path.exists(src + "/patch.diff") or not os.path.exists(src + "/demo/run.sh"):
        print(mid, "NOT DELIVERED"); sys.exit(2)
    line = sh("/verif/tools/confirm_r6.sh %s r7-%s-%d" % (src, p, k)).stdout.strip().splitlines()[-1]
    ok_change = "demo_clean=0 apply=0 build=0 tests=0 demo_mut=" in line and "demo_mut=0" not in line and "demo_mut=NA" not in line
    ok_twin = "twin apply=0 build=0 tests=0 demo_twin=0" in line
    print(line)
    if not ok_change:
        print(mid, "CHANGE NOT CONFIRMED"); sys.exit(3)
    shutil.rmtree(dst, ignore_errors=True); os.makedirs(dst)
    shutil.copy(src + "/patch.diff", dst + "/patch.diff")
    shutil.copytree(src + "/demo", dst + "/demo")
    readme = open(src + "/AGENT_README.md").read() if os.path.exists(src + "/AGENT_README.md") else ""
    if readme: open(dst + "/AGENT_README.md", "w").write(readme)
    if ok_twin: shutil.copy(src + "/twin.diff", dst + "/twin.diff")
    summary = next((l.strip() for l in readme.splitlines() if l.strip() and not l.startswith("#")), "")[:400]
    meta = {"id": mid, "property": p, "round": 7,
            "origin": "seventh-round sub-agent given only the property record and a scratch worktree of /repo, asked for a change that needs something specific to manifest (unusual input, multi-step history, a fault at a particular point, an interleaving, or two cooperating sites; change 2 of each triple is of the two-sites kind) together with a benign twin",
            "summary": summary,
            "confirmed": {"repo_head": head, "result": line,
                          "ran": "tools/confirm_r6.sh: fresh worktree of /repo HEAD; demo/run.sh on the clean tree (exit 0); git apply patch.diff; go build ./...; (cd tools && go vet ./cmd/); go test -vet=off -count=1 ./... (pass); demo/run.sh on the changed tree (exit != 0); then the same for twin.diff (demo exit 0)"},
            "needs_to_manifest": "see AGENT_README.md", "twin_confirmed": ok_twin}
else:
    meta = json.load(open(dst + "/meta.json")); ok_twin = meta.get("twin_confirmed", False)
hits, _ = evaluate(dst + "/patch.diff")
meta["caught_by"] = sorted(hits); meta["first_report"] = hits.get(p, ""); meta["caught_detail"] = {c: [t] for c, t in hits.items()}
meta["checker_commit"] = sh("git -C /verif rev-parse --short HEAD").stdout.strip()
print(mid, "change:", "OWN" if p in hits else "MISSED-BY-OWN", sorted(hits), "|", hits.get(p, "")[:150])
if ok_twin and os.path.exists(dst + "/twin.diff"):
    th, tout = evaluate(dst + "/twin.diff")
    for other in ("/verif/refactors7/" + mid, "/verif/refactors-limits/S7-" + mid): shutil.rmtree(other, ignore_errors=True)
    base = "/verif/refactors7/" + mid if not th else "/verif/refactors-limits/S7-" + mid
    os.makedirs(base); shutil.copy(dst + "/twin.diff", base + "/patch.diff")
    with open(base + "/README.md", "w") as f:
        f.write("Benign twin of seeded change %s (round 7): same sites, property still holds; the change's demo passes with it.\n" % mid)
        if th: f.write("\nStill reported at the time of storing:\n\n" + "".join("    %s %s\n" % (c, t) for c, t in sorted(th.items())))
    meta["twin"] = "silent" if not th else {"reported_by": th}
    print(mid, "twin:", "silent" if not th else "ALARM " + json.dumps(th)[:400])
else:
    print(mid, "twin: not confirmed / missing")
json.dump(meta, open(dst + "/meta.json", "w"), indent=1)
