#!/bin/bash
# Builds the checker and runs every registered check's quick command; prints one line per check.
cd /verif/checker && GOPROXY=off GOFLAGS=-mod=mod GOTOOLCHAIN=auto GOSUMDB=sum.golang.org go build -o ../bin/mvcheck . || exit 2
cd /verif
rc=0
for id in $(python3 -c "import json;print(' '.join(c['property_id'] for c in json.load(open('MANIFEST.json'))['checks']))"); do
  out=$(bin/mvcheck $id --tier ${1:-quick} 2>&1); r=$?
  echo "$out" | grep -E "tier=" | tail -1
  if [ $r -ne 0 ]; then rc=1; echo "$out" | grep -E "^  C[0-9]+ " | head -5; fi
done
exit $rc
