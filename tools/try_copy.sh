#!/bin/bash
# usage: try_copy.sh <patch.diff> [binary] [Cnn...]  -- applies the patch to a scratch COPY of /repo (never /repo itself),
# runs the given checks (default: all 20) against the copy, prints one line per check that reports a violation.
patch=$1; bin=${2:-/verif/bin/mvcheck}; shift; shift
props=${@:-C01 C02 C03 C04 C05 C06 C07 C08 C09 C10 C11 C12 C13 C14 C15 C16 C17 C18 C19 C20}
work=$(mktemp -d /tmp/mvtry-XXXXXX)
trap 'rm -rf "$work"' EXIT
rsync -a --exclude .git /repo/ "$work/repo/"; mkdir -p "$work/home"; cp /verif/known_findings.json "$work/home/"
if ! (cd "$work/repo" && patch -p1 -s < "$patch" >/dev/null 2>&1); then echo "PATCH DOES NOT APPLY"; exit 3; fi
rc=0
for p in $props; do
  out=$(MVCHECK_REPO="$work/repo" MVCHECK_HOME="$work/home" "$bin" "$p" --tier quick 2>&1); r=$?
  if [ $r -ne 0 ]; then rc=1; echo "$out" | grep -E "^  $p " | cut -c1-220 | head -4; fi
done
[ $rc = 0 ] && echo "all silent"
exit $rc
