#!/bin/bash
# usage: rp_new.sh <patch.diff> <label>  -- scratch copy of /repo with the patch applied at /tmp/rp/<label>/repo (for hand repair of the slip)
set -e
d=/tmp/rp/$2; rm -rf "$d"; mkdir -p "$d"
rsync -a --exclude .git /repo/ "$d/repo/"
(cd "$d/repo" && patch -p1 -s < "$1")
echo "$d/repo"
