#!/bin/bash
# usage: confirm_mutant.sh <dir with patch.diff and demo/run.sh> <label>
# Confirms, in a scratch worktree of /repo HEAD: demo passes on the clean tree, the patch applies,
# the tree builds, the pinned test suite passes, and the demo fails with the patch.
set -u
src=$1; label=$2
wt=/tmp/cm/wt-$label
res=/tmp/cm/results/$label.txt
export GOPROXY=off
rm -rf "$wt"; git -C /repo worktree prune
git -C /repo worktree add -q --detach "$wt" HEAD || { echo "$label worktree-failed" > $res; exit 1; }
cleanup() { git -C /repo worktree remove --force "$wt" 2>/dev/null; rm -rf "$wt"; }
trap cleanup EXIT
demo_clean=NA; apply=NA; build=NA; tests=NA; demo_mut=NA
if [ -x "$src/demo/run.sh" ] || [ -f "$src/demo/run.sh" ]; then
  timeout 900 bash "$src/demo/run.sh" "$wt" >/tmp/cm/results/$label.demo_clean.log 2>&1; demo_clean=$?
fi
if (cd "$wt" && git apply --3way "$src/patch.diff" >/tmp/cm/results/$label.apply.log 2>&1); then apply=0; else apply=1; fi
if [ $apply = 0 ]; then
  (cd "$wt" && git reset -q && go build ./... >/tmp/cm/results/$label.build.log 2>&1); build=$?
  (cd "$wt/tools" && go vet ./cmd/ >>/tmp/cm/results/$label.build.log 2>&1) || build=1
  (cd "$wt" && git checkout -q go.work.sum 2>/dev/null; go test -vet=off -count=1 ./... >/tmp/cm/results/$label.tests.log 2>&1); tests=$?
  timeout 900 bash "$src/demo/run.sh" "$wt" >/tmp/cm/results/$label.demo_mut.log 2>&1; demo_mut=$?
fi
echo "$label demo_clean=$demo_clean apply=$apply build=$build tests=$tests demo_mut=$demo_mut" | tee $res
