// mutgen enumerates mechanical mutants of mockery's non-test Go sources (development aid for
// finding blind spots of the checks; never part of a registered check). Stdlib only.
// usage: mutgen <repo root>  -> JSON lines {id,file,start,end,repl,kind,func,line,orig}
package main

import (
	"encoding/json"
	"fmt"
	"go/ast"
	"go/parser"
	"go/token"
	"os"
	"path/filepath"
	"strings"
)

type Mut struct {
	ID    int    `json:"id"`
	File  string `json:"file"`
	Start int    `json:"start"`
	End   int    `json:"end"`
	Repl  string `json:"repl"`
	Kind  string `json:"kind"`
	Func  string `json:"func"`
	Line  int    `json:"line"`
	Orig  string `json:"orig"`
}

var files = []string{}

func main() {
	root := os.Args[1]
	dirs := []string{"config", "internal", "internal/cmd", "template", "template_funcs", "tools/cmd", "internal/stackerr", "internal/logging"}
	for _, d := range dirs {
		ms, _ := filepath.Glob(filepath.Join(root, d, "*.go"))
		for _, m := range ms {
			if strings.HasSuffix(m, "_test.go") || strings.Contains(m, "mock") && strings.HasSuffix(m, "_mock.go") {
				continue
			}
			files = append(files, m)
		}
	}
	enc := json.NewEncoder(os.Stdout)
	id := 0
	for _, f := range files {
		src, err := os.ReadFile(f)
		if err != nil {
			panic(err)
		}
		if strings.Contains(string(src[:min(len(src), 200)]), "Code generated") {
			continue
		}
		fset := token.NewFileSet()
		af, err := parser.ParseFile(fset, f, src, 0)
		if err != nil {
			panic(err)
		}
		rel, _ := filepath.Rel(root, f)
		off := func(p token.Pos) int { return fset.Position(p).Offset }
		emit := func(fn string, s, e int, repl, kind string, pos token.Pos) {
			id++
			o := string(src[s:e])
			if len(o) > 80 {
				o = o[:80]
			}
			enc.Encode(Mut{id, rel, s, e, repl, kind, fn, fset.Position(pos).Line, o})
		}
		for _, d := range af.Decls {
			fd, ok := d.(*ast.FuncDecl)
			if !ok || fd.Body == nil {
				continue
			}
			fn := fd.Name.Name
			if fd.Recv != nil && len(fd.Recv.List) > 0 {
				t := fd.Recv.List[0].Type
				if s, ok := t.(*ast.StarExpr); ok {
					t = s.X
				}
				if ix, ok := t.(*ast.IndexExpr); ok {
					t = ix.X
				}
				if idn, ok := t.(*ast.Ident); ok {
					fn = idn.Name + "." + fn
				}
			}
			retErr := false
			if fd.Type.Results != nil {
				l := fd.Type.Results.List
				if len(l) > 0 {
					if idn, ok := l[len(l)-1].Type.(*ast.Ident); ok && idn.Name == "error" {
						retErr = true
					}
				}
			}
			ast.Inspect(fd.Body, func(n ast.Node) bool {
				switch x := n.(type) {
				case *ast.IfStmt:
					emit(fn, off(x.Cond.Pos()), off(x.Cond.End()), "!("+string(src[off(x.Cond.Pos()):off(x.Cond.End())])+")", "negate-if", x.Pos())
				case *ast.BinaryExpr:
					swap := map[token.Token]string{token.EQL: "!=", token.NEQ: "==", token.LSS: "<=", token.LEQ: "<", token.GTR: ">=", token.GEQ: ">", token.LAND: "||", token.LOR: "&&", token.ADD: "-", token.SUB: "+"}
					if r, ok := swap[x.Op]; ok {
						if x.Op == token.ADD {
							// skip string concatenation (mostly messages)
							if bl, ok := x.X.(*ast.BasicLit); ok && bl.Kind == token.STRING {
								return true
							}
							if bl, ok := x.Y.(*ast.BasicLit); ok && bl.Kind == token.STRING {
								return true
							}
						}
						s := off(x.OpPos)
						emit(fn, s, s+len(x.Op.String()), r, "binop", x.OpPos)
					}
				case *ast.ExprStmt:
					if c, ok := x.X.(*ast.CallExpr); ok {
						txt := string(src[off(c.Pos()):off(c.End())])
						if strings.Contains(txt, "log.") || strings.Contains(txt, "Msg(") || strings.Contains(txt, "Msgf(") {
							return true
						}
						emit(fn, off(x.Pos()), off(x.End()), "", "del-call", x.Pos())
					}
				case *ast.AssignStmt:
					if x.Tok == token.ASSIGN || x.Tok == token.ADD_ASSIGN || x.Tok == token.OR_ASSIGN {
						txt := string(src[off(x.Pos()):off(x.End())])
						if strings.Contains(txt, "log") && strings.Contains(txt, "With()") {
							return true
						}
						emit(fn, off(x.Pos()), off(x.End()), "", "del-assign", x.Pos())
					}
				case *ast.ReturnStmt:
					if retErr && len(x.Results) > 0 {
						last := x.Results[len(x.Results)-1]
						if idn, ok := last.(*ast.Ident); ok && idn.Name != "nil" {
							emit(fn, off(last.Pos()), off(last.End()), "nil", "ret-nil", x.Pos())
						} else if c, ok := last.(*ast.CallExpr); ok {
							t := string(src[off(c.Fun.Pos()):off(c.Fun.End())])
							if strings.Contains(t, "Errorf") || strings.Contains(t, "errors.New") || strings.Contains(t, "NewStackErr") {
								emit(fn, off(last.Pos()), off(last.End()), "nil", "ret-nil", x.Pos())
							}
						}
					}
				case *ast.BranchStmt:
					if x.Label == nil {
						if x.Tok == token.CONTINUE {
							emit(fn, off(x.Pos()), off(x.End()), "break", "cont-break", x.Pos())
						} else if x.Tok == token.BREAK {
							emit(fn, off(x.Pos()), off(x.End()), "continue", "break-cont", x.Pos())
						}
					}
				case *ast.BasicLit:
					if x.Kind == token.INT {
						if x.Value == "0" {
							emit(fn, off(x.Pos()), off(x.End()), "1", "int", x.Pos())
						} else if x.Value == "1" {
							emit(fn, off(x.Pos()), off(x.End()), "0", "int", x.Pos())
						}
					}
				case *ast.Ident:
					if x.Name == "true" {
						emit(fn, off(x.Pos()), off(x.End()), "false", "bool", x.Pos())
					} else if x.Name == "false" {
						emit(fn, off(x.Pos()), off(x.End()), "true", "bool", x.Pos())
					}
				}
				return true
			})
		}
	}
	fmt.Fprintln(os.Stderr, "mutants:", id)
}
