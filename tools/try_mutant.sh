#!/bin/bash
# usage: try_mutant.sh <patch.diff> <Cnn>...   -- applies the patch to /repo, runs the checks, reverts.
set -u
patch=$1; shift
cd /repo || exit 2
if [ -n "$(git status --porcelain)" ]; then echo "repo dirty"; exit 2; fi
if ! git apply --3way "$patch" 2>/tmp/mk/apply.err; then echo "PATCH DOES NOT APPLY: $(head -3 /tmp/mk/apply.err)"; git reset -q; git checkout HEAD -- . ; git clean -fdq; exit 3; fi
git reset -q
rc=0
for p in "$@"; do
  out=$(/verif/bin/mvcheck "$p" 2>&1); r=$?
  echo "$out" | grep -E "VIOLATION|KNOWN-FINDING|tier=" | head -8
  echo "$out" | grep -E "^  C[0-9]+ R" | head -4
  [ $r -ne 0 ] && rc=1
done
git checkout -- . ; git clean -fdq
exit $rc
