package b

type B interface{ Do() }
