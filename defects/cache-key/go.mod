module example.com/cachedemo

go 1.23
