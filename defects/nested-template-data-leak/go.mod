module example.com/d1

go 1.23
