package p

type P interface{ Do() }
