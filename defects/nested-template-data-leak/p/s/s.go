package s

type S interface{ Do() }
