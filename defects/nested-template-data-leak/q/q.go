package q

type Q interface{ Do() }
