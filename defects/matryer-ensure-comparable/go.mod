module example.com/d2

go 1.23
