package a

type Cache[K comparable, V any] interface {
	Get(k K) (V, bool)
}
