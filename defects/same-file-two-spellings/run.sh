#!/bin/bash
# usage: run.sh <mockery source tree>   (creates and removes <tree>/zzdemo_sf)
set -u
src=$(cd "$1" && pwd); export GOPROXY=off; unset GOFLAGS GOSUMDB GOTOOLCHAIN
tmp=$(mktemp -d); d="$src/zzdemo_sf"; trap 'rm -rf "$tmp" "$d"' EXIT
(cd "$src" && go build -o "$tmp/mockery" .) || exit 2
mkdir -p "$d/kv"
cat > "$d/kv/kv.go" <<'G'
package kv

type Reader interface{ Get(k string) string }
type Writer interface{ Put(k, v string) }
G
cat > "$d/.mockery.yml" <<'Y'
dir: "mocks/kv"
filename: mocks.go
pkgname: mocks
force-file-write: true
formatter: noop
packages:
  github.com/vektra/mockery/v3/zzdemo_sf/kv:
    interfaces:
      Reader: {}
      Writer:
        config:
          dir: "{{.InterfaceDir}}/../mocks/kv"
Y
bad=0
for i in 1 2 3 4 5 6 7 8; do
  rm -rf "$d/mocks"
  (cd "$d" && "$tmp/mockery" --config .mockery.yml >/dev/null 2>&1); rc=$?
  n=$(grep -c "^type Mock[A-Za-z]* struct" "$d/mocks/kv/mocks.go" 2>/dev/null)
  echo "run $i: exit $rc, mocks in file: ${n:-0}"
  if [ "$rc" = 0 ] && [ "${n:-0}" != 2 ]; then bad=1; fi
done
[ $bad = 0 ] || { echo "FAIL: a run exited 0 without both mocks in the file"; exit 1; }
echo PASS
