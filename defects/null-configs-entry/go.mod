module example.com/d9

go 1.23
