package a

type A interface{ Do() }
